(* Driver for the extracted Message codec model (C01): reads one operation script per line
   (`head|op;op;...`), runs it on 8 Message registers with the model's API transitions, and prints for
   register 0 the same canonical lines as harness/msg_h.cpp.  See checks/c01.py for the script grammar. *)
open Msg_model

(* ---------- conversions *)
let rec pos_of_int n = if n = 1 then XH else if n land 1 = 0 then XO (pos_of_int (n lsr 1)) else XI (pos_of_int (n lsr 1))
let n_of_int n = if n = 0 then N0 else Npos (pos_of_int n)
let rec int_of_pos = function XH -> 1 | XO p -> 2 * int_of_pos p | XI p -> 2 * int_of_pos p + 1
let int_of_n = function N0 -> 0 | Npos p -> int_of_pos p
let rec int_of_nat = function O -> 0 | S n -> 1 + int_of_nat n

let byte_tab : byte array = Array.init 256 (fun i -> byte_of_N (n_of_int i))
let int_of_byte (b : byte) : int = int_of_n (n_of_byte b)
let bytes_of_hex s : byte list =
  List.map (fun i -> byte_tab.(i)) (Ocommon.bytes_of_hex s)
let hex_of (b : byte list) = Ocommon.hex_of_bytes (List.map int_of_byte b)

(* ---------- MurmurHash2 (system/SetupSystem.cpp CalculateHashCode, seed 0) on 32-bit words *)
let murmur2 (data : int list) : int =
  let a = Array.of_list data in
  let len = Array.length a in
  let m = 0x5bd1e995l in
  let ( *% ) = Int32.mul and ( ^% ) = Int32.logxor in
  let shr x k = Int32.shift_right_logical x k in
  let h = ref (Int32.of_int len) in
  let i = ref 0 in
  while len - !i >= 4 do
    let k = Int32.logor (Int32.of_int (a.(!i) lor (a.(!i+1) lsl 8) lor (a.(!i+2) lsl 16)))
                        (Int32.shift_left (Int32.of_int a.(!i+3)) 24) in
    let k = k *% m in
    let k = k ^% (shr k 24) in
    let k = k *% m in
    h := (!h *% m) ^% k;
    i := !i + 4
  done;
  let rem = len - !i in
  if rem >= 3 then h := !h ^% (Int32.of_int (a.(!i+2) lsl 16));
  if rem >= 2 then h := !h ^% (Int32.of_int (a.(!i+1) lsl 8));
  if rem >= 1 then begin h := !h ^% (Int32.of_int a.(!i)); h := !h *% m end;
  h := !h ^% (shr !h 13);
  h := !h *% m;
  h := !h ^% (shr !h 15);
  (Int32.to_int !h) land 0xFFFFFFFF

let hash (b : byte list) : n = n_of_int (murmur2 (List.map int_of_byte b))

(* MurmurHash64A (system/SetupSystem.cpp CalculateHashCode64, seed 0), as String::HashCode64 uses it *)
let murmur64 (data : int list) : int64 =
  let a = Array.of_list data in
  let len = Array.length a in
  let m = 0xc6a4a7935bd1e995L in
  let ( *% ) = Int64.mul and ( ^% ) = Int64.logxor in
  let shr x k = Int64.shift_right_logical x k in
  let h = ref (Int64.mul (Int64.of_int len) m) in
  let nblocks = len / 8 in
  for b = 0 to nblocks - 1 do
    let k = ref 0L in
    for j = 7 downto 0 do k := Int64.logor (Int64.shift_left !k 8) (Int64.of_int a.(8*b + j)) done;
    let k1 = !k *% m in
    let k2 = k1 ^% (shr k1 47) in
    let k3 = k2 *% m in
    h := (!h ^% k3) *% m
  done;
  let rem = len land 7 in
  let base = 8 * nblocks in
  if rem > 0 then begin
    for j = rem - 1 downto 0 do h := !h ^% (Int64.shift_left (Int64.of_int a.(base + j)) (8 * j)) done;
    h := !h *% m end;
  h := !h ^% (shr !h 47);
  h := !h *% m;
  h := !h ^% (shr !h 47);
  !h

let n_of_int64 (x : int64) : n =
  le_dec (List.init 8 (fun j -> byte_tab.(Int64.to_int (Int64.logand (Int64.shift_right_logical x (8*j)) 0xffL))))
let int64_of_n (v : n) : int64 =
  let bs = le_enc (S (S (S (S (S (S (S (S O)))))))) v in
  List.fold_right (fun b acc -> Int64.logor (Int64.shift_left acc 8) (Int64.of_int (int_of_byte b))) bs 0L
let hash64 (b : byte list) : n = n_of_int64 (murmur64 (List.map int_of_byte b))

(* ---------- description of a Message *)
let rec fields_list = function FNil -> [] | FCons (n, tc, r, t) -> (n, tc, r) :: fields_list t
let desc (m : msg) =
  match m with Msg (w, fs) ->
    let fl = fields_list fs in
    Printf.sprintf "%d/%d[%s]" (int_of_n w) (List.length fl)
      (String.concat "," (List.map (fun (n, tc, r) ->
         Printf.sprintf "%s:%d:%d:%s" (hex_of n) (int_of_n tc) (int_of_n (repr_count r))
           (match r with RInline _ -> "I" | RArray _ -> "A")) fl))

let b2s b = if b then "1" else "0"

(* canonical content text (C08): M(what;namehex:tc:item,item;...), leaf item "=hex", Message item nested *)
let rec items_list = function INil -> [] | ICons (i, t) -> i :: items_list t
let rec cct (m : msg) =
  match m with Msg (w, fs) ->
    "M(" ^ string_of_int (int_of_n w) ^
    String.concat "" (List.map (fun (n, tc, r) ->
      let its = match r with RInline i -> [i] | RArray l -> items_list l in
      ";" ^ hex_of n ^ ":" ^ string_of_int (int_of_n tc) ^ ":" ^
      String.concat "," (List.map (fun i -> match i with
        | IFix b | IStr b | IRaw b -> "=" ^ hex_of b
        | IMsg s -> cct s
        | IOpaque _ -> "?") its)) (fields_list fs)) ^ ")"

(* ---------- typed items *)
let tc_of_letter t : n option =
  match t with
  | "b" -> Some tc_bool | "c" -> Some tc_int8 | "h" -> Some tc_int16 | "i" -> Some tc_int32
  | "l" -> Some tc_int64 | "f" -> Some tc_float | "d" -> Some tc_double | "P" -> Some tc_point
  | "R" -> Some tc_rect | "s" -> Some tc_string | "X" | "F" -> Some tc_raw | "o" -> Some tc_pointer
  | "g" -> Some tc_tag
  | _ -> if String.length t > 1 && t.[0] = 'x' then Some (n_of_int (int_of_string (String.sub t 1 (String.length t - 1)))) else None

(* the item a typed entry point stores, or None when the C++ entry point itself refuses the argument *)
let item_of t hex : item option =
  let bs = bytes_of_hex hex in
  match t with
  | "b" -> (match bs with b :: _ -> Some (IFix [if int_of_byte b <> 0 then byte_tab.(1) else byte_tab.(0)]) | [] -> None)
  | "c" | "h" | "i" | "l" | "f" | "d" | "P" | "R" -> Some (IFix bs)
  | "s" -> Some (IStr bs)
  | "X" | "F" -> Some (IRaw bs)
  | "o" | "g" -> Some (IOpaque (n_of_int (int_of_string ("0x" ^ (if hex = "" then "0" else hex)))))
  | _ -> if bs = [] then None else Some (IRaw bs)      (* AddData(.., numBytes==0) is B_BAD_ARGUMENT *)

(* deterministic byte mutation shared with harness/msg_h.cpp (stream "g") *)
let mutate (b0 : int list) (seed : int) : int list =
  let x = ref (seed land 0x7fffffff) in
  let next () = x := (!x * 1103515245 + 12345) land 0x7fffffff; !x lsr 12 in
  let b = ref (Array.of_list b0) in
  let nmut = 1 + (next () mod 2) in
  for _ = 1 to nmut do
    let len = Array.length !b in
    let kind = next () mod 6 in
    if kind = 0 then b := Array.sub !b 0 (next () mod (len + 1))
    else if kind = 1 then (if len > 0 then begin let pos = next () mod len in let bit = next () mod 8 in !b.(pos) <- !b.(pos) lxor (1 lsl bit) end)
    else if kind = 2 then (if len > 0 then begin let pos = next () mod len in let v = next () mod 256 in !b.(pos) <- v end)
    else if kind = 3 then (if len >= 4 then begin
        let pos = next () mod (len - 3) in
        let tab = [| 0; 1; 2; 0xffffffff; 0x7fffffff; len; len - pos; 0x80000000; 12; 13 |] in
        let v = tab.(next () mod 10) in
        !b.(pos) <- v land 255; !b.(pos+1) <- (v lsr 8) land 255; !b.(pos+2) <- (v lsr 16) land 255; !b.(pos+3) <- (v lsr 24) land 255 end)
    else if kind = 4 then (if len >= 4 then begin
        let pos = next () mod (len - 3) in
        b := Array.concat [Array.sub !b 0 pos; Array.sub !b pos 4; Array.sub !b pos (len - pos)] end)
    else begin
      let n = next () mod 8 in
      let extra = Array.make n 0 in
      for i = 0 to n - 1 do extra.(i) <- next () mod 256 done;
      b := Array.append !b extra end
  done;
  Array.to_list !b

let () =
  let lines = Ocommon.read_lines () in
  List.iteri (fun k line ->
    match String.index_opt line '|' with
    | None -> ()
    | Some p ->
      let head = String.sub line 0 p in
      let in_domain = (head = "m" || head = "t") in   (* "n": Strings with embedded NUL (F9); "g": parsed from mutated bytes: outside wf *)
      let body = String.sub line (p+1) (String.length line - p - 1) in
      let ops = List.filter (fun s -> s <> "") (String.split_on_char ';' body) in
      let regs = Array.make 8 empty_msg in
      let st = Buffer.create 64 in
      let tm_seed = ref None in
      let reg s = let r = int_of_string s in if r < 0 || r > 7 then failwith "bad register" else r in
      let apply r o = let (m', ok) = step regs.(r) o in regs.(r) <- m'; ok in
      List.iter (fun s ->
        let a = String.split_on_char ':' s in
        let ok =
          match a with
          | ["w"; r; w] -> apply (reg r) (OSetWhat (n_of_int (int_of_string w)))
          | [("a" | "p") as c; r; name; t; hex] ->
              (match tc_of_letter t, item_of t hex with
               | Some tc, Some v ->
                   (* AddData on a type with a fixed element size is not a raw add: not generated *)
                   if String.length t > 1 && (int_of_n (elem_size (ftype_of_tc tc)) <> 0 || ftype_of_tc tc = TString) then false
                   else apply (reg r) (OAdd (c = "p", bytes_of_hex name, tc, v))
               | _ -> false)
          | [("am" | "pm") as c; r; name; s2] ->
              apply (reg r) (OAdd (c = "pm", bytes_of_hex name, tc_message, IMsg regs.(reg s2)))
          | ["r"; r; name; idx; t; hex; oka] ->
              (match tc_of_letter t, (if t = "X" && hex = "" then None else item_of t hex) with   (* ReplaceData(.., numBytes==0) fails *)
               | Some tc, Some v ->
                   if String.length t > 1 && (int_of_n (elem_size (ftype_of_tc tc)) <> 0 || ftype_of_tc tc = TString) then false
                   else apply (reg r) (OReplace (oka = "1", bytes_of_hex name, tc, n_of_int (int_of_string idx), v))
               | _ -> false)
          | ["rm"; r; name; idx; s2; oka] ->
              apply (reg r) (OReplace (oka = "1", bytes_of_hex name, tc_message, n_of_int (int_of_string idx), IMsg regs.(reg s2)))
          | ["x"; r; name; idx] -> apply (reg r) (ORemoveData (bytes_of_hex name, n_of_int (int_of_string idx)))
          | ["xn"; r; name] -> apply (reg r) (ORemoveName (bytes_of_hex name))
          | ["rn"; r; o; nw] -> apply (reg r) (ORename (bytes_of_hex o, bytes_of_hex nw))
          | ["cl"; r] -> apply (reg r) OClear
          | ["cp"; r; s2] -> regs.(reg r) <- regs.(reg s2); true
          | ["u"; r] ->
              (match unflatten (flatten regs.(reg r)) with
               | Ok m -> regs.(reg r) <- m; true
               | _ -> false)
          | ["pad"; r; name; target] ->
              (* one raw item of the length that makes flattened_size equal to the target, if reachable *)
              let nm = bytes_of_hex name and tg = int_of_string target in
              let (trial, ok) = step regs.(reg r) (OAdd (false, nm, tc_raw, IRaw [])) in
              if ok && tg <= (1 lsl 26) && int_of_n (flattened_size trial) <= tg then begin
                let n = tg - int_of_n (flattened_size trial) in
                let pb = List.init n (fun i -> byte_tab.((i * 7 + 3) land 255)) in
                apply (reg r) (OAdd (false, nm, tc_raw, IRaw pb)) end
              else false
          | ["mf"; r; name] -> apply (reg r) (OMoveToFront (bytes_of_hex name))
          | ["mb"; r; name] -> apply (reg r) (OMoveToBack (bytes_of_hex name))
          | ["cn"; r; o; nw] -> apply (reg r) (OCopyName (bytes_of_hex o, bytes_of_hex nw))
          | ["ct"; r; s2] -> regs.(reg r) <- tmpl_of_msg regs.(reg s2); true
          | ["tm"; seed] -> tm_seed := Some (int_of_string seed); true
          | ["um"; r; seed] ->
              let bytes = List.map int_of_byte (flatten regs.(reg r)) in
              let mb = List.map (fun i -> byte_tab.(i)) (mutate bytes (int_of_string seed)) in
              (match unflatten mb with
               | Ok m -> regs.(reg r) <- m; true
               | _ -> false)
          | _ -> failwith ("bad op " ^ s) in
        Buffer.add_char st (if ok then '1' else '0')) ops;
      let m0 = regs.(0) and m1 = regs.(1) in
      if String.length head > 0 && head.[0] = 'w' then begin
        (* C08: the documented layout of the Message and its content, for harness/wire_h.cpp *)
        Printf.printf "%d B %s\n" k (hex_of (spec_msg m0));
        Printf.printf "%d FR %s\n" k (hex_of (takeN (n_of_int 8) (frame enc_default (spec_msg m0))));
        Printf.printf "%d CCT %s\n" k (cct (strip_msg m0));
        if head = "wg" then
          Printf.printf "%d GS %s\n" k (hex_of (frame enc_default (spec_msg m0) @ frame enc_default (spec_msg m1) @ frame enc_default (spec_msg m0)));
        (match unflatten (spec_msg m0) with
         | Ok u -> if head <> "wn" && u <> rt m0 then Printf.printf "%d ORACLE FAIL model: unflatten (spec_msg m) <> rt m\n" k
         | _ -> Printf.printf "%d ORACLE FAIL model: the parser model rejects spec_msg m\n" k)
      end else
      let flat = flatten m0 in
      Printf.printf "%d S %s\n" k (Buffer.contents st);
      Printf.printf "%d M %s\n" k (desc m0);
      Printf.printf "%d F %d %s\n" k (int_of_n (flattened_size m0)) (hex_of flat);
      Printf.printf "%d C %d %d\n" k (int_of_n (chk_msg hash false m0)) (int_of_n (chk_msg hash true m0));
      if String.length head > 0 && head.[0] = 't' then begin
        let t = m1 in
        Printf.printf "%d TT %s %s\n" k (desc t) (hex_of (flatten t));
        Printf.printf "%d TH %Lu %Lu\n" k (int64_of_n (tmpl_hash hash64 t)) (int64_of_n (tmpl_hash hash64 m0));
        match tmpl_flatten t m0 with
          | None -> Printf.printf "%d TF unmodelled\n" k
          | Some tb ->
              Printf.printf "%d TF %d %s\n" k (int_of_n (tmpl_flattened_size t m0)) (hex_of tb);
              if int_of_n (tmpl_flattened_size t m0) <> List.length tb then
                Printf.printf "%d ORACLE FAIL model: tmpl_flattened_size <> length (tmpl_flatten t p)\n" k;
              (match tmpl_unflatten t tb with
               | Ok u ->
                   Printf.printf "%d TU ok %s %s\n" k (desc u) (hex_of (flatten u));
                   if same_shape t m0 && u <> rt m0 then Printf.printf "%d ORACLE FAIL model: tmpl_unflatten t (tmpl_flatten t p) <> rt p\n" k;
                   if in_domain && u <> rt (tmpl_merge t m0) then Printf.printf "%d ORACLE FAIL model: tmpl_unflatten t (tmpl_flatten t p) <> rt (tmpl_merge t p)\n" k
               | _ -> Printf.printf "%d TU err\n" k);
              (match !tm_seed with
               | None -> ()
               | Some sd ->
                   let mb = List.map (fun i -> byte_tab.(i)) (mutate (List.map int_of_byte tb) sd) in
                   (match tmpl_unflatten t mb with
                    | Ok v -> Printf.printf "%d TM ok %s %s\n" k (desc v) (hex_of (flatten v))
                    | _ -> Printf.printf "%d TM err\n" k))
      end;
      (match unflatten flat with
       | Ok u0 ->
           Printf.printf "%d U ok %s\n" k (desc u0);
           let re = flatten u0 in
           Printf.printf "%d R %s %d %d %s %s\n" k
             (if re = flat then "same" else "diff:" ^ hex_of re)
             (int_of_n (flattened_size u0)) (int_of_n (chk_msg hash false u0))
             (b2s (msg_eq ieq_cpp m0 u0)) (b2s (msg_eq ieq_cpp u0 m0));
           (match unflatten (flatten m1) with
            | Ok u1 -> Printf.printf "%d P %s %s\n" k (b2s (msg_eq ieq_cpp m0 m1)) (b2s (msg_eq ieq_cpp u0 u1))
            | _ -> Printf.printf "%d P %s err\n" k (b2s (msg_eq ieq_cpp m0 m1)));
           (* the theorem's statement evaluated on this instance of the model (sanity of the model itself) *)
           if in_domain && u0 <> rt m0 then Printf.printf "%d ORACLE FAIL model: unflatten (flatten m) <> rt m\n" k;
           if int_of_n (flattened_size m0) <> List.length flat then Printf.printf "%d ORACLE FAIL model: flattened_size <> length (flatten m)\n" k
       | Err -> Printf.printf "%d U err\n" k
       | Fuel -> Printf.printf "%d U fuel\n" k
       | Crash -> Printf.printf "%d U crash\n" k)
  ) lines
