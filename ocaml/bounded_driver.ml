(* Driver for the extracted C07 server model (Refl/Bounded.v).  Reads the same cases as harness/bounded_h.cpp (see
   the grammar there) and prints the same canonical text.

   The external matching code of the model (class MatchOps) is instantiated for the pattern and filter repertoire the
   modelled stream uses (the same as the C04 driver):
     clause  = the clause text over [a-z0-9], '*', '?', ','      (muscle "simple" wildcard syntax)
     cmatch  = whole-string glob match, ',' separates alternatives
     ckeys   = Some [text] when the text has no wildcard character, Some (non-empty segments) when its only special
               characters are commas, None otherwise
     filter  = g<n> | l<n> | e<n> on the int32 field "v" (false when the field is missing), x = "v" exists
   Names are interned strings, payload 0 = Message without "v", v -> v+1.
   Cases labelled F (flood stream: arbitrary Messages, oracle only) are not interpreted: `k F <number of ops>`. *)
open Bounded_model

let rec pos_of_int n = if n = 1 then XH else if n land 1 = 0 then XO (pos_of_int (n lsr 1)) else XI (pos_of_int (n lsr 1))
let n_of_int k = if k <= 0 then N0 else Npos (pos_of_int k)
let rec int_of_pos = function XH -> 1 | XO p -> 2 * int_of_pos p | XI p -> 2 * int_of_pos p + 1
let int_of_n = function N0 -> 0 | Npos p -> int_of_pos p
let z_of_int k = if k = 0 then Z0 else if k > 0 then Zpos (pos_of_int k) else Zneg (pos_of_int (-k))
let rec nat_of_int k = if k <= 0 then O else S (nat_of_int (k-1))
let rec int_of_nat = function O -> 0 | S n -> 1 + int_of_nat n

(* ---- interned names *)
let tbl : (string, int) Hashtbl.t = Hashtbl.create 64
let rev_tbl : (int, string) Hashtbl.t = Hashtbl.create 64
let intern (s : string) : n =
  match Hashtbl.find_opt tbl s with
  | Some i -> n_of_int i
  | None -> let i = Hashtbl.length tbl + 1 in Hashtbl.add tbl s i; Hashtbl.add rev_tbl i s; n_of_int i
let name_str (x : n) : string = match Hashtbl.find_opt rev_tbl (int_of_n x) with Some s -> s | None -> "?"

(* ---- wildcard clauses *)
let glob (pat : string) (s : string) : bool =
  let lp = String.length pat and ls = String.length s in
  let rec go i j =
    if i = lp then j = ls
    else match pat.[i] with
      | '*' -> go (i+1) j || (j < ls && go i (j+1))
      | '?' -> j < ls && go (i+1) (j+1)
      | c -> j < ls && s.[j] = c && go (i+1) (j+1) in
  go 0 0
let clause_match (c : string) (s : string) : bool = List.exists (fun alt -> glob alt s) (String.split_on_char ',' c)
let clause_keys (c : string) : string list option =
  if String.contains c '*' || String.contains c '?' then None
  else Some (List.filter (fun x -> x <> "") (String.split_on_char ',' c))

type fspec = FG of int | FL of int | FE of int | FX
let fspec_of_string (s : string) : fspec =
  if s = "x" then FX else
  let v = int_of_string (String.sub s 1 (String.length s - 1)) in
  match s.[0] with 'g' -> FG v | 'l' -> FL v | _ -> FE v
let fspec_str = function FG v -> "g" ^ string_of_int v | FL v -> "l" ^ string_of_int v | FE v -> "e" ^ string_of_int v | FX -> "x"
let fspec_match (f : fspec) (p : int) : bool =
  if p = 0 then false else
  let v = p - 1 in match f with FG k -> v > k | FL k -> v < k | FE k -> v = k | FX -> true

let ops : matchOps = {
  clause_eqb = (fun a b -> (Obj.obj a : string) = (Obj.obj b : string));
  cmatch = (fun c x -> clause_match (Obj.obj c : string) (name_str x));
  ckeys = (fun c -> match clause_keys (Obj.obj c : string) with None -> None | Some ks -> Some (List.map intern ks));
  cstar = Obj.repr "*";
  fmatch = (fun f p -> fspec_match (Obj.obj f : fspec) (int_of_n p));
}

(* ---- parsing *)
let split c s = String.split_on_char c s
let clauses_of (s : string) : Obj.t list = List.map (fun x -> Obj.repr x) (split '/' s)
let spath_of (s : string) : spath =
  if String.length s > 0 && s.[0] = '/' then Abs (clauses_of (String.sub s 1 (String.length s - 1))) else Rel (clauses_of s)
let relpat_of (s : string) : Obj.t list =
  if String.length s > 0 && s.[0] = '/' then clauses_of (String.sub s 1 (String.length s - 1)) else clauses_of s
let split_sub (s : string) : string * Obj.t option =
  match String.index_opt s '@' with
  | None -> (s, None)
  | Some i -> (String.sub s 0 i, Some (Obj.repr (fspec_of_string (String.sub s (i+1) (String.length s - i - 1)))))
let items s = if s = "" then [] else split '&' s
let payload_of_int v = n_of_int (v + 1)
let int_or d s = try int_of_string s with _ -> d
let keys_of (s : string) = List.map (fun s -> let (p, f) = split_sub s in (spath_of p, f)) (items s)

let rec wrap_batches (d : int) (c : bcmd) : bcmd = if d <= 0 then c else wrap_batches (d-1) (BBatch [c])

let parse_cmd (code : string) (fs : string list) : bcmd option =
  let nth k = match List.nth_opt fs k with Some x -> x | None -> "" in
  match code with
  | "s" ->
    let flags = int_or 0 (nth 0) in
    let its = List.map (fun it ->
        match String.index_opt it '=' with
        | None -> (List.map intern (split '/' it), N0)
        | Some i -> (List.map intern (split '/' (String.sub it 0 i)),
                     payload_of_int (int_of_string (String.sub it (i+1) (String.length it - i - 1))))) (items (nth 1)) in
    if flags land 16 <> 0 then Some (BSetSup (n_of_int flags, its))      (* SETDATANODE_FLAG_ENABLESUPERCEDE *)
    else Some (BBase (CSetData (n_of_int flags, its)))
  | "r" ->
    let ks = List.map (fun s -> let (p, f) = split_sub s in (relpat_of p, f)) (items (nth 1)) in
    Some (BBase (CRemoveData ((nth 0 = "1"), ks)))
  | "g" -> Some (BBase (CGetData (keys_of (nth 0))))
  | "p" ->
    let seen = Hashtbl.create 8 in
    let ks = List.filter_map (fun s -> let (p, f) = split_sub s in
                               if Hashtbl.mem seen p then None else (Hashtbl.add seen p (); Some (spath_of p, f))) (items (nth 1)) in
    Some (BBase (CSubscribe ((nth 0 = "1"), ks)))
  | "m" -> Some (BBase (CSetMax (z_of_int (int_or 0 (nth 0)))))
  | "u" -> Some (BBase (CUnsubscribe (List.map spath_of (items (nth 0)))))
  | "um" -> Some (BBase CResetMax)
  | "pi" -> Some (BPing (n_of_int (int_or 0 (nth 0))))
  | "no" -> Some BNoop
  | "un" -> Some (BBounce (code_unimplemented, n_of_int (int_of_n begin_commands + int_or 0 (nth 0))))
  | "dn" -> Some (BBounce (code_denied, n_of_int (int_of_n begin_commands + int_or 0 (nth 0))))
  | "jr" -> if nth 0 = "-" then Some (BJettResults None) else Some (BJettResults (Some (keys_of (nth 0))))
  (* a request id of the wrong type (#N = int32) is no string field: FindString / HasName(.., B_STRING_TYPE) fail *)
  | "jt" -> let wrong = String.length (nth 0) > 0 && (nth 0).[0] = '#' in
    if nth 0 = "-" || wrong then Some (BJettTrees None) else Some (BJettTrees (Some (List.map (fun x -> Obj.repr x) (items (nth 0)))))
  | "gt" -> let wrong = String.length (nth 0) > 0 && (nth 0).[0] = '#' in
    Some (BGetTrees ((if nth 0 = "-" || wrong then None else Some (intern (nth 0))), keys_of (nth 1)))
  | _ -> None

(* ---- printing *)
let path_str (p : path) : string = String.concat "" (List.map (fun x -> "/" ^ name_str x) p)
let payload_str (p : n) : string = let v = int_of_n p in if v = 0 then "-" else string_of_int (v - 1)
let pat_str (p : Obj.t list) : string = String.concat "/" (List.map (fun c -> (Obj.obj c : string)) p)
let flt_str (f : Obj.t option) : string = match f with None -> "" | Some f -> "@" ^ fspec_str (Obj.obj f : fspec)

let di_str (d : ditems) : string =
  "[R:" ^ String.concat "," (List.map path_str d.di_removed) ^ ";S:" ^
  String.concat "," (List.concat_map (fun (p, vs) -> List.map (fun v -> path_str p ^ "=" ^ payload_str v) vs) d.di_sets) ^ "]"

let omsg_str (m : omsg) : string =
  match m with
  | ODataItems d -> di_str d
  | ODataTrees (id, roots) ->
    "TR(" ^ (match id with Some i -> name_str i | None -> "-") ^ "){" ^ String.concat "," (List.map path_str roots) ^ "}"
  | OPong t -> "PONG(" ^ string_of_int (int_of_n t) ^ ")"
  | OBounce (code, what) ->
    "ERR(" ^ (if int_of_n code = int_of_n code_unimplemented then "U" else "D") ^ ":" ^
    string_of_int (int_of_n what - int_of_n begin_commands) ^ ")"

let model_fuel = nat_of_int 3000

let () =
  let lines = Ocommon.read_lines () in
  List.iteri (fun k line ->
    match String.index_opt line '|' with
    | None -> ()
    | Some bar ->
      Hashtbl.reset tbl; Hashtbl.reset rev_tbl;
      let body = String.sub line (bar+1) (String.length line - bar - 1) in
      let opl = List.filter (fun s -> s <> "") (split ';' body) in
      if String.length line > 0 && line.[0] = 'F' then Printf.printf "%d F %d\n" k (List.length opl)
      else begin
        (* the model follows the sources at hand (translated flags); label "Mo..": the jettison loop as found (F4) *)
        let jfix = code_jfix && not (String.length line > 1 && line.[1] = 'o') in
        let b = ref (empty_bserver ops) in
        let nsess = ref 0 in
        let hung = ref false in
        let host = intern "H" in
        List.iteri (fun j op ->
          if not !hung then begin
            let f = split ':' op in
            let code = List.hd f in
            let kk = match List.nth_opt f 1 with Some x -> int_or (-1) x | None -> -1 in
            let alive kk = kk >= 0 && List.exists (fun ss -> int_of_n ss.s_id = kk) (sv_sessions ops (b_sv ops !b)) in
            let valid, ev =
              if code = "a" then begin
                let id = !nsess in incr nsess;
                (true, Some (BAttach (n_of_int id, host, intern (string_of_int id))))
              end
              else if not (alive kk) then (false, None)
              else if code = "d" then (true, Some (BDetach (n_of_int kk)))
              else if code = "x" then (true, Some (BBlock (n_of_int kk, (List.nth_opt f 2 = Some "1"))))
              else if code = "b" then begin
                let subs = (match List.nth_opt f 2 with Some x when x <> "" -> split '+' x | _ -> []) in
                let cmds = List.filter_map (fun so -> let sf = split '~' so in parse_cmd (List.hd sf) (List.tl sf)) subs in
                (true, Some (BCmd (n_of_int kk, BBatch cmds)))
              end
              else if code = "nb" then begin
                let d = int_or 0 (match List.nth_opt f 2 with Some x -> x | None -> "0") in
                let sf = split '~' (match List.nth_opt f 3 with Some x -> x | None -> "no") in
                match parse_cmd (List.hd sf) (List.tl sf) with
                | Some c -> (true, Some (BCmd (n_of_int kk, wrap_batches d c)))
                | None -> (false, None)
              end
              else begin
                match parse_cmd code (match f with _ :: _ :: r -> r | _ -> []) with
                | Some c -> (true, Some (BCmd (n_of_int kk, c)))
                | None -> (false, None)
              end in
            (match ev with
             | Some e ->
               (match bstep ops code_fixes jfix model_fuel !b e with
                | Some b' -> b := b'
                | None -> hung := true)
             | None -> b := { !b with b_last = [] });
            if !hung then Printf.printf "%d %d %s HANG (model: out of fuel)\n" k j code
            else begin
              let sv = b_sv ops !b in
              let buf = Buffer.create 512 in
              Buffer.add_string buf (Printf.sprintf "%d %s%s M{" j code (if valid then "" else "!"));
              let firstc = ref true in
              List.iter (fun (s, ms) ->
                if ms <> [] then begin
                  if not !firstc then Buffer.add_char buf ' ';
                  firstc := false;
                  Buffer.add_string buf (Printf.sprintf "c%d:" (int_of_n s));
                  List.iter (fun m -> Buffer.add_string buf (omsg_str m)) ms
                end) (List.sort (fun (a, _) (b, _) -> compare (int_of_n a) (int_of_n b)) (b_last ops !b));
              Buffer.add_string buf "} Q{";
              Buffer.add_string buf (String.concat " " (List.filter_map (fun g ->
                if g.g_blocked then Some (Printf.sprintf "%d:%s" (int_of_n g.g_sid) (String.concat "" (List.map omsg_str g.g_q))) else None)
                (List.sort (fun a b -> compare (int_of_n a.g_sid) (int_of_n b.g_sid)) (b_gws ops !b))));
              Buffer.add_string buf "} T{";
              let nodes = dfs dump_fuel (sv_tree ops sv) [] in
              Buffer.add_string buf (String.concat " " (List.map (fun nd ->
                let subs = List.sort compare (List.map (fun (s, c) -> (int_of_n s, int_of_n c)) nd.n_subs) in
                path_str nd.n_path ^ "=" ^ payload_str nd.n_data ^ "{" ^
                String.concat "," (List.map (fun (s, c) -> Printf.sprintf "%d:%d" s c) subs) ^ "}") nodes));
              Buffer.add_string buf "} E{";
              Buffer.add_string buf (String.concat " " (List.map (fun ss ->
                Printf.sprintf "%d(%d)[%s]" (int_of_n ss.s_id) (int_of_n ss.s_max)
                  (String.concat "|" (List.map (fun (d, es) ->
                     Printf.sprintf "%d:%s" (int_of_nat d) (String.concat "," (List.map (fun e -> pat_str e.e_pat ^ flt_str e.e_flt) es)))
                     ss.s_subs.m_groups))) (sv_sessions ops sv)));
              Buffer.add_string buf "}";
              Printf.printf "%d %s\n" k (Buffer.contents buf)
            end
          end) opl
      end
  ) lines
