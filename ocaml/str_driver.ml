(* Driver for the extracted String model (C17): one case per line `head|op;op;...`, one output line per case.
   Environment: C17_MODEL_PINNED=1 runs the model of the tree as pinned (without the two proposed repairs). *)
open Str_model

let rec pos_of_int n = if n = 1 then XH else if n land 1 = 0 then XO (pos_of_int (n lsr 1)) else XI (pos_of_int (n lsr 1))
let n_of_int n = if n <= 0 then N0 else Npos (pos_of_int n)
let rec int_of_pos = function XH -> 1 | XO p -> 2 * int_of_pos p | XI p -> 2 * int_of_pos p + 1
let int_of_n = function N0 -> 0 | Npos p -> int_of_pos p
let z_of_int n = if n = 0 then Z0 else if n > 0 then Zpos (pos_of_int n) else Zneg (pos_of_int (-n))
let int_of_z = function Z0 -> 0 | Zpos p -> int_of_pos p | Zneg p -> - (int_of_pos p)

let bytes_of_hex s = List.map n_of_int (Ocommon.bytes_of_hex s)
let hex_of_bytes b = Ocommon.hex_of_bytes (List.map int_of_n b)
let num s = n_of_int (int_of_string s)

let sarg s =
  if s = "@" then ASelf
  else let s = if String.length s > 0 && s.[0] = 'H' then String.sub s 1 (String.length s - 1) else s in
       ALit (bytes_of_hex s)
let carg s =
  if s = "~" then CNull
  else if String.length s > 0 && s.[0] = '@' then CSelf (num (String.sub s 1 (String.length s - 1)))
  else CLit (bytes_of_hex s)
let b s = s = "1"
(* k1=v1,k2=v2 (hex) : the entries of a Hashtable<String,String> in iteration order *)
let pairs s =
  if s = "" then [] else
  List.map (fun kv -> match String.split_on_char '=' kv with
                      | [k; v] -> (bytes_of_hex k, bytes_of_hex v)
                      | _ -> failwith ("bad pair " ^ kv)) (String.split_on_char ',' s)
let nolimit = n_of_int 4294967295

let rec parse_op (s : string) : op =
  if String.length s > 1 && s.[0] = '=' then OAssign (parse_op (String.sub s 1 (String.length s - 1))) else
  match String.split_on_char ':' s with
  | ["sc"; c; m] -> OSetCstr (carg c, num m)
  | ["asc"; c] -> OSetCstr (carg c, nolimit)
  | ["sf"; a; f; t] -> OSetFrom (sarg a, num f, num t)
  | ["ass"; a] -> OSetFrom (sarg a, N0, nolimit)
  | ["+s"; a] -> OAppendS (sarg a)
  | ["+c"; c] -> OAppendC (carg c)
  | ["+h"; ch] -> OAppendCh (num ch)
  | ["ic"; i; c; m] -> OInsertChars (num i, carg c, num m)
  | ["pc"; c; m] -> OInsertChars (N0, carg c, num m)
  | ["ac"; c; m] -> OInsertChars (nolimit, carg c, num m)
  | ["cl"] -> OClear
  | ["cf"] -> OClearFlush
  | ["pa"; n] -> OPrealloc (num n)
  | ["sh"; n] -> OShrink (num n)
  | ["tc"; n] -> OTruncChars (num n)
  | ["tt"; n] -> OTruncTo (num n)
  | ["sw"; p; l] -> OSwap (num p, bytes_of_hex l)
  | ["-h"; ch] -> OMinusCh (num ch)
  | ["-s"; a] -> OMinusS (sarg a)
  | ["-c"; c] -> OMinusC (carg c)
  | ["rv"] -> OReverse
  | ["rc"; a; b'; m; f] -> OReplaceCh (num a, num b', num m, num f)
  | ["rs"; a; b'; m; f] -> OReplaceS (sarg a, sarg b', num m, num f)
  | ["uf"; x] -> OUnflatten (bytes_of_hex x)
  | ["ufw"; x; w; ps] ->
      let pre t = if t = "c" || t = "s" then PStr else if t = "i" then PBytes (n_of_int 4)
                  else PBytes (num (String.sub t 1 (String.length t - 1))) in
      OUnflattenW (bytes_of_hex x, num w, List.map pre (List.filter (fun t -> t <> "") (String.split_on_char '.' ps)))
  | ["argd"; _; mn; _; txt] | ["argf"; _; mn; _; txt] -> OArgFloatText (bytes_of_hex txt, num mn)
  | ["rm"; ps; m] -> OReplaceMulti (pairs ps, num m)
  | ["wrm"; ps; m] -> OWithReplMulti (pairs ps, num m)
  | ["set"; i; ch] -> OSetAt (num i, num ch)
  | ["<<i"; z] -> OShiftInt (z_of_int (int_of_string z))
  | ["<<b"; x] -> OShiftBool (b x)
  | ["++"] -> OAppendCh (n_of_int 32)
  | ["--"] -> OTruncChars (n_of_int 1)
  | ["dist"; a; m] -> OGetDistance (sarg a, num m)
  | ["ncmp"; a] -> ONumCmp (sarg a, false)
  | ["ncmpi"; a] -> ONumCmp (sarg a, true)
  | ["eqh"; ch] -> OEqualsCh (num ch)
  | ["eqhi"; ch] -> OEqualsChI (num ch)
  | ["swhi"; ch] -> OStartsChI (num ch)
  | ["ewhi"; ch] -> OEndsChI (num ch)
  | ["wiw"; i; a; sep] -> OWithWord (num i, sarg a, bytes_of_hex sep)
  | ["waw"; a; sep] -> OWithWord (nolimit, sarg a, bytes_of_hex sep)
  | ["wpw"; a; sep] -> OWithWord (N0, sarg a, bytes_of_hex sep)
  | ["ind"; n; ch] -> OIndented (num n, num ch)
  | ["plh"; ch] -> OPlusCh (num ch)
  | ["hpl"; ch] -> OChPlus (num ch)
  | ["cpl"; x] -> OCPlus (bytes_of_hex x)
  | ["mns"; a] -> OMinusPS (sarg a)
  | ["mnh"; ch] -> OMinusPCh (num ch)
  | ["esc"; x; ch] -> OEscaped (bytes_of_hex x, num ch)
  | ["wsfh"; ch] -> OWithSuffixCh (num ch)
  | ["wpfh"; ch] -> OWithPrefixCh (num ch)
  | ["wosfi"; a; m] -> OWithoutSuffixSI (sarg a, num m)
  | ["wopfi"; a; m] -> OWithoutPrefixSI (sarg a, num m)
  | ["woshi"; ch; m] -> OWithoutSuffixChI (num ch, num m)
  | ["wophi"; ch; m] -> OWithoutPrefixChI (num ch, num m)
  | ["at"; i] -> OCharAt (num i)
  | ["ioh"; ch; f] -> OIndexOfCh (num ch, num f)
  | ["ios"; a; f] -> OIndexOfS (sarg a, num f)
  | ["ioc"; c; f] -> OIndexOfC (carg c, num f)
  | ["lih"; ch; f] -> OLastIndexOfCh (num ch, num f)
  | ["lis1"; a] -> OLastIndexOfS1 (sarg a)
  | ["lis"; a; f] -> OLastIndexOfS (sarg a, num f)
  | ["cnh"; ch; f] -> OCountCh (num ch, num f)
  | ["cns"; a; f] -> OCountS (sarg a, num f)
  | ["sws"; a] -> OStartsS (sarg a)
  | ["ews"; a] -> OEndsS (sarg a)
  | ["swh"; ch] -> OStartsCh (num ch)
  | ["ewh"; ch] -> OEndsCh (num ch)
  | ["swsi"; a] -> OStartsSI (sarg a)
  | ["ewsi"; a] -> OEndsSI (sarg a)
  | ["cmp"; a] -> OCompare (sarg a)
  | ["cmpi"; a] -> OCompareI (sarg a)
  | ["eqi"; a] -> OEqualsI (sarg a)
  | ["iosi"; a; f] -> OIndexOfSI (sarg a, num f)
  | ["lisi"; a; f] -> OLastIndexOfSI (sarg a, num f)
  | ["iohi"; ch; f] -> OIndexOfChI (num ch, num f)
  | ["lihi"; ch; f] -> OLastIndexOfChI (num ch, num f)
  | ["pns"; d] -> OParseNumSuffix (num d)
  | ["swn"; n] -> OStartsWithNumber (b n)
  | ["fl"] -> OFlatten
  | ["cp"] -> OCopy
  | ["cpp"; n] -> OCopyPre (num n)
  | ["sub"; f; t] -> OSubstring (num f, num t)
  | ["suba"; a] -> OSubstringAfter (sarg a)
  | ["subu"; f; a] -> OSubstringUntil (num f, sarg a)
  | ["wis"; i; a; m] -> OWithInsertS (num i, sarg a, num m)
  | ["wps"; a; m] -> OWithInsertS (N0, sarg a, num m)
  | ["was"; a; m] -> OWithInsertS (nolimit, sarg a, num m)
  | ["wih"; i; ch; n] -> OWithInsertCh (num i, num ch, num n)
  | ["wph"; ch; n] -> OWithInsertCh (N0, num ch, num n)
  | ["wah"; ch; n] -> OWithInsertCh (nolimit, num ch, num n)
  | ["pad"; m; r; ch] -> OPadded (num m, b r, num ch)
  | ["lo"] -> OLower
  | ["up"] -> OUpper
  | ["mx"] -> OMixed
  | ["tr"] -> OTrimmed
  | ["wrc"; a; b'; m; f] -> OWithReplCh (num a, num b', num m, num f)
  | ["wrs"; a; b'; m; f] -> OWithReplS (sarg a, sarg b', num m, num f)
  | ["args"; a] -> OArgS (sarg a)
  | ["argi"; z] | ["argl"; z] | ["argu"; z] | ["argh"; z] | ["argc"; z] | ["argul"; z] -> OArgInt (z_of_int (int_of_string z))
  | ["argb"; x] -> OArgS (ALit (List.map n_of_int (if b x then [116;114;117;101] else [102;97;108;115;101])))
  | ["wsf"; a] -> OWithSuffixS (sarg a)
  | ["wpf"; a] -> OWithPrefixS (sarg a)
  | ["wosf"; a; m] -> OWithoutSuffixS (sarg a, num m)
  | ["wopf"; a; m] -> OWithoutPrefixS (sarg a, num m)
  | ["wosh"; ch; m] -> OWithoutSuffixCh (num ch, num m)
  | ["woph"; ch; m] -> OWithoutPrefixCh (num ch, num m)
  | ["wons"] -> OWithoutNumSuffix
  | ["pls"; a] -> OPlusS (sarg a)
  | _ -> failwith ("bad op " ^ s)

let m_ = c17_M and th = c17_TH and pg = c17_PG and ov = c17_OV
let jk = n_of_int 170
let fixed = (try Sys.getenv "C17_MODEL_PINNED" <> "1" with Not_found -> true)

let show_state (s : str1) =
  let l = slen m_ s in
  Printf.sprintf "%s/%d/%d/%s" (if is_long s then "L" else "S") (int_of_n l) (int_of_n (cap m_ s)) (hex_of_bytes (abs m_ s))

let show_st = function StOk -> "ok" | StErr -> "err"
let show_out1 = function
  | R1None -> "-" | R1St e -> show_st e | R1Int z -> "i" ^ string_of_int (int_of_z z)
  | R1Nat n -> "u" ^ string_of_int (int_of_n n) | R1Bool x -> if x then "b1" else "b0"
  | R1Bytes x -> "x" ^ hex_of_bytes x
  | R1Str r -> "r[" ^ show_state r ^ "]"
  | R1StrNat (r, n) -> "r[" ^ show_state r ^ "]u" ^ string_of_int (int_of_n n)

let () =
  let lines = Ocommon.read_lines () in
  List.iteri (fun k line ->
    match String.index_opt line '|' with
    | None -> ()
    | Some p ->
      let body = String.sub line (p+1) (String.length line - p - 1) in
      let nul_stream = (String.sub line 0 p = "nul") in   (* embedded NULs: outside the domain of level 0 *)
      let ops = List.filter (fun s -> s <> "") (String.split_on_char ';' body) in
      let buf = Buffer.create 256 in
      let s = ref (empty1 m_ jk) and l = ref [] in
      let bad = ref None in
      List.iteri (fun n os ->
        let o = parse_op os in
        let (s', r) = step1 m_ th pg ov jk fixed !s o in
        let (l', r0) = step0 !l o in
        (* level 0 has no capacity: an error status of a capacity-limited operation (not of Unflatten) is outside its domain *)
        let cap_err = (r = R1St StErr) && (match o with OUnflatten _ -> false | _ -> true) in
        if !bad = None && not cap_err && not nul_stream && (abs_out m_ r <> r0 || abs m_ s' <> l') then bad := Some (n, os);
        s := s'; l := abs m_ s';     (* level 0 follows level 1 so that one deviation is reported once *)
        Buffer.add_string buf (show_out1 r); Buffer.add_char buf ' ';
        Buffer.add_string buf (show_state s'); Buffer.add_char buf ';') ops;
      Printf.printf "%d %s\n" k (Buffer.contents buf);
      (match !bad with
       | Some (n, os) -> Printf.printf "%d MODEL-L0 deviation at op#%d %s (level 1 and level 0 of the model disagree)\n" k n os
       | None -> ())
  ) lines
