(* Driver for the extracted query-filter model (C14): reads one case per line (`head|op;op;...`), builds
   Messages in 8 registers and a stack of filters exactly as harness/flt_h.cpp does with the real classes, and
   prints the same canonical lines:
     k B <status of every op>            k F <filter on top of the stack>      k D <Matches on registers 0..7>
     k A <archive of that filter>        k R ok <restored filter> <its decisions>  |  k R err
   See checks/c14.py for the op grammar. *)
open Flt_model

(* ---------- conversions *)
let rec pos_of_int n = if n = 1 then XH else if n land 1 = 0 then XO (pos_of_int (n lsr 1)) else XI (pos_of_int (n lsr 1))
let n_of_int n = if n = 0 then N0 else Npos (pos_of_int n)
let rec int_of_pos = function XH -> 1 | XO p -> 2 * int_of_pos p | XI p -> 2 * int_of_pos p + 1
let int_of_n = function N0 -> 0 | Npos p -> int_of_pos p

let byte_tab : byte array = Array.init 256 (fun i -> byte_of_N (n_of_int i))
let int_of_byte (b : byte) : int = int_of_n (n_of_byte b)
let bytes_of_hex s : byte list = List.map (fun i -> byte_tab.(i)) (Ocommon.bytes_of_hex s)
let hex_of (b : byte list) = Ocommon.hex_of_bytes (List.map int_of_byte b)
let num s = n_of_int (int_of_string s)
let num8 s = n_of_int ((int_of_string s) land 255)
let opt_hex s = if s = "-" then None else Some (bytes_of_hex s)

(* ---------- canonical text *)
let rec fields_list = function FNil -> [] | FCons (n, tc, r, t) -> (n, tc, r) :: fields_list t
let rec items_list = function INil -> [] | ICons (i, t) -> i :: items_list t
let rec desc_msg (m : msg) =
  match m with Msg (w, fs) ->
    let fl = List.map (fun (n, tc, r) -> (hex_of n, tc, r)) (fields_list fs) in
    let fl = List.sort (fun (a, _, _) (b, _, _) -> compare a b) fl in
    Printf.sprintf "%d(%s)" (int_of_n w)
      (String.concat "" (List.map (fun (n, tc, r) ->
         let its = match r with RInline i -> [i] | RArray l -> items_list l in
         Printf.sprintf "%s=%d[%s]" n (int_of_n tc) (String.concat "," (List.map desc_item its))) fl))
and desc_item = function
  | IFix b -> hex_of b
  | IStr b -> hex_of b
  | IRaw b -> hex_of b
  | IMsg m -> "<" ^ desc_msg m ^ ">"
  | IOpaque _ -> "?"

let oh = function None -> "-" | Some b -> hex_of b
let kind_letter = function
  | KNum NBool -> "b" | KNum NDouble -> "d" | KNum NFloat -> "f" | KNum NInt64 -> "l" | KNum NInt32 -> "i"
  | KNum NInt16 -> "h" | KNum NInt8 -> "c" | KNum NPoint -> "P" | KNum NRect -> "R" | KChildCount -> "C"
let rec flist_list = function LNil -> [] | LCons (f, t) -> f :: flist_list t
let rec desc_filter (f : qfilter) =
  match f with
  | FWhat (a, b) -> Printf.sprintf "W(%d,%d)" (int_of_n a) (int_of_n b)
  | FExists (n, i, tc) -> Printf.sprintf "E(%s,%d,%d)" (hex_of n) (int_of_n i) (int_of_n tc)
  | FNum (k, n, i, op, mop, v, m, d) ->
      Printf.sprintf "N%s(%s,%d,%d,%d,%s,%s,%s)" (kind_letter k) (hex_of n) (int_of_n i) (int_of_n op) (int_of_n mop) (hex_of v) (hex_of m) (oh d)
  | FStr (nn, n, i, op, v, d) ->
      Printf.sprintf "S%s(%s,%d,%d,%s,%s)" (if nn then "n" else "s") (hex_of n) (int_of_n i) (int_of_n op) (hex_of v) (oh d)
  | FRaw (n, i, op, tc, v, d) ->
      Printf.sprintf "R(%s,%d,%d,%d,%s,%s)" (hex_of n) (int_of_n i) (int_of_n op) (int_of_n tc) (oh v) (oh d)
  | FMsg (n, i, k, d) ->
      Printf.sprintf "M(%s,%d,%s,%s)" (hex_of n) (int_of_n i)
        (match k with ONone -> "-" | OSome k -> desc_filter k) (match d with None -> "-" | Some m -> desc_msg m)
  | FMin (n, ks) -> Printf.sprintf "&(%d,[%s])" (int_of_n n) (String.concat " " (List.map desc_filter (flist_list ks)))
  | FMax (n, ks) -> Printf.sprintf "~(%d,[%s])" (int_of_n n) (String.concat " " (List.map desc_filter (flist_list ks)))
  | FXor ks -> Printf.sprintf "^([%s])" (String.concat " " (List.map desc_filter (flist_list ks)))

(* ---------- the StringMatcher-backed operators: property C15's model (Pat/Translate.v + the ERE engine of Pat/Ere.v) *)
let smatch : (n -> byte list -> byte list -> bool) ref = ref Flt_model.smatch_ere

(* ---------- typed items (same letters as the C01 harness) *)
let tc_of_letter t : n option =
  match t with
  | "b" -> Some tc_bool | "c" -> Some tc_int8 | "h" -> Some tc_int16 | "i" -> Some tc_int32
  | "l" -> Some tc_int64 | "f" -> Some tc_float | "d" -> Some tc_double | "P" -> Some tc_point
  | "R" -> Some tc_rect | "s" -> Some tc_string | "X" -> Some tc_raw
  | _ -> if String.length t > 1 && t.[0] = 'x' then Some (n_of_int (int_of_string (String.sub t 1 (String.length t - 1)))) else None
let width_of_letter = function "b" -> 1 | "c" -> 1 | "h" -> 2 | "i" -> 4 | "l" -> 8 | "f" -> 4 | "d" -> 8 | "P" -> 8 | "R" -> 16 | _ -> -1
let item_of t hex : item option =
  let bs = bytes_of_hex hex in
  match t with
  | "b" -> (match bs with [b] -> Some (IFix [if int_of_byte b <> 0 then byte_tab.(1) else byte_tab.(0)]) | _ -> None)
  | "c" | "h" | "i" | "l" | "f" | "d" | "P" | "R" -> if List.length bs = width_of_letter t then Some (IFix bs) else None
  | "s" -> Some (IStr bs)
  | _ -> if bs = [] then None else Some (IRaw bs)      (* AddData(.., numBytes==0) is B_BAD_ARGUMENT *)

let nkind_of_letter = function
  | "b" -> Some (KNum NBool) | "d" -> Some (KNum NDouble) | "f" -> Some (KNum NFloat) | "l" -> Some (KNum NInt64)
  | "i" -> Some (KNum NInt32) | "h" -> Some (KNum NInt16) | "c" -> Some (KNum NInt8) | "P" -> Some (KNum NPoint)
  | "R" -> Some (KNum NRect) | "C" -> Some KChildCount | _ -> None
let width_of_kind = function
  | KNum NBool -> 1 | KNum NDouble -> 8 | KNum NFloat -> 4 | KNum NInt64 -> 8 | KNum NInt32 -> 4 | KNum NInt16 -> 2
  | KNum NInt8 -> 1 | KNum NPoint -> 8 | KNum NRect -> 16 | KChildCount -> 4
let norm_bool k (b : byte list) =
  match k with KNum NBool -> List.map (fun x -> if int_of_byte x <> 0 then byte_tab.(1) else byte_tab.(0)) b | _ -> b

let rec take n l = if n <= 0 then [] else match l with [] -> [] | x :: t -> x :: take (n-1) t
let rec drop n l = if n <= 0 then l else match l with [] -> [] | _ :: t -> drop (n-1) t
let rec flist_of = function [] -> LNil | f :: t -> LCons (f, flist_of t)

(* ---------- libc atof (strtod on the longest valid prefix) and the double->float conversion, for the parser model *)
let n_of_int64 (x : int64) : n =
  let lo = Int64.to_int (Int64.logand x 0xFFFFFFFFL) and hi = Int64.to_int (Int64.shift_right_logical x 32) in
  let rec mul2 k v = if k = 0 then v else mul2 (k-1) (Flt_model.N.add v v) in
  Flt_model.N.add (mul2 32 (n_of_int hi)) (n_of_int lo)
let int64_of_n (v : n) : int64 =
  let rec of_pos = function XH -> 1L | XO p -> Int64.shift_left (of_pos p) 1 | XI p -> Int64.logor (Int64.shift_left (of_pos p) 1) 1L in
  match v with N0 -> 0L | Npos p -> of_pos p
let c_atof (chars : n list) : n =
  let s = Stdlib.String.init (List.length chars) (fun i -> Char.chr ((int_of_n (List.nth chars i)) land 255)) in
  let len = Stdlib.String.length s in
  let i = ref 0 in
  let isspace c = c = ' ' || (c >= '\t' && c <= '\r') in
  while !i < len && isspace s.[!i] do incr i done;
  let start = !i in
  if !i < len && (s.[!i] = '+' || s.[!i] = '-') then incr i;
  let lower_at k = if k < len then Char.lowercase_ascii s.[k] else '\000' in
  let isdig c = c >= '0' && c <= '9' in
  let ishex c = isdig c || (c >= 'a' && c <= 'f') || (c >= 'A' && c <= 'F') in
  let has w = let n = Stdlib.String.length w in let ok = ref (!i + n <= len) in
    if !ok then Stdlib.String.iteri (fun k c -> if lower_at (!i + k) <> c then ok := false) w; !ok in
  let text =
    if has "infinity" then (i := !i + 8; Some (Stdlib.String.sub s start (!i - start)))
    else if has "inf" then (i := !i + 3; Some (Stdlib.String.sub s start (!i - start)))
    else if has "nan" then (i := !i + 3; Some (Stdlib.String.sub s start (!i - start)))
    else if has "0x" && (!i + 2 < len) && (ishex s.[!i + 2] || (s.[!i + 2] = '.' && !i + 3 < len && ishex s.[!i + 3])) then begin
      i := !i + 2;
      while !i < len && ishex s.[!i] do incr i done;
      if !i < len && s.[!i] = '.' then (incr i; while !i < len && ishex s.[!i] do incr i done);
      if !i < len && (s.[!i] = 'p' || s.[!i] = 'P') then begin
        let j = ref (!i + 1) in
        if !j < len && (s.[!j] = '+' || s.[!j] = '-') then incr j;
        if !j < len && isdig s.[!j] then (while !j < len && isdig s.[!j] do incr j done; i := !j)
      end;
      Some (Stdlib.String.sub s start (!i - start))
    end else begin
      let d0 = !i in
      while !i < len && isdig s.[!i] do incr i done;
      let nd = !i - d0 in
      let nf = ref 0 in
      if !i < len && s.[!i] = '.' then begin
        let j = ref (!i + 1) in
        while !j < len && isdig s.[!j] do incr j done;
        nf := !j - !i - 1;
        if nd > 0 || !nf > 0 then i := !j
      end;
      if nd = 0 && !nf = 0 then None
      else begin
        if !i < len && (s.[!i] = 'e' || s.[!i] = 'E') then begin
          let j = ref (!i + 1) in
          if !j < len && (s.[!j] = '+' || s.[!j] = '-') then incr j;
          if !j < len && isdig s.[!j] then (while !j < len && isdig s.[!j] do incr j done; i := !j)
        end;
        Some (Stdlib.String.sub s start (!i - start))
      end
    end in
  let v = match text with
    | None -> 0.0
    | Some t -> (match float_of_string_opt t with Some f -> f | None -> 0.0) in
  n_of_int64 (Int64.bits_of_float v)
let c_d2f (x : n) : n =
  let f = Int64.float_of_bits (int64_of_n x) in
  n_of_int ((Int32.to_int (Int32.bits_of_float f)) land 0xFFFFFFFF)

let parse_expr : (byte list -> qfilter option) option ref = ref (Some (fun e -> Flt_model.parse_expr c_atof c_d2f e))

let () =
  let lines = Ocommon.read_lines () in
  List.iteri (fun k line ->
    match String.index_opt line '|' with
    | None -> ()
    | Some p ->
      let body = String.sub line (p+1) (String.length line - p - 1) in
      let ops = List.filter (fun s -> s <> "") (String.split_on_char ';' body) in
      let regs = Array.make 8 empty_msg in
      let stack : sobj list ref = ref [] in
      let vbuf = Buffer.create 64 in
      let node : (n * byte list) option ref = ref None in
      let st = Buffer.create 64 in
      let reg s = let r = int_of_string s in if r < 0 || r > 7 then failwith "bad register" else r in
      let apply r o = let (m', ok) = step regs.(r) o in regs.(r) <- m'; ok in
      let push f = stack := fresh f :: !stack; true in
      let regl () = Array.to_list regs in
      let bits_obj o = let (bs, o') = obj_eval_all !smatch !node o (regl ()) in (String.concat "" (List.map (fun b -> if b then "1" else "0") bs), o') in
      let pop_kids n = let ks = take n !stack in stack := drop n !stack; flist_of (List.rev_map so_filter ks) in
      List.iter (fun s ->
        let a = String.split_on_char ':' s in
        let ok =
          match a with
          | ["w"; r; w] -> apply (reg r) (OSetWhat (num w))
          | ["a"; r; name; t; hex] ->
              (match tc_of_letter t, item_of t hex with
               | Some tc, Some v ->
                   if String.length t > 1 && (int_of_n (elem_size (ftype_of_tc tc)) <> 0 || ftype_of_tc tc = TString || tc = tc_any) then false
                   else apply (reg r) (OAdd (false, bytes_of_hex name, tc, v))
               | _ -> false)
          | ["am"; r; name; s2] -> apply (reg r) (OAdd (false, bytes_of_hex name, tc_message, IMsg regs.(reg s2)))
          | ["nk"; r; cnt; what; fn] ->
              let wrap inner =
                let m0 = Msg (num what, FNil) in
                let m1 = if fn = "-" then m0 else fst (step m0 (OAdd (false, bytes_of_hex "666e", tc_string, IStr (bytes_of_hex fn)))) in
                fst (step m1 (OAdd (false, bytes_of_hex "6b6964", tc_message, IMsg inner))) in
              let rec go k m = if k <= 0 then m else go (k-1) (wrap m) in
              regs.(reg r) <- go (int_of_string cnt) regs.(reg r); true
          | ["n"; cnt; name] -> node := Some (num cnt, bytes_of_hex name); true
          | ["fw"; mn; mx] -> push (FWhat (num mn, num mx))
          | ["fe"; name; idx; tc] -> push (FExists (bytes_of_hex name, num idx, num tc))
          | ["fn"; t; name; idx; op; mop; v; m; d] ->
              (match nkind_of_letter t with
               | None -> false
               | Some kd ->
                   let w = width_of_kind kd in
                   let vb = bytes_of_hex v and mb = bytes_of_hex m in
                   let db = opt_hex d in
                   if List.length vb <> w || List.length mb <> w || (match db with Some x -> List.length x <> w | None -> false) then false
                   else push (FNum (kd, bytes_of_hex name, num idx, num8 op, num8 mop, norm_bool kd vb, norm_bool kd mb,
                                    (match db with Some x -> Some (norm_bool kd x) | None -> None))))
          | ["fs"; kd; name; idx; op; v; d] -> push (FStr (kd = "n", bytes_of_hex name, num idx, num8 op, bytes_of_hex v, opt_hex d))
          | ["fr"; name; idx; op; tc; v; d] ->
              if v = "" then false       (* an empty value buffer is outside the modelled domain *)
              else push (FRaw (bytes_of_hex name, num idx, num8 op, num tc, opt_hex v, opt_hex d))
          | ["fm"; name; idx; haskid; dreg] ->
              let kid = if haskid = "1" then (match !stack with k :: t -> stack := t; OSome (so_filter k) | [] -> ONone) else ONone in
              push (FMsg (bytes_of_hex name, num idx, kid, (if dreg = "-" then None else Some regs.(reg dreg))))
          | ["f&"; n; c] -> let ks = pop_kids (int_of_string c) in push (FMin (num n, ks))
          | ["f~"; n; c] -> let ks = pop_kids (int_of_string c) in push (FMax (num n, ks))
          | ["f^"; c] -> let ks = pop_kids (int_of_string c) in push (FXor ks)
          | ["ev"] ->
              (match !stack with
               | o :: t -> let (b, o') = bits_obj o in stack := o' :: t; Buffer.add_string vbuf (Printf.sprintf "%d V %s\n" k b); true
               | [] -> false)
          | ["sfa"] ->
              (match !stack with
               | g :: t :: rest ->
                   (match obj_set_from_archive t (to_archive (so_filter g)) with
                    | Ok o' -> stack := o' :: rest; true
                    | _ -> stack := rest; false)
               | _ -> false)
          | ["so"; op] ->
              (match !stack with
               | o :: t -> (match so_filter o with FStr _ -> stack := obj_set_operator o (num8 op) :: t; true | _ -> false)
               | [] -> false)
          | ["sv"; v] ->
              (match !stack with
               | o :: t -> (match so_filter o with FStr _ -> stack := obj_set_value o (bytes_of_hex v) :: t; true | _ -> false)
               | [] -> false)
          | ["h"; r] -> (match from_archive regs.(reg r) with Ok f -> push f | _ -> false)
          | ["e"; hex] ->
              (match !parse_expr with
               | None -> (match !stack with f :: _ -> push (so_filter f) | [] -> false)    (* no parser linked: the denoted tree itself *)
               | Some pf -> (match pf (bytes_of_hex hex) with Some f -> push f | None -> false))
          | _ -> failwith ("bad op " ^ s) in
        Buffer.add_char st (if ok then '1' else '0')) ops;
      Printf.printf "%d B %s\n" k (Buffer.contents st);
      print_string (Buffer.contents vbuf);
      (match !stack with
       | [] -> Printf.printf "%d F none\n" k
       | o :: _ ->
           let f = so_filter o in
           let bits g = String.concat "" (List.map (fun m -> if eval !smatch !node g m then "1" else "0") (Array.to_list regs)) in
           Printf.printf "%d F %s\n" k (desc_filter f);
           Printf.printf "%d D %s\n" k (fst (bits_obj o));
           let a = to_archive f in
           Printf.printf "%d A %s\n" k (desc_msg a);
           (match from_archive a with
            | Ok g -> Printf.printf "%d R ok %s %s\n" k (desc_filter g) (bits g)
            | Err -> Printf.printf "%d R err\n" k
            | Fuel -> Printf.printf "%d R fuel\n" k
            | Crash -> Printf.printf "%d R crash\n" k))
  ) lines
