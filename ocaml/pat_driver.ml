(* Driver for the extracted StringMatcher model (C15).
   stdin: one case per line   <head>|op;op;op      (see checks/c15.py for the op vocabulary)
   stdout: one line per case  k <result of op>;<result of op>;...
   With the argument --classify it prints instead, per case, the marker (S = the regex string is inside
   the Ere.v model, U = outside) of every pattern-setting op, then for the same ops whether the pattern
   (after an optional ~) is accepted by the reader of the documented wildcard grammar, Pat/SimpleParse.v
   (W), by the reader of the documented range-list form, Pat/RangeParse.v (R), or by neither (n):   k SSUS WnRW                                                                    *)
open Pat_model

let rec pos_of_int n = if n = 1 then XH else if n land 1 = 0 then XO (pos_of_int (n lsr 1)) else XI (pos_of_int (n lsr 1))
let n_of_int n = if n = 0 then N0 else Npos (pos_of_int n)
let rec int_of_nat = function O -> 0 | S n -> 1 + int_of_nat n
let rec int_of_pos = function XH -> 1 | XO p -> 2 * int_of_pos p | XI p -> 2 * int_of_pos p + 1
let int_of_n = function N0 -> 0 | Npos p -> int_of_pos p

let str_of_hex h = List.map n_of_int (Ocommon.bytes_of_hex h)
let hex_of_str s = Ocommon.hex_of_bytes (List.map int_of_n s)
let b01 b = if b then "1" else "0"

(* all strings over [alpha] of length <= n, shorter first, then in alphabet order *)
let enumerate (alpha : 'a list) (n : int) : 'a list list =
  let rec level k = if k = 0 then [[]] else
    let prev = level (k-1) in
    List.concat_map (fun c -> List.map (fun s -> c :: s) prev) alpha in
  List.concat (List.init (n+1) level)

let show_ranges rs = String.concat "," (List.map (fun (a,b) -> Printf.sprintf "%d-%d" (int_of_n a) (int_of_n b)) rs)

(* g: STRINGMATCHER_FLAG_REGEXVALID (not predicted while the regex is outside the Ere model) *)
let show_flags sup st =
  Printf.sprintf "g%s,n%s,x%s,v%s,q%s,s%s,r[%s],p%s" (if sup then b01 st.s_valid else "-") (b01 st.s_negate) (b01 st.s_multi) (b01 st.s_uvlist)
    (b01 (is_unique st)) (b01 st.s_simple) (show_ranges st.s_ranges) (hex_of_str st.s_pattern)

let show_static p =
  let (cw, only) = can_match_multiple p in
  Printf.sprintf "esc=%s,une=%s,tok=%s,cw=%s/%s" (hex_of_str (escape p)) (hex_of_str (unescape p))
    (b01 (has_regex_tokens p)) (b01 cw) (b01 only)

let classify = Array.length Sys.argv > 1 && Sys.argv.(1) = "--classify"

let () =
  let lines = Ocommon.read_lines () in
  List.iteri (fun k line ->
    match String.index_opt line '|' with
    | None -> ()
    | Some pz ->
      let body = String.sub line (pz+1) (String.length line - pz - 1) in
      let ops = List.filter (fun s -> s <> "") (String.split_on_char ';' body) in
      let st = ref sm_init in
      let sup = ref true in        (* is the current regex inside the Ere model *)
      let out = Buffer.create 256 in
      let marks = Buffer.create 16 in
      let gram = Buffer.create 16 in
      let in_grammar (p : n list) (simple : bool) =
        let body = match p with c :: t when int_of_n c = 126 -> t | _ -> p in
        Buffer.add_char gram (if simple && sparse body <> None then 'W' else if simple && read_ranges p <> None then 'R' else 'n') in
      let bad_marker = ref false in
      let add s = Buffer.add_string out s; Buffer.add_char out ';' in
      let set_pat_op (prior : sm) (p : n list) (simple : bool) (marker : string) (tag : string) =
        let s_ok = regex_supported p simple in
        Buffer.add_char marks (if s_ok then 'S' else 'U');
        if classify then in_grammar p simple;
        if not classify && (marker <> (if s_ok then "S" else "U")) then bad_marker := true;
        let (st', ok) = set_pattern ere_engine prior p simple in
        st := st'; sup := s_ok;
        add (Printf.sprintf "%s=%s,%s,%s" tag (if not s_ok then "U" else if ok then "ok" else "err")
               (show_flags s_ok st') (show_static p)) in
      List.iter (fun op ->
        match String.split_on_char ':' op with
        | ["sp"; h; m] -> set_pat_op !st (str_of_hex h) true m "sp"
        | ["sr"; h; m] -> set_pat_op !st (str_of_hex h) false m "sr"
        | ["ep"; h; m] -> set_pat_op !st (escape (str_of_hex h)) true m "ep"
        | ["pl"; h; si; m] -> set_pat_op (sm_recycle ere_engine !st) (str_of_hex h) (si = "1") m "pl"
        | ["as"; h; si; ng; m] ->
            (* StringMatcher tmp(p, simple); tmp.SetNegate(ng); cur = tmp; *)
            let p = str_of_hex h in
            let s_ok = regex_supported p (si = "1") in
            Buffer.add_char marks (if s_ok then 'S' else 'U');
            if classify then in_grammar p (si = "1");
            if not classify && (m <> (if s_ok then "S" else "U")) then bad_marker := true;
            let (tmp, _) = set_pattern ere_engine sm_init p (si = "1") in
            let tmp = set_negate tmp (ng = "1") in
            st := sm_assign ere_engine !st tmp; sup := s_ok;
            add (Printf.sprintf "as=%s" (show_flags !sup !st))
        | ["sg"; h; si; pre; hs; m] ->
            (* SegmentedStringMatcher g(p, simple, "/"); g.Match(subject, prefixOk) *)
            let p = str_of_hex h and simple = (si = "1") in
            let s_ok = seg_supported p simple in
            Buffer.add_char marks (if s_ok then 'S' else 'U');
            if classify then Buffer.add_char gram 'n';
            if not classify && (m <> (if s_ok then "S" else "U")) then bad_marker := true;
            if not s_ok then add "sg=U" else begin
              let (g, ok) = seg_set_pattern ere_engine p simple in
              add (Printf.sprintf "sg=%s,n%s,q%s,k%d,m%s" (if ok then "ok" else "err") (b01 g.g_negate) (b01 (seg_unique g))
                     (List.length g.g_segs) (b01 (seg_match g (str_of_hex hs) (pre = "1"))))
            end
        | ["pm"; h; hs; m] ->
            (* PathMatcher pm; pm.PutPathString(p); pm.MatchesPath(subject) *)
            let p = str_of_hex h in
            let s_ok = path_supported p in
            Buffer.add_char marks (if s_ok then 'S' else 'U');
            if classify then Buffer.add_char gram 'n';
            if not classify && (m <> (if s_ok then "S" else "U")) then bad_marker := true;
            let d = int_of_nat (path_depth (str_of_hex hs)) in
            if not s_ok then add "pm=U" else begin
              match path_put ere_engine p with
              | Some ms -> add (Printf.sprintf "pm=ok,k%d,d%d,m%s" (List.length ms) d (b01 (path_matches ms (str_of_hex hs))))
              | None -> add (Printf.sprintf "pm=err,k0,d%d,m0" d)
            end
        | ["ng"; b] -> st := set_negate !st (b = "1"); add (Printf.sprintf "ng=%s" (show_flags !sup !st))
        | ["rs"] -> st := sm_reset !st; sup := true; add (Printf.sprintf "rs=%s" (show_flags !sup !st))
        | ["m"; h] ->
            add (if !sup then "m=" ^ b01 (matches !st (str_of_hex h)) else "m=-")
        | ["e"; ha; n] ->
            if !sup then begin
              let subs = enumerate (str_of_hex ha) (int_of_string n) in
              let b = Buffer.create 64 in
              List.iter (fun s -> Buffer.add_string b (b01 (matches !st s))) subs;
              add ("e=" ^ Buffer.contents b)
            end else add "e=-"
        | _ -> add ("?" ^ op)) ops;
      if classify then Printf.printf "%d %s %s\n" k (Buffer.contents marks) (Buffer.contents gram)
      else begin
        Printf.printf "%d %s\n" k (Buffer.contents out);
        if !bad_marker then Printf.printf "%d ORACLE FAIL marker-mismatch (case line claims a different Ere-support class than the model computes)\n" k
      end
  ) lines
