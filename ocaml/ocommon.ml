(* helpers shared by the OCaml drivers: conversions between OCaml ints/strings and the
   extracted inductive numbers.  Each driver #includes nothing; this file is linked first. *)
let split_on c s = String.split_on_char c s
let read_lines () =
  let rec go acc = match input_line stdin with
    | l -> go (l :: acc)
    | exception End_of_file -> List.rev acc in
  go []
let hex_of_bytes (b : int list) = String.concat "" (List.map (Printf.sprintf "%02x") b)
let bytes_of_hex (s : string) =
  let n = String.length s / 2 in
  List.init n (fun i -> int_of_string ("0x" ^ String.sub s (2*i) 2))
