(* Driver for the extracted Queue model (C16): reads one case per line, prints one line.
   Case kinds: "T|ops" / "O|ops"   one queue of trivial / owning items (model step1 vs ideal step0)
               "T2|ops" / "O2|ops" two queues A and B (model step2 vs ideal step20) *)
open Queue_model

let nat_of_int n = let rec go acc k = if k <= 0 then acc else go (S acc) (k-1) in go O n
let rec int_of_nat = function O -> 0 | S n -> 1 + int_of_nat n
let rec pos_of_int n = if n = 1 then XH else if n land 1 = 0 then XO (pos_of_int (n lsr 1)) else XI (pos_of_int (n lsr 1))
let z_of_int n = if n = 0 then Z0 else if n > 0 then Zpos (pos_of_int n) else Zneg (pos_of_int (-n))
let rec int_of_pos = function XH -> 1 | XO p -> 2 * int_of_pos p | XI p -> 2 * int_of_pos p + 1
let int_of_z = function Z0 -> 0 | Zpos p -> int_of_pos p | Zneg p -> - (int_of_pos p)

let ints s = if s = "" then [] else List.map int_of_string (String.split_on_char ',' s)
let zs s = List.map z_of_int (ints s)
let b s = s = "1"
let n s = nat_of_int (int_of_string s)
let nn s = let k = int_of_string s in if k = 0 then N0 else Npos (pos_of_int k)   (* uint32 arguments stay binary *)

let parse_op (s : string) : op =
  match String.split_on_char ':' s with
  | ["at"; x] -> OAddTail (z_of_int (int_of_string x))
  | ["ah"; x] -> OAddHead (z_of_int (int_of_string x))
  | ["rh"] -> ORemoveHead
  | ["rt"] -> ORemoveTail
  | ["rhm"; k] -> ORemoveHeadMulti (n k)
  | ["rtm"; k] -> ORemoveTailMulti (n k)
  | ["ra"; i] -> ORemoveAt (n i)
  | ["ia"; i; x] -> OInsertAt (n i, z_of_int (int_of_string x))
  | ["rp"; i; x] -> OReplaceAt (n i, z_of_int (int_of_string x))
  | ["g"; i] -> OGet (n i)
  | ["cl"; r] -> OClear (b r)
  | ["es"; k; s; e; sh] -> OEnsure (nn k, b s, nn e, b sh)
  | ["sw"; i; j] -> OSwap (n i, n j)
  | ["rv"; f; t] -> OReverse (n f, n t)
  | ["nm"] -> ONormalize
  | ["io"; x; f; t] -> OIndexOf (z_of_int (int_of_string x), n f, n t)
  | ["lo"; x; f; t] -> OLastIndexOf (z_of_int (int_of_string x), n f, n t)
  | ["atm"; xs] -> OAddTailMulti (zs xs)
  | ["ahm"; xs] -> OAddHeadMulti (zs xs)
  | ["iia"; i; xs] -> OInsertItemsAt (n i, zs xs)
  | ["cf"; xs] -> OCopyFrom (zs xs)
  | ["rfi"; x] -> ORemoveFirstInstance (z_of_int (int_of_string x))
  | ["rli"; x] -> ORemoveLastInstance (z_of_int (int_of_string x))
  | ["rai"; x] -> ORemoveAllInstances (z_of_int (int_of_string x))
  | ["so"; k; f; t] -> OSort (b k, n f, n t)
  | ["it"; s; d] -> OIterate (n s, z_of_int (int_of_string d))
  | ["rsd"] -> ORemoveSortedDups
  | ["rd"] -> ORemoveDups
  | ["isp"; x] -> OInsertSorted (z_of_int (int_of_string x))
  | ["atr"; i] -> OAddTailRef (n i)
  | ["ahr"; i] -> OAddHeadRef (n i)
  | ["iar"; idx; i] -> OInsertAtRef (n idx, n i)
  | ["rpr"; idx; i] -> OReplaceRef (n idx, n i)
  | ["rar"; i] -> ORemoveAllRef (n i)
  | ["stf"; e] -> OShrinkToFit (nn e)
  | ["eca"; k] -> OEnsureCanAdd (nn k)
  | ["rpa"; x] -> OReplaceAll (z_of_int (int_of_string x))
  | ["gap"] -> OPieces
  | ["adp"; xs; sp] -> OAdopt (zs xs, zs sp)
  | ["rel"] -> ORelease
  | _ -> failwith ("bad op " ^ s)

(* two-queue cases: "b.<op>" = single-queue op on B, "<op>" on A; binary ops name [this] by 0 (A) / 1 (B) *)
let parse_op2 (s : string) : op2 =
  if String.length s > 2 && String.sub s 0 2 = "b." then OOn (true, parse_op (String.sub s 2 (String.length s - 2)))
  else match String.split_on_char ':' s with
  | ["sc"; t] -> OSwapContents (b t)
  | ["pl"; t] -> OPlunder (b t)
  | ["cq"; t] -> OCopyFromQ (b t)
  | ["as"; t] -> OAssign (b t)
  | ["eq"] -> OEqual
  | ["stw"; t] -> OStartsWith (b t)
  | ["enw"; t] -> OEndsWith (b t)
  | ["atq"; t; self; st; nm] -> OAddTailMultiQ (b t, b self, n st, n nm)
  | ["ahq"; t; self; st; nm] -> OAddHeadMultiQ (b t, b self, n st, n nm)
  | ["iiq"; t; self; i; st; nm] -> OInsertItemsAtQ (b t, b self, n i, n st, n nm)
  | ["cmp"; t] -> OCompare (b t)
  | _ -> OOn (false, parse_op s)

let show_out = function
  | OStatus true -> "ok" | OStatus false -> "err"
  | OVal None -> "none" | OVal (Some v) -> "v" ^ string_of_int (int_of_z v)
  | ONum n -> "n" ^ string_of_int (int_of_nat n)
  | OIdx None -> "i-1" | OIdx (Some i) -> "i" ^ string_of_int (int_of_nat i)
  | ONone -> "-"
  | OList l -> "l" ^ String.concat "," (List.map (fun z -> string_of_int (int_of_z z)) l)

(* what fresh memory holds in the harness: ASan fills new allocations with 0xbe bytes and the harness constructs its
   Queues inside buffers filled the same way, so the raw slots of trivial items can be compared exactly as well *)
let jk = z_of_int (-1094795586)

(* ReleaseRawDataArray: the array handed out is printed behind the result *)
let extra owning (q : q1) = function
  | ORelease -> "r" ^ String.concat "," (List.map (fun z -> string_of_int (int_of_z z)) (snd (release owning jk q)))
  | _ -> ""

let zl l = String.concat "," (List.map (fun z -> string_of_int (int_of_z z)) l)

(* kind/count/head/tail/slots/[items]/{raw slots}<inactive in-object array> *)
let show_state owning (q : q1) =
  let c = int_of_nat q.cnt in
  let stv = match q.st with SNull -> "N" | SSmall -> "S" | SHeap -> "H" in
  let raw = zl q.arr in
  let inl = if q.st <> SSmall then zl q.inl else "" in
  Printf.sprintf "%s/%d/%s/%s/%d/[%s]/{%s}<%s>" stv c
    (if c = 0 then "_" else string_of_int (int_of_nat q.head))
    (if c = 0 then "_" else string_of_int (int_of_nat q.tail))
    (int_of_nat (qsize q)) (zl (abs q)) raw inl

let () =
  let lines = Ocommon.read_lines () in
  List.iteri (fun k line ->
    match String.index_opt line '|' with
    | None -> ()
    | Some p ->
      let kind = String.sub line 0 p in
      let body = String.sub line (p+1) (String.length line - p - 1) in
      let owning = (kind = "O" || kind = "O2") in
      let two = (kind = "T2" || kind = "O2") in
      let ops = List.filter (fun s -> s <> "") (String.split_on_char ';' body) in
      let buf = Buffer.create 256 in
      let ok0 = ref true in
      let e = empty_q owning jk small_queue_size in
      if not two then begin
        let q = ref e and l = ref [] in
        List.iter (fun s ->
          let o = parse_op s in
          let (q', r) = step1 owning jk small_queue_size !q o in
          let (l', r0) = step0 !l o in
          l := l';
          if r <> r0 || List.map int_of_z (abs q') <> List.map int_of_z l' then ok0 := false;
          Buffer.add_string buf (show_out r); Buffer.add_string buf (extra owning !q o); Buffer.add_char buf ' ';
          Buffer.add_string buf (show_state owning q'); Buffer.add_char buf ';';
          q := q') ops
      end else begin
        let p = ref (e, e) and l = ref ([], []) in
        List.iter (fun s ->
          let o = parse_op2 s in
          let ((a', b'), r) = step2 owning jk small_queue_size !p o in
          let ((la, lb), r0) = step20 !l o in
          l := (la, lb);
          if r <> r0 || List.map int_of_z (abs a') <> List.map int_of_z la
                     || List.map int_of_z (abs b') <> List.map int_of_z lb then ok0 := false;
          Buffer.add_string buf (show_out r);
          (match o with OOn (bb, o1) -> Buffer.add_string buf (extra owning (if bb then snd !p else fst !p) o1) | _ -> ());
          Buffer.add_char buf ' ';
          Buffer.add_string buf (show_state owning a'); Buffer.add_char buf '|';
          Buffer.add_string buf (show_state owning b'); Buffer.add_char buf ';';
          p := (a', b')) ops
      end;
      Printf.printf "%d %s\n" k (Buffer.contents buf);
      if not !ok0 then Printf.printf "%d ORACLE FAIL model L1 deviates from L0 (refinement broken in the model itself)\n" k
  ) lines
