(* Driver for the extracted Queue model (C16): reads one case per line, prints one line. *)
open Queue_model

let nat_of_int n = let rec go acc k = if k <= 0 then acc else go (S acc) (k-1) in go O n
let rec int_of_nat = function O -> 0 | S n -> 1 + int_of_nat n
let rec pos_of_int n = if n = 1 then XH else if n land 1 = 0 then XO (pos_of_int (n lsr 1)) else XI (pos_of_int (n lsr 1))
let z_of_int n = if n = 0 then Z0 else if n > 0 then Zpos (pos_of_int n) else Zneg (pos_of_int (-n))
let rec int_of_pos = function XH -> 1 | XO p -> 2 * int_of_pos p | XI p -> 2 * int_of_pos p + 1
let int_of_z = function Z0 -> 0 | Zpos p -> int_of_pos p | Zneg p -> - (int_of_pos p)

let ints s = if s = "" then [] else List.map int_of_string (String.split_on_char ',' s)
let zs s = List.map z_of_int (ints s)
let b s = s = "1"

let parse_op (s : string) : op =
  match String.split_on_char ':' s with
  | ["at"; x] -> OAddTail (z_of_int (int_of_string x))
  | ["ah"; x] -> OAddHead (z_of_int (int_of_string x))
  | ["rh"] -> ORemoveHead
  | ["rt"] -> ORemoveTail
  | ["rhm"; n] -> ORemoveHeadMulti (nat_of_int (int_of_string n))
  | ["rtm"; n] -> ORemoveTailMulti (nat_of_int (int_of_string n))
  | ["ra"; i] -> ORemoveAt (nat_of_int (int_of_string i))
  | ["ia"; i; x] -> OInsertAt (nat_of_int (int_of_string i), z_of_int (int_of_string x))
  | ["rp"; i; x] -> OReplaceAt (nat_of_int (int_of_string i), z_of_int (int_of_string x))
  | ["g"; i] -> OGet (nat_of_int (int_of_string i))
  | ["cl"; r] -> OClear (b r)
  | ["es"; n; s; e; sh] -> OEnsure (nat_of_int (int_of_string n), b s, nat_of_int (int_of_string e), b sh)
  | ["sw"; i; j] -> OSwap (nat_of_int (int_of_string i), nat_of_int (int_of_string j))
  | ["rv"; f; t] -> OReverse (nat_of_int (int_of_string f), nat_of_int (int_of_string t))
  | ["nm"] -> ONormalize
  | ["io"; x; f; t] -> OIndexOf (z_of_int (int_of_string x), nat_of_int (int_of_string f), nat_of_int (int_of_string t))
  | ["lo"; x; f; t] -> OLastIndexOf (z_of_int (int_of_string x), nat_of_int (int_of_string f), nat_of_int (int_of_string t))
  | ["atm"; xs] -> OAddTailMulti (zs xs)
  | ["ahm"; xs] -> OAddHeadMulti (zs xs)
  | ["iia"; i; xs] -> OInsertItemsAt (nat_of_int (int_of_string i), zs xs)
  | ["cf"; xs] -> OCopyFrom (zs xs)
  | ["rfi"; x] -> ORemoveFirstInstance (z_of_int (int_of_string x))
  | ["rli"; x] -> ORemoveLastInstance (z_of_int (int_of_string x))
  | ["rai"; x] -> ORemoveAllInstances (z_of_int (int_of_string x))
  | _ -> failwith ("bad op " ^ s)

let show_out = function
  | OStatus true -> "ok" | OStatus false -> "err"
  | OVal None -> "none" | OVal (Some v) -> "v" ^ string_of_int (int_of_z v)
  | ONum n -> "n" ^ string_of_int (int_of_nat n)
  | OIdx None -> "i-1" | OIdx (Some i) -> "i" ^ string_of_int (int_of_nat i)
  | ONone -> "-"

let jk = z_of_int (-777)

let show_state owning (q : q1) =
  let items = List.map int_of_z (abs q) in
  let c = int_of_nat q.cnt in
  let stv = match q.st with SNull -> "N" | SSmall -> "S" | SHeap -> "H" in
  let raw = if owning then String.concat "," (List.map (fun z -> string_of_int (int_of_z z)) q.arr) else "" in
  Printf.sprintf "%s/%d/%s/%s/%d/[%s]/{%s}" stv c
    (if c = 0 then "_" else string_of_int (int_of_nat q.head))
    (if c = 0 then "_" else string_of_int (int_of_nat q.tail))
    (int_of_nat (qsize q))
    (String.concat "," (List.map string_of_int items)) raw

let () =
  let lines = Ocommon.read_lines () in
  List.iteri (fun k line ->
    match String.index_opt line '|' with
    | None -> ()
    | Some p ->
      let kind = String.sub line 0 p in
      let body = String.sub line (p+1) (String.length line - p - 1) in
      let owning = (kind = "O") in
      let ops = List.filter (fun s -> s <> "") (String.split_on_char ';' body) in
      let buf = Buffer.create 256 in
      let q = ref empty_q and l = ref [] in
      let ok0 = ref true in
      List.iter (fun s ->
        let o = parse_op s in
        let (q', r) = step1 owning jk small_queue_size !q o in
        let (l', r0) = step0 !l o in
        q := q'; l := l';
        if r <> r0 || List.map int_of_z (abs q') <> List.map int_of_z l' then ok0 := false;
        Buffer.add_string buf (show_out r); Buffer.add_char buf ' ';
        Buffer.add_string buf (show_state owning q'); Buffer.add_char buf ';') ops;
      Printf.printf "%d %s\n" k (Buffer.contents buf);
      if not !ok0 then Printf.printf "%d ORACLE FAIL model L1 deviates from L0 (refinement broken in the model itself)\n" k
  ) lines
