(* Driver for the extracted C02 models: reads one case per line (same format as harness/parse_h.cpp) and prints
   the same canonical text for the targets the model covers (msg, tmsg, nest, gw,mio in stream mode); `k -` for the
   targets that are sanitizer/oracle-only.  With C02_METER set it also prints `# k model alloc=.. maxacc=.. depth=..`
   lines (ignored by the correspondence, used by the allocation cross-check of checks/c02.py). *)
module P = Parse_model

let rec pos_of_int n = if n = 1 then P.XH else if n land 1 = 0 then P.XO (pos_of_int (n lsr 1)) else P.XI (pos_of_int (n lsr 1))
let n_of_int n = if n <= 0 then P.N0 else P.Npos (pos_of_int n)
let rec int_of_pos = function P.XH -> 1 | P.XO p -> 2 * int_of_pos p | P.XI p -> 2 * int_of_pos p + 1
let int_of_n = function P.N0 -> 0 | P.Npos p -> int_of_pos p
let rec nat_of_int n = let rec go acc k = if k <= 0 then acc else go (P.S acc) (k-1) in go P.O n
let byte_tab = Array.init 256 (fun i -> P.byte_of_N (n_of_int i))
let int_of_byte b = int_of_n (P.n_of_byte b)

let bytes_of_hex (s : string) : P.byte list =
  let n = String.length s / 2 in
  let rec go i acc = if i < 0 then acc else go (i-1) (byte_tab.(int_of_string ("0x" ^ String.sub s (2*i) 2)) :: acc) in
  go (n-1) []
let hex_of_bytes (b : P.byte list) : string =
  let buf = Buffer.create 64 in
  List.iter (fun x -> Buffer.add_string buf (Printf.sprintf "%02x" (int_of_byte x))) b;
  Buffer.contents buf

let le32 (x : int) : P.byte list = List.map (fun i -> byte_tab.((x lsr (8*i)) land 255)) [0;1;2;3]

let rec dump_msg buf (m : P.msg) =
  let P.Msg (what, fs) = m in
  Buffer.add_string buf (string_of_int (int_of_n what)); Buffer.add_char buf '{';
  let first = ref true in
  let rec go = function
    | P.FNil -> ()
    | P.FCons (name, tc, r, rest) ->
        if not !first then Buffer.add_char buf ';'; first := false;
        let (st, its) = match r with P.RInline i -> ("I", P.ICons (i, P.INil)) | P.RArray l -> ("A", l) in
        Buffer.add_string buf (hex_of_bytes name);
        Buffer.add_string buf (Printf.sprintf ":%d:%s:%d[" (int_of_n tc) st (int_of_n (P.items_len its)));
        let fi = ref true in
        let rec gi = function
          | P.INil -> ()
          | P.ICons (i, t) ->
              if not !fi then Buffer.add_char buf ','; fi := false;
              (match i with
               | P.IFix b | P.IStr b | P.IRaw b -> Buffer.add_string buf (hex_of_bytes b)
               | P.IMsg sm -> Buffer.add_char buf '('; dump_msg buf sm; Buffer.add_char buf ')'
               | P.IOpaque _ -> Buffer.add_char buf '?');
              gi t in
        gi its;
        Buffer.add_char buf ']';
        go rest in
  go fs;
  Buffer.add_char buf '}'

let dump m = let b = Buffer.create 256 in dump_msg b m; Buffer.contents b

let meter = (try ignore (Sys.getenv "C02_METER"); true with Not_found -> false)
let meter_line k what (x : (('a P.res * P.rdr) * P.log)) total =
  if meter then begin
    let maxacc = List.fold_left (fun a (o, l) -> max a (int_of_n o + int_of_n l)) 0 (P.accesses x) in
    Printf.printf "# %d model %s alloc=%d maxacc=%d depth=%d ub=%d len=%d\n" k what (int_of_n (P.allocated x)) maxacc
      (int_of_n (P.depth_reached x)) (int_of_n (P.ub_events x)) total
  end

let run_msg k (bs : P.byte list) =
  let x = P.unflatten_i bs P.fixed in
  (match P.result_of x with
   | P.Ok m -> Printf.printf "%d ok c=%d %s\n" k (int_of_n (P.consumed x)) (dump m)
   | P.Err -> Printf.printf "%d err\n" k
   | P.Fuel -> Printf.printf "%d MODEL-OUT-OF-FUEL\n" k
   | P.Crash -> Printf.printf "%d MODEL-CRASH\n" k);
  meter_line k "msg" x (List.length bs)

let run_tmsg k (tb : P.byte list) (bs : P.byte list) =
  match P.result_of (P.unflatten_i tb P.fixed) with
  | P.Ok tm ->
      let x = P.tunflatten_i bs P.fixed tm in
      (match P.result_of x with
       | P.Ok m -> Printf.printf "%d ok c=%d %s\n" k (int_of_n (P.consumed x)) (dump m)
       | P.Err -> Printf.printf "%d err\n" k
       | P.Fuel -> Printf.printf "%d MODEL-OUT-OF-FUEL\n" k
       | P.Crash -> Printf.printf "%d MODEL-CRASH\n" k);
      meter_line k "tmsg" x (List.length bs)
  | _ -> Printf.printf "%d badtemplate\n" k

let build_nest depth claim (inner0 : P.byte list) : P.byte list =
  let pv = int_of_n P.proto_version and mt = int_of_n P.msg_type_code in
  let inner = if inner0 = [] then le32 pv @ le32 0 @ le32 0 else inner0 in
  let il = List.length inner in
  let rec go d acc =   (* builds from the innermost level outwards: acc is the Message nested at level d-1 *)
    if d > depth then acc else begin
      let sub = il + 30 * (d-1) in
      let body = 4+2+4+4+4+sub in
      let hdr = le32 pv @ le32 (d-1) @ le32 (if claim then body/12 else 1)
                @ le32 2 @ [byte_tab.(Char.code 'a'); byte_tab.(0)] @ le32 mt @ le32 (4+sub) @ le32 sub in
      go (d+1) (hdr @ acc)
    end in
  go 1 inner

let run_gw_mio k (maxin : P.n) (segs : P.byte list list) =
  let st = ref P.g_init and lg = ref P.glog0 in
  let delivered = ref 0 in
  if segs = [] then Printf.printf "%d s- n=0\n" k;
  List.iteri (fun i seg ->
    match P.feed_segment true maxin (P.gw_unflat P.fixed) !st !lg seg with
    | None -> Printf.printf "%d MODEL-OUT-OF-FUEL\n" k
    | Some ((st1, lg1), rest) ->
        let before = List.length (!lg).P.gl_msgs in
        let newm = List.filteri (fun j _ -> j >= before) lg1.P.gl_msgs in
        List.iter (fun b ->
          (match P.gw_parse P.fixed b with
           | P.Ok m -> Printf.printf "%d m %s\n" k (dump m)
           | _ -> Printf.printf "%d m ?\n" k);
          incr delivered) newm;
        let cons = List.length seg - List.length rest in
        let (cap, off) = match st1.P.g_cap with
          | Some c -> (string_of_int (int_of_n c), string_of_int (int_of_n st1.P.g_off))
          | None -> ("-", "-") in
        Printf.printf "%d s%d cons=%d cap=%s off=%s err=%d n=%d\n" k i cons cap off (if st1.P.g_err then 1 else 0) !delivered;
        st := st1; lg := lg1) segs

let () =
  let lines = Ocommon.read_lines () in
  List.iteri (fun k line ->
    (match String.index_opt line '|' with
     | None -> Printf.printf "%d badcase\n" k
     | Some p ->
         let head = String.split_on_char ',' (String.sub line 0 p) in
         let body = String.sub line (p+1) (String.length line - p - 1) in
         let chunks = List.filter (fun s -> s <> "") (String.split_on_char ';' body) in
         let segs = List.map bytes_of_hex chunks in
         let all = List.concat segs in
         (match head with
          | "msg" :: _ -> run_msg k all
          | "tmsg" :: t :: _ -> run_tmsg k (bytes_of_hex t) all
          | "tmsg" :: [] -> run_tmsg k [] all
          | "nest" :: d :: rest ->
              let depth = int_of_string d in
              let claim = (match rest with c :: _ -> c <> "0" | [] -> false) in
              if depth > 2000 then Printf.printf "%d too-deep-for-the-model-driver\n" k
              else run_msg k (build_nest depth claim all)
          | "gw" :: "mio" :: rest ->
              let maxin = (match rest with m :: _ when m <> "n" && m <> "" -> n_of_int (int_of_string m) | _ -> P.nolim) in
              let pkt = (match rest with _ :: mtu :: _ when mtu <> "" && mtu <> "0" -> true | _ -> false) in
              if pkt then Printf.printf "%d -\n" k else run_gw_mio k maxin segs
          | _ -> Printf.printf "%d -\n" k));
    flush stdout) lines
