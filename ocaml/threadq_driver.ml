(* Driver for the extracted Thread messaging LTS (C11).  Reads the same case lines as harness/threadq_h.cpp and prints
   the same trace text: it re-derives every scheduling decision (explicit schedule entries that are not enabled are
   skipped; then the seeded RANDOM policy or the NONPREEMPTIVE policy of harness/sched) from the model's own
   enabledness, runs the chosen thread of the LTS from its decision point to its next one and prints what the steps
   show (signals, state dumps, parking, wake-ups, thread creation / exit / join, API results).  Any difference in
   enabledness, state or result therefore shows up in the diff. *)
open Threadq_model

let nat_of_int n = let rec go acc k = if k <= 0 then acc else go (S acc) (k-1) in go O n
let int_of_nat n = let rec go acc = function O -> acc | S m -> go (acc+1) m in go 0 n
let rec int_of_pos = function XH -> 1 | XO p -> 2 * int_of_pos p | XI p -> 2 * int_of_pos p + 1
let int_of_n = function N0 -> 0 | Npos p -> int_of_pos p

type case = { sockets : bool; evd : bool; fine : bool; free : bool; n : int; seed : int64 option; sched : (int * bool) list; prog : op list array }

let parse_choice s =
  let l = String.length s in
  if l > 0 && s.[l-1] = '!' then (int_of_string (String.sub s 0 (l-1)), true) else (int_of_string s, false)

let parse_num s =
  let l = String.length s in
  if l = 0 || l > 6 then failwith "num";
  String.iter (fun c -> if c < '0' || c > '9' then failwith "num") s;
  int_of_string s

let parse_id s = let v = parse_num s in if v > 999 then failwith "id" else v

let parse_op s =
  let l = String.length s in
  if l > 3 && String.sub s 0 3 = "si:" then OSend (CI, Some (nat_of_int (parse_id (String.sub s 3 (l-3)))))
  else if l > 3 && String.sub s 0 3 = "so:" then OSend (CO, Some (nat_of_int (parse_id (String.sub s 3 (l-3)))))
  else match s with
    | "sin" -> OSend (CI, None) | "son" -> OSend (CO, None)
    | "rp" -> ORecv WPoll | "rn" -> ORecv WNever | "rt" -> ORecv WTimed
    | "ur" -> OUser UReg | "uu" -> OUser UUnreg | "up" -> OUser UPing | "ue" -> OUser UEat
    | "st" -> OStart | "sd0" -> OShutdown false | "sd1" -> OShutdown true | "jn" -> OJoin | "gs" -> OGetSock
    | _ -> failwith ("bad op " ^ s)

let parse_case line =
  match String.index_opt line '|' with
  | None -> None
  | Some p ->
    (try
      let head = String.sub line 0 p and body = String.sub line (p+1) (String.length line - p - 1) in
      let sockets = ref true and evd = ref false and fine = ref false and free = ref false and n = ref 0 and seed = ref None and sched = ref [] in
      List.iter (fun h ->
        let l = String.length h in
        if l >= 2 && String.sub h 0 2 = "m=" then (if h = "m=s" then sockets := true else if h = "m=w" then sockets := false else failwith "mode")
        else if l >= 2 && String.sub h 0 2 = "k=" then (if h = "k=d" then evd := false else if h = "k=e" then evd := true else failwith "kind")
        else if l >= 2 && String.sub h 0 2 = "f=" then (if h = "f=1" then fine := true else if h = "f=2" then free := true else if h <> "f=0" then failwith "fine")
        else if l >= 2 && String.sub h 0 2 = "n=" then n := int_of_string (String.sub h 2 (l-2))
        else if l >= 5 && String.sub h 0 5 = "seed=" then (if l > 5 && h.[5] <> '-' then seed := Some (Int64.of_string ("0u" ^ String.sub h 5 (l-5))))
        else if l >= 4 && String.sub h 0 4 = "sch=" then
          sched := List.map parse_choice (List.filter (fun x -> x <> "") (String.split_on_char '.' (String.sub h 4 (l-4)))))
        (String.split_on_char ',' head);
      let toks = List.filter (fun x -> x <> "") (String.split_on_char ';' body) in
      let toks = List.map (fun tk -> match String.index_opt tk ':' with
          | None -> failwith "tok"
          | Some c -> (parse_num (String.sub tk 0 c), parse_op (String.sub tk (c+1) (String.length tk - c - 1)))) toks in
      List.iter (fun (t, o) ->
        if t > 15 then failwith "tid";
        (match o with OSend _ | OUser UPing -> () | _ -> if t <> 0 then failwith "owner-only")) toks;
      let maxt = List.fold_left (fun m (t, _) -> max m t) (-1) toks in
      let n = max 1 (max !n (maxt+1)) in
      if n > 16 then failwith "n";
      if !evd && not !sockets then failwith "event-driven needs sockets";
      if !free && n <> 1 then failwith "free runs have one thread";
      let prog = Array.make n [] in
      List.iter (fun (t, o) -> prog.(t) <- prog.(t) @ [o]) toks;
      Some { sockets = !sockets; evd = !evd; fine = !fine; free = !free; n; seed = !seed; sched = !sched; prog }
    with _ -> None)

(* the subclass's reaction to Message <id>: the same function as react() in harness/threadq_h.cpp *)
let react (x : nat) : (chanid * msg) list * bool =
  let id = int_of_nat x in
  let r j = (CO, Some (nat_of_int (1000 + id*10 + j))) in
  match id mod 8 with
  | 1 -> ([(CI, Some (nat_of_int (2000 + id*8)))], false)      (* to itself *)
  | 2 -> ([r 0], false)
  | 3 -> ([r 0; r 1], false)
  | 4 -> ([r 0], true)
  | 5 -> ([], true)
  | 6 -> ([(CO, None)], false)
  | 7 -> ([r 0; r 1; r 2], false)
  | _ -> ([], false)

let choice_text (t, to_) = string_of_int t ^ (if to_ then "!" else "")
let msg_text = function None -> "-" | Some x -> string_of_int (int_of_nat x)
let chan_text = function CI -> "i" | CO -> "o"
let b01 b = if b then "1" else "0"

let dump (g : gst) =
  let c x = Printf.sprintf "%s/%d/%d" (String.concat "," (List.map msg_text x.c_q)) (int_of_nat x.c_sig) (int_of_n x.c_wc) in
  Printf.sprintf "{a%sr%so%s|%s|%s|u%s,%d,%s}" (b01 g.g_alloc) (b01 g.g_running) (b01 g.g_iopen) (c g.g_ci) (c g.g_co)
    (b01 g.g_usr.u_reg) (int_of_nat g.g_usr.u_bytes) (b01 g.g_usr.u_flag)

let res_text = function
  | ROk -> "ok" | RMsg (m, l) -> Printf.sprintf "m%s/%d" (msg_text m) (int_of_nat l)
  | RTimedOut -> "to" | RBadObject -> "bo" | RAlreadyRunning -> "ar" | RVoid -> "v" | RIoReady -> "io" | RNotFound -> "nf"

let max_decisions = 4000
let timeout_weight = 15L

let run_case k (c : case) =
  let st = ref (sys0 c.sockets c.evd) in
  let started = Array.make c.n false and finished = Array.make c.n false in
  let rest = Array.copy c.prog in
  let rng = ref (match c.seed with Some s -> Int64.add (Int64.mul s 0x9E3779B97F4A7C15L) 0x1234567L | None -> 0L) in
  let rand () =
    let x = !rng in
    let x = Int64.logxor x (Int64.shift_left x 13) in
    let x = Int64.logxor x (Int64.shift_right_logical x 7) in
    let x = Int64.logxor x (Int64.shift_left x 17) in
    rng := x; x in
  let urem x m = Int64.to_int (Int64.unsigned_rem x (Int64.of_int m)) in
  let sched = ref c.sched in
  let current = ref (-1) in
  let buf = Buffer.create 1024 in
  let decisions = ref 0 in
  let status = ref "" in
  let stepf = sys_step false absorb_const no_limit_const react in      (* false: StartInternalThread as it is now (not the as-found order) *)
  let show (s' : sys) (e : ev) =
    match e with
    | EDump -> Buffer.add_string buf (dump s'.s_g)
    | ESig x -> Buffer.add_string buf ("S" ^ chan_text x)
    | ENotify x -> Buffer.add_string buf ("N" ^ chan_text x)
    | EPark (x, cnt) -> Buffer.add_string buf ("P" ^ chan_text x ^ string_of_int (int_of_nat cnt))
    | EWoken -> Buffer.add_char buf 'K'
    | ETimeout -> Buffer.add_char buf 'T'
    | EFork -> Buffer.add_char buf 'F'
    | EJoin -> Buffer.add_char buf 'J'
    | EBegin -> Buffer.add_char buf 'B'
    | EEnd -> Buffer.add_string buf ("E" ^ dump s'.s_g)
    | EGot (m, l) -> Buffer.add_string buf (Printf.sprintf "R%s/%d" (msg_text m) (int_of_nat l))
    | ERet r -> Buffer.add_string buf ("=" ^ res_text r ^ dump s'.s_g) in
  let do_step lab =
    match stepf !st lab with
    | Some (s', evs) -> st := s'; List.iter (show s') evs
    | None -> failwith "step not enabled" in
  let upc t = (!st.s_l (nat_of_int t)).l_pc in
  (* run user thread t up to its next decision point (starting API calls as it goes) *)
  let rec advance_user t =
    match upc t with
    | PIdle ->
      (match rest.(t) with
       | [] -> finished.(t) <- true
       | o :: r -> rest.(t) <- r; do_step (LBegin (nat_of_int t, o)); advance_user t)
    | p -> if is_dp p then () else (do_step (LStep (U (nat_of_int t), CRun)); advance_user t) in
  let rec advance_int () =
    match !st.s_g.g_ist with
    | ILive -> if is_dp !st.s_g.g_il.l_pc then () else (do_step (LStep (I, CRun)); advance_int ())
    | _ -> () in
  let can lab = (stepf !st lab <> None) in
  while !status = "" do
    let g = !st.s_g in
    let itid = c.n + int_of_nat g.g_gen - 1 in
    let ilive = (g.g_ist = ILive) in
    let en = ref [] in
    if ilive then begin
      if can (LStep (I, CTimeout)) then en := (itid, true) :: !en;
      if can (LStep (I, CRun)) then en := (itid, false) :: !en
    end;
    for t = c.n - 1 downto 0 do
      if not started.(t) then en := (t, false) :: !en
      else if not finished.(t) then begin
        if can (LStep (U (nat_of_int t), CTimeout)) then en := (t, true) :: !en;
        if can (LStep (U (nat_of_int t), CRun)) then en := (t, false) :: !en
      end
    done;
    let en = !en in
    if en = [] then status := (if Array.for_all (fun x -> x) finished && not ilive then "COMPLETED" else "DEADLOCK")
    else begin
      incr decisions;
      if !decisions > max_decisions then status := "STEP_LIMIT"
      else begin
        let cur_enabled = !current >= 0 && List.mem (!current, false) en in
        let rec from_sched () = match !sched with
          | [] -> None
          | x :: r -> sched := r; if List.mem x en then Some x else from_sched () in
        let ch = match from_sched () with
          | Some x -> x
          | None ->
            (match c.seed with
             | None ->
               if cur_enabled then (!current, false)
               else (match List.filter (fun (_, to_) -> not to_) en with x :: _ -> x | [] -> List.hd en)
             | Some _ ->
               let runs = List.filter (fun (_, to_) -> not to_) en and tos = List.filter (fun (_, to_) -> to_) en in
               let want_to = tos <> [] && (runs = [] || Int64.unsigned_compare (Int64.unsigned_rem (rand ()) 100L) timeout_weight < 0) in
               let pool = if want_to then tos else runs in
               List.nth pool (urem (rand ()) (List.length pool))) in
        Buffer.add_char buf ' ';
        Buffer.add_string buf (choice_text ch);
        Buffer.add_char buf '<';
        Buffer.add_string buf (String.concat "," (List.map choice_text en));
        Buffer.add_char buf '>';
        let (t, to_) = ch in
        if t < c.n then begin
          if not started.(t) then started.(t) <- true
          else do_step (LStep (U (nat_of_int t), if to_ then CTimeout else CRun));
          advance_user t
        end else begin
          do_step (LStep (I, if to_ then CTimeout else CRun));
          advance_int ()
        end;
        current := t
      end
    end
  done;
  Printf.printf "%d %s%s\n" k !status (Buffer.contents buf)

let () =
  let lines = Ocommon.read_lines () in
  let contains s sub = let n = String.length s and m = String.length sub in
    let rec go i = i + m <= n && (String.sub s i m = sub || go (i+1)) in go 0 in
  List.iteri (fun k line ->
    if contains line "f=3" && contains line "|" then Printf.printf "%d TIMED\n" k    (* real-clock scenario: the harness's oracle alone *)
    else
    match parse_case line with
    | None -> Printf.printf "%d BADCASE\n" k
    | Some c when c.fine -> Printf.printf "%d FINE\n" k     (* judged by the harness's oracle alone *)
    | Some c when c.free -> Printf.printf "%d FREE\n" k     (* no scheduler: the real blocking primitives; oracle alone *)
    | Some c -> (try run_case k c with Failure m -> Printf.printf "%d MODEL-ERROR %s\n" k m)) lines
