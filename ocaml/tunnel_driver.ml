(* Driver for the extracted packet-tunnel models (C12): reads one case per line (format: see
   harness/tunnel_h.cpp), prints one canonical line per case. *)
open Tunnel_model

let rec pos_of_int n = if n = 1 then XH else if n land 1 = 0 then XO (pos_of_int (n lsr 1)) else XI (pos_of_int (n lsr 1))
let n_of_int n = if n <= 0 then N0 else Npos (pos_of_int n)
let rec int_of_pos = function XH -> 1 | XO p -> 2 * int_of_pos p | XI p -> 2 * int_of_pos p + 1
let int_of_n = function N0 -> 0 | Npos p -> int_of_pos p
let n_of_string s = n_of_int (int_of_string s)

let byte_tab = Array.init 256 (fun i -> byte_of_N (n_of_int i))
let hex_tab : (byte, string) Hashtbl.t = Hashtbl.create 512
let () = Array.iteri (fun i b -> Hashtbl.replace hex_tab b (Printf.sprintf "%02x" i)) byte_tab

let bytes_of_hex (s : string) : byte list =
  let n = String.length s / 2 in
  let rec go i acc = if i < 0 then acc else go (i-1) (byte_tab.(int_of_string ("0x" ^ String.sub s (2*i) 2)) :: acc) in
  go (n-1) []
let hex_of_bytes (l : byte list) : string =
  let b = Buffer.create 64 in
  List.iter (fun x -> Buffer.add_string b (Hashtbl.find hex_tab x)) l;
  Buffer.contents b

type sender = { addr : int; mini_cfg : mcfg; cfg : scfg; mutable st : sstate; mutable mst : mstate }

let () =
  let lines = Ocommon.read_lines () in
  List.iteri (fun k line ->
    match String.index_opt line '|' with
    | None -> ()
    | Some p ->
      let hd = String.split_on_char ',' (String.sub line 0 p) in
      let body = String.sub line (p+1) (String.length line - p - 1) in
      (match hd with
       | ["T"; wmtu; rmtu] ->
         (* PacketizedProxyDataIO on its own: a writer and a reader joined by a byte pipe *)
         let wmtu = n_of_string wmtu and rmtu = n_of_string rmtu in
         let ops = List.filter (fun s -> s <> "") (String.split_on_char ';' body) in
         let buf = Buffer.create 256 in
         let w = ref pw_init and r = ref pr_init and pipe = ref [] in
         List.iter (fun s ->
           match String.split_on_char ':' s with
           | ["W"; hx; a1; a2] ->
             let ((w', took), res) = pwrite wmtu !w (bytes_of_hex hx) (n_of_string a1) (n_of_string a2) in
             w := w'; pipe := !pipe @ took;
             (match res with WErr -> Buffer.add_string buf "We" | WTook n -> Buffer.add_string buf ("W" ^ string_of_int (int_of_n n)));
             Buffer.add_string buf (Printf.sprintf "[%s]/%d/%d;" (hex_of_bytes took) (int_of_n w'.pw_sent) (List.length w'.pw_buf))
           | ["F"; acc] ->
             let (w', took) = pw_flush !w (n_of_string acc) in
             w := w'; pipe := !pipe @ took;
             Buffer.add_string buf (Printf.sprintf "F[%s]/%d/%d;" (hex_of_bytes took) (int_of_n w'.pw_sent) (List.length w'.pw_buf))
           | ["R"; usize; a1; a2] ->
             let usize = min (int_of_string usize) 70000 in
             let ((r', pipe'), res) = pread rmtu !r (n_of_int usize) !pipe (n_of_string a1) (n_of_string a2) in
             r := r'; pipe := pipe';
             (match res with None -> Buffer.add_string buf "Re" | Some b -> Buffer.add_string buf (Printf.sprintf "R%d:%s" (List.length b) (hex_of_bytes b)));
             Buffer.add_string buf (Printf.sprintf "/%d/%d/%d;" (List.length r'.pr_hdr) (int_of_n r'.pr_size) (List.length r'.pr_data))
           | _ -> Buffer.add_string buf "?;") ops;
         Printf.printf "%d %s\n" k (Buffer.contents buf)
       | kind :: mode :: rmtu :: rmagic :: rsex :: rmax :: misc :: _ ->
         let mini = (kind = "N") in
         let rmtu_eff = if mini then mclamp_mtu (n_of_string rmtu) else clamp_mtu (n_of_string rmtu) in
         let rc = { rc_magic = n_of_string rmagic; rc_sex = n_of_string rsex; rc_mtu = rmtu_eff;
                    rc_max_in = n_of_string rmax; rc_misc = (misc = "1") } in
         let ops = List.filter (fun s -> s <> "") (String.split_on_char ';' body) in
         (* the graph of the zlib codec, as observed on the implementation's wire (Z ops) *)
         let defl : (string, string) Hashtbl.t = Hashtbl.create 16 in
         let infl : (string, string) Hashtbl.t = Hashtbl.create 16 in
         List.iter (fun s -> match String.split_on_char ':' s with
           | ["Z"; "i"; i; o] -> Hashtbl.replace infl o i
           | ["Z"; lvl; i; o] -> Hashtbl.replace defl (lvl ^ ":" ^ i) o; Hashtbl.replace infl o i
           | _ -> ()) ops;
         let deflate lvl x = match Hashtbl.find_opt defl (string_of_int (int_of_n lvl) ^ ":" ^ hex_of_bytes x) with
           | Some o -> Some (bytes_of_hex o) | None -> None in
         let inflate y = match Hashtbl.find_opt infl (hex_of_bytes y) with
           | Some i -> Some (bytes_of_hex i) | None -> None in
         let senders : (int, sender) Hashtbl.t = Hashtbl.create 8 in
         let sent : (byte list * int) list ref = ref [] in   (* reversed *)
         let nsent = ref 0 in
         let tbl : table ref = ref [] in
         let buf = Buffer.create 1024 in
         let deliver tag from pkt =
           let out =
             if mini then mrecv_packet inflate rc (n_of_int from) pkt
             else (let (t', o) = recv_packet rc !tbl (n_of_int from) pkt in tbl := t'; o) in
           Buffer.add_string buf tag; Buffer.add_char buf '[';
           let vis = if mode = "B" then out else List.filter (fun (_, m) -> m <> []) out in
           Buffer.add_string buf (String.concat "," (List.map (fun (a, m) -> string_of_int (int_of_n a) ^ ":" ^ hex_of_bytes m) vis));
           Buffer.add_char buf ']';
           if not mini then begin
             Buffer.add_char buf '{';
             Buffer.add_string buf (String.concat "," (List.map (fun (a, rs) ->
               let off = int_of_n rs.r_off in
               let sz = List.length rs.r_buf in
               let pre = if off <= sz then List.filteri (fun i _ -> i < off) rs.r_buf else [] in
               Printf.sprintf "%d:%d:%d:%d:%s" (int_of_n a) (int_of_n rs.r_id) off sz (hex_of_bytes pre)) !tbl));
             Buffer.add_char buf '}'
           end;
           Buffer.add_char buf ';' in
         List.iter (fun s ->
           match String.split_on_char ':' s with
           | "Z" :: _ -> ()
           | ["S"; i; a; mtu; magic; sex; level] ->
             let i = int_of_string i in
             if Hashtbl.mem senders i then Buffer.add_string buf "S!;" else begin
               let cfg = { sc_magic = n_of_string magic; sc_sex = n_of_string sex; sc_mtu = clamp_mtu (n_of_string mtu) } in
               let mcfg = { mc_magic = n_of_string magic; mc_sex = n_of_string sex; mc_mtu = mclamp_mtu (n_of_string mtu); mc_level = n_of_string level } in
               Hashtbl.replace senders i { addr = int_of_string a; cfg = cfg; mini_cfg = mcfg; st = s_init N0; mst = m_init N0 };
               Buffer.add_string buf "S;" end
           | ["I"; i; id] ->
             (match Hashtbl.find_opt senders (int_of_string i) with
              | None -> Buffer.add_string buf "I!;"
              | Some sd ->
                if mini then sd.mst <- fst (mstep deflate sd.mini_cfg sd.mst (MSetId (n_of_string id)))
                else sd.st <- fst (sstep sd.cfg sd.st (SSetId (n_of_string id)));
                Buffer.add_string buf "I;")
           | ["A"; i; hx] ->
             (match Hashtbl.find_opt senders (int_of_string i) with
              | None -> Buffer.add_string buf "A!;"
              | Some sd ->
                List.iter (fun h ->
                  let m = bytes_of_hex h in
                  if mini then sd.mst <- fst (mstep deflate sd.mini_cfg sd.mst (MAdd m))
                  else sd.st <- fst (sstep sd.cfg sd.st (SAdd m))) (String.split_on_char ',' hx);
                Buffer.add_string buf "A;")
           | ["O"; i; mb; bud] ->
             (match Hashtbl.find_opt senders (int_of_string i) with
              | None -> Buffer.add_string buf "O!;"
              | Some sd ->
                let pkts =
                  if mini then (let (st', ps) = mstep deflate sd.mini_cfg sd.mst (MOut (n_of_string mb, n_of_string bud)) in sd.mst <- st'; ps)
                  else (let (st', ps) = sstep sd.cfg sd.st (SOut (n_of_string mb, n_of_string bud)) in sd.st <- st'; ps) in
                List.iter (fun pk -> sent := (pk, int_of_string i) :: !sent; incr nsent) pkts;
                Buffer.add_string buf "O[";
                Buffer.add_string buf (String.concat "," (List.map hex_of_bytes pkts));
                Buffer.add_string buf "]";
                if mini then
                  Buffer.add_string buf (Printf.sprintf "/%d/%d/%d" (int_of_n sd.mst.m_pid) (List.length sd.mst.m_pkt) (if sd.mst.m_q <> [] then 1 else 0))
                else
                  Buffer.add_string buf (Printf.sprintf "/%d/%d/%d/%d" (int_of_n sd.st.s_id) (int_of_n sd.st.s_off) (List.length sd.st.s_pkt) (if sd.st.s_q <> [] then 1 else 0));
                Buffer.add_char buf ';')
           | ["D"; j] | ["E"; j; _] as l ->
             let tag = List.hd l in
             let j = int_of_string j in
             if j >= !nsent then Buffer.add_string buf (tag ^ "!;")
             else begin
               let (pk, si) = List.nth !sent (!nsent - 1 - j) in
               let own = (Hashtbl.find senders si).addr in
               let from = match l with [_; _; a] -> int_of_string a | _ -> own in
               deliver tag from pk
             end
           | ["X"; a; hx] -> deliver "X" (int_of_string a) (bytes_of_hex hx)
           | ["L"; mb; js] ->
             let idx = List.filter (fun j -> j < !nsent)
                         (List.map int_of_string (List.filter (fun x -> x <> "") (String.split_on_char ',' js))) in
             let queue = List.map (fun j -> let (pk, si) = List.nth !sent (!nsent - 1 - j) in
                                            (n_of_int (Hashtbl.find senders si).addr, pk)) idx in
             let (out, rest) =
               if mini then mrecv_loop inflate rc (n_of_string mb) N0 queue
               else (let ((t', o), r) = recv_loop rc !tbl (n_of_string mb) N0 queue in tbl := t'; (o, r)) in
             Buffer.add_string buf (Printf.sprintf "L%d[" (List.length rest));
             let vis = if mode = "B" then out else List.filter (fun (_, m) -> m <> []) out in
             Buffer.add_string buf (String.concat "," (List.map (fun (a, m) -> string_of_int (int_of_n a) ^ ":" ^ hex_of_bytes m) vis));
             Buffer.add_char buf ']';
             if not mini then begin
               Buffer.add_char buf '{';
               Buffer.add_string buf (String.concat "," (List.map (fun (a, rs) ->
                 let off = int_of_n rs.r_off in
                 let sz = List.length rs.r_buf in
                 let pre = if off <= sz then List.filteri (fun i _ -> i < off) rs.r_buf else [] in
                 Printf.sprintf "%d:%d:%d:%d:%s" (int_of_n a) (int_of_n rs.r_id) off sz (hex_of_bytes pre)) !tbl));
               Buffer.add_char buf '}'
             end;
             Buffer.add_char buf ';'
           | _ -> Buffer.add_string buf "?;") ops;
         Printf.printf "%d %s\n" k (Buffer.contents buf)
       | _ -> Printf.printf "%d BADCASE head\n" k)
  ) lines
