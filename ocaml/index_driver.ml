(* Driver for the extracted C13 index model: reads one case per line, prints one line per step. *)
open Index_model

let nat_of_int n = let rec go acc k = if k <= 0 then acc else go (S acc) (k-1) in go O n
let rec int_of_nat = function O -> 0 | S n -> 1 + int_of_nat n
let rec int_of_pos = function XH -> 1 | XO p -> 2 * int_of_pos p | XI p -> 2 * int_of_pos p + 1
let int_of_n = function N0 -> 0 | Npos p -> int_of_pos p

(* names: "I<canonical decimal>" <-> NI n ; anything else is interned as NX k *)
let pool : (string, int) Hashtbl.t = Hashtbl.create 16
let rpool : (int, string) Hashtbl.t = Hashtbl.create 16
let is_gen s =
  let n = String.length s in
  n >= 2 && s.[0] = 'I' && (let ok = ref true in String.iteri (fun i c -> if i > 0 && not (c >= '0' && c <= '9') then ok := false) s; !ok)
  && (n = 2 || s.[1] <> '0')
let name_of_string s =
  if is_gen s then NI (nat_of_int (int_of_string (String.sub s 1 (String.length s - 1))))
  else match Hashtbl.find_opt pool s with
    | Some k -> NX (nat_of_int k)
    | None -> let k = Hashtbl.length pool in Hashtbl.add pool s k; Hashtbl.add rpool k s; NX (nat_of_int k)
let string_of_name = function
  | NI n -> "I" ^ string_of_int (int_of_nat n)
  | NX k -> (match Hashtbl.find_opt rpool (int_of_nat k) with Some s -> s | None -> "?" ^ string_of_int (int_of_nat k))
  | NS s -> string_of_int (int_of_nat s)
let string_of_path p = "/H/" ^ String.concat "/" (List.map string_of_name p)

let split c s = if s = "" then [] else String.split_on_char c s
let clause_of s = if s = "*" then CAny else CLit (name_of_string s)
let relpat s = List.map clause_of (split '/' s)
let relpath s = List.map name_of_string (split '/' s)
let abspat s = match split '/' s with
  | [] -> []
  | h :: t -> (if h = "*" then CAny else CLit (NS (nat_of_int (int_of_string h)))) :: List.map clause_of t
let abspath s = match split '/' s with
  | [] -> []
  | h :: t -> NS (nat_of_int (int_of_string h)) :: List.map name_of_string t
let bspec s = if s = "-" then BEnd else if s = "!" then BRemove else BName (name_of_string s)
let b01 s = s = "1"

let parse_cmd (s : string) : cmd =
  match String.split_on_char ':' s with
  | ["sd"; ps; f] ->
      (* several paths = several fields of one SETDATA; a trailing '/' asks for a generated name;
         flags: bit 0 = ADDTOINDEX, bit 1 = QUIET (no effect on indices) *)
      let item q = let n = String.length q in
        if n > 0 && q.[n-1] = '/' then (relpath (String.sub q 0 (n-1)), true) else (relpath q, false) in
      CSetData (List.map item (split ',' ps), (int_of_string f) land 1 = 1)
  | ["io"; ps; bs] -> CInsertOrdered (List.map relpat (split ',' ps), List.map bspec (split ',' bs))
  | ["ro"; ps; bs] | ["xmv"; ps; bs] -> CReorder (List.combine (List.map relpat (split ',' ps)) (List.map bspec (split ',' bs)))
  | ["rm"; ps] -> CRemove (List.map relpat (split ',' ps))
  | ["xrm"; p] -> CRemove [relpat p]
  | ["su"; p] | ["sq"; p] -> CSubscribe (abspat p)
  | ["un"; p] -> CUnsubscribe (abspat p)
  | ["ua"] -> CUnsubscribeAll
  | ["gd"; p] -> CGetData (abspat p)
  | ["rs"; v] -> CSetRefl (b01 v)
  | ["mx"; _] -> CNoop
  | ["xsd"; p; f; b] -> ASetDataNode (relpath p, b01 f, bspec b)
  | ["xcl"; src; dst; f; b] -> AClone (abspath src, relpath dst, b01 f, bspec b)
  | ["xsr"; src; dst; f] -> ARestore (abspath src, relpath dst, b01 f)
  | ["xra"; p; i] -> ARemoveEntryAt (relpath p, nat_of_int (int_of_string i))
  | ["xia"; p; i; k] -> AInsertEntryAt (relpath p, nat_of_int (int_of_string i), name_of_string k)
  | ["dt"] -> CDetach
  | ["at"] -> CAttach
  | _ -> failwith ("bad cmd " ^ s)

let opc n = String.make 1 (Char.chr (int_of_n n))
let string_of_op = function
  | OpClear -> opc op_clear
  | OpIns (i, k) -> opc op_ins ^ string_of_int (int_of_nat i) ^ ":" ^ string_of_name k
  | OpRem (i, k) -> opc op_rem ^ string_of_int (int_of_nat i) ^ ":" ^ string_of_name k

let show_step (st : state) : string =
  (* logs grouped per (client, path), arrival order kept inside a group *)
  let groups : (int * string, string list ref) Hashtbl.t = Hashtbl.create 16 in
  List.iter (fun ((s, p), o) ->
    let key = (int_of_nat s, string_of_path p) in
    match Hashtbl.find_opt groups key with
    | Some r -> r := string_of_op o :: !r
    | None -> Hashtbl.add groups key (ref [string_of_op o])) st.st_out;
  let keys = List.sort compare (Hashtbl.fold (fun k _ acc -> k :: acc) groups []) in
  let logs = String.concat " " (List.map (fun (s, p) ->
    Printf.sprintf "c%d@%s=%s" s p (String.concat "," (List.rev !(Hashtbl.find groups (s, p))))) keys) in
  let n = int_of_nat st.st_n in
  let nodes = List.map (fun (p, nd) ->
    let ps = string_of_path p in
    let kids = String.concat "," (List.map string_of_name (kids_of st.st_tree p)) in
    let ix = match nd.idx with None -> "" | Some l -> "{" ^ String.concat "," (List.map string_of_name l) ^ "}" in
    let subs = String.concat "" (List.init n (fun s ->
      let c = List.length (List.filter (fun pat -> pmatch pat p) (st.st_subs (nat_of_int s))) in
      if c > 0 then Printf.sprintf "s%dx%d" s c else "")) in
    (ps, Printf.sprintf "%s[%s]%s#%d<%s>" ps kids ix (int_of_nat nd.ctr) subs)) st.st_tree in
  let nodes = List.sort compare nodes in
  Printf.sprintf "L %s T %s" logs (String.concat " " (List.map snd nodes))

(* (client-independent) node paths whose replicas a quiet removal has made stale: the parent of a victim, and
   everything at or below a victim; the self-check leaves them alone for the rest of the case *)
let taint_exact : (path, unit) Hashtbl.t = Hashtbl.create 8
let taint_prefix : path list ref = ref []
let tainted (p : path) = Hashtbl.mem taint_exact p || List.exists (fun v -> is_prefix v p) !taint_prefix

(* PR_COMMAND_REMOVEDATA with PR_NAME_REMOVE_QUIETLY, one key: not a command of the Coq [run] (it gives up the replay
   property by design, see quiet_frame); the driver applies the model's remove_child_quiet to the victims the same
   single-pattern traversal finds, last found first *)
let quiet_remove (st : state) (s : int) (pat : pattern) : state =
  let sn = nat_of_int s in
  if s < int_of_nat st.st_n && has_node st.st_tree [NS sn] then begin
    let victims = List.filter (fun v -> List.length v >= 2) (expand st.st_tree [NS sn] pat) in
    List.iter (fun v -> Hashtbl.replace taint_exact (parent_of v) (); taint_prefix := v :: !taint_prefix) victims;
    with_out (List.fold_left remove_child_quiet st (List.rev victims)) []
  end else with_out st []

(* the model's own invariant, evaluated on the model state (a failure here is a model bug) *)
let self_check (st : state) : string option =
  let n = int_of_nat st.st_n in
  let paths = List.map fst st.st_tree @ List.map (fun ((_, p), _) -> p) st.st_out in
  let bad = ref None in
  for s = 0 to n - 1 do
    let sn = nat_of_int s in
    List.iter (fun p -> if not (tainted p) then
      let m = st.st_mirror sn p in
      if replay (st.st_hist sn p) [] <> m then bad := Some ("hist/mirror " ^ string_of_path p);
      if subscribed st sn p then (if m <> index_at st.st_tree p then bad := Some (Printf.sprintf "mirror of c%d for %s" s (string_of_path p)))
      else if m <> [] then bad := Some ("stale replica " ^ string_of_path p)) paths
  done;
  (* index invariant *)
  List.iter (fun (p, nd) -> match nd.idx with
    | None -> ()
    | Some l ->
      let ks = kids_of st.st_tree p in
      List.iter (fun k -> if not (List.mem k ks) then bad := Some ("index entry without child at " ^ string_of_path p)) l;
      if List.length (List.sort_uniq compare l) <> List.length l then bad := Some ("duplicate index entry at " ^ string_of_path p)) st.st_tree;
  !bad

let () =
  let lines = Ocommon.read_lines () in
  List.iteri (fun k line ->
    match String.index_opt line '|' with
    | None -> ()
    | Some p ->
      let head = String.sub line 0 p in
      let body = String.sub line (p+1) (String.length line - p - 1) in
      let hd = List.hd (String.split_on_char ',' head) in
      let n = int_of_string (String.concat "" (List.filter (fun s -> s <> "") (String.split_on_char 'n' hd))) in
      let cfg = cfg_fixed in
      Hashtbl.reset taint_exact; taint_prefix := [];
      let st = ref (init_state (nat_of_int n)) in
      let ops = List.filter (fun s -> s <> "") (String.split_on_char ';' body) in
      List.iteri (fun i op ->
        match String.index_opt op '>' with
        | None -> failwith ("bad op " ^ op)
        | Some g ->
          let sid = int_of_string (String.sub op 0 g) in
          let body = String.sub op (g+1) (String.length op - g - 1) in
          (if String.length body > 3 && String.sub body 0 3 = "rq:" then
             st := quiet_remove !st sid (relpat (String.sub body 3 (String.length body - 3)))
           else
             let cmds = List.map parse_cmd (String.split_on_char '&' body) in
             st := step cfg !st (nat_of_int sid, cmds));
          Printf.printf "%d %d %s\n" k i (show_step !st);
          (match self_check !st with
           | Some why -> Printf.printf "%d ORACLE FAIL model invariant broken at step %d: %s\n" k i why
           | None -> ())) ops
  ) lines
