(* Driver for the extracted C06 model (Refl/Server.v + Refl/IsoModel.v + Refl/IsoOrd.v).  Reads the same cases as
   harness/iso_h.cpp (grammar there) and prints the same canonical text.

   External matching code (class MatchOps) as in mirror_driver.ml: clause text over [a-z0-9._~-], '*', '?', ',';
   filters g<n> | l<n> | e<n> | x on the int32 field "v".  Names are interned strings; payload 0 = empty Message,
   v -> v+1.  The fixes flags come from the translator (head_fixes): the model follows the sources at hand.

   Besides the canonical lines the driver evaluates the statement of C06 on the MODEL's own states
   (`k ORACLE FAIL model-...`): frame of every command of an unprivileged session, detach leaves no trace,
   and as-if-never against the run with the departed session's events erased. *)
open Iso_model

let rec pos_of_int n = if n = 1 then XH else if n land 1 = 0 then XO (pos_of_int (n lsr 1)) else XI (pos_of_int (n lsr 1))
let n_of_int k = if k = 0 then N0 else Npos (pos_of_int k)
let rec int_of_pos = function XH -> 1 | XO p -> 2 * int_of_pos p | XI p -> 2 * int_of_pos p + 1
let int_of_n = function N0 -> 0 | Npos p -> int_of_pos p
let z_of_int k = if k = 0 then Z0 else if k > 0 then Zpos (pos_of_int k) else Zneg (pos_of_int (-k))
let rec int_of_nat = function O -> 0 | S n -> 1 + int_of_nat n

(* ---- interned names *)
let tbl : (string, int) Hashtbl.t = Hashtbl.create 64
let rev_tbl : (int, string) Hashtbl.t = Hashtbl.create 64
let intern (s : string) : n =
  match Hashtbl.find_opt tbl s with
  | Some i -> n_of_int i
  | None -> let i = Hashtbl.length tbl + 1 in Hashtbl.add tbl s i; Hashtbl.add rev_tbl i s; n_of_int i
let name_str (x : n) : string = match Hashtbl.find_opt rev_tbl (int_of_n x) with Some s -> s | None -> "?"

(* ---- wildcard clauses *)
let glob (pat : string) (s : string) : bool =
  let lp = String.length pat and ls = String.length s in
  let rec go i j =
    if i = lp then j = ls
    else match pat.[i] with
      | '*' -> go (i+1) j || (j < ls && go i (j+1))
      | '?' -> j < ls && go (i+1) (j+1)
      | c -> j < ls && s.[j] = c && go (i+1) (j+1) in
  go 0 0
let clause_match (c : string) (s : string) : bool = List.exists (fun alt -> glob alt s) (String.split_on_char ',' c)
let clause_keys (c : string) : string list option =
  if String.contains c '*' || String.contains c '?' then None
  else Some (List.filter (fun x -> x <> "") (String.split_on_char ',' c))

type fspec = FG of int | FL of int | FE of int | FX
let fspec_of_string (s : string) : fspec =
  if s = "x" then FX else
  let v = int_of_string (String.sub s 1 (String.length s - 1)) in
  match s.[0] with 'g' -> FG v | 'l' -> FL v | _ -> FE v
let fspec_str = function FG v -> "g" ^ string_of_int v | FL v -> "l" ^ string_of_int v | FE v -> "e" ^ string_of_int v | FX -> "x"
let fspec_match (f : fspec) (p : int) : bool =
  if p = 0 then false else
  let v = p - 1 in match f with FG k -> v > k | FL k -> v < k | FE k -> v = k | FX -> true

let ops : matchOps = {
  clause_eqb = (fun a b -> (Obj.obj a : string) = (Obj.obj b : string));
  cmatch = (fun c x -> clause_match (Obj.obj c : string) (name_str x));
  ckeys = (fun c -> match clause_keys (Obj.obj c : string) with None -> None | Some ks -> Some (List.map intern ks));
  cstar = Obj.repr "*";
  fmatch = (fun f p -> fspec_match (Obj.obj f : fspec) (int_of_n p));
}

let fixes = head_fixes

(* ---- parsing *)
let split c s = String.split_on_char c s
let clauses_of (s : string) : Obj.t list = List.map (fun x -> Obj.repr x) (split '/' s)
let spath_of (s : string) : spath =
  if String.length s > 0 && s.[0] = '/' then Abs (clauses_of (String.sub s 1 (String.length s - 1))) else Rel (clauses_of s)
let split_sub (s : string) : string * Obj.t option =
  match String.index_opt s '@' with
  | None -> (s, None)
  | Some i -> (String.sub s 0 i, Some (Obj.repr (fspec_of_string (String.sub s (i+1) (String.length s - i - 1)))))
let items s = if s = "" then [] else split '&' s
let payload_of_int v = n_of_int (v + 1)
let keys_of (s : string) = List.map (fun x -> let (p, f) = split_sub x in (spath_of p, f)) (items s)

let code_of (s : string) : n =
  match s with
  | "kick" -> c_PR_COMMAND_KICK | "addbans" -> c_PR_COMMAND_ADDBANS | "rembans" -> c_PR_COMMAND_REMOVEBANS
  | "addreq" -> c_PR_COMMAND_ADDREQUIRES | "remreq" -> c_PR_COMMAND_REMOVEREQUIRES
  | "ping" -> c_PR_COMMAND_PING | "noop" -> c_PR_COMMAND_NOOP | "getparams" -> c_PR_COMMAND_GETPARAMETERS
  | "gettrees" -> c_PR_COMMAND_GETDATATREES | "settrees" -> c_PR_COMMAND_SETDATATREES
  | "jetres" -> c_PR_COMMAND_JETTISONRESULTS | "jettrees" -> c_PR_COMMAND_JETTISONDATATREES
  | "unk" -> n_of_int (int_of_n c_END_PR_COMMANDS - 2)
  | "end" -> c_END_PR_COMMANDS
  | "begin" -> c_BEGIN_PR_COMMANDS
  | _ -> n_of_int (int_of_string s)

(* privileges granted to a host by the harness's priv<n> patterns: K* kick, B* add+remove bans, A* all *)
let bits_of_host (h : string) : n =
  if h = "" then N0 else
  match h.[0] with
  | 'K' -> n_of_int 1
  | 'B' -> n_of_int 6
  | 'A' -> n_of_int 0xFFFFFFFF
  | _ -> N0

let parse_cmd (code : string) (fs : string list) : xcmd option =
  let nth k = match List.nth_opt fs k with Some x -> x | None -> "" in
  match code with
  | "s" ->
    let flags = (try int_of_string (nth 0) with _ -> 0) in
    let its = List.map (fun it ->
        let (p, v) = match String.index_opt it '=' with
          | None -> (it, N0)
          | Some i -> (String.sub it 0 i, payload_of_int (int_of_string (String.sub it (i+1) (String.length it - i - 1)))) in
        let abs = String.length p > 0 && p.[0] = '/' in
        ((abs, List.map intern (split '/' p)), v)) (items (nth 1)) in
    Some (XSetData (n_of_int flags, its))
  | "r" -> Some (XRemoveData ((nth 0 = "1"), keys_of (nth 1)))
  | "g" -> Some (XBase (CGetData (keys_of (nth 0))))
  | "p" ->
    let q = (nth 0 = "1") in
    let seen = Hashtbl.create 8 in
    let ks = List.filter_map (fun s -> let (p, f) = split_sub s in
                               if Hashtbl.mem seen p then None else (Hashtbl.add seen p (); Some (spath_of p, f))) (items (nth 1)) in
    Some (XBase (CSubscribe (q, ks)))
  | "m" -> Some (XBase (CSetMax (z_of_int (try int_of_string (nth 0) with _ -> 0))))
  | "u" -> Some (XBase (CUnsubscribe (List.map spath_of (items (nth 0)))))
  | "um" -> Some (XBase CResetMax)
  | "k" -> Some (XCode (code_of (nth 0), keys_of (nth 1)))
  | "pv" -> Some (XSetPriv (n_of_int ((try int_of_string (nth 0) with _ -> 0) land 0xFFFFFFFF)))
  | "upv" -> Some XRemovePriv
  | "c" ->
    let sess = nth 2 in
    Some (XMessage (code_of (nth 0), keys_of (nth 1), (if sess = "-" || sess = "" then None else Some (intern sess))))
  | _ -> None

let parse_subs (s : string) : xcmd list =
  List.filter_map (fun so -> let sf = split '~' so in parse_cmd (List.hd sf) (List.tl sf)) (if s = "" then [] else split '+' s)

(* ---- printing *)
let path_str (p : path) : string = String.concat "" (List.map (fun x -> "/" ^ name_str x) p)
let payload_str (p : n) : string = let v = int_of_n p in if v = 0 then "-" else string_of_int (v - 1)
let pat_str (p : Obj.t list) : string = String.concat "/" (List.map (fun c -> (Obj.obj c : string)) p)
let flt_str (f : Obj.t option) : string = match f with None -> "" | Some f -> "@" ^ fspec_str (Obj.obj f : fspec)

let di_str (d : ditems) : string =
  "[R:" ^ String.concat "," (List.map path_str d.di_removed) ^ ";S:" ^
  String.concat "," (List.concat_map (fun (p, vs) -> List.map (fun v -> path_str p ^ "=" ^ payload_str v) vs) d.di_sets) ^ "]"

let reply_str (r : reply) : string =
  match r with
  | RBounce (code, what) -> Printf.sprintf "B%d/%d" (int_of_n code) (int_of_n what)
  | RForward (from, what, sess) -> Printf.sprintf "F%d/%d/%s" (int_of_n from) (int_of_n what) (match sess with None -> "-" | Some x -> name_str x)
  | RReply what -> Printf.sprintf "R%d" (int_of_n what)

let node_str (nd : node) : string =
  let subs = List.sort compare (List.map (fun (s, c) -> (int_of_n s, int_of_n c)) nd.n_subs) in
  path_str nd.n_path ^ "=" ^ payload_str nd.n_data ^ "{" ^
  String.concat "," (List.map (fun (s, c) -> Printf.sprintf "%d:%d" s c) subs) ^ "}"

let sess_str (xs : xserver) (ss : session) : string =
  Printf.sprintf "%d@%s(%d,%d)[%s]" (int_of_n ss.s_id) (name_str ss.s_host) (int_of_n ss.s_max) (int_of_n (priv_get (xs_priv ops xs) ss.s_id))
    (String.concat "|" (List.map (fun (d, es) ->
       Printf.sprintf "%d:%s" (int_of_nat d) (String.concat "," (List.map (fun e -> pat_str e.e_pat ^ flt_str e.e_flt) es)))
       ss.s_subs.m_groups))

(* PR_RESULT_DATAITEMS per client *)
let m_str (xs : xserver) : string =
  let sv = xs_sv ops xs in
  let b = Buffer.create 256 in
  Buffer.add_string b "M{";
  let firstc = ref true in
  List.iter (fun ss ->
    if ss.s_out <> [] then begin
      if not !firstc then Buffer.add_char b ' ';
      firstc := false;
      Buffer.add_string b (Printf.sprintf "c%d:" (int_of_n ss.s_id));
      List.iter (fun d -> Buffer.add_string b (di_str d)) ss.s_out
    end) (List.sort (fun a b -> compare (int_of_n a.s_id) (int_of_n b.s_id)) (sv_sessions ops sv));
  Buffer.add_string b "}";
  Buffer.contents b

(* the part of the state line after the op code; also returns nothing else *)
let state_str (xs : xserver) : string =
  let sv = xs_sv ops xs in
  let b = Buffer.create 512 in
  Buffer.add_string b "M{";
  let firstc = ref true in
  List.iter (fun ss ->
    if ss.s_out <> [] then begin
      if not !firstc then Buffer.add_char b ' ';
      firstc := false;
      Buffer.add_string b (Printf.sprintf "c%d:" (int_of_n ss.s_id));
      List.iter (fun d -> Buffer.add_string b (di_str d)) ss.s_out
    end) (List.sort (fun a b -> compare (int_of_n a.s_id) (int_of_n b.s_id)) (sv_sessions ops sv));
  Buffer.add_string b "} L{";
  let log = List.filter (fun (s, _) -> List.exists (fun ss -> int_of_n ss.s_id = int_of_n s) (sv_sessions ops sv)) (xs_log ops xs) in
  let ids = List.sort_uniq compare (List.map (fun (s, _) -> int_of_n s) log) in
  Buffer.add_string b (String.concat " " (List.map (fun id ->
    Printf.sprintf "c%d:%s" id (String.concat "," (List.filter_map (fun (s, r) -> if int_of_n s = id then Some (reply_str r) else None) log))) ids));
  Buffer.add_string b "} T{";
  Buffer.add_string b (String.concat " " (List.map node_str (dfs dump_fuel (sv_tree ops sv) [])));
  Buffer.add_string b "} E{";
  Buffer.add_string b (String.concat " " (List.map (sess_str xs) (sv_sessions ops sv)));
  Buffer.add_string b "}";
  Buffer.contents b

(* ---- the statement of C06 on the model's own states *)
let under (dir : path) (p : path) : bool =
  let rec go d q = match d, q with [], _ -> true | a :: d', b :: q' -> int_of_n a = int_of_n b && go d' q' | _, [] -> false in
  go dir p

(* everything a command of session s must leave alone *)
let foreign_view (xs : xserver) (s : int) : string =
  let sv = xs_sv ops xs in
  match List.find_opt (fun ss -> int_of_n ss.s_id = s) (sv_sessions ops sv) with
  | None -> "<gone>"
  | Some me ->
    let dir = session_dir ops me in
    let nodes = List.filter (fun nd -> not (under dir nd.n_path)) (sv_tree ops sv) in
    String.concat " " (List.map (fun nd -> node_str { nd with n_subs = List.filter (fun (k, _) -> int_of_n k <> s) nd.n_subs }) nodes)
    ^ " || " ^
    String.concat " " (List.filter_map (fun ss -> if int_of_n ss.s_id = s then None else Some (sess_str xs ss)) (sv_sessions ops sv))
    ^ " || " ^ String.concat "," (List.map (fun d -> string_of_int (int_of_n d)) (xs_ducks ops xs))

(* observable state without any trace of session s (as-if-never compares this) : nodes as a set, host order ignored *)
let obs_without (xs : xserver) (s : int) : string =
  let sv = xs_sv ops xs in
  let nodes = List.sort compare (List.map (fun nd -> node_str { nd with n_subs = List.filter (fun (k, _) -> int_of_n k <> s) nd.n_subs }) (sv_tree ops sv)) in
  String.concat " " nodes ^ " || " ^
  String.concat " " (List.filter_map (fun ss -> if int_of_n ss.s_id = s then None else Some (sess_str xs ss)) (sv_sessions ops sv))

let trace_of (xs : xserver) (s : int) (dir : path) : string option =
  let sv = xs_sv ops xs in
  if List.exists (fun ss -> int_of_n ss.s_id = s) (sv_sessions ops sv) then Some "session still listed"
  else match List.find_opt (fun nd -> under dir nd.n_path) (sv_tree ops sv) with
    | Some nd -> Some ("node left " ^ path_str nd.n_path)
    | None ->
      match List.find_opt (fun nd -> List.exists (fun (k, _) -> int_of_n k = s) nd.n_subs) (sv_tree ops sv) with
      | Some nd -> Some ("subscriber mark left on " ^ path_str nd.n_path)
      | None ->
        if int_of_n (priv_get (xs_priv ops xs) (n_of_int s)) <> 0 then Some "privilege entry left"
        else
          let hn = int_of_n (List.hd dir) in
          let host_there = List.exists (fun nd -> match nd.n_path with [h] -> int_of_n h = hn | _ -> false) (sv_tree ops sv) in
          let host_used = List.exists (fun ss -> int_of_n ss.s_host = hn) (sv_sessions ops sv) in
          if host_there <> host_used then Some (if host_there then "empty host node left" else "host node removed while in use") else None

type evrec = { ev : xevent; who : int }   (* who = session the event belongs to *)

let run_events (evs : xevent list) : xserver =
  List.fold_left (fun xs e -> xclear ops (xstep ops fixes xs e)) (empty_xserver ops) evs

(* ---- label q: ordered children (Refl/IsoOrd.v).  INSERTORDEREDDATA with one key, REORDERDATA; the lines carry the
   PR_RESULT_DATAITEMS every client received, the tree (with the ordered index of every node) and the sessions; the
   PR_RESULT_INDEXUPDATED notifications are not modelled *)
let iname (c : n) : n = intern ("I" ^ string_of_int (int_of_n c))
let remove_from_index = "!Rmv"
let before_of (s : string) : n option = if s = remove_from_index then None else Some (intern s)

let parse_ocmd (code : string) (fs : string list) : ocmd option =
  let nth k = match List.nth_opt fs k with Some x -> x | None -> "" in
  match code with
  | "io" ->
    (match items (nth 0) with
     | [key] ->
       (* the Message's fields in order of first appearance, each with its values in order *)
       let its = List.map (fun it -> match String.index_opt it '=' with
           | None -> (it, N0)
           | Some i -> (String.sub it 0 i, payload_of_int (int_of_string (String.sub it (i+1) (String.length it - i - 1))))) (items (nth 1)) in
       let names = List.fold_left (fun acc (b, _) -> if List.mem b acc then acc else acc @ [b]) [] its in
       let grouped = List.concat_map (fun b -> List.filter_map (fun (b', v) -> if b' = b then Some (before_of b, v) else None) its) names in
       Some (OInsert ((spath_of key, None), grouped))
     | [] -> Some (OX (XCode (c_PR_COMMAND_INSERTORDEREDDATA, [])))   (* no key: a command without any field it interprets *)
     | _ -> None)
  | "ro" ->
    let fl = List.map (fun it -> match String.index_opt it '=' with
        | None -> (it, "")
        | Some i -> (String.sub it 0 i, String.sub it (i+1) (String.length it - i - 1))) (items (nth 0)) in
    (* a field name that occurs twice is one field with two values; FindString reads the first *)
    let fl = List.fold_left (fun acc (k, v) -> if List.mem_assoc k acc then acc else acc @ [(k, v)]) [] fl in
    Some (OReorder (List.map (fun (k, v) -> (spath_of k, before_of v)) fl))
  | _ ->
    (match parse_cmd code fs with
     | Some (XSetData (flags, its)) when (int_of_n flags) land 8 <> 0 -> Some (OSetIdx (flags, its))   (* SETDATANODE_FLAG_ADDTOINDEX *)
     | Some c -> Some (OX c)
     | None -> None)

let parse_osubs (s : string) : ocmd list =
  List.filter_map (fun so -> let sf = split '~' so in parse_ocmd (List.hd sf) (List.tl sf)) (if s = "" then [] else split '+' s)

(* PR_RESULT_DATAITEMS per client, without what a client is told about its own subtree (see harness: _indexingPresent) *)
let om_str (xs : xserver) : string =
  let sv = xs_sv ops xs in
  let per = List.filter_map (fun ss ->
      let dir = session_dir ops ss in
      (* one group per op: Message boundaries are not compared (the own nodes count towards the item limit) *)
      let r = List.concat_map (fun d -> List.filter (fun p -> not (under dir p)) d.di_removed) ss.s_out in
      let st = List.concat_map (fun d -> List.filter (fun (p, vs) -> vs <> [] && not (under dir p)) d.di_sets) ss.s_out in
      if r = [] && st = [] then None
      else Some (Printf.sprintf "c%d:%s" (int_of_n ss.s_id) (di_str { di_removed = r; di_sets = st })))
      (List.sort (fun a b -> compare (int_of_n a.s_id) (int_of_n b.s_id)) (sv_sessions ops sv)) in
  "M{" ^ String.concat " " per ^ "}"

let onode_str (os : oserver) (nd : node) : string =
  let ix = idx_get (o_idx ops os) nd.n_path in
  node_str nd ^ (if ix = [] then "" else "[" ^ String.concat "" (List.map (fun x -> name_str x ^ ",") ix) ^ "]")

let ostate_str (os : oserver) : string =
  let xs = o_x ops os in
  let sv = xs_sv ops xs in
  om_str xs ^ " T{" ^ String.concat " " (List.map (onode_str os) (dfs dump_fuel (sv_tree ops sv) [])) ^ "} E{" ^
  String.concat " " (List.map (sess_str xs) (sv_sessions ops sv)) ^ "}"

(* everything a command of session s must leave alone, indices and counters included *)
let oforeign_view (os : oserver) (s : int) : string =
  let xs = o_x ops os in
  let sv = xs_sv ops xs in
  match List.find_opt (fun ss -> int_of_n ss.s_id = s) (sv_sessions ops sv) with
  | None -> "<gone>"
  | Some me ->
    let dir = session_dir ops me in
    foreign_view xs s ^ " || " ^
    String.concat " " (List.filter_map (fun (p, l) -> if under dir p then None else Some (path_str p ^ "[" ^ String.concat "," (List.map name_str l) ^ "]")) (o_idx ops os))
    ^ " || " ^
    String.concat " " (List.filter_map (fun (p, c) -> if under dir p then None else Some (path_str p ^ "#" ^ string_of_int (int_of_n c))) (o_ctr ops os))

let oobs_without (os : oserver) (s : int) : string =
  obs_without (o_x ops os) s ^ " || " ^
  String.concat " " (List.sort compare (List.map (fun (p, l) -> path_str p ^ "[" ^ String.concat "," (List.map name_str l) ^ "]") (o_idx ops os)))

type oevrec = { oev : oevent; owho : int }

let run_ordered_case (k : int) (body : string) : unit =
  let opl = List.filter (fun s -> s <> "") (split ';' body) in
  let os = ref (empty_oserver ops) in
  let nsess = ref 0 in
  let hist : oevrec list ref = ref [] in
  let sessions () = sv_sessions ops (xs_sv ops (o_x ops !os)) in
  let alive kk = kk >= 0 && List.exists (fun ss -> int_of_n ss.s_id = kk) (sessions ()) in
  let sess_of kk = List.find_opt (fun ss -> int_of_n ss.s_id = kk) (sessions ()) in
  let run_oevents evs = List.fold_left (fun o e -> oclear ops (ostep ops fixes iname o e)) (empty_oserver ops) evs in
  let as_if_never j kk (after : oserver) =
    let erased = List.filter_map (fun r -> if r.owho = kk then None else Some r.oev) (List.rev !hist) in
    let base = run_oevents erased in
    if oobs_without after kk <> oobs_without base kk then Printf.printf "%d ORACLE FAIL model-as-if-never op#%d c%d (ordered)\n" k j kk in
  List.iteri (fun j op ->
    let f = split ':' op in
    let code = List.hd f in
    let kk = match List.nth_opt f 1 with Some x -> (try int_of_string x with _ -> -1) | None -> -1 in
    let valid, ev =
      if code = "a" then begin
        let id = !nsess in incr nsess;
        let host = (match List.nth_opt f 1 with Some h when h <> "" -> h | _ -> "H") in
        (true, Some (OAttach (n_of_int id, intern host, intern (string_of_int id), bits_of_host host), id))
      end
      else if not (alive kk) then (false, None)
      else if code = "d" then (true, Some (ODetach (n_of_int kk), kk))
      else if code = "b" then
        (true, Some (OCmd (n_of_int kk, OBatch (parse_osubs (match List.nth_opt f 2 with Some x -> x | None -> ""))), kk))
      else begin
        match parse_ocmd code (match f with _ :: _ :: r -> r | _ -> []) with
        | Some c -> (true, Some (OCmd (n_of_int kk, c), kk))
        | None -> (false, None)
      end in
    let before = if valid && code <> "a" && code <> "d" then Some (oforeign_view !os kk) else None in
    let unpriv = valid && int_of_n (priv_get (xs_priv ops (o_x ops !os)) (n_of_int kk)) = 0 in
    let dir = match sess_of kk with Some ss -> session_dir ops ss | None -> [] in
    (match ev with
     | Some (e, who) -> os := ostep ops fixes iname !os e; hist := { oev = e; owho = who } :: !hist
     | None -> ());
    Printf.printf "%d %d %s%s %s\n" k j code (if valid then "" else "!") (ostate_str !os);
    (match before with
     | Some b when unpriv && alive kk && oforeign_view !os kk <> b -> Printf.printf "%d ORACLE FAIL model-frame op#%d c%d (ordered)\n" k j kk
     | _ -> ());
    if valid && code = "d" then begin
      (match trace_of (o_x ops !os) kk dir with Some w -> Printf.printf "%d ORACLE FAIL model-detach-trace op#%d c%d %s\n" k j kk w | None -> ());
      if List.exists (fun (p, _) -> under dir p) (o_idx ops !os) || List.exists (fun (p, _) -> under dir p) (o_ctr ops !os) then
        Printf.printf "%d ORACLE FAIL model-detach-trace op#%d c%d index or counter left\n" k j kk;
      if unpriv then as_if_never j kk !os
    end;
    os := oclear ops !os
  ) opl

let () =
  let lines = Ocommon.read_lines () in
  List.iteri (fun k line ->
    match String.index_opt line '|' with
    | None -> ()
    | Some bar when bar > 0 && line.[0] = 'i' ->
      (* the stream with INSERTORDEREDDATA / REORDERDATA: not modelled; the harness judges it by its oracles alone *)
      Printf.printf "%d i\n" k
    | Some bar when bar > 0 && line.[0] = 'q' ->
      Hashtbl.reset tbl; Hashtbl.reset rev_tbl;
      run_ordered_case k (String.sub line (bar+1) (String.length line - bar - 1))
    | Some bar ->
      Hashtbl.reset tbl; Hashtbl.reset rev_tbl;
      let body = String.sub line (bar+1) (String.length line - bar - 1) in
      let opl = List.filter (fun s -> s <> "") (split ';' body) in
      let xs = ref (empty_xserver ops) in
      let nsess = ref 0 in
      let hist : evrec list ref = ref [] in          (* events so far, newest first *)
      let alive kk = kk >= 0 && List.exists (fun ss -> int_of_n ss.s_id = kk) (sv_sessions ops (xs_sv ops !xs)) in
      let sess_of kk = List.find_opt (fun ss -> int_of_n ss.s_id = kk) (sv_sessions ops (xs_sv ops !xs)) in
      let as_if_never j kk (after : xserver) =
        let erased = List.filter_map (fun r -> if r.who = kk then None else Some r.ev) (List.rev !hist) in
        let base = run_events erased in
        let a = obs_without after kk and b = obs_without base kk in
        if a <> b then Printf.printf "%d ORACLE FAIL model-as-if-never op#%d c%d\n" k j kk in
      List.iteri (fun j op ->
        let f = split ':' op in
        let code = List.hd f in
        let kk = match List.nth_opt f 1 with Some x -> (try int_of_string x with _ -> -1) | None -> -1 in
        if code = "x" then begin
          (* cut: the stream of K's Messages is cut after j' complete Messages, for every j' *)
          let valid = alive kk in
          let subs = if valid then parse_subs (match List.nth_opt f 3 with Some x -> x | None -> "") else [] in
          if not valid then Printf.printf "%d %d x! %s\n" k j (state_str (xclear ops !xs))
          else begin
            let dir = match sess_of kk with Some ss -> session_dir ops ss | None -> [] in
            let cur = ref !xs in
            let n = List.length subs in
            let saved_hist = !hist in
            for j' = 0 to n do
              (* !cur = state after j' commands (outputs NOT cleared in between: they accumulate over the whole cut step) *)
              let after = xstep ops fixes !cur (XDetach (n_of_int kk)) in
              Printf.printf "%d %d x%d %s\n" k j j' (state_str after);
              (match trace_of after kk dir with Some w -> Printf.printf "%d ORACLE FAIL model-detach-trace op#%d x%d c%d %s\n" k j j' kk w | None -> ());
              if int_of_n (priv_get (xs_priv ops !xs) (n_of_int kk)) = 0 then as_if_never j kk after;
              if j' < n then begin
                let c = List.nth subs j' in
                let before = foreign_view !cur kk in
                let unpriv = int_of_n (priv_get (xs_priv ops !cur) (n_of_int kk)) = 0 in
                cur := xstep ops fixes !cur (XCmd (n_of_int kk, c));
                hist := { ev = XCmd (n_of_int kk, c); who = kk } :: !hist;
                if unpriv && alive kk && foreign_view !cur kk <> before then
                  Printf.printf "%d ORACLE FAIL model-frame op#%d x%d c%d\n" k j j' kk
              end
            done;
            hist := saved_hist;
            xs := xclear ops (xstep ops fixes !xs (XDetach (n_of_int kk)))
          end
        end else begin
          let valid, ev =
            if code = "a" then begin
              let id = !nsess in incr nsess;
              let host = (match List.nth_opt f 1 with Some h when h <> "" -> h | _ -> "H") in
              (true, Some (XAttach (n_of_int id, intern host, intern (string_of_int id), bits_of_host host), id))
            end
            else if not (alive kk) then (false, None)
            else if code = "d" then (true, Some (XDetach (n_of_int kk), kk))
            else if code = "b" then
              (true, Some (XCmd (n_of_int kk, XBatch (parse_subs (match List.nth_opt f 2 with Some x -> x | None -> ""))), kk))
            else begin
              match parse_cmd code (match f with _ :: _ :: r -> r | _ -> []) with
              | Some c -> (true, Some (XCmd (n_of_int kk, c), kk))
              | None -> (false, None)
            end in
          let before = if valid && code <> "a" && code <> "d" then Some (foreign_view !xs kk) else None in
          let unpriv = valid && int_of_n (priv_get (xs_priv ops !xs) (n_of_int kk)) = 0 in
          let dir = match sess_of kk with Some ss -> session_dir ops ss | None -> [] in
          let unpriv_before =
            List.filter_map (fun ss -> if int_of_n (priv_get (xs_priv ops !xs) ss.s_id) = 0 then Some (int_of_n ss.s_id) else None)
              (sv_sessions ops (xs_sv ops !xs)) in
          (match ev with
           | Some (e, who) -> xs := xstep ops fixes !xs e; hist := { ev = e; who } :: !hist
           | None -> ());
          (* unprivileged sessions a kick of this command removed: as if they had never been there *)
          if valid && code <> "a" && code <> "d" then
            List.iter (fun x -> if x <> kk && not (alive x) then as_if_never j x !xs) unpriv_before;
          Printf.printf "%d %d %s%s %s\n" k j code (if valid then "" else "!") (state_str !xs);
          (match before with
           | Some b when unpriv && alive kk && foreign_view !xs kk <> b -> Printf.printf "%d ORACLE FAIL model-frame op#%d c%d\n" k j kk
           | _ -> ());
          if valid && code = "d" then begin
            (match trace_of !xs kk dir with Some w -> Printf.printf "%d ORACLE FAIL model-detach-trace op#%d c%d %s\n" k j kk w | None -> ());
            if unpriv then as_if_never j kk !xs     (* a privileged session's kicks are visible effects by design *)
          end;
          xs := xclear ops !xs
        end
      ) opl
  ) lines
