(* Driver for the extracted gateway models (C03): reads one case per line (format: see
   harness/gw_h.cpp), prints the same canonical line the harness prints for the real code. *)
open Gw_model

let rec pos_of_int n = if n = 1 then XH else if n land 1 = 0 then XO (pos_of_int (n lsr 1)) else XI (pos_of_int (n lsr 1))
let n_of_int n = if n = 0 then N0 else Npos (pos_of_int n)
let rec int_of_pos = function XH -> 1 | XO p -> 2 * int_of_pos p | XI p -> 2 * int_of_pos p + 1
let int_of_n = function N0 -> 0 | Npos p -> int_of_pos p
let int_of_z = function Z0 -> 0 | Zpos p -> int_of_pos p | Zneg p -> - (int_of_pos p)

let bytes_of_hex s = List.map n_of_int (Ocommon.bytes_of_hex s)
let hex_of_bytes (b : bytes) = Ocommon.hex_of_bytes (List.map int_of_n b)
(* "v*n" = n entries of v *)
let nums s = if s = "" then [] else List.concat_map (fun x ->
    match String.index_opt x '*' with
    | None -> [n_of_int (int_of_string x)]
    | Some p -> List.init (int_of_string (String.sub x (p+1) (String.length x - p - 1))) (fun _ -> n_of_int (int_of_string (String.sub x 0 p))))
  (String.split_on_char ',' s)
let items s = if s = "!" then [] else List.map bytes_of_hex (String.split_on_char ',' s)
let show_msg (its : bytes list) =
  "(" ^ (if its = [] then "!" else String.concat "," (List.map hex_of_bytes its)) ^ ")"
let b01 b = if b then "1" else "0"

(* a machine: queue / output / input closures over mutable model state; the pipe is shared *)
type mach = { h : unit -> bool;   (* the sender's HasBytesToOutput() *)
              q : string -> unit; o : n -> n list -> bytes * string; i : n -> n list -> bytes -> (string * string * string) * bytes }

let mk_frame maxin =
  let s = ref (fs_init ()) and r = ref (fr_init ()) in
  { h = (fun () -> fs_has_bytes !s);
    q = (fun a -> s := fs_queue !s (bytes_of_hex a));
    o = (fun maxb scr ->
          let (s', w) = d_do_output !s maxb scr in
          s := s';
          (w, Printf.sprintf "%d/%s/%d" (List.length s'.fs_q)
                (match s'.fs_buf with None -> "-" | Some b -> string_of_int (List.length b)) (int_of_n s'.fs_off)));
    i = (fun maxb scr pipe ->
          let ((r', outs), pipe') = d_do_input maxin !r maxb scr pipe in
          r := r';
          let consumed = List.length pipe - List.length pipe' in
          let ret = if consumed = 0 && r'.fr_err then "E" else string_of_int consumed in
          let obs = match r'.fr_buf with
            | None -> "-/0/-"
            | Some (cap, got) -> Printf.sprintf "%d/%d/%s" (int_of_n cap) (List.length got)
                                   (if int_of_n cap <= int_of_n f_scratch then "S" else "H") in
          ((ret, String.concat "" (List.map (fun m -> show_msg [m]) outs), obs ^ "/" ^ b01 r'.fr_err), pipe')) }

(* the C mini gateway (Gw/MiniModel.v) against the C++ binary gateway: MC = mini sends, CM = mini receives *)
let mk_mini_sends maxin =
  let f = mk_frame maxin in
  let s = ref ms_init in
  { f with
    h = (fun () -> mg_has_bytes !s);
    q = (fun a -> s := ms_queue !s (bytes_of_hex a));
    o = (fun maxb scr ->
          let (s', w) = mg_do_output !s maxb scr in
          s := s';
          (w, Printf.sprintf "%d/%d" (List.length s'.mg_bufs) (int_of_n s'.mg_off))) }
let mk_mini_receives () =
  let f = mk_frame (n_of_int 4294967295) in
  let r = ref mr_init in
  { f with
    i = (fun maxb scr pipe ->
          let (((r', outs), pipe'), err) = mg_in scr !r maxb pipe in
          r := r';
          let consumed = List.length pipe - List.length pipe' in
          let ret = if err then "E" else string_of_int consumed in
          ((ret, String.concat "" (List.map (fun m -> show_msg [m]) outs),
            Printf.sprintf "%d/%d/%d" (List.length r'.mr_got) (int_of_n r'.mr_max) (int_of_n r'.mr_size)), pipe')) }

(* zlib encodings: deflate/inflate are Section variables of the Coq model; here they are instantiated by
   the table the generator computed with the same libz (python zlib, Z_SYNC_FLUSH per Message, one stream
   per gateway): stream state = number of Messages deflated / inflated so far. *)
let mk_zframe enc maxin (table : bytes array) =
  let bodies = Array.make (Array.length table + 1) [] in
  let deflate ds _indep body =
    let k = int_of_n ds in
    if k < Array.length table then (bodies.(k) <- body; (n_of_int (k+1), table.(k)))
    else failwith "deflate table exhausted" in
  let inflate is _indep defl rawlen =
    let k = int_of_n is in
    if k < Array.length table && defl = table.(k) && int_of_n rawlen = List.length bodies.(k)
    then (n_of_int (k+1), Some bodies.(k)) else (is, None) in
  let oenc = n_of_int (1164862256 + enc) in
  let s = ref (fs_init None) and r = ref (fr_init None) in
  { h = (fun () -> fs_has_bytes !s);
    q = (fun a -> s := fs_queue !s (bytes_of_hex a));
    o = (fun maxb scr ->
          let (s', w) = z_do_output (fun _ -> N0) deflate oenc false !s maxb scr in
          s := s';
          (w, Printf.sprintf "%d/%s/%d" (List.length s'.fs_q)
                (match s'.fs_buf with None -> "-" | Some b -> string_of_int (List.length b)) (int_of_n s'.fs_off)));
    i = (fun maxb scr pipe ->
          let ((r', outs), pipe') = z_do_input N0 inflate maxin !r maxb scr pipe in
          r := r';
          let consumed = List.length pipe - List.length pipe' in
          let ret = if consumed = 0 && r'.fr_err then "E" else string_of_int consumed in
          let obs = match r'.fr_buf with
            | None -> "-/0/-"
            | Some (cap, got) -> Printf.sprintf "%d/%d/%s" (int_of_n cap) (List.length got)
                                   (if int_of_n cap <= int_of_n f_scratch then "S" else "H") in
          ((ret, String.concat "" (List.map (fun m -> show_msg [m]) outs), obs ^ "/" ^ b01 r'.fr_err), pipe')) }

(* templating gateway: the Message-level functions are Section variables of the Coq model; here they are
   instantiated from the table the "describe" pre-pass of the harness produced for the Messages of the case
   (trivial?/what/TemplateHashCode64/template size/TemplatedFlatten bytes/shape), see checks/c03.py *)
type tmsg = { t_flat : bytes; t_triv : bool; t_what : n; t_id : n; t_tsize : n; t_tflat : bytes; t_shape : string }
type ttpl = { p_id : n; p_size : n; p_shape : string }
let rec n_of_decimal (s : string) : n =   (* 64-bit ids do not fit an OCaml int *)
  let rec go acc i = if i >= String.length s then acc else
    go (N.add (N.mul acc (n_of_int 10)) (n_of_int (Char.code s.[i] - 48))) (i+1) in go N0 0
let rec decimal_of_n (x : n) : string =
  match x with N0 -> "0" | _ ->
    let (q, r) = N.div_eucl x (n_of_int 10) in
    (if q = N0 then "" else decimal_of_n q) ^ string_of_int (int_of_n r)
let mk_tmpl maxin maxcache (table : tmsg list) =
  let le32i w = List.map n_of_int [w land 255; (w lsr 8) land 255; (w lsr 16) land 255; (w lsr 24) land 255] in
  let what_only w = { t_flat = le32i 1347235888 @ le32i (int_of_n w) @ le32i 0; t_triv = true; t_what = w; t_id = n_of_int 1;
                      t_tsize = n_of_int 12; t_tflat = le32i (int_of_n w); t_shape = "" } in
  let m_of_what w = match List.find_opt (fun m -> m.t_triv && m.t_what = w) table with Some m -> m | None -> what_only w in
  let m_tmpl m = { p_id = m.t_id; p_size = m.t_tsize; p_shape = m.t_shape } in
  let m_unflat b = List.find_opt (fun m -> m.t_flat = b) table in
  let m_tflat t m = if t.p_shape = m.t_shape then m.t_tflat else [] in
  let m_tunflat t b = List.find_opt (fun m -> m.t_shape = t.p_shape && m.t_tflat = b) table in
  let describes t m = (t.p_shape = m.t_shape) in
  let queue_ix = ref 0 in
  let s = ref (fs_init cache0) and r = ref (fr_init cache0) in
  let cache_obs (c : (n * ttpl) list * n) =
    String.concat "." (List.map (fun (k, _) -> decimal_of_n k) (fst c)) ^ "/" ^ decimal_of_n (snd c) in
  { h = (fun () -> fs_has_bytes !s);
    q = (fun _ -> let m = List.nth table !queue_ix in incr queue_ix; s := fs_queue !s m);
    o = (fun maxb scr ->
          let (s', w) = tm_do_output (fun m -> m.t_triv) (fun m -> m.t_what) m_of_what (fun m -> m.t_id) m_tmpl (fun t -> t.p_size)
                          (fun m -> m.t_flat) m_tflat describes maxcache !s maxb scr in
          s := s';
          (w, Printf.sprintf "%d/%s/%d/%s" (List.length s'.fs_q)
                (match s'.fs_buf with None -> "-" | Some b -> string_of_int (List.length b)) (int_of_n s'.fs_off) (cache_obs s'.fs_cs)));
    i = (fun maxb scr pipe ->
          let ((r', outs), pipe') = tm_do_input m_of_what m_tmpl (fun t -> t.p_id) (fun t -> t.p_size) m_unflat m_tunflat maxcache maxin !r maxb scr pipe in
          r := r';
          let consumed = List.length pipe - List.length pipe' in
          let ret = if consumed = 0 && r'.fr_err then "E" else string_of_int consumed in
          let obs = match r'.fr_buf with
            | None -> "-/0/-"
            | Some (cap, got) -> Printf.sprintf "%d/%d/%s" (int_of_n cap) (List.length got)
                                   (if int_of_n cap <= int_of_n f_scratch then "S" else "H") in
          ((ret, String.concat "" (List.map (fun m -> show_msg [m.t_flat]) outs), obs ^ "/" ^ b01 r'.fr_err ^ "/" ^ cache_obs r'.fr_cr), pipe')) }

(* WebSocket pair after the handshake, MessageIOGateway slaves (DEFAULT encoding): the slave gateways are the
   binary-gateway model itself (sender: d_flat, receiver: the byte-level machine d_feed) *)
let mk_ws ?(keys = []) client_sends maxin =
  let sflat m = snd (d_flat () m) in
  (* "while(_slaveGateway()->DoInput(receiver).GetByteCount() > 0) {}" over the payload: the slave's own DoInput loop
     (the chunk-level model; the theorems use its byte-level equivalent d_feed, FrameProofs.f_do_input_spec) *)
  let big = n_of_int 4294967295 in
  let sfeed sl payload =
    let rec go sl pipe outs =
      let ((sl', o), pipe') = d_do_input maxin sl big [big; big; big; big; big; big] pipe in
      if List.length pipe' = List.length pipe then (sl', outs @ o) else go sl' pipe' (outs @ o) in
    go sl payload [] in
  let s = ref (ws_init keys) and r = ref (wr_init (fr_init ())) in
  { h = (fun () -> ws_has_bytes !s);
    q = (fun a -> s := ws_queue !s (bytes_of_hex a));
    o = (fun maxb scr ->
          let (s', w) = ws_do_output sflat client_sends !s maxb scr in
          s := s';
          (w, Printf.sprintf "%d/%d/%d" (List.length s'.ws_q) (List.length s'.ws_buf) (int_of_n s'.ws_off)));
    i = (fun maxb scr pipe ->
          let ((r', outs), pipe') = wr_do_input sfeed (not client_sends) !r maxb scr pipe in
          let consumed = List.length pipe - List.length pipe' in
          (* the WebSocket gateway returns the error itself from the point where it is detected (lines 265-404) *)
          let ret = if r'.wr_err then "E" else string_of_int consumed in
          r := r';
          let obs = Printf.sprintf "%d/%d/%s/%d/%d/%s/%s" (List.length r'.wr_hdr) (int_of_n r'.wr_hsize)
                      (match r'.wr_pay with None -> "-" | Some (sz, _) -> string_of_int (int_of_n sz))
                      (match r'.wr_pay with None -> 0 | Some (_, got) -> List.length got)
                      (int_of_n r'.wr_op) (b01 r'.wr_closed) (b01 r'.wr_err) in
          ((ret, String.concat "" (List.map (fun m -> show_msg [m]) outs), obs), pipe')) }

let mk_text eol =
  let s = ref ts_init and r = ref tr_init in
  { h = (fun () -> ts_has_bytes !s);
    q = (fun a -> s := ts_queue !s (items a));
    o = (fun maxb scr ->
          let (s', w) = t_do_output eol !s maxb scr in
          s := s';
          (w, Printf.sprintf "%d/%s/%d/%d/%s" (List.length s'.ts_q) (b01 (s'.ts_cur <> None))
                (int_of_z s'.ts_idx) (int_of_z s'.ts_off) (hex_of_bytes s'.ts_text)));
    i = (fun maxb scr pipe ->
          let ((r', outs), pipe') = t_do_input !r maxb scr pipe in
          r := r';
          ((string_of_int (List.length pipe - List.length pipe'), String.concat "" (List.map show_msg outs),
            hex_of_bytes r'.tr_text ^ "/" ^ b01 r'.tr_cr), pipe')) }

let raw_out dout s = (fun maxb scr ->
          let (s', w) = dout !s maxb scr in
          s := s';
          (w, Printf.sprintf "%d/%s/%d/%d/%d" (List.length s'.rs_q) (b01 (s'.rs_cur <> None))
                (int_of_z s'.rs_idx) (int_of_z s'.rs_off) (int_of_z s'.rs_len)))

let mk_raw minc maxc =
  let s = ref rs_init and r = ref rr_init in
  { h = (fun () -> rs_has_bytes !s);
    q = (fun a -> s := rs_queue !s (items a));
    o = raw_out raw_do_output s;
    i = (fun maxb scr pipe ->
          let ((r', outs), pipe') = r_do_input minc maxc !r maxb scr pipe in
          r := r';
          let obs = match rr_cur r' with None -> "0/0" | Some c -> "1/" ^ string_of_int (List.length c) in
          ((string_of_int (List.length pipe - List.length pipe'), String.concat "" (List.map show_msg outs), obs), pipe')) }

let mk_slip () =
  let s = ref rs_init and r = ref sr_init in
  { h = (fun () -> rs_has_bytes !s);
    q = (fun a -> s := rs_queue !s (items a));
    o = raw_out slip_do_output s;
    i = (fun maxb scr pipe ->
          let ((r', outs), pipe') = sl_do_input !r maxb scr pipe in
          r := r';
          ((string_of_int (List.length pipe - List.length pipe'), String.concat "" (List.map show_msg outs),
            hex_of_bytes r'.sr_pend ^ "/" ^ b01 r'.sr_esc), pipe')) }

let () =
  let lines = Ocommon.read_lines () in
  List.iteri (fun k line ->
    match String.index_opt line '|' with
    | None -> ()
    | Some p ->
      let head = String.split_on_char ':' (String.sub line 0 p) in
      let body = String.sub line (p+1) (String.length line - p - 1) in
      let nth l i d = match List.nth_opt l i with Some x -> x | None -> d in
      let h0 = List.hd head in
      if h0.[0] = 'K' || h0.[0] = 'X' || (h0 = "WC" && List.length head < 2) || h0 = "UC" || h0 = "CU"
         || (h0 = "P" && List.length head < 5) then
        Printf.printf "%d oracle-only\n" k   (* not modelled: the harness evaluates the end-to-end oracle only *)
      else
      let m = match List.hd head with
        | "WC" -> mk_ws ~keys:(List.map bytes_of_hex (String.split_on_char ',' (nth head 1 ""))) true (n_of_int 4294967295)
        | "WS" -> mk_ws false (n_of_int 4294967295)
        | "MC" -> mk_mini_sends (n_of_int 4294967295)
        | "CM" -> mk_mini_receives ()
        | "WR" -> mk_ws true (n_of_int 4294967295)
        | "P" ->
            (* P:0:<maxin>:<maxcache>:<table>, table entries "triv/what/tid/tsize/tflathex/shape" in q order; the flat
               bytes of entry i are those of the i-th q op *)
            let qhex = List.filter_map (fun o -> match String.split_on_char ':' o with "q" :: h :: _ -> Some h | _ -> None)
                         (String.split_on_char ';' body) in
            let ents = List.filter (fun e -> e <> "") (String.split_on_char ',' (nth head 4 "")) in
            let table = List.map2 (fun e h ->
                match String.split_on_char '/' e with
                | [tr; wh; id; ts; tf; sh] ->
                    { t_flat = bytes_of_hex h; t_triv = (tr = "1"); t_what = n_of_decimal wh; t_id = n_of_decimal id;
                      t_tsize = n_of_decimal ts; t_tflat = bytes_of_hex tf; t_shape = sh }
                | _ -> failwith ("bad table entry " ^ e)) ents qhex in
            mk_tmpl (n_of_int (int_of_string (nth head 2 "4294967295"))) (n_of_int (int_of_string (nth head 3 "1048576"))) table
        | "F" when nth head 1 "0" <> "0" ->
            let tbl = nth head 3 "" in
            mk_zframe (int_of_string (nth head 1 "0")) (n_of_int (int_of_string (nth head 2 "4294967295")))
              (Array.of_list (if tbl = "" then [] else List.map bytes_of_hex (String.split_on_char ',' tbl)))
        | "F" -> mk_frame (n_of_int (int_of_string (nth head 2 "4294967295")))
        | "T" -> mk_text (bytes_of_hex (nth head 1 "0d0a"))
        | "R" -> mk_raw (n_of_int (int_of_string (nth head 1 "0"))) (n_of_int (int_of_string (nth head 2 "4294967295")))
        | "S" -> mk_slip ()
        | h -> failwith ("bad head " ^ h) in
      let pipe = ref ([] : bytes) in
      let buf = Buffer.create 1024 in
      List.iter (fun s ->
        if s <> "" then begin
          (match String.split_on_char ':' s with
           | "q" :: rest -> m.q (nth rest 0 ""); Buffer.add_string buf (if m.h () then "q+" else "q-")
           | "x" :: rest -> pipe := !pipe @ bytes_of_hex (nth rest 0 ""); Buffer.add_string buf "x"
           | "o" :: mx :: rest ->
               let (w, obs) = m.o (n_of_int (int_of_string mx)) (nums (nth rest 0 "")) in
               pipe := !pipe @ w;
               Buffer.add_string buf (Printf.sprintf "o%d:%s:%s/%s" (List.length w) (hex_of_bytes w) obs (if m.h () then "h1" else "h0"))
           | "i" :: mx :: rest ->
               let ((ret, msgs, obs), pipe') = m.i (n_of_int (int_of_string mx)) (nums (nth rest 0 "")) !pipe in
               pipe := pipe';
               Buffer.add_string buf (Printf.sprintf "i%s:%s:%s:%d" ret msgs obs (List.length pipe'))
           | _ -> failwith ("bad op " ^ s));
          Buffer.add_char buf ' '
        end) (String.split_on_char ';' body);
      Printf.printf "%d %s\n" k (Buffer.contents buf)
  ) lines
