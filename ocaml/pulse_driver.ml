(* Driver for the extracted PulseNode model (C20).
   Case line:  HEAD|op;op;...
   HEAD = space-separated items
      g<x>=<ent>,<ent>,...   k-th GetPulseTime of node x: ent = <tspec>[~<cop>.<cop>...]
      d<x>=<tspec>           what GetPulseTime returns once the table is used up (default N)
      p<x>=<prog>,<prog>,... k-th Pulse of node x: prog = <cop>.<cop>... or - (nothing)
   tspec = N (never) | <decimal> (absolute) | n<d> (now+d) | q<d> (previous+d, now+d if previous is never)
   cop   = i<x> invalidate(clear) | j<x> invalidate(keep) | a<p>_<c> attach | r<p>_<c> detach | c<x> clear | x<x> destroy
   top-level ops = cop | N<x> new | G<r>@<t> | P<r>@<t> | C<r>@<t>
   Output: one line `k seg seg ...`, one seg per top-level op = new events, `;`, state dump. *)
open Pulse_model

let nat_of_int n = let rec go acc k = if k <= 0 then acc else go (S acc) (k-1) in go O n
let rec int_of_nat = function O -> 0 | S n -> 1 + int_of_nat n
let rec pos_of_i64 (n : int64) =
  if n = 1L then XH
  else let r = pos_of_i64 (Int64.shift_right_logical n 1) in
       if Int64.logand n 1L = 0L then XO r else XI r
let n_of_i64 n = if n = 0L then N0 else Npos (pos_of_i64 n)
let rec i64_of_pos = function
  | XH -> 1L
  | XO p -> Int64.shift_left (i64_of_pos p) 1
  | XI p -> Int64.logor (Int64.shift_left (i64_of_pos p) 1) 1L
let i64_of_n = function N0 -> 0L | Npos p -> i64_of_pos p
let never64 = (-1L)
let sat_add a b = let s = Int64.add a b in if Int64.unsigned_compare s a < 0 then never64 else s
let time_of_string s = if s = "N" then never64 else Int64.of_string ("0u" ^ s)
let show_time64 t = if t = never64 then "N" else Printf.sprintf "%Lu" t
let show_time t = show_time64 (i64_of_n t)

type tspec = TNever | TAbs of int64 | TNow of int64 | TPrev of int64

let parse_tspec s =
  if s = "N" then TNever
  else if s.[0] = 'n' then TNow (time_of_string (String.sub s 1 (String.length s - 1)))
  else if s.[0] = 'q' then TPrev (time_of_string (String.sub s 1 (String.length s - 1)))
  else TAbs (time_of_string s)

let eval_tspec ts now prev = match ts with
  | TNever -> never64
  | TAbs t -> t
  | TNow d -> sat_add now d
  | TPrev d -> if prev = never64 then sat_add now d else sat_add prev d

let two s = match String.split_on_char '_' s with
  | [a; b] -> (nat_of_int (int_of_string a), nat_of_int (int_of_string b))
  | _ -> failwith ("bad pair " ^ s)
let rest s = String.sub s 1 (String.length s - 1)
let idn s = nat_of_int (int_of_string (rest s))

let parse_cop s = match s.[0] with
  | 'i' -> CInval (idn s, true)
  | 'j' -> CInval (idn s, false)
  | 'a' -> let (p, c) = two (rest s) in CAttach (p, c)
  | 'r' -> let (p, c) = two (rest s) in CDetach (p, c)
  | 'c' -> CClear (idn s)
  | 'x' -> CDestroy (idn s)
  | _ -> failwith ("bad cop " ^ s)

let parse_prog s = if s = "-" || s = "" then [] else List.map parse_cop (String.split_on_char '.' s)

let at s = match String.split_on_char '@' (rest s) with
  | [r; t] -> (nat_of_int (int_of_string r), n_of_i64 (time_of_string t))
  | _ -> failwith ("bad op " ^ s)

let parse_top s = match s.[0] with
  | 'N' -> TNew (idn s)
  | 'G' -> let (r, t) = at s in TGet (r, t)
  | 'P' -> let (r, t) = at s in TPulse (r, t)
  | 'C' -> let (r, t) = at s in TCycle (r, t)
  | _ -> TOp (parse_cop s)

let show_list l = String.concat "." (List.map (fun x -> string_of_int (int_of_nat x)) l)
let show_node i (nd : node) =
  Printf.sprintf "%d{%s,%s,%s,%d,%s,%s/%s/%s}" i
    (match nd.parent with None -> "-" | Some p -> string_of_int (int_of_nat p))
    (show_time nd.agg) (show_time nd.sched) (if nd.valid then 1 else 0)
    (match nd.cur with LNone -> "-" | LSched -> "S" | LUnsched -> "U" | LRecalc -> "R")
    (show_list nd.ls) (show_list nd.lu) (show_list nd.lr)

let show_event = function
  | EGet (x, k, now, prev) -> Printf.sprintf "g%d#%d(%s,%s)" (int_of_nat x) (int_of_nat k) (show_time now) (show_time prev)
  | EPulse (x, k, now, st) -> Printf.sprintf "p%d#%d(%s,%s)" (int_of_nat x) (int_of_nat k) (show_time now) (show_time st)
  | EMin (r, m) -> Printf.sprintf "m%d=%s" (int_of_nat r) (show_time m)

let maxid = 16
let fuel = nat_of_int 400

let () =
  let lines = Ocommon.read_lines () in
  List.iteri (fun k line ->
    match String.index_opt line '|' with
    | None -> ()
    | Some 1 when line.[0] = 'S' -> Printf.printf "%d srv\n" k   (* a case of the server-level harness *)
    | Some p ->
      let head = String.sub line 0 p in
      let body = String.sub line (p+1) (String.length line - p - 1) in
      let gtab = Array.make maxid [||] and ptab = Array.make maxid [||] and dflt = Array.make maxid TNever in
      List.iter (fun item ->
        if item <> "" then
          match String.index_opt item '=' with
          | None -> failwith ("bad head item " ^ item)
          | Some e ->
            let x = int_of_string (String.sub item 1 (e - 1)) in
            let v = String.sub item (e+1) (String.length item - e - 1) in
            (match item.[0] with
             | 'g' -> gtab.(x) <- Array.of_list (List.map (fun ent ->
                         match String.index_opt ent '~' with
                         | None -> (parse_tspec ent, [])
                         | Some q -> (parse_tspec (String.sub ent 0 q), parse_prog (String.sub ent (q+1) (String.length ent - q - 1))))
                         (String.split_on_char ',' v))
             | 'd' -> dflt.(x) <- parse_tspec v
             | 'p' -> ptab.(x) <- Array.of_list (List.map parse_prog (String.split_on_char ',' v))
             | _ -> failwith ("bad head item " ^ item)))
        (String.split_on_char ' ' head);
      (* the forest as the model sees it at every callback entry, in call order (compared with the harness's dump) *)
      let snaps : string Queue.t = Queue.create () in
      let snap (m : nmap) =
        let b = Buffer.create 256 in
        for i = 0 to maxid - 1 do let n = m (nat_of_int i) in if n.alive then Buffer.add_string b (show_node i n) done;
        Queue.add (Buffer.contents b) snaps in
      let gt m x kk now prev =
        snap m;
        let x = int_of_nat x and kk = int_of_nat kk in
        let now = i64_of_n now and prev = i64_of_n prev in
        if x < maxid && kk < Array.length gtab.(x) then
          let (ts, prog) = gtab.(x).(kk) in (n_of_i64 (eval_tspec ts now prev), prog)
        else (n_of_i64 (eval_tspec (if x < maxid then dflt.(x) else TNever) now prev), []) in
      let pl m x kk _ _ =
        snap m;
        let x = int_of_nat x and kk = int_of_nat kk in
        if x < maxid && kk < Array.length ptab.(x) then ptab.(x).(kk) else [] in
      let ops = List.filter (fun s -> s <> "") (String.split_on_char ';' body) in
      if Sys.getenv_opt "PULSE_SAFE" = Some "1" then begin
        (* classification only: does the history keep every GetPulseTime() callback off the recalculation stack? *)
        let s = ref (Some init_state) in
        List.iter (fun o -> match !s with
          | None -> ()
          | Some st -> s := step_s gt pl fuel st (parse_top o); Queue.clear snaps) ops;
        Printf.printf "%d %s\n" k (if !s = None then "UNSAFE" else "SAFE")
      end else
      let buf = Buffer.create 1024 in
      let s = ref init_state in
      let out_of_fuel = ref false in
      List.iter (fun o ->
        if not !out_of_fuel then begin
          let nev0 = List.length !s.evs in
          match step gt pl fuel !s (parse_top o) with
          | None -> out_of_fuel := true; Buffer.add_string buf " FUEL"
          | Some s1 ->
            (* compact the functional map into an array-backed one *)
            let arr = Array.init maxid (fun i -> s1.nd (nat_of_int i)) in
            let ndf y = let i = int_of_nat y in if i < maxid then arr.(i) else dead in
            let nev1 = List.length s1.evs in
            let rec take n l = if n <= 0 then [] else match l with [] -> [] | h :: t -> h :: take (n-1) t in
            let fresh_evs = List.rev (take (nev1 - nev0) s1.evs) in
            s := { nd = ndf; evs = s1.evs };
            Buffer.add_char buf ' ';
            let show_ev_snap e = match e with
              | EMin _ -> show_event e
              | _ -> show_event e ^ "[" ^ (if Queue.is_empty snaps then "?" else Queue.pop snaps) ^ "]" in
            Buffer.add_string buf (String.concat "," (List.map show_ev_snap fresh_evs));
            Buffer.add_char buf ';';
            Array.iteri (fun i nd -> if nd.alive then Buffer.add_string buf (show_node i nd)) arr
        end) ops;
      Printf.printf "%d%s\n" k (Buffer.contents buf)
  ) lines
