(* Driver for the extracted Hashtable model (C09): one case per line
     <variant><hashmode>,<ntables>,<niters>|op;op;...
   prints for every case k one line "k <out> <state>;<out> <state>;..." in the same canonical text
   as harness/ht_h.cpp.  Cases whose header starts with 'S' run the storage-layer model (HtStore.v: slot
   array, bucket chains, MAP_TO/MAPPED_FROM, free list, index width, rebuild on growth) and print the
   whole slot array after every op.  Cases whose header starts with 'B' (big populations) are not run through
   the model: they are decided by the harness's own ideal-map oracle only. *)
open Ht_model

let nat_of_int n = let rec go acc k = if k <= 0 then acc else go (S acc) (k-1) in go O n
let int_of_nat n = let rec go acc = function O -> acc | S m -> go (acc+1) m in go 0 n
let rec pos_of_int n = if n <= 1 then XH else if n land 1 = 0 then XO (pos_of_int (n lsr 1)) else XI (pos_of_int (n lsr 1))
let z_of_int n = if n = 0 then Z0 else if n > 0 then Zpos (pos_of_int n) else Zneg (pos_of_int (-n))
let n_of_int n = if n = 0 then N0 else Npos (pos_of_int n)
let rec int_of_pos = function XH -> 1 | XO p -> 2 * int_of_pos p | XI p -> 2 * int_of_pos p + 1
let int_of_z = function Z0 -> 0 | Zpos p -> int_of_pos p | Zneg p -> - (int_of_pos p)
let int_of_n = function N0 -> 0 | Npos p -> int_of_pos p

let ios = int_of_string
let nat s = nat_of_int (ios s)
let zz s = z_of_int (ios s)
let b s = s = "1"

let parse_op (s : string) : op =
  match String.split_on_char ':' s with
  | ["put"; t; k; v] -> OPut (nat t, zz k, zz v)
  | ["pia"; t; k; v] -> OPutIfAbsent (nat t, zz k, zz v)
  | ["gop"; t; k; v] -> OGetOrPut (nat t, zz k, zz v)
  | ["paf"; t; k; v] -> OPutAtFront (nat t, zz k, zz v)
  | ["pab"; t; k; v] -> OPutAtBack (nat t, zz k, zz v)
  | ["pbf"; t; k; k2; v] -> OPutBefore (nat t, zz k, zz k2, zz v)
  | ["pbh"; t; k; k2; v] -> OPutBehind (nat t, zz k, zz k2, zz v)
  | ["pap"; t; k; i; v] -> OPutAtPos (nat t, zz k, nat i, zz v)
  | ["get"; t; k] -> OGet (nat t, zz k)
  | ["has"; t; k] -> OContains (nat t, zz k)
  | ["iok"; t; k] -> OIndexOfKey (nat t, zz k)
  | ["kat"; t; i] -> OKeyAt (nat t, nat i)
  | ["vat"; t; i] -> OValAt (nat t, nat i)
  | ["fk"; t] -> OFirstKey (nat t)
  | ["lk"; t] -> OLastKey (nat t)
  | ["kb"; t; k] -> OKeyBefore (nat t, zz k)
  | ["ka"; t; k] -> OKeyAfter (nat t, zz k)
  | ["iov"; t; v; bw] -> OIndexOfValue (nat t, zz v, b bw)
  | ["num"; t] -> ONumItems (nat t)
  | ["rm"; t; k] -> ORemove (nat t, zz k)
  | ["rf"; t] -> ORemoveFirst (nat t)
  | ["rl"; t] -> ORemoveLast (nat t)
  | ["mf"; t; k] -> OMoveFront (nat t, zz k)
  | ["mb"; t; k] -> OMoveBack (nat t, zz k)
  | ["mbf"; t; k; k2] -> OMoveBefore (nat t, zz k, zz k2)
  | ["mbh"; t; k; k2] -> OMoveBehind (nat t, zz k, zz k2)
  | ["mp"; t; k; i] -> OMovePos (nat t, zz k, nat i)
  | ["gmf"; t; k] -> OGetMoveFront (nat t, zz k)
  | ["gmb"; t; k] -> OGetMoveBack (nat t, zz k)
  | ["sk"; t] -> OSortKey (nat t)
  | ["sv"; t] -> OSortVal (nat t)
  | ["so"; t] -> OSort (nat t)
  | ["rep"; t; k] -> OReposition (nat t, zz k)
  | ["sas"; t; en; now] -> OSetAutoSort (nat t, b en, b now)
  | ["es"; t; n; sh] -> OEnsure (nat t, n_of_int (ios n), b sh)
  | ["stf"; t; x] -> OShrinkFit (nat t, n_of_int (ios x))
  | ["ecp"; t; x] -> OEnsureCanPut (nat t, n_of_int (ios x))
  | ["clr"; t; r] -> OClear (nat t, b r)
  | ["cpf"; t; u; cf] -> OCopyFrom (nat t, nat u, b cf)
  | ["cpc"; t; u] -> OCopyCtor (nat t, nat u)
  | ["swp"; t; u] -> OSwap (nat t, nat u)
  | ["eq"; t; u; o] -> OEqual (nat t, nat u, b o)
  | ["mtt"; t; u; k] -> OMoveToTable (nat t, nat u, zz k)
  | ["ctt"; t; u; k] -> OCopyToTable (nat t, nat u, zz k)
  | ["rmt"; t; u] -> ORemoveTable (nat t, nat u)
  | ["ixt"; t; u] -> OIntersect (nat t, nat u)
  | ["des"; t] -> ODestroy (nat t)
  | ["mvc"; t; u] -> OMoveCtor (nat t, nat u)
  | ["mva"; t; u] -> OSwap (nat t, nat u)      (* move assignment is SwapContents *)
  | ["pre"; t; n] -> OPrealloc (nat t, n_of_int (ios n))
  | ["in"; i; t; bw] -> OIterNew (nat i, nat t, b bw)
  | ["ia"; i; t; k; bw] -> OIterAt (nat i, nat t, zz k, b bw)
  | ["adv"; i] -> OIterAdv (nat i)
  | ["ret"; i] -> OIterRet (nat i)
  | ["sbw"; i; bw] -> OIterSetBw (nat i, b bw)
  | ["del"; i] -> OIterDel (nat i)
  | ["icp"; i; j] -> OIterCopy (nat i, nat j)
  | ["ish"; i] -> OIterShow (nat i)
  | _ -> failwith ("bad op " ^ s)

let kv_str (k, v) = Printf.sprintf "%d=%d" (int_of_z k) (int_of_z v)

let show_out = function
  | ONone -> "-"
  | OStatus c -> "s" ^ string_of_int (int_of_nat c)
  | OBool true -> "b1" | OBool false -> "b0"
  | OVal None -> "none" | OVal (Some v) -> "v" ^ string_of_int (int_of_z v)
  | OKV None -> "none" | OKV (Some kv) -> "kv" ^ kv_str kv
  | OIdx None -> "i-1" | OIdx (Some i) -> "i" ^ string_of_int (int_of_nat i)
  | ONat n -> "n" ^ string_of_int (int_of_nat n)
  | OIt None -> "it:end" | OIt (Some kv) -> "it:" ^ kv_str kv

(* contents: all pairs when few, else both ends and a position-weighted checksum *)
let show_pairs (l : (z * z) list) =
  let a = Array.of_list (List.map (fun (k, v) -> (int_of_z k, int_of_z v)) l) in
  let n = Array.length a in
  let p (k, v) = Printf.sprintf "%d=%d" k v in
  if n <= 24 then String.concat "," (Array.to_list (Array.map p a))
  else begin
    let sum = ref 0 in
    Array.iteri (fun i (k, v) -> sum := (!sum + (i + 1) * (((k * 31 + v) mod 1000003) + 1000003)) mod 1000000007) a;
    let firsts = Array.to_list (Array.map p (Array.sub a 0 6)) in
    let lasts = Array.to_list (Array.map p (Array.sub a (n - 6) 6)) in
    Printf.sprintf "%s,..#%d..,%s" (String.concat "," firsts) !sum (String.concat "," lasts)
  end

let show_state (w : world) =
  let buf = Buffer.create 256 in
  List.iteri (fun t (h : ht) ->
    let fwd = abs h and bwd = abs_back h in
    let same = (List.map (fun (k, v) -> (int_of_z k, int_of_z v)) fwd) = (List.rev (List.map (fun (k, v) -> (int_of_z k, int_of_z v)) bwd)) in
    Buffer.add_string buf (Printf.sprintf " T%d:%d/%d/%d/[%s]/b%d/{%s}" t (int_of_nat h.cnt) (int_of_n h.cap)
      (if h.asort then 1 else 0) (show_pairs fwd) (if same then 1 else 0)
      (String.concat "," (List.map (fun i -> string_of_int (int_of_nat i)) h.ilist)))) w.tabs;
  List.iteri (fun i (o : iter option) ->
    match o with
    | None -> Buffer.add_string buf (Printf.sprintf " I%d:-" i)
    | Some it ->
      let own = if it.inoreg then "u" else match it.iown with Some t -> string_of_int (int_of_nat t) | None -> "x" in
      let ck = match it.iown, it.icookie with
        | Some t, Some c -> (match key_of_opt (gett w t) (Some c) with Some k -> string_of_int (int_of_z k) | None -> "?")
        | None, Some _ -> "?"
        | _, None -> "_" in
      Buffer.add_string buf (Printf.sprintf " I%d:%s/%s/%s/%s/%s" i own ck (if it.ibw then "b" else "f")
        (if it.inoreg then "n" else "r") (match it.iscr with Some kv -> kv_str kv | None -> "_"))) w.its;
  Buffer.contents buf

let same_world0 (a : world0) (b : world0) =
  let norm (x : tab0) = (List.map (fun (k, v) -> (int_of_z k, int_of_z v)) x.pairs, int_of_n x.acap, x.aasort) in
  List.map norm a = List.map norm b


(* ------------------------------------------------------------------ storage cases (S header) *)

let hashf (hm : char) (k : z) : n =
  let ki = int_of_z k in
  let h = match hm with
    | '1' -> (ki land 0xFFFFFFFF) mod 3
    | '2' -> (ki * 2654435761) land 0xFFFFFFFF
    | _ -> ki land 0xFFFFFFFF in
  n_of_int h

let idx_s = function None -> "-" | Some i -> string_of_int (int_of_nat i)

(* the model's ComputeTableIndexTypeForTableSize, remembered per size (its unary 65535 is slow to rebuild) *)
let idx_type_memo : (int, int) Hashtbl.t = Hashtbl.create 16
let idx_type_of size =
  match Hashtbl.find_opt idx_type_memo size with
  | Some t -> t
  | None -> let t = int_of_nat (idx_type (nat_of_int size)) in Hashtbl.add idx_type_memo size t; t

let dump_store (st : store) =
  let size = List.length st.slots in
  let b = Buffer.create 1024 in
  List.iteri (fun i (s : slot) ->
    if i > 0 then Buffer.add_char b ',';
    (match s.s_hash with
     | None -> Buffer.add_string b "x._._"
     | Some h -> Buffer.add_string b (Printf.sprintf "%d.%d.%d" (int_of_n h) (int_of_z s.s_key) (int_of_z s.s_val)));
    Buffer.add_string b (Printf.sprintf ".%s.%s.%d.%d" (idx_s s.s_bprev) (idx_s s.s_bnext) (int_of_nat s.s_mapto) (int_of_nat s.s_mfrom))) st.slots;
  let body = Buffer.contents b in
  let shown =
    if size <= 40 then body
    else begin
      let h = ref 0xcbf29ce484222325L in
      String.iter (fun c -> h := Int64.mul (Int64.logxor !h (Int64.of_int (Char.code c))) 1099511628211L) body;
      Printf.sprintf "#%016Lx" !h
    end in
  Printf.sprintf "S:%d/%d/%d/%s|%s" size (idx_type_of size) (int_of_nat st.nitems) (idx_s st.free_head) shown

let run_store_case (k : int) (head : string) (body : string) =
  let hp = String.split_on_char ',' head in
  let h0 = List.nth hp 0 in
  let hm = if String.length h0 > 1 then h0.[1] else '0' in
  let req = if List.length hp > 1 then ios (List.nth hp 1) else 0 in
  let size = ref (max req (int_of_n default_capacity)) in      (* EnsureSize on the still unallocated table *)
  let run : srun option ref = ref None in
  let bad = ref None in
  let buf = Buffer.create 1024 in
  let ops = List.filter (fun s -> s <> "") (String.split_on_char ';' body) in
  let ensure_alloc () = match !run with
    | Some r -> r
    | None -> let r = { r_st = st_create (nat_of_int !size); r_order = [] } in run := Some r; r in
  List.iter (fun s ->
    let out =
      match String.split_on_char ':' s with
      | ["sp"; key; v] ->
          let r = ensure_alloc () in
          let (r', _) = st_step (hashf hm) r (SPut (zz key, zz v)) in run := Some r'; "s0"
      | ["sg"; key] ->
          (match !run with
           | None -> "none"
           | Some r -> let (_, o) = st_step (hashf hm) r (SGet (zz key)) in
                       (match o with Some v -> "v" ^ string_of_int (int_of_z v) | None -> "none"))
      | ["sr"; key] ->
          (match !run with
           | None -> "s1"
           | Some r -> let (r', o) = st_step (hashf hm) r (SRemove (zz key)) in run := Some r';
                       (match o with Some _ -> "s0" | None -> "s1"))
      | ["se"; nn] ->
          (match !run with
           | None -> size := max !size (ios nn); "s0"
           | Some r -> let (r', _) = st_step (hashf hm) r (SGrow (nat_of_int (ios nn))) in run := Some r'; "s0")
      | _ -> "?" in
    Buffer.add_string buf out; Buffer.add_char buf ' ';
    (match !run with
     | None -> Buffer.add_string buf (Printf.sprintf "S:%d/null" !size)
     | Some r ->
         Buffer.add_string buf (dump_store r.r_st));
    Buffer.add_char buf ';') ops;
  Printf.printf "%d %s\n" k (Buffer.contents buf);
  (match !bad with Some why -> Printf.printf "%d ORACLE FAIL storage model: %s\n" k why | None -> ())

let () =
  let lines = Ocommon.read_lines () in
  List.iteri (fun k line ->
    match String.index_opt line '|' with
    | None -> ()
    | Some p ->
      let head = String.sub line 0 p in
      let body = String.sub line (p+1) (String.length line - p - 1) in
      if String.length head > 0 && head.[0] = 'B' then Printf.printf "%d big\n" k
      else if String.length head > 0 && (head.[0] = 'S' || head.[0] = 's') then run_store_case k head body
      else begin
        let hp = String.split_on_char ',' head in
        let h0 = List.nth hp 0 in
        (* lower-case class letters: the harness runs the same script on tables with an owning key / value type *)
        let var = match Char.uppercase_ascii h0.[0] with 'K' -> VKeys | 'V' -> VVals | _ -> VPlain in
        let nt = ios (List.nth hp 1) and ni = ios (List.nth hp 2) in
        let dcap = default_capacity in
        let ops = List.filter (fun s -> s <> "") (String.split_on_char ';' body) in
        let buf = Buffer.create 1024 in
        let w = ref (init_world dcap (nat_of_int nt) (nat_of_int ni)) in
        let w0 = ref (init_world0 dcap (nat_of_int nt)) in
        let bad = ref None in
        List.iteri (fun n s ->
          let o = parse_op s in
          let (w', r) = step1 var dcap !w o in
          let (w0', r0) = step0 var dcap !w0 o in
          w := w'; w0 := w0';
          if !bad = None then begin
            if not (same_world0 (abs_world w') w0') then bad := Some (Printf.sprintf "state after op#%d %s" n s)
            else if not (is_iter_op o) && show_out r <> show_out r0 then bad := Some (Printf.sprintf "output of op#%d %s" n s)
          end;
          Buffer.add_string buf (show_out r);
          Buffer.add_string buf (show_state w');
          Buffer.add_char buf ';') ops;
        Printf.printf "%d %s\n" k (Buffer.contents buf);
        (match !bad with
         | Some why -> Printf.printf "%d ORACLE FAIL model L1 deviates from L0: %s\n" k why
         | None -> ())
      end
  ) lines
