(* Driver for the extracted reflector-server / mirror model (C04).  Reads the same cases as
   harness/mirror_h.cpp (see the grammar there) and prints the same canonical text.

   The external matching code of the model (class MatchOps) is instantiated here for the pattern and
   filter repertoire the case generator uses:
     clause  = the clause text over [a-z0-9], '*', '?', ','      (muscle "simple" wildcard syntax)
     cmatch  = whole-string glob match, ',' separates alternatives
     ckeys   = Some [text] when the text has no wildcard character, Some (non-empty segments) when its only
               special characters are commas, None otherwise (a lone "*" is a NULL matcher: None)
     filter  = g<n> | l<n> | e<n> on the int32 field "v" (false when the field is missing), x = "v" exists
   Names are interned strings, payload 0 = empty Message, v -> v+1. *)
open Mirror_model

let rec pos_of_int n = if n = 1 then XH else if n land 1 = 0 then XO (pos_of_int (n lsr 1)) else XI (pos_of_int (n lsr 1))
let n_of_int k = if k = 0 then N0 else Npos (pos_of_int k)
let rec int_of_pos = function XH -> 1 | XO p -> 2 * int_of_pos p | XI p -> 2 * int_of_pos p + 1
let int_of_n = function N0 -> 0 | Npos p -> int_of_pos p
let z_of_int k = if k = 0 then Z0 else if k > 0 then Zpos (pos_of_int k) else Zneg (pos_of_int (-k))
let rec nat_of_int k = if k <= 0 then O else S (nat_of_int (k-1))
let rec int_of_nat = function O -> 0 | S n -> 1 + int_of_nat n

(* ---- interned names *)
let tbl : (string, int) Hashtbl.t = Hashtbl.create 64
let rev_tbl : (int, string) Hashtbl.t = Hashtbl.create 64
let intern (s : string) : n =
  match Hashtbl.find_opt tbl s with
  | Some i -> n_of_int i
  | None -> let i = Hashtbl.length tbl + 1 in Hashtbl.add tbl s i; Hashtbl.add rev_tbl i s; n_of_int i
let name_str (x : n) : string = match Hashtbl.find_opt rev_tbl (int_of_n x) with Some s -> s | None -> "?"

(* ---- wildcard clauses *)
let glob (pat : string) (s : string) : bool =
  let lp = String.length pat and ls = String.length s in
  let rec go i j =
    if i = lp then j = ls
    else match pat.[i] with
      | '*' -> go (i+1) j || (j < ls && go i (j+1))
      | '?' -> j < ls && go (i+1) (j+1)
      | c -> j < ls && s.[j] = c && go (i+1) (j+1) in
  go 0 0
let clause_match (c : string) (s : string) : bool = List.exists (fun alt -> glob alt s) (String.split_on_char ',' c)
let clause_keys (c : string) : string list option =
  if String.contains c '*' || String.contains c '?' then None
  else if String.contains c ',' then Some (List.filter (fun x -> x <> "") (String.split_on_char ',' c))   (* IsPatternListOfUniqueValues: empty segments are skipped *)
  else Some [c]                                                                                            (* IsPatternUnique (also the empty clause) *)

(* filters, as in the harness:  x | x<f>[I|S][i<idx>] | (g|l|e)[<f>]<int>[i<idx>] | A[..] | O[..] | X[..] | N[..] ; fields v a b c of
   the payload n:  v = n; a = n iff n even; b = [n/3 (, n iff n >= 6)] iff n mod 3 = 0; c iff n mod 5 <= 1: string when n odd, int32 7
   when n even *)
type fast = Ex of string * char * int | Cmp of char * string * int * int | And of fast list | Or of fast list | Xor of fast list | Nand of fast list
type fspec = { src : string; ast : fast }
let parse_filter (f : string) : fast =
  let n = String.length f in
  let pos = ref 0 in
  let peek () = if !pos < n then Some f.[!pos] else None in
  let digits () = let st = !pos in while !pos < n && f.[!pos] >= '0' && f.[!pos] <= '9' do incr pos done; String.sub f st (!pos - st) in
  let rec go () : fast =
    let c = f.[!pos] in
    if c = 'A' || c = 'O' || c = 'X' || c = 'N' then begin
      incr pos; if peek () = Some '[' then incr pos;
      let kids = ref [] in
      while !pos < n && f.[!pos] <> ']' do
        kids := go () :: !kids;
        if peek () = Some '.' then incr pos
      done;
      if !pos < n then incr pos;
      let ks = List.rev !kids in
      (match c with 'A' -> And ks | 'O' -> Or ks | 'X' -> Xor ks | _ -> Nand ks)
    end else begin
      incr pos;
      let field = (match peek () with Some ('a' | 'b' | 'c' as x) -> incr pos; String.make 1 x | _ -> "v") in
      if c = 'x' then begin
        let tc = (match peek () with Some 'I' -> incr pos; 'I' | Some 'S' -> incr pos; 'S' | _ -> 'A') in
        let idx = (match peek () with Some 'i' -> incr pos; int_of_string (digits ()) | _ -> 0) in
        Ex (field, tc, idx)
      end else begin
        let neg = (peek () = Some '-') in if neg then incr pos;
        let k = int_of_string (digits ()) in
        let k = if neg then - k else k in
        let idx = (match peek () with Some 'i' -> incr pos; int_of_string (digits ()) | _ -> 0) in
        Cmp (c, field, k, idx)
      end
    end in
  go ()
let fspec_of_string (s : string) : fspec = { src = s; ast = parse_filter s }
let fspec_str (f : fspec) : string = f.src
let field_vals (fld : string) (vo : int option) : (char * int) list =
  match vo with None -> [] | Some v ->
  if v < 0 then (if fld = "v" then [('I', v)] else []) else
  match fld with
  | "v" -> [('I', v)]
  | "a" -> if v mod 2 = 0 then [('I', v)] else []
  | "b" -> if v mod 3 = 0 then ('I', v / 3) :: (if v >= 6 then [('I', v)] else []) else []
  | "c" -> if v mod 5 <= 1 then [if v mod 2 = 1 then ('S', 0) else ('I', 7)] else []
  | _ -> []
let rec fast_match (a : fast) (v : int option) : bool =
  match a with
  | Ex (fld, tc, idx) -> (match List.nth_opt (field_vals fld v) idx with Some (t, _) -> tc = 'A' || tc = t | None -> false)
  | Cmp (op, fld, k, idx) ->
    (match List.nth_opt (field_vals fld v) idx with
     | Some ('I', x) -> (match op with 'g' -> x > k | 'l' -> x < k | _ -> x = k)
     | _ -> false)
  | And ks -> List.for_all (fun k -> fast_match k v) ks
  | Or ks -> List.exists (fun k -> fast_match k v) ks
  | Xor ks -> (List.length (List.filter (fun k -> fast_match k v) ks)) mod 2 = 1
  | Nand ks -> not (List.for_all (fun k -> fast_match k v) ks)
let fspec_match (f : fspec) (p : int) : bool = fast_match f.ast (if p = 0 then None else Some (p - 1))

let ops : matchOps = {
  clause_eqb = (fun a b -> (Obj.obj a : string) = (Obj.obj b : string));
  cmatch = (fun c x -> clause_match (Obj.obj c : string) (name_str x));
  ckeys = (fun c -> match clause_keys (Obj.obj c : string) with None -> None | Some ks -> Some (List.map intern ks));
  cstar = Obj.repr "*";
  fmatch = (fun f p -> fspec_match (Obj.obj f : fspec) (int_of_n p));
}

(* ---- parsing *)
let split c s = String.split_on_char c s
let clauses_of (s : string) : Obj.t list = List.map (fun x -> Obj.repr x) (split '/' s)
let spath_of (s : string) : spath =
  if s = "/" then Abs []
  else if String.length s > 0 && s.[0] = '/' then Abs (clauses_of (String.sub s 1 (String.length s - 1))) else Rel (clauses_of s)
let relpat_of (s : string) : Obj.t list =
  if s = "/" then []
  else if String.length s > 0 && s.[0] = '/' then clauses_of (String.sub s 1 (String.length s - 1)) else clauses_of s
let split_sub (s : string) : string * Obj.t option =
  match String.index_opt s '@' with
  | None -> (s, None)
  | Some i -> (String.sub s 0 i, Some (Obj.repr (fspec_of_string (String.sub s (i+1) (String.length s - i - 1)))))
let items s = if s = "" then [] else split '&' s
let payload_of_int v = n_of_int (v + 1)

type parsed = { cmd : cmd option; quiet_all : bool; taint_self : bool }

(* the sender's own bookkeeping, as in the harness: the SUBSCRIBE: names it holds (as spelled) and, per subscription entry
   (adjusted path), the filter text; an explicit GETDATA whose keys are all subscriptions it holds (same path, same filter,
   distinct) keeps the mirror statement applicable (cmd_covered), any other one does not *)
type book = { names : (string, unit) Hashtbl.t; flts : (string, string) Hashtbl.t }
let new_book () = { names = Hashtbl.create 8; flts = Hashtbl.create 8 }
let canon_sub (s : string) : string =
  if String.length s > 0 && s.[0] = '/' then String.sub s 1 (String.length s - 1) else "*/*/" ^ s
let raw_split (s : string) : string * string =
  match String.index_opt s '@' with
  | None -> (s, "")
  | Some i -> (String.sub s 0 i, String.sub s (i+1) (String.length s - i - 1))

let parse_cmd (bk : book) (code : string) (fs : string list) : parsed =
  let nth k = match List.nth_opt fs k with Some x -> x | None -> "" in
  match code with
  | "s" ->
    let flags = (try int_of_string (nth 0) with _ -> 0) in
    let its = List.map (fun it ->
        match String.index_opt it '=' with
        | None -> (List.map intern (split '/' it), N0)
        | Some i -> (List.map intern (split '/' (String.sub it 0 i)),
                     payload_of_int (int_of_string (String.sub it (i+1) (String.length it - i - 1))))) (items (nth 1)) in
    { cmd = Some (CSetData (n_of_int flags, its)); quiet_all = (flags land 4) <> 0; taint_self = false }
  | "r" ->
    let q = (nth 0 = "1") in
    let ks = List.map (fun s -> let (p, f) = split_sub s in (relpat_of p, f)) (items (nth 1)) in
    { cmd = Some (CRemoveData (q, ks)); quiet_all = q; taint_self = false }
  | "g" ->
    let ks = List.map (fun s -> let (p, f) = split_sub s in (spath_of p, f)) (items (nth 0)) in
    let seen = Hashtbl.create 8 in
    let covered = List.for_all (fun s ->
        let (p, f) = raw_split s in
        let c = canon_sub p in
        let ok = p <> "" && not (Hashtbl.mem seen c) && (match Hashtbl.find_opt bk.flts c with Some f' -> f' = f | None -> false) in
        Hashtbl.replace seen c (); ok) (items (nth 0)) in
    { cmd = Some (CGetData ks); quiet_all = false; taint_self = not covered }
  | "p" ->
    let q = (nth 0 = "1") in
    let seen = Hashtbl.create 8 in
    let ks = List.filter_map (fun s -> let (p, f) = split_sub s in
                               if Hashtbl.mem seen p then None
                               else begin
                                 Hashtbl.add seen p ();
                                 Hashtbl.replace bk.names p ();
                                 Hashtbl.replace bk.flts (canon_sub p) (snd (raw_split s));
                                 Some (spath_of p, f)
                               end) (items (nth 1)) in
    { cmd = Some (CSubscribe (q, ks)); quiet_all = false; taint_self = q }
  | "m" -> { cmd = Some (CSetMax (z_of_int (try int_of_string (nth 0) with _ -> 0))); quiet_all = false; taint_self = false }
  | "u" ->
    List.iter (fun p -> if Hashtbl.mem bk.names p then begin Hashtbl.remove bk.names p; Hashtbl.remove bk.flts (canon_sub p) end) (items (nth 0));
    { cmd = Some (CUnsubscribe (List.map spath_of (items (nth 0)))); quiet_all = false; taint_self = false }
  | "um" -> { cmd = Some CResetMax; quiet_all = false; taint_self = false }
  | _ -> { cmd = None; quiet_all = false; taint_self = false }

(* ---- printing *)
let path_str (p : path) : string = String.concat "" (List.map (fun x -> "/" ^ name_str x) p)
let payload_str (p : n) : string = let v = int_of_n p in if v = 0 then "-" else string_of_int (v - 1)
let pat_str (p : Obj.t list) : string = String.concat "/" (List.map (fun c -> (Obj.obj c : string)) p)
let flt_str (f : Obj.t option) : string = match f with None -> "" | Some f -> "@" ^ fspec_str (Obj.obj f : fspec)

let di_str (d : ditems) : string =
  "[R:" ^ String.concat "," (List.map path_str d.di_removed) ^ ";S:" ^
  String.concat "," (List.concat_map (fun (p, vs) -> List.map (fun v -> path_str p ^ "=" ^ payload_str v) vs) d.di_sets) ^ "]"

let () =
  let lines = Ocommon.read_lines () in
  List.iteri (fun k line ->
    match String.index_opt line '|' with
    | None -> ()
    | Some bar ->
      Hashtbl.reset tbl; Hashtbl.reset rev_tbl;
      let body = String.sub line (bar+1) (String.length line - bar - 1) in
      let net_mode = bar > 0 && line.[0] = 'x' in    (* print the net effect of an op's Messages instead of the Messages *)
      let malformed = bar > 0 && line.[0] = 'z' in   (* paths with empty clauses: the mirror statement is not evaluated *)
      let opl = List.filter (fun s -> s <> "") (split ';' body) in
      let pw = ref (empty_pworld ops) in
      let w = ref (!pw).pw_world in
      let nsess = ref 0 in
      let quiet_used = ref false in
      let tainted : (int, unit) Hashtbl.t = Hashtbl.create 8 in
      let books : (int, book) Hashtbl.t = Hashtbl.create 8 in
      let book_of k = (match Hashtbl.find_opt books k with Some b -> b | None -> let b = new_book () in Hashtbl.replace books k b; b) in
      (* a quiet SETDATA / REMOVEDATA of session kk: the mirror statement stays applicable for the sessions none of whose
         subscription paths reaches below kk's session node (quiet_frame) and for the sender itself (only its own subtree
         changes); everybody who can see the sender's subtree is out *)
      let reaches (canon_pat : string) (kk : int) : bool =
        (match String.split_on_char '/' canon_pat with
         | c0 :: c1 :: _ -> clause_match c0 "H" && clause_match c1 (string_of_int kk)
         | _ -> false) in
      let quiet_by (kk : int) : unit =
        Hashtbl.iter (fun id (bk : book) ->
          if id <> kk && Hashtbl.fold (fun pat _ acc -> acc || reaches pat kk) bk.flts false then Hashtbl.replace tainted id ()) books in
      let host = intern "H" in
      (* (sender, path) changed by an all-quiet command of that sender: out of the mirror statement of every other session
         from then on (mirror_converges_announced); a command mixing quiet and announced changes: quiet_by above *)
      let stale : (int * string) list ref = ref [] in
      let snapshot () = List.map (fun nd -> (path_str nd.n_path, payload_str nd.n_data)) (sv_tree ops (w_srv ops !w)) in
      List.iteri (fun j op ->
        let all_quiet_by = ref (-1) in
        let before = snapshot () in
        let f = split ':' op in
        let code = List.hd f in
        let kk = match List.nth_opt f 1 with Some x -> (try int_of_string x with _ -> -1) | None -> -1 in
        let alive kk = kk >= 0 && List.exists (fun ss -> int_of_n ss.s_id = kk) (sv_sessions ops (w_srv ops !w)) in
        let valid, ev =
          if code = "a" then begin
            let id = !nsess in incr nsess;
            (true, Some (EAttach (n_of_int id, host, intern (string_of_int id))))
          end
          else if not (alive kk) then (false, None)
          else if code = "d" then (true, Some (EDetach (n_of_int kk)))
          else if code = "b" then begin
            let subs = (match List.nth_opt f 2 with Some x when x <> "" -> split '+' x | _ -> []) in
            let nq = ref 0 and nc = ref 0 in
            let cmds = List.filter_map (fun so ->
                let sf = split '~' so in
                let pr = parse_cmd (book_of kk) (List.hd sf) (List.tl sf) in
                incr nc; if pr.quiet_all then incr nq;
                if pr.taint_self then Hashtbl.replace tainted kk ();
                pr.cmd) subs in
            if !nq > 0 && !nq = !nc then all_quiet_by := kk else if !nq > 0 then quiet_by kk;
            (true, Some (ECmd (n_of_int kk, CBatch cmds)))
          end
          else begin
            let pr = parse_cmd (book_of kk) code (match f with _ :: _ :: r -> r | _ -> []) in
            if pr.quiet_all then all_quiet_by := kk;
            if pr.taint_self then Hashtbl.replace tainted kk ();
            match pr.cmd with Some c -> (true, Some (ECmd (n_of_int kk, c))) | None -> (false, None)
          end in
        (match ev with Some e -> pw := pworld_step ops all_fixed !pw e | None -> pw := { !pw with pw_world = { (!pw).pw_world with w_last = [] } });
        w := (!pw).pw_world;
        if valid && !all_quiet_by >= 0 then begin
          let after = snapshot () in
          List.iter (fun (p, v) -> match List.assoc_opt p after with
                                   | Some v' when v' = v -> ()
                                   | _ -> stale := (!all_quiet_by, p) :: !stale) before;
          List.iter (fun (p, _) -> if not (List.mem_assoc p before) then stale := (!all_quiet_by, p) :: !stale) after
        end;
        let sv = w_srv ops !w in
        let b = Buffer.create 512 in
        Buffer.add_string b (Printf.sprintf "%d %s%s %s{" j code (if valid then "" else "!") (if net_mode then "N" else "M"));
        let firstc = ref true in
        List.iter (fun (s, ds) ->
          if ds <> [] then begin
            if net_mode then begin
              let net : (string, string) Hashtbl.t = Hashtbl.create 16 in
              List.iter (fun d ->
                List.iter (fun p -> Hashtbl.replace net (path_str p) "-") d.di_removed;
                List.iter (fun (p, vs) -> List.iter (fun v -> Hashtbl.replace net (path_str p) (payload_str v)) vs) d.di_sets) ds;
              let ents = List.sort compare (Hashtbl.fold (fun k v acc -> (k, v) :: acc) net []) in
              (* and the bag of everything sent (what is sent, however it is split into Messages) *)
              let bag = List.sort compare (List.concat_map (fun d ->
                List.map (fun p -> "R" ^ path_str p) d.di_removed @
                List.concat_map (fun (p, vs) -> List.map (fun v -> "S" ^ path_str p ^ "=" ^ payload_str v) vs) d.di_sets) ds) in
              if ents <> [] then begin
                if not !firstc then Buffer.add_char b ' ';
                firstc := false;
                Buffer.add_string b (Printf.sprintf "c%d:{%s}[%s]" (int_of_n s) (String.concat "," (List.map (fun (k, v) -> k ^ "=" ^ v) ents))
                                       (String.concat "," bag))
              end
            end else begin
              if not !firstc then Buffer.add_char b ' ';
              firstc := false;
              Buffer.add_string b (Printf.sprintf "c%d:" (int_of_n s));
              List.iter (fun d -> Buffer.add_string b (di_str d)) ds
            end
          end) (List.sort (fun (a, _) (b, _) -> compare (int_of_n a) (int_of_n b)) (w_last ops !w));
        Buffer.add_string b "} T{";
        let nodes = dfs dump_fuel (sv_tree ops sv) [] in
        Buffer.add_string b (String.concat " " (List.map (fun nd ->
          let subs = List.sort compare (List.map (fun (s, c) -> (int_of_n s, int_of_n c)) nd.n_subs) in
          path_str nd.n_path ^ "=" ^ payload_str nd.n_data ^ "{" ^
          String.concat "," (List.map (fun (s, c) -> Printf.sprintf "%d:%d" s c) subs) ^ "}") nodes));
        Buffer.add_string b "} E{";
        Buffer.add_string b (String.concat " " (List.map (fun ss ->
          Printf.sprintf "%d(%d)[%s]" (int_of_n ss.s_id) (int_of_n ss.s_max)
            (String.concat "|" (List.map (fun (d, es) ->
               Printf.sprintf "%d:%s" (int_of_nat d) (String.concat "," (List.map (fun e -> pat_str e.e_pat ^ flt_str e.e_flt) es)))
               ss.s_subs.m_groups))) (sv_sessions ops sv)));
        Buffer.add_string b "} V{";
        Buffer.add_string b (String.concat " " (List.map (fun c ->
          let ents = List.sort compare (List.map (fun (p, v) -> (path_str p, payload_str v)) c.c_mirror) in
          Printf.sprintf "%d{%s}" (int_of_n c.c_id) (String.concat "," (List.map (fun (p, v) -> p ^ "=" ^ v) ents)))
          (List.sort (fun a b -> compare (int_of_n a.c_id) (int_of_n b.c_id)) (w_clients ops !w))));
        Buffer.add_string b "}";
        Printf.printf "%d %s\n" k (Buffer.contents b);
        (* the statement of C04 evaluated on the model's own state *)
        if not !quiet_used && not malformed then
          List.iter (fun c ->
            let id = int_of_n c.c_id in
            if not (Hashtbl.mem tainted id) then
              match List.find_opt (fun ss -> int_of_n ss.s_id = id) (sv_sessions ops sv) with
              | None -> ()
              | Some ss ->
                let tr = sv_tree ops sv in
                let paths = List.map (fun nd -> nd.n_path) tr @ List.map fst c.c_mirror in
                let bad = List.find_opt (fun p ->
                    (not (own_path ops ss p)) &&
                    (not (List.exists (fun (snd_, sp) -> snd_ <> id && sp = path_str p) !stale)) &&
                    (let e = expected ops tr ss p and h = mirror_get c.c_mirror p in
                     match e, h with
                     | None, None -> false
                     | Some a, Some b -> int_of_n a <> int_of_n b
                     | _, _ -> true)) paths in
                (match bad with
                 | Some p -> Printf.printf "%d ORACLE FAIL model-mirror op#%d c%d %s\n" k j id (path_str p)
                 | None -> ())) (w_clients ops !w)
      ) opl
  ) lines
