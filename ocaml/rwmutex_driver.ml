(* Driver for the extracted ReaderWriterMutex LTS (C18).  Reads the same case lines as harness/rwmutex_h.cpp and prints
   the same trace text: it re-derives every scheduling decision (explicit schedule entries that are not enabled are
   skipped; then the seeded RANDOM policy or the NONPREEMPTIVE policy of harness/sched) from the model's own
   enabledness, executes the chosen transition of the LTS and prints what it shows (wake-up, notifications, state
   dump, parking, API result).  Any difference in enabledness, state or result therefore shows up in the diff. *)
open Rwmutex_model

let nat_of_int n = let rec go acc k = if k <= 0 then acc else go (S acc) (k-1) in go O n
let rec int_of_nat = function O -> 0 | S n -> 1 + int_of_nat n

type case = { pref : bool; n : int; seed : int64 option; sched : (int * bool) list; prog : op list array; pm : bool }

let parse_choice s =
  let l = String.length s in
  if l > 0 && s.[l-1] = '!' then (int_of_string (String.sub s 0 (l-1)), true) else (int_of_string s, false)

let parse_op s =
  let d c = match c with 't' -> Try | 'd' -> Timed | _ -> failwith "bad deadline" in
  match s with
  | "lr" -> OLockRO Never | "lw" -> OLockRW Never | "ur" -> OUnlockRO | "uw" -> OUnlockRW
  | _ when String.length s = 3 && String.sub s 0 2 = "lr" -> OLockRO (d s.[2])
  | _ when String.length s = 3 && String.sub s 0 2 = "lw" -> OLockRW (d s.[2])
  | _ -> failwith ("bad op " ^ s)

let parse_case line =
  match String.index_opt line '|' with
  | None -> None
  | Some p ->
    (try
      let head = String.sub line 0 p and body = String.sub line (p+1) (String.length line - p - 1) in
      let pref = ref true and n = ref 0 and seed = ref None and sched = ref [] and pm = ref false in
      List.iter (fun h ->
        let l = String.length h in
        if l >= 2 && String.sub h 0 2 = "p=" then pref := (h.[2] = '1')
        else if l >= 2 && String.sub h 0 2 = "n=" then n := int_of_string (String.sub h 2 (l-2))
        else if l >= 4 && String.sub h 0 3 = "pm=" then pm := (h.[3] = '1')
        else if l >= 5 && String.sub h 0 5 = "seed=" then (if h.[5] <> '-' then seed := Some (Int64.of_string ("0u" ^ String.sub h 5 (l-5))))
        else if l >= 4 && String.sub h 0 4 = "sch=" then
          sched := List.map parse_choice (List.filter (fun x -> x <> "") (String.split_on_char '.' (String.sub h 4 (l-4)))))
        (String.split_on_char ',' head);
      let toks = List.filter (fun x -> x <> "") (String.split_on_char ';' body) in
      let toks = List.map (fun tk -> match String.index_opt tk ':' with
          | None -> failwith "tok" | Some c -> (int_of_string (String.sub tk 0 c), parse_op (String.sub tk (c+1) (String.length tk - c - 1)))) toks in
      List.iter (fun (t, _) -> if t < 0 || t > 15 then failwith "tid") toks;
      let maxt = List.fold_left (fun m (t, _) -> max m t) (-1) toks in
      let n = max !n (maxt+1) in
      let prog = Array.make n [] in
      List.iter (fun (t, o) -> prog.(t) <- prog.(t) @ [o]) toks;
      Some { pref = !pref; n; seed = !seed; sched = !sched; prog; pm = !pm }
    with _ -> None)

let choice_text (t, to_) = string_of_int t ^ (if to_ then "!" else "")
let status_text = function SOk -> "ok" | STimedOut -> "to" | SLockFailed -> "lf"

let dump (g : gst) =
  let ents l f = String.concat "," (List.map f l) in
  Printf.sprintf "{t%d;x%s;r%s;w%s}" (int_of_nat g.g_total)
    (ents g.g_exec (fun (t, e) -> Printf.sprintf "%d:%d/%d" (int_of_nat t) (int_of_nat e.e_ro) (int_of_nat e.e_rw)))
    (ents g.g_wr (fun (t, c) -> Printf.sprintf "%d:%d" (int_of_nat t) (int_of_nat c)))
    (ents g.g_ww (fun (t, c) -> Printf.sprintf "%d:%d" (int_of_nat t) (int_of_nat c)))

let max_decisions = 4000
let timeout_weight = 15L

let run_case k (c : case) =
  let st = ref sys0 in
  let started = Array.make c.n false and finished = Array.make c.n false in
  let rest = Array.copy c.prog in
  let rng = ref (match c.seed with Some s -> Int64.add (Int64.mul s 0x9E3779B97F4A7C15L) 0x1234567L | None -> 0L) in
  let rand () =
    let x = !rng in
    let x = Int64.logxor x (Int64.shift_left x 13) in
    let x = Int64.logxor x (Int64.shift_right_logical x 7) in
    let x = Int64.logxor x (Int64.shift_left x 17) in
    rng := x; x in
  let urem x m = Int64.to_int (Int64.unsigned_rem x (Int64.of_int m)) in
  let sched = ref c.sched in
  let current = ref (-1) in
  let buf = Buffer.create 1024 in
  let decisions = ref 0 in
  let status = ref "" in
  (* the invariants proved in Coq (RwMutexCheck.check_state: table mode/exclusion, thread/table consistency, hand-off),
     evaluated on every state reached; by RwMutexCheck.check_state_complete this can only fail if the model left its
     reachable states, which the trace comparison would then attribute to the real code *)
  let tids = List.init c.n nat_of_int in
  let inv_bad = ref None in
  let check_inv where = if !inv_bad = None && not (check_state c.pref !st tids) then inv_bad := Some where in
  let begin_next t =
    match rest.(t) with
    | [] -> finished.(t) <- true
    | o :: r ->
      rest.(t) <- r;
      (match sys_step c.pref !st (LBegin (nat_of_int t, o)) with
       | Some (s', _) -> st := s'
       | None -> failwith "begin not enabled") in
  let try_step t ch = sys_step c.pref !st (LStep (nat_of_int t, ch)) in
  while !status = "" do
    let en = ref [] in
    for t = c.n - 1 downto 0 do
      if not started.(t) then en := (t, false) :: !en
      else if not finished.(t) then begin
        let r = (try_step t CRun <> None) and o = (try_step t CTimeout <> None) in
        if o then en := (t, true) :: !en;
        if r then en := (t, false) :: !en
      end
    done;
    let en = !en in
    if en = [] then status := (if Array.for_all (fun x -> x) finished then "COMPLETED" else "DEADLOCK")
    else begin
      incr decisions;
      if !decisions > max_decisions then status := "STEP_LIMIT"
      else begin
        let cur_enabled = !current >= 0 && List.mem (!current, false) en in
        let rec from_sched () = match !sched with
          | [] -> None
          | x :: r -> sched := r; if List.mem x en then Some x else from_sched () in
        let ch = match from_sched () with
          | Some x -> x
          | None ->
            (match c.seed with
             | None ->
               if cur_enabled then (!current, false)
               else (match List.filter (fun (_, to_) -> not to_) en with x :: _ -> x | [] -> List.hd en)
             | Some _ ->
               let runs = List.filter (fun (_, to_) -> not to_) en and tos = List.filter (fun (_, to_) -> to_) en in
               let want_to = tos <> [] && (runs = [] || Int64.unsigned_compare (Int64.unsigned_rem (rand ()) 100L) timeout_weight < 0) in
               let pool = if want_to then tos else runs in
               List.nth pool (urem (rand ()) (List.length pool))) in
        Buffer.add_char buf ' ';
        Buffer.add_string buf (choice_text ch);
        Buffer.add_char buf '<';
        Buffer.add_string buf (String.concat "," (List.map choice_text en));
        Buffer.add_char buf '>';
        let (t, to_) = ch in
        if not started.(t) then begin started.(t) <- true; begin_next t end
        else begin
          match try_step t (if to_ then CTimeout else CRun) with
          | None -> failwith "chosen transition not enabled"
          | Some (s', o) ->
            st := s';
            (match o.o_woke with Some true -> Buffer.add_char buf 'K' | Some false -> Buffer.add_char buf 'T' | None -> ());
            List.iter (fun w -> Buffer.add_string buf ("N" ^ string_of_int (int_of_nat w))) o.o_ns;
            if o.o_cs then Buffer.add_string buf (dump s'.s_g);
            (match o.o_park with Some cnt -> Buffer.add_string buf ("P" ^ string_of_int (int_of_nat cnt)) | None -> ());
            (match o.o_ret with
             | Some r -> Buffer.add_string buf ("=" ^ status_text r); begin_next t
             | None -> ())
        end;
        check_inv !decisions;
        current := t
      end
    end
  done;
  Printf.printf "%d %s%s\n" k !status (Buffer.contents buf);
  (match !inv_bad with
   | Some d -> Printf.printf "%d ORACLE FAIL a proved invariant (mode / thread-table consistency / hand-off) does not hold in the state after decision %d\n" k d
   | None -> ())

let () =
  let lines = Ocommon.read_lines () in
  List.iteri (fun k line ->
    match parse_case line with
    | None -> Printf.printf "%d BADCASE\n" k
    | Some c when c.pm -> Printf.printf "%d PM\n" k   (* pool-race runs are judged by the harness oracles only; the model covers them with the LEnv label *)
    | Some c -> (try run_case k c with Failure m -> Printf.printf "%d MODEL-ERROR %s\n" k m)) lines
