(* Driver for the extracted ThreadPool LTS (C19).  Reads the same case lines as harness/tpool_h.cpp and prints the
   same text.  A case is a script of owner-side operations (register / submit / unregister / shutdown) and handler
   completions; after every operation the driver "settles": it takes every enabled transition that the real system
   takes without further input from the harness (handler entry, batch-finished, return of a notified Wait(), the final
   sections of UnregisterClient and the steps of Shutdown), exactly the quiescent state the harness waits for.

   case line:  n=<maxThreads>|op;op;...       ops:  r:<c> register   s:<c> submit next Message id   g:<c> let the
   running handler of client c return   u:<c> SetThreadPool(NULL)   x Shutdown()                                    *)
open Tpool_model

let nat_of_int n = let rec go acc k = if k <= 0 then acc else go (S acc) (k-1) in go O n
let rec int_of_nat = function O -> 0 | S n -> 1 + int_of_nat n
let ni = int_of_nat

type op = OReg of int | OSub of int | OGo of int | OUnreg of int | OShut | OBad of string

let parse_op s =
  match String.split_on_char ':' s with
  | ["r"; c] -> OReg (int_of_string c)
  | ["s"; c] -> OSub (int_of_string c)
  | ["g"; c] -> OGo (int_of_string c)
  | ["u"; c] -> OUnreg (int_of_string c)
  | ["x"] -> OShut
  | _ -> OBad s

let ev_text = function
  | EEnter (c, m, t, l) -> Some (Printf.sprintf "E%d.%d.%d.%d" (ni c) (ni m) (ni t) (ni l))
  | EExit (c, m, t) -> Some (Printf.sprintf "X%d.%d.%d" (ni c) (ni m) (ni t))
  | EUnregReturn c -> Some (Printf.sprintf "R%d" (ni c))
  | EShutDone -> Some "D"
  | ESubmit _ | ENotify _ | EUnregBegin _ -> None

let ints l = String.concat "," (List.map (fun x -> string_of_int (ni x)) l)
let msgs l = String.concat "." (List.map (fun x -> string_of_int (ni x)) l)

let dump (s : st) =
  let tab f l = String.concat "," (List.map f l) in
  let running = List.filter (fun (_, h) -> h.th_running) s.s_thr in
  let running = List.sort (fun (a, _) (b, _) -> compare (ni a) (ni b)) running in
  Printf.sprintf "sh%d n%d av[%s] ac[%s] rg[%s] pe[%s] de[%s] wa[%s] cl[%s] run[%s]%s"
    (if s.s_shut then 1 else 0) (ni s.s_ctr) (ints s.s_avail) (ints s.s_active)
    (tab (fun (c, h) -> Printf.sprintf "%d:%d" (ni c) (if h then 1 else 0)) s.s_reg)
    (tab (fun (c, q) -> Printf.sprintf "%d:%s" (ni c) (msgs q)) s.s_pend)
    (tab (fun (c, q) -> Printf.sprintf "%d:%s" (ni c) (msgs q)) s.s_defer)
    (ints s.s_wait)
    (String.concat "," (List.map string_of_int (List.sort compare (List.map ni s.s_cl))))
    (tab (fun (t, h) -> Printf.sprintf "%d:%s:%s" (ni t)
             (match h.th_client with Some c -> string_of_int (ni c) | None -> "-") (msgs h.th_queue)) running)
    (if s.s_bad then " MASSERT" else "")

(* apply a label if it is enabled; the events go to [evs] *)
let try_label (s : st ref) (evs : event list ref) (l : label) : bool =
  match step !s l with
  | Some (s', e) -> s := s'; evs := !evs @ e; true
  | None -> false

let settle s evs =
  let progress = ref true in
  while !progress do
    progress := false;
    List.iter (fun (t, _) ->
        if try_label s evs (LEnter t) then progress := true;
        if try_label s evs (LFinish t) then progress := true) !s.s_thr;
    List.iter (fun (c, _) ->
        if try_label s evs (LUnregWake c) then progress := true;
        if try_label s evs (LUnregEnd c) then progress := true) !s.s_unreg;
    if try_label s evs LShutSwap then progress := true;
    if try_label s evs LShutJoin then progress := true;
    if try_label s evs LShutEnd then progress := true
  done

let running_thread (s : st) (c : int) =
  List.find_opt (fun (_, h) -> h.th_running && (match h.th_client with Some c' -> ni c' = c | None -> false)) s.s_thr

let run_case k line =
  match String.index_opt line '|' with
  | None -> Printf.printf "%d bad-case\n" k
  | Some p ->
    let head = String.sub line 0 p and body = String.sub line (p+1) (String.length line - p - 1) in
    let n = ref 1 in
    List.iter (fun h -> let l = String.length h in
                if l >= 2 && String.sub h 0 2 = "n=" then n := int_of_string (String.sub h 2 (l-2)))
      (String.split_on_char ',' head);
    let s = ref (init (nat_of_int !n)) in
    let all = ref [] in
    let next = ref 0 in
    let ops = List.filter (fun x -> x <> "") (String.split_on_char ';' body) in
    List.iteri (fun i o ->
        let evs = ref [] in
        let res =
          match parse_op o with
          | OBad _ -> "bad"
          | OReg c ->
            let cn = nat_of_int c in
            if in_unreg !s cn || lmem cn !s.s_cl then "noop"
            else if try_label s evs (LRegister cn) then "ok" else "noop"
          | OSub c ->
            let cn = nat_of_int c in
            if in_unreg !s cn then "skip"
            else begin
              incr next;
              ignore (try_label s evs (LSubmit (cn, nat_of_int !next)));
              match List.filter_map (function ESubmit (_, _, r) -> Some r | _ -> None) !evs with
              | [SendOk] -> "ok" | [SendBadObject] -> "badobj" | [SendBadArgument] -> "badarg" | _ -> "?"
            end
          | OGo c ->
            (match running_thread !s c with
             | Some (t, _) -> if try_label s evs (LExit t) then "ok" else "noop"
             | None -> "noop")
          | OUnreg c ->
            let cn = nat_of_int c in
            (* SetThreadPool(NULL) on a client whose _threadPool is NULL is a no-op (the stale-pointer form of the label
               only arises with truly concurrent threads, stage 2) *)
            if lmem cn !s.s_cl && try_label s evs (LUnregBegin cn)
            then (if List.exists (function EUnregBegin (_, w) -> w | _ -> false) !evs then "wait" else "ret")
            else "noop"
          | OShut -> if try_label s evs LShutBegin then "ok" else "noop" in
        settle s evs;
        all := !all @ !evs;
        let et = List.sort compare (List.filter_map ev_text !evs) in
        Printf.printf "%d %d %s %s ev[%s] %s\n" k i o res (String.concat "," et) (dump !s)) ops;
    (* drain: let every handler return until nothing runs any more (the harness switches its gates off) *)
    let evs = ref [] in
    let go = ref true in
    while !go do
      let r = List.filter (fun (_, h) -> h.th_running) !s.s_thr in
      if r = [] then go := false
      else (List.iter (fun (t, _) -> ignore (try_label s evs (LExit t))) r; settle s evs)
    done;
    all := !all @ !evs;
    let clients = List.sort_uniq compare
        (List.filter_map (function ESubmit (c, _, _) -> Some (ni c) | _ -> None) !all) in
    let per c = msgs (exited !all (nat_of_int c)) in
    Printf.printf "%d end %s\n" k (String.concat " " (List.map (fun c -> Printf.sprintf "%d:[%s]" c (per c)) clients));
    (* the theorems' statements, evaluated on the trace the model produced (a failed check here would be a bug of the proofs' reading) *)
    List.iter (fun c ->
        let cn = nat_of_int c in
        if not (serial !all cn) then Printf.printf "%d ORACLE FAIL model-serial c%d\n" k c;
        let sub = List.map ni (submitted !all cn) and ent = List.map ni (entered !all cn) in
        let rec prefix a b = match a, b with [], _ -> true | x :: a', y :: b' -> x = y && prefix a' b' | _ -> false in
        if not (prefix ent sub) then Printf.printf "%d ORACLE FAIL model-prefix c%d\n" k c) clients

(* ---------------------------------------------------------------- stage 2: trace acceptance
   TPOOL_MODE=replay: the case line is  n=<max>|<event>;<event>;...  -- the pool events harness/tpool_sched_h.cpp observed
   while the real pool ran under the controlled scheduler.  Each must be an enabled transition of the LTS from the current
   state; after the critical-section events the model's protected state is printed (the harness printed the real one). *)
let dump_replay (s : st) =
  let tab f l = String.concat "," (List.map f l) in
  let ths = List.sort compare (List.map ni (s.s_avail @ s.s_active)) in
  let th t =
    let h = thr_of s (nat_of_int t) in
    let shown = match h.th_client with
      | Some c when h.th_queue <> [] || h.th_running -> string_of_int (ni c)
      | _ -> "-" in
    Printf.sprintf "%d:%s:%s" t shown (msgs h.th_queue) in
  Printf.sprintf "sh%d n%d av[%s] ac[%s] rg[%s] pe[%s] de[%s] wa[%s] th[%s]%s"
    (if s.s_shut then 1 else 0) (ni s.s_ctr) (ints s.s_avail) (ints s.s_active)
    (tab (fun (c, h) -> Printf.sprintf "%d:%d" (ni c) (if h then 1 else 0)) s.s_reg)
    (tab (fun (c, q) -> Printf.sprintf "%d:%s" (ni c) (msgs q)) s.s_pend)
    (tab (fun (c, q) -> Printf.sprintf "%d:%s" (ni c) (msgs q)) s.s_defer)
    (ints s.s_wait)
    (String.concat "," (List.map th ths))
    (if s.s_bad then " MASSERT" else "")

let res_text = function SendOk -> "ok" | SendBadObject -> "badobj" | SendBadArgument -> "badarg"

let replay_case k line =
  match String.index_opt line '|' with
  | None -> Printf.printf "%d bad-case\n" k
  | Some p ->
    let head = String.sub line 0 p and body = String.sub line (p+1) (String.length line - p - 1) in
    let n = ref 1 in
    List.iter (fun h -> let l = String.length h in
                if l >= 2 && String.sub h 0 2 = "n=" then n := int_of_string (String.sub h 2 (l-2)))
      (String.split_on_char ',' head);
    let s = ref (init (nat_of_int !n)) in
    let all = ref [] in
    let sent = Hashtbl.create 16 in     (* (c, m) -> result of the submission already applied at its critical section *)
    let toks = List.filter (fun x -> x <> "") (String.split_on_char ';' body) in
    let apply l = let evs = ref [] in let ok = try_label s evs l in all := !all @ !evs; (ok, !evs) in
    List.iteri (fun i tok ->
        let out =
          match String.split_on_char '.' tok with
          | ["R"; c] -> let (ok, _) = apply (LRegister (nat_of_int (int_of_string c))) in
            if ok then tok ^ " " ^ dump_replay !s else tok ^ " NOT-ENABLED"
          | ["S"; c; m] ->
            (* a critical section of SendMessageToThreadPool was seen, so the wrapper's test of _threadPool had passed; if the
               model's pointer is cleared meanwhile (Shutdown's final section ran in between) this is the stale submission *)
            let cn = nat_of_int (int_of_string c) and mn = nat_of_int (int_of_string m) in
            let (ok, evs) = apply (if lmem cn !s.s_cl then LSubmit (cn, mn) else LSubmitStale (cn, mn)) in
            List.iter (function ESubmit (_, _, r) -> Hashtbl.replace sent (c, m) r | _ -> ()) evs;
            if ok then tok ^ " " ^ dump_replay !s else tok ^ " NOT-ENABLED"
          | ["D"; c; m; _] ->
            let r = match Hashtbl.find_opt sent (c, m) with
              | Some r -> Some r
              | None ->     (* no critical section was seen: the client-side wrapper answered (B_BAD_OBJECT) *)
                let (_, evs) = apply (LSubmit (nat_of_int (int_of_string c), nat_of_int (int_of_string m))) in
                List.fold_left (fun acc e -> match e with ESubmit (_, _, r) -> Some r | _ -> acc) None evs in
            Printf.sprintf "D.%s.%s.%s" c m (match r with Some r -> res_text r | None -> "NOT-ENABLED")
          | ["U"; c] ->
            let cn = nat_of_int (int_of_string c) in
            let ok =
              match tget cn !s.s_unreg with
              | None -> fst (apply (LUnregBegin cn))
              | Some (UWaiting true) -> fst (apply (LUnregWake cn)) && fst (apply (LUnregEnd cn))
              | Some UFinal -> fst (apply (LUnregEnd cn))
              | Some (UWaiting false) -> false in      (* the real Wait() returned without a notification *)
            if ok then tok ^ " " ^ dump_replay !s else tok ^ " NOT-ENABLED"
          | ["X"] ->
            let rec go fuel =
              if fuel = 0 then false
              else if fst (apply LShutBegin) then true
              else if fst (apply LShutSwap) then true
              else if fst (apply LShutEnd) then true
              else if fst (apply LShutJoin) then go (fuel - 1)    (* the joins that returned before this section *)
              else false in
            if go 64 then tok ^ " " ^ dump_replay !s else tok ^ " NOT-ENABLED"
          | ["F"; t] -> let (ok, _) = apply (LFinish (nat_of_int (int_of_string t))) in
            if ok then tok ^ " " ^ dump_replay !s else tok ^ " NOT-ENABLED"
          | ["E"; _; _; t; _] ->
            let (ok, evs) = apply (LEnter (nat_of_int (int_of_string t))) in
            (match ok, evs with
             | true, [EEnter (c, m, t', l)] -> Printf.sprintf "E.%d.%d.%d.%d" (ni c) (ni m) (ni t') (ni l)
             | _ -> "E NOT-ENABLED")
          | ["Z"; _; _; t] ->
            let (ok, evs) = apply (LExit (nat_of_int (int_of_string t))) in
            (match ok, evs with
             | true, [EExit (c, m, t')] -> Printf.sprintf "Z.%d.%d.%d" (ni c) (ni m) (ni t')
             | _ -> "Z NOT-ENABLED")
          | ["Q"; c] ->
            (match tget (nat_of_int (int_of_string c)) !s.s_unreg with None -> tok | Some _ -> tok ^ " STILL-UNREGISTERING")
          | ["Y"] ->
            (* Shutdown() returned: whatever is left of it in the model (the last joins, the final section has been seen) *)
            (match !s.s_sd with SdDone -> tok | _ -> tok ^ " NOT-DONE")
          | _ -> tok ^ " ?" in
        Printf.printf "%d EV %d %s\n" k i out) toks;
    let clients = List.sort_uniq compare
        (List.filter_map (function ESubmit (c, _, SendOk) -> Some (ni c) | EEnter (c, _, _, _) -> Some (ni c) | _ -> None) !all) in
    let per c = msgs (exited !all (nat_of_int c)) in
    Printf.printf "%d END %s\n" k (String.concat " " (List.map (fun c -> Printf.sprintf "%d:[%s]" c (per c)) clients));
    List.iter (fun c ->
        let cn = nat_of_int c in
        if not (serial !all cn) then Printf.printf "%d ORACLE FAIL model-serial c%d\n" k c) clients

let () =
  let lines = Ocommon.read_lines () in
  let replay = (try Sys.getenv "TPOOL_MODE" = "replay" with Not_found -> false) in
  List.iteri (fun k l ->
      (try
         if replay then replay_case k l
         else if String.length l >= 6 && String.sub l 0 6 = "sched," then Printf.printf "%d sched-case\n" k
         else run_case k l
       with e -> Printf.printf "%d driver-exception %s\n" k (Printexc.to_string e));
      flush stdout) lines
