(* Driver for the extracted Message-routing model (C05).  Reads the same cases as harness/route_h.cpp
   (the grammar is documented there) and prints the same canonical text.

   The external matching code of the model (class MatchOps) is the instance pat_ops of Refl/PatInst.v, defined in Coq
   over the StringMatcher model of C15 (Pat/Translate.v + Pat/Ere.v) and proved there to satisfy the clause laws:
     clause  = the clause text; "*" is the NULL matcher
     cmatch  = StringMatcher::Match of SetPattern(text) (simple syntax)
     ckeys   = Refl/ClauseKeys.v clause_keys (IsPatternListOfUniqueValues / IsPatternUnique + the key parsing
               of DoTraversalAux / DoDirectChildLookup)
     filter  = g<n> | l<n> | e<n> on the int32 field "v" (false when the field is missing), x = "v" exists
   This driver only supplies the intern table (name number <-> string) and memoises the two pure functions.
   Names are interned strings, payload 0 = empty Message, v -> v+1.
   With the argument --fixed / --as-found the model runs with all repairs on / off instead of following the
   translated c_c05_* flags. *)
open Route_model

let rec pos_of_int n = if n = 1 then XH else if n land 1 = 0 then XO (pos_of_int (n lsr 1)) else XI (pos_of_int (n lsr 1))
let n_of_int k = if k = 0 then N0 else Npos (pos_of_int k)
let rec int_of_pos = function XH -> 1 | XO p -> 2 * int_of_pos p | XI p -> 2 * int_of_pos p + 1
let int_of_n = function N0 -> 0 | Npos p -> int_of_pos p
let rec nat_of_int k = if k <= 0 then O else S (nat_of_int (k-1))
let rec int_of_nat = function O -> 0 | S n -> 1 + int_of_nat n

let fx : rfixes =
  if Array.length Sys.argv > 1 && Sys.argv.(1) = "--fixed" then r_all_fixed
  else if Array.length Sys.argv > 1 && Sys.argv.(1) = "--as-found" then r_as_found
  else r_as_is

(* ---- interned names *)
let tbl : (string, int) Hashtbl.t = Hashtbl.create 64
let rev_tbl : (int, string) Hashtbl.t = Hashtbl.create 64
let intern (s : string) : n =
  match Hashtbl.find_opt tbl s with
  | Some i -> n_of_int i
  | None -> let i = Hashtbl.length tbl + 1 in Hashtbl.add tbl s i; Hashtbl.add rev_tbl i s; n_of_int i
let name_str (x : n) : string = match Hashtbl.find_opt rev_tbl (int_of_n x) with Some s -> s | None -> "?"

let chars_of (s : string) : n list = List.init (String.length s) (fun i -> n_of_int (Char.code s.[i]))
let string_of_chars (l : n list) : string = String.concat "" (List.map (fun c -> String.make 1 (Char.chr (int_of_n c land 255))) l)

(* ---- the MatchOps instance: Refl/PatInst.v pat_ops over the intern table (memoised; the functions are pure) *)
let unsupported = ref false
let z_of_int k = if k = 0 then Z0 else if k > 0 then Zpos (pos_of_int k) else Zneg (pos_of_int (-k))
let int_of_z = function Z0 -> 0 | Zpos p -> int_of_pos p | Zneg p -> - (int_of_pos p)
let clause_text (c : Obj.t) : string = string_of_chars (Obj.obj c : n list)
let keep_esc : bool =
  if Array.length Sys.argv > 1 && Sys.argv.(1) = "--fixed" then true
  else if Array.length Sys.argv > 1 && Sys.argv.(1) = "--as-found" then false
  else uv_keep_as_is
let all_items : bool =
  if Array.length Sys.argv > 1 && Sys.argv.(1) = "--fixed" then true
  else if Array.length Sys.argv > 1 && Sys.argv.(1) = "--as-found" then false
  else uv_empty_as_is
(* with both repairs of the key parsing the instance is pat_ops_n (the one the reachable-state theorems are about) *)
let base_ops : matchOps =
  if all_items && keep_esc then pat_ops_n (fun k -> chars_of (name_str k)) (fun s -> intern (string_of_chars s))
  else pat_ops (fun k -> chars_of (name_str k)) (fun s -> intern (string_of_chars s)) keep_esc
let match_cache : (string * string, bool) Hashtbl.t = Hashtbl.create 256
let keys_cache : (string, string list option) Hashtbl.t = Hashtbl.create 64
let checked : (string, unit) Hashtbl.t = Hashtbl.create 64
let check_supported (c : string) =
  if not (Hashtbl.mem checked c) then begin
    Hashtbl.add checked c ();
    if c <> "*" && not (regex_supported (chars_of c) true) then unsupported := true
  end
let ops : matchOps = {
  base_ops with
  cmatch = (fun c x ->
    let cs = clause_text c and xs = name_str x in
    check_supported cs;
    match Hashtbl.find_opt match_cache (cs, xs) with
    | Some b -> b
    | None -> let b = base_ops.cmatch c x in Hashtbl.add match_cache (cs, xs) b; b);
  ckeys = (fun c ->
    let cs = clause_text c in
    check_supported cs;
    match Hashtbl.find_opt keys_cache cs with
    | Some r -> (match r with None -> None | Some ks -> Some (List.map intern ks))
    | None ->
      let r = base_ops.ckeys c in
      Hashtbl.add keys_cache cs (match r with None -> None | Some ks -> Some (List.map name_str ks)); r);
}

let fspec_of_string (s : string) : fspec =
  if s = "x" then FX else
  let v = z_of_int (int_of_string (String.sub s 1 (String.length s - 1))) in
  match s.[0] with 'g' -> FG v | 'l' -> FL v | _ -> FE v
let fspec_str = function
  | FG v -> "g" ^ string_of_int (int_of_z v) | FL v -> "l" ^ string_of_int (int_of_z v)
  | FE v -> "e" ^ string_of_int (int_of_z v) | FX -> "x"

(* ---- parsing *)
let split c s = String.split_on_char c s
let items s = if s = "" then [] else split '&' s
let clauses_of (s : string) : Obj.t list = List.map (fun x -> Obj.repr (chars_of x)) (split '/' s)
let key_text (s : string) : string = if s = "%" then "" else s
(* a key as PutPathFromString(key, filter, DEFAULT_PATH_PREFIX) sees it *)
let spath_of (s0 : string) : spath =
  let s = key_text s0 in
  if s = "" then Abs []
  else if s.[0] = '/' then (let r = String.sub s 1 (String.length s - 1) in if r = "" then Abs [] else Abs (clauses_of r))
  else Rel (clauses_of s)
(* a key as PutPathFromString(key, filter, NULL) sees it: only a leading '/' is dropped *)
let relpat_of (s0 : string) : Obj.t list =
  let s = key_text s0 in
  if s = "" then []
  else if s.[0] = '/' then (let r = String.sub s 1 (String.length s - 1) in if r = "" then [] else clauses_of r)
  else clauses_of s
let flt_of (s : string) : Obj.t option = if s = "" || s = "-" then None else Some (Obj.repr (fspec_of_string s))
let split_sub (s : string) : string * Obj.t option =
  match String.index_opt s '@' with
  | None -> (s, None)
  | Some i -> (String.sub s 0 i, flt_of (String.sub s (i+1) (String.length s - i - 1)))
let payload_of_int v = n_of_int (v + 1)
let max_of (s : string) : nat option = let v = (try int_of_string s with _ -> -1) in if v < 0 then None else Some (nat_of_int v)

(* ---- printing *)
let path_str (p : path) : string = String.concat "" (List.map (fun x -> "/" ^ name_str x) p)
let payload_str (p : n) : string = let v = int_of_n p in if v = 0 then "-" else string_of_int (v - 1)
let pat_str (p : Obj.t list) : string = String.concat "/" (List.map clause_text p)
let flt_str (f : Obj.t option) : string = match f with None -> "" | Some f -> "@" ^ fspec_str (Obj.obj f : fspec)
let field_str = function
  | SAbsent -> "-"
  | SOther -> "I"
  | SStr l -> "S" ^ String.concat "&" (List.map name_str l)
let matcher_str (m : matcher) : string =
  String.concat "|" (List.map (fun (d, es) ->
    Printf.sprintf "%d:%s" (int_of_nat d) (String.concat "," (List.map (fun e -> pat_str e.e_pat ^ flt_str e.e_flt) es))) m.m_groups)

let () =
  let lines = Ocommon.read_lines () in
  List.iteri (fun k line ->
    match String.index_opt line '|' with
    | None -> ()
    | Some bar ->
      Hashtbl.reset tbl; Hashtbl.reset rev_tbl;
      let body = String.sub line (bar+1) (String.length line - bar - 1) in
      let opl = List.filter (fun s -> s <> "") (split ';' body) in
      let st = ref (empty_rstate ops) in
      let nsess = ref 0 in
      let seen : (int, int) Hashtbl.t = Hashtbl.create 8 in     (* session -> inbox length already printed *)
      List.iteri (fun j op ->
        let f = split ':' op in
        let code = List.hd f in
        let nth i = match List.nth_opt f i with Some x -> x | None -> "" in
        let kk = (try int_of_string (nth 1) with _ -> -1) in
        let sv () = rs_srv ops !st in
        let alive kk = kk >= 0 && List.exists (fun ss -> int_of_n ss.s_id = kk) (sv_sessions ops (sv ())) in
        let sess kk = List.find (fun ss -> int_of_n ss.s_id = kk) (sv_sessions ops (sv ())) in
        let result = ref "" in
        let valid =
          if code = "a" then begin
            let id = !nsess in incr nsess;
            st := rstep ops fx !st (RAttach (n_of_int id, intern (if nth 1 = "" then "h" else nth 1), intern (string_of_int id)));
            true
          end
          else if not (alive kk) then false
          else begin
            let s = n_of_int kk in
            match code with
            | "d" -> st := rstep ops fx !st (RDetach s); true
            | "s" ->
              let flags = (try int_of_string (nth 2) with _ -> 0) in
              let its = List.map (fun it ->
                  match String.index_opt it '=' with
                  | None -> (List.map intern (split '/' it), N0)
                  | Some i -> (List.map intern (split '/' (String.sub it 0 i)),
                               payload_of_int (int_of_string (String.sub it (i+1) (String.length it - i - 1))))) (items (nth 3)) in
              st := rstep ops fx !st (RCmd (s, RSrv (CSetData (n_of_int flags, its)))); true
            | "r" ->
              let ks = List.map (fun x -> let (p, fl) = split_sub x in (relpat_of p, fl)) (items (nth 3)) in
              st := rstep ops fx !st (RCmd (s, RSrv (CRemoveData ((nth 2 = "1"), ks)))); true
            | "sp" ->
              let fl = nth 2 in
              let p = { sp_reflect = String.contains fl 'R'; sp_gw2nb = String.contains fl 'G'; sp_nb2gw = String.contains fl 'N';
                        sp_keys = List.map spath_of (items (nth 3));
                        sp_flts = (if nth 4 = "" then None else Some (List.map flt_of (items (nth 4)))) } in
              st := rstep ops fx !st (RCmd (s, RSetParams p)); true
            | "rp" ->
              let names = List.filter_map (fun c -> match c with
                  | 'R' -> Some PReflect | 'G' -> Some PGw2Nb | 'N' -> Some PNb2Gw | 'K' -> Some PKeys | 'F' -> Some PFilters | _ -> None)
                  (List.init (String.length (nth 2)) (String.get (nth 2))) in
              st := rstep ops fx !st (RCmd (s, RRemoveParams names)); true
            | "rw" ->
              (* the parameter names the wildcard pattern matches (StringMatcher model), in _parameters' field order *)
              let c = Obj.repr (chars_of (nth 2)) in
              let names = List.filter_map (fun (nm, p) -> if ops.cmatch c (intern nm) then Some p else None)
                  [("!Self", PReflect); ("!G2N", PGw2Nb); ("!N2G", PNb2Gw); ("!SnKy", PKeys); ("!SnFl", PFilters)] in
              st := rstep ops fx !st (RCmd (s, RRemoveParams names)); true
            | "m" | "q" ->
              let sf = nth 5 in
              let fld = if sf = "" || sf = "-" then SAbsent else if sf = "I" then SOther
                else SStr (List.map intern (split '&' (String.sub sf 1 (String.length sf - 1)))) in
              let m = { u_what = n_of_int (try int_of_string (nth 2) with _ -> 0); u_tag = n_of_int j;
                        u_keys = List.map spath_of (items (nth 3)); u_filters = List.map flt_of (items (nth 4)); u_session = fld } in
              st := rstep ops fx !st (RCmd (s, RMsg m)); true
            | "t" ->
              let glob = (nth 2 <> "s") in
              let keys = List.map (fun x -> if glob then spath_of x else Abs (relpat_of x)) (items (nth 5)) in
              let m = matcher_of ops keys (List.map flt_of (items (nth 6))) in
              let root = if glob then [] else session_dir ops (sess kk) in
              let ns = find_nodes ops fx (sv_tree ops (sv ())) m root (nth 3 = "1") (max_of (nth 4)) in
              result := String.concat "," (List.map (fun nd -> path_str nd.n_path) ns); true
            | "fn" ->
              let (p, fl) = split_sub (nth 3) in
              let pt = key_text p in
              let glob = (pt <> "" && pt.[0] = '/') in
              let m = matcher_of ops [Abs (relpat_of p)] [fl] in
              let root = if glob then [] else session_dir ops (sess kk) in
              let ns = find_nodes ops fx (sv_tree ops (sv ())) m root true (max_of (nth 2)) in
              result := String.concat "," (List.map (fun nd -> path_str nd.n_path) ns); true
            | "fs" ->
              let (p, fl) = split_sub (nth 4) in
              let l = find_sessions ops fx !st s (spath_of p) fl (nth 2 = "1") (max_of (nth 3)) in
              result := String.concat "," (List.map (fun x -> string_of_int (int_of_n x)) l); true
            | _ -> false
          end in
        if not (code = "q" && valid) then begin
        let b = Buffer.create 512 in
        Buffer.add_string b (Printf.sprintf "%d %s%s M{" j code (if valid then "" else "!"));
        let firstc = ref true in
        List.iter (fun ri ->
          let id = int_of_n ri.ri_id in
          let had = (match Hashtbl.find_opt seen id with Some x -> x | None -> 0) in
          let all = ri.ri_inbox in
          let fresh = List.filteri (fun i _ -> i >= had) all in
          Hashtbl.replace seen id (List.length all);
          if fresh <> [] then begin
            if not !firstc then Buffer.add_char b ' ';
            firstc := false;
            Buffer.add_string b (Printf.sprintf "c%d:%s" id
              (String.concat "," (List.map (fun d -> Printf.sprintf "%d/%s" (int_of_n d.d_tag) (field_str d.d_field)) fresh)))
          end) (List.sort (fun a b -> compare (int_of_n a.ri_id) (int_of_n b.ri_id)) (rs_info ops !st));
        Buffer.add_string b ("} R{" ^ !result ^ "} T{");
        let nodes = dfs dump_fuel (sv_tree ops (sv ())) [] in
        Buffer.add_string b (String.concat " " (List.map (fun nd -> path_str nd.n_path ^ "=" ^ payload_str nd.n_data) nodes));
        Buffer.add_string b "} P{";
        Buffer.add_string b (String.concat " " (List.map (fun ri ->
          let has p = List.mem p ri.ri_params in
          Printf.sprintf "%d[%s%s%s|%s%s%s%s%s|%s|%s|%s]" (int_of_n ri.ri_id)
            (if ri.ri_reflect then "R" else "-") (if ri.ri_gw2nb then "G" else "-") (if ri.ri_nb2gw then "N" else "-")
            (if has PReflect then "R" else "") (if has PGw2Nb then "G" else "") (if has PNb2Gw then "N" else "")
            (if has PKeys then "K" else "") (if has PFilters then "F" else "")
            (String.concat "&" (List.map (fun sp -> pat_str (fix_path ops sp)) ri.ri_rkeys))
            (String.concat "&" (List.map (fun fo -> match fo with None -> "-" | Some f -> fspec_str (Obj.obj f : fspec)) ri.ri_rflts))
            (matcher_str ri.ri_route))
          (List.sort (fun a b -> compare (int_of_n a.ri_id) (int_of_n b.ri_id)) (rs_info ops !st))));
        Buffer.add_string b "}";
        Printf.printf "%d %s\n" k (Buffer.contents b)
        end
      ) opl;
      if !unsupported then begin
        Printf.printf "%d ORACLE FAIL generator-error: a clause of this case lies outside the Ere.v regex model\n" k;
        unsupported := false
      end
  ) lines
