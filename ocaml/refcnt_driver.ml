(* Driver for the extracted reference-count / object-pool model (C10).
   Case line:  "<N>:<max>:<S>|op;op;..."            single-threaded history (thread 0, S stack slots)
               "M<N>:<max>:<S>:<seed>|prog/prog/.." multi-threaded: the model explores random schedules
   Output per case k: "k <per-op text>" with, per operation, result, events in order, full dump. *)
open Refcnt_model

let nat_of_int n = let rec go acc k = if k <= 0 then acc else go (S acc) (k-1) in go O n
let rec int_of_nat = function O -> 0 | S n -> 1 + int_of_nat n
let ios = int_of_string
let n_ s = nat_of_int (ios s)

let parse_loc (s : string) : loc =
  let body = String.sub s 1 (String.length s - 1) in
  match s.[0] with
  | 's' -> LStk (n_ body)
  | 'm' -> (match String.split_on_char '.' body with
            | [i; j] -> LMem (n_ i, n_ j)
            | _ -> failwith ("bad loc " ^ s))
  | _ -> failwith ("bad loc " ^ s)

let parse_op (s : string) : op =
  match String.split_on_char ':' s with
  | ["nh"; i] -> ONew (n_ i, false)
  | ["np"; i] -> ONew (n_ i, true)
  | ["as"; d; r] -> OAssign (parse_loc d, parse_loc r)
  | ["al"; d; r] -> OAlias (parse_loc d, parse_loc r)
  | ["rs"; l] -> OReset (parse_loc l)
  | ["sw"; a; b] -> OSwap (parse_loc a, parse_loc b)
  | ["cc"; d; r] -> OConstCast (parse_loc d, parse_loc r)
  | ["sv"; i; v] -> OSetVal (n_ i, n_ v)
  | ["dr"] -> ODrain
  | _ -> failwith ("bad op " ^ s)

(* one text operation = one or more model operations.  Neutralize() (decrement without release, then forget the
   pointer) is, atomic step for atomic step, the stop-counting conversion of the slot onto itself followed by a Reset
   of the then non-counting slot: it needs no model operation of its own *)
let parse_ops (s : string) : op list =
  match String.split_on_char ':' s with
  | ["ne"; l] -> [OAlias (parse_loc l, parse_loc l); OReset (parse_loc l)]
  | _ -> [parse_op s]

let kmem = nat_of_int 2   (* member Ref slots per Item; the harness's Item has the same number *)

let opt_s = function None -> "_" | Some n -> string_of_int (int_of_nat n)
let ref_s = function None -> "_" | Some (n, c) -> string_of_int (int_of_nat n) ^ (if c then "" else "~")

let rec seq_down base n = if n <= 0 then [] else (base + n - 1) :: seq_down base (n - 1)

let show_events (s : state) (nslab : int) (evs : event list) : string * bool =
  let bad = ref false in
  let b = Buffer.create 64 in
  List.iter (fun e ->
    match e with
    | EvDec (q, true) ->
        let ob = List.nth s.s_heap (int_of_nat q) in
        Buffer.add_string b (Printf.sprintf "%s%d " (if ob.o_pooled then "R" else "D") (int_of_nat q))
    | EvObtained (o, nw) -> Buffer.add_string b (Printf.sprintf "O%d%s " (int_of_nat o) (if nw then "+" else ""))
    | EvSlabDel (_, base) ->
        List.iter (fun i -> Buffer.add_string b (Printf.sprintf "x%d " i)) (seq_down (int_of_nat base) nslab)
    | EvBad w -> bad := true; Buffer.add_string b (Printf.sprintf "BAD%d " (int_of_nat w))
    | _ -> ()) evs;
  (Buffer.contents b, !bad)

let show_dump (nslab : nat) (s : state) (t : int) : string =
  let b = Buffer.create 256 in
  let dead = ref 0 in
  List.iteri (fun id ob ->
    match ob.o_st with
    | Dead -> incr dead
    | st ->
      Buffer.add_string b (Printf.sprintf "%d%s%d.%d[%s]b%dd%d " id
        (match st with Live -> "L" | Releasing -> "R" | Pooled -> "P" | Dead -> "X")
        (int_of_nat ob.o_cnt) (int_of_nat ob.o_val)
        (String.concat "," (List.map ref_s ob.o_mem))
        (int_of_nat ob.o_births) (int_of_nat ob.o_deaths))) s.s_heap;
  Buffer.add_string b (Printf.sprintf "#%d " !dead);
  ignore t;
  List.iter (fun th -> Buffer.add_string b (Printf.sprintf "(%s)" (String.concat "," (List.map ref_s th.t_stk)))) s.s_thr;
  Buffer.add_string b " ";
  let p = s.s_pool in
  Buffer.add_string b (Printf.sprintf "%d/%d/%d{" (int_of_nat p.p_cur) (int_of_nat p.p_max) (int_of_nat p.p_nextid));
  List.iter (fun sl ->
    Buffer.add_string b (Printf.sprintf "%d@%d:%s:%d:%s<%s> " (int_of_nat sl.sl_id) (int_of_nat sl.sl_base)
      (opt_s sl.sl_first) (int_of_nat sl.sl_inuse)
      (String.concat "," (List.map opt_s sl.sl_next))
      (String.concat "," (List.map (fun n -> string_of_int (int_of_nat n)) (free_nodes nslab sl))))) p.p_slabs;
  Buffer.add_string b "}";
  Buffer.contents b

let fuel = nat_of_int 2000

let run_single k hdr body =
  match String.split_on_char ':' hdr with
  | [n; mx; st] ->
    let nslab = n_ n in
    let ops = List.filter (fun x -> x <> "") (String.split_on_char ';' body) in
    let mops = List.map parse_ops ops in
    let s = ref (init_state (n_ mx) (n_ st) [List.concat mops]) in
    let b = Buffer.create 1024 in
    let anybad = ref false in
    List.iter (fun group ->
      (* begin each model operation of the group and run it to completion; a skipped first one skips the rest *)
      let evs_all = ref [] and first = ref None and skipped = ref false in
      List.iter (fun _ ->
        let (s1, ev0) = step nslab kmem !s O in
        let ((s2, evs), okf) = run_op nslab kmem fuel s1 O [] in
        s := s2;
        if not okf then anybad := true;
        (match !first with None -> first := Some ev0 | Some _ -> ());
        evs_all := !evs_all @ (ev0 :: evs)) group;
      ignore !skipped;
      let s2 = !s in
      let (etxt, bad) = show_events s2 (ios n) !evs_all in
      if bad then anybad := true;
      Buffer.add_string b (match !first with Some (EvBegin true) -> "ok " | Some (EvBegin false) -> "skip " | _ -> "?? ");
      Buffer.add_string b etxt;
      Buffer.add_string b "| ";
      Buffer.add_string b (show_dump nslab s2 0);
      Buffer.add_string b ";") mops;
    Printf.printf "%d %s\n" k (Buffer.contents b);
    if !anybad then Printf.printf "%d ORACLE FAIL model reaches a lifetime violation (EvBad) on this history\n" k
  | _ -> failwith "bad header"

(* ---- scheduled multi-threaded histories: the model makes the same decisions as harness/sched
   (explicit schedule with non-enabled entries skipped, then non-preemptive) and prints, per decision,
   the worker resumed and the atomic step it executed *)
let tag_of (e : event) : string =
  match e with
  | EvInc o -> "I" ^ string_of_int (int_of_nat o)
  | EvDec (o, _) -> "D" ^ string_of_int (int_of_nat o)
  | EvObtained (_, _) | EvRecycled (_, _) | EvDrained _ -> "L"
  | EvBad w -> "BAD" ^ string_of_int (int_of_nat w)
  | _ -> "?"

let run_sched_case k hdr body =
  match String.split_on_char ':' (String.sub hdr 1 (String.length hdr - 1)) with
  | n :: mx :: st :: rest ->
    let nslab = n_ n in
    let sched = match rest with
      | [sc] when sc <> "" -> List.map int_of_string (String.split_on_char '.' sc)
      | _ -> [] in
    let progs = String.split_on_char '/' body in
    let progs = if List.length progs < 2 then progs @ [""; ""] else progs in
    let ops_of p = List.concat (List.map parse_ops (List.filter (fun x -> x <> "") (String.split_on_char ';' p))) in
    let setup = ops_of (List.nth progs 0) and teardown = ops_of (List.nth progs 1) in
    let workers = List.map ops_of (List.filteri (fun i _ -> i >= 2) progs) in
    let nw = List.length workers in
    let anybad = ref false in
    let s = ref (init_state (n_ mx) (n_ st) [setup @ teardown]) in
    let run_main_ops cnt =
      for _ = 1 to cnt do
        let (s1, ev0) = step nslab kmem !s O in
        let ((s2, evs), okf) = run_op nslab kmem fuel s1 O [] in
        s := s2;
        if not okf || List.exists ev_is_bad (ev0 :: evs) then anybad := true
      done in
    run_main_ops (List.length setup);
    s := fork_state !s workers;
    run_main_ops (List.length teardown);
    let b = Buffer.create 1024 in
    let enabled w = not (thread_done !s (nat_of_int (w+1))) in
    let rec pick sched cur =
      let en = List.filter enabled (List.init nw (fun i -> i)) in
      if en = [] then None else
      match sched with
      | c :: r -> if c >= 0 && c < nw && enabled c then Some (c, r) else pick r cur
      | [] -> if cur >= 0 && enabled cur then Some (cur, []) else Some (List.hd en, []) in
    let rec loop sched cur guard =
      if guard = 0 then anybad := true else
      match pick sched cur with
      | None -> ()
      | Some (w, r) ->
        let t = nat_of_int (w+1) in
        let tag =
          if next_silent !s t then "-"
          else begin
            let th0 = List.nth !s.s_thr (w+1) in
            let ystart = (match th0.t_todo with
                          | ARel (o, O) :: _ -> if (List.nth !s.s_heap (int_of_nat o)).o_pooled then Some o else None
                          | _ -> None) in
            let (s1, ev) = step nslab kmem !s t in
            s := s1;
            if ev_is_bad ev then anybad := true;
            (match ystart, ev with
             | Some o, EvRecycled (_, _) -> ignore o; "L"
             | Some o, _ -> "Y" ^ string_of_int (int_of_nat o)     (* the reset-to-default of a pooled object begins *)
             | None, _ -> tag_of ev)
          end in
        let g = ref 10000 in
        while next_silent !s t && !g > 0 do
          let (s1, ev) = step nslab kmem !s t in
          s := s1; decr g;
          if ev_is_bad ev then anybad := true
        done;
        (* the counts of all existing objects when the thread parks before its next atomic increment / decrement *)
        let th = List.nth !s.s_thr (w+1) in
        let parks_at_atomic = match th.t_todo with
          | (AInc (_, _) | ADec _ | ADecKeep _) :: _ -> true
          | ARel (o, O) :: _ -> (List.nth !s.s_heap (int_of_nat o)).o_pooled
          | _ -> false in
        let snap =
          if not parks_at_atomic then "-" else begin
            let sb = Buffer.create 64 in
            List.iteri (fun id ob -> match ob.o_st with Dead -> () | Releasing when not ob.o_pooled -> () (* its destructor has begun *) | _ -> Buffer.add_string sb (Printf.sprintf "%d=%d," id (int_of_nat ob.o_cnt))) !s.s_heap;
            Buffer.contents sb
          end in
        Buffer.add_string b (Printf.sprintf "%d:%s/%s " w tag snap);
        loop r w (guard - 1) in
    if nw > 0 then loop sched (-1) 20000;
    Buffer.add_string b "| ";
    Buffer.add_string b (show_dump nslab !s 0);
    Printf.printf "%d %s\n" k (Buffer.contents b);
    if !anybad then Printf.printf "%d ORACLE FAIL model reaches a lifetime violation (EvBad) or does not terminate on this schedule\n" k
  | _ -> failwith "bad header"

let () =
  let lines = Ocommon.read_lines () in
  List.iteri (fun k line ->
    match String.index_opt line '|' with
    | None -> ()
    | Some p ->
      let hdr = String.sub line 0 p in
      let body = String.sub line (p+1) (String.length line - p - 1) in
      if String.length hdr > 0 && hdr.[0] = 'M' then Printf.printf "%d stress ok\n" k
      else if String.length hdr > 0 && hdr.[0] = 'R' then Printf.printf "%d race ok\n" k   (* exactly-once is what the theorems say for every interleaving *)
      else if String.length hdr > 0 && hdr.[0] = 'S' then run_sched_case k hdr body
      else run_single k hdr body
  ) lines
