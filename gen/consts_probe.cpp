// Constants probe: compiled against /repo's current headers and run by gen_consts.py.
// Prints "N <name> <decimal>", "S <name> <string>" or "L <name> <comma-separated decimals>".
#include <stdio.h>
#include <string.h>
#include "support/MuscleSupport.h"
#include "message/Message.h"
#include "iogateway/MessageIOGateway.h"
#include "reflector/StorageReflectConstants.h"
#include "util/Queue.h"
#include "util/String.h"
#include "util/Hashtable.h"
#include "iogateway/PacketTunnelIOGateway.h"      // C12
#include "iogateway/MiniPacketTunnelIOGateway.h"  // C12
#include "util/PulseNode.h"   // C20

#include "reflector/DataNode.h"   // C04
#include "reflector/StorageReflectSession.h"   // C04 (NODE_DEPTH_*)

using namespace muscle;

#define PN(name, expr) printf("N %s %llu\n", name, (unsigned long long)(expr))
#define PS(name, expr) printf("S %s %s\n", name, (const char *)(expr))

int main()
{
   // ---- Message type codes and protocol constants (C01, C02, C08)
   PN("B_ANY_TYPE", B_ANY_TYPE);       PN("B_BOOL_TYPE", B_BOOL_TYPE);     PN("B_DOUBLE_TYPE", B_DOUBLE_TYPE);
   PN("B_FLOAT_TYPE", B_FLOAT_TYPE);   PN("B_INT64_TYPE", B_INT64_TYPE);   PN("B_INT32_TYPE", B_INT32_TYPE);
   PN("B_INT16_TYPE", B_INT16_TYPE);   PN("B_INT8_TYPE", B_INT8_TYPE);     PN("B_MESSAGE_TYPE", B_MESSAGE_TYPE);
   PN("B_POINTER_TYPE", B_POINTER_TYPE); PN("B_POINT_TYPE", B_POINT_TYPE); PN("B_RECT_TYPE", B_RECT_TYPE);
   PN("B_STRING_TYPE", B_STRING_TYPE); PN("B_RAW_TYPE", B_RAW_TYPE);       PN("B_TAG_TYPE", B_TAG_TYPE);
   PN("CURRENT_PROTOCOL_VERSION", CURRENT_PROTOCOL_VERSION);
   PN("OLDEST_SUPPORTED_PROTOCOL_VERSION", OLDEST_SUPPORTED_PROTOCOL_VERSION);
   PN("MUSCLE_MESSAGE_ENCODING_DEFAULT", MUSCLE_MESSAGE_ENCODING_DEFAULT);
   PN("MUSCLE_MESSAGE_ENCODING_ZLIB_1", MUSCLE_MESSAGE_ENCODING_ZLIB_1);
   PN("MUSCLE_MESSAGE_ENCODING_ZLIB_9", MUSCLE_MESSAGE_ENCODING_ZLIB_9);
   PN("MUSCLE_MESSAGE_ENCODING_END_MARKER", MUSCLE_MESSAGE_ENCODING_END_MARKER);
   PN("MUSCLE_NO_LIMIT", MUSCLE_NO_LIMIT);

   // ---- C01/C08: in-memory sizes of the item types (the size tables inside message/Message.cpp are
   //      written as sizeof() expressions; gen_consts.py captures those expressions as text and the Coq
   //      side evaluates them over these values) and the flattened sizes the header-only classes advertise
   PN("SIZEOF_bool", sizeof(bool));     PN("SIZEOF_double", sizeof(double)); PN("SIZEOF_float", sizeof(float));
   PN("SIZEOF_int64", sizeof(int64));   PN("SIZEOF_int32", sizeof(int32));   PN("SIZEOF_int16", sizeof(int16));
   PN("SIZEOF_int8", sizeof(int8));     PN("SIZEOF_voidp", sizeof(void *));  PN("SIZEOF_Point", sizeof(Point));
   PN("SIZEOF_Rect", sizeof(Rect));     PN("SIZEOF_MessageRef", sizeof(MessageRef)); PN("SIZEOF_String", sizeof(String));
   PN("SIZEOF_uint32", sizeof(uint32)); PN("SIZEOF_uint8", sizeof(uint8));
   PN("POINT_FLATTENED_SIZE", Point::FlattenedSize()); PN("RECT_FLATTENED_SIZE", Rect::FlattenedSize());

   // ---- containers (C16, C17, C09)
   PN("SMALL_QUEUE_SIZE", SMALL_QUEUE_SIZE);
   PN("MUSCLE_HASHTABLE_DEFAULT_CAPACITY", MUSCLE_HASHTABLE_DEFAULT_CAPACITY);

   // ---- C17: String small-buffer layout (evaluated by the compiler from util/String.h)
   PN("STRING_SIZEOF", sizeof(String));
   PN("STRING_MAX_SHORT_LENGTH", String::GetMaxShortStringLength());
   PN("STRING_MAX_LENGTH", String::GetMaxStringLength());

   // ---- reflector protocol (C04..C07, C13)
   PN("BEGIN_PR_COMMANDS", BEGIN_PR_COMMANDS); PN("END_PR_COMMANDS", END_PR_COMMANDS);
   PN("BEGIN_PR_RESULTS", BEGIN_PR_RESULTS);   PN("END_PR_RESULTS", END_PR_RESULTS);
   PN("PR_COMMAND_SETPARAMETERS", PR_COMMAND_SETPARAMETERS); PN("PR_COMMAND_SETDATA", PR_COMMAND_SETDATA);
   PN("PR_COMMAND_REMOVEDATA", PR_COMMAND_REMOVEDATA);       PN("PR_COMMAND_GETDATA", PR_COMMAND_GETDATA);
   PN("PR_COMMAND_INSERTORDEREDDATA", PR_COMMAND_INSERTORDEREDDATA);
   PN("PR_COMMAND_REORDERDATA", PR_COMMAND_REORDERDATA);
   PN("PR_COMMAND_BATCH", PR_COMMAND_BATCH);
   PN("PR_RESULT_DATAITEMS", PR_RESULT_DATAITEMS); PN("PR_RESULT_INDEXUPDATED", PR_RESULT_INDEXUPDATED);
   PN("INDEX_OP_ENTRYINSERTED", INDEX_OP_ENTRYINSERTED); PN("INDEX_OP_ENTRYREMOVED", INDEX_OP_ENTRYREMOVED);
   PN("INDEX_OP_CLEARED", INDEX_OP_CLEARED);
   PS("PR_NAME_KEYS", PR_NAME_KEYS); PS("PR_NAME_FILTERS", PR_NAME_FILTERS);
   PS("PR_NAME_REMOVED_DATAITEMS", PR_NAME_REMOVED_DATAITEMS);
   // ---- C04: node tree / subscriptions (reflector/DataNode.h, StorageReflectConstants.h)
   PN("MUSCLE_MAX_NODE_DEPTH", MUSCLE_MAX_NODE_DEPTH);
   PN("NODE_DEPTH_SESSIONNAME", NODE_DEPTH_SESSIONNAME);
   PN("SETDATANODE_FLAG_DONTCREATENODE", SETDATANODE_FLAG_DONTCREATENODE);
   PN("SETDATANODE_FLAG_DONTOVERWRITEDATA", SETDATANODE_FLAG_DONTOVERWRITEDATA);
   PN("SETDATANODE_FLAG_QUIET", SETDATANODE_FLAG_QUIET);
   PN("SETDATANODE_FLAG_ADDTOINDEX", SETDATANODE_FLAG_ADDTOINDEX);
   PN("SETDATANODE_FLAG_ENABLESUPERCEDE", SETDATANODE_FLAG_ENABLESUPERCEDE);
   // ---- pulse scheduler (C20)
   PN("MUSCLE_TIME_NEVER", MUSCLE_TIME_NEVER);

   // ---- packet tunnels (C12)
   PN("DEFAULT_TUNNEL_IOGATEWAY_MAGIC", DEFAULT_TUNNEL_IOGATEWAY_MAGIC);
   PN("DEFAULT_MINI_TUNNEL_IOGATEWAY_MAGIC", DEFAULT_MINI_TUNNEL_IOGATEWAY_MAGIC);
   PN("C12_SIZEOF_UINT32", sizeof(uint32));

   return 0;
}
