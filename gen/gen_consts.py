#!/usr/bin/env python3
"""Translator: regenerate coq/theories/Gen/Consts.v from /repo's *current* sources.

Two mechanisms:
  (a) header constants: a probe program (gen/consts_probe.cpp) is compiled against /repo and
      run; it prints `name value` lines (so enums, #defines and constant expressions are
      evaluated by the C++ compiler itself);
  (b) constants that live inside .cpp/.c/.py files (not visible to a probe): extracted with
      anchored regular expressions (REGEX_SPECS).  A missing declaration is a hard error.

The theorems are stated over these names; side conditions are discharged by vm_compute on
the generated values, so a changed constant re-checks (and may break) the proofs.
"""
import hashlib, os, re, subprocess, sys

HERE = os.path.dirname(os.path.abspath(__file__))
VERIF = os.path.dirname(HERE)

# (coq_name, file relative to /repo, regex with one group, kind) ; kind: 'int' | 'char' | 'str'
REGEX_SPECS = [
    # --- Queue (C16)
    ("small_queue_size", "util/Queue.h", r"#\s*define\s+SMALL_QUEUE_SIZE\s+(\d+)", "int"),
    # --- SLIP (C03)
    ("slip_end", "iogateway/SLIPFramedDataMessageIOGateway.cpp", r"\bSLIP_END\s*=\s*(0x[0-9A-Fa-f]+|\d+)\s*;", "int"),
    ("slip_esc", "iogateway/SLIPFramedDataMessageIOGateway.cpp", r"\bSLIP_ESC\s*=\s*(0x[0-9A-Fa-f]+|\d+)\s*;", "int"),
    ("slip_escape_end", "iogateway/SLIPFramedDataMessageIOGateway.cpp", r"\bSLIP_ESCAPE_END\s*=\s*(0x[0-9A-Fa-f]+|\d+)\s*;", "int"),
    ("slip_escape_esc", "iogateway/SLIPFramedDataMessageIOGateway.cpp", r"\bSLIP_ESCAPE_ESC\s*=\s*(0x[0-9A-Fa-f]+|\d+)\s*;", "int"),
    # --- Message codec size tables (C01/C08): the `return <expr>;` of each case, as text
    ("fsz_BOOL", "message/Message.cpp", r"static uint32 GetFlattenedSizeForFixedSizeType\(uint32 typeCode\)\s*\{[^}]*?case B_BOOL_TYPE:\s*return\s+([^;]+?)\s*;", "str"),
    ("fsz_DOUBLE", "message/Message.cpp", r"static uint32 GetFlattenedSizeForFixedSizeType\(uint32 typeCode\)\s*\{[^}]*?case B_DOUBLE_TYPE:\s*return\s+([^;]+?)\s*;", "str"),
    ("fsz_POINTER", "message/Message.cpp", r"static uint32 GetFlattenedSizeForFixedSizeType\(uint32 typeCode\)\s*\{[^}]*?case B_POINTER_TYPE:\s*return\s+([^;]+?)\s*;", "str"),
    ("fsz_POINT", "message/Message.cpp", r"static uint32 GetFlattenedSizeForFixedSizeType\(uint32 typeCode\)\s*\{[^}]*?case B_POINT_TYPE:\s*return\s+([^;]+?)\s*;", "str"),
    ("fsz_RECT", "message/Message.cpp", r"static uint32 GetFlattenedSizeForFixedSizeType\(uint32 typeCode\)\s*\{[^}]*?case B_RECT_TYPE:\s*return\s+([^;]+?)\s*;", "str"),
    ("fsz_FLOAT", "message/Message.cpp", r"static uint32 GetFlattenedSizeForFixedSizeType\(uint32 typeCode\)\s*\{[^}]*?case B_FLOAT_TYPE:\s*return\s+([^;]+?)\s*;", "str"),
    ("fsz_INT64", "message/Message.cpp", r"static uint32 GetFlattenedSizeForFixedSizeType\(uint32 typeCode\)\s*\{[^}]*?case B_INT64_TYPE:\s*return\s+([^;]+?)\s*;", "str"),
    ("fsz_INT32", "message/Message.cpp", r"static uint32 GetFlattenedSizeForFixedSizeType\(uint32 typeCode\)\s*\{[^}]*?case B_INT32_TYPE:\s*return\s+([^;]+?)\s*;", "str"),
    ("fsz_INT16", "message/Message.cpp", r"static uint32 GetFlattenedSizeForFixedSizeType\(uint32 typeCode\)\s*\{[^}]*?case B_INT16_TYPE:\s*return\s+([^;]+?)\s*;", "str"),
    ("fsz_INT8", "message/Message.cpp", r"static uint32 GetFlattenedSizeForFixedSizeType\(uint32 typeCode\)\s*\{[^}]*?case B_INT8_TYPE:\s*return\s+([^;]+?)\s*;", "str"),
    ("esz_BOOL", "message/Message.cpp", r"uint32 Message :: GetElementSize\(uint32 type\)\s*\{[^}]*?case B_BOOL_TYPE:\s*return\s+([^;]+?)\s*;", "str"),
    ("esz_DOUBLE", "message/Message.cpp", r"uint32 Message :: GetElementSize\(uint32 type\)\s*\{[^}]*?case B_DOUBLE_TYPE:\s*return\s+([^;]+?)\s*;", "str"),
    ("esz_POINTER", "message/Message.cpp", r"uint32 Message :: GetElementSize\(uint32 type\)\s*\{[^}]*?case B_POINTER_TYPE:\s*return\s+([^;]+?)\s*;", "str"),
    ("esz_POINT", "message/Message.cpp", r"uint32 Message :: GetElementSize\(uint32 type\)\s*\{[^}]*?case B_POINT_TYPE:\s*return\s+([^;]+?)\s*;", "str"),
    ("esz_RECT", "message/Message.cpp", r"uint32 Message :: GetElementSize\(uint32 type\)\s*\{[^}]*?case B_RECT_TYPE:\s*return\s+([^;]+?)\s*;", "str"),
    ("esz_FLOAT", "message/Message.cpp", r"uint32 Message :: GetElementSize\(uint32 type\)\s*\{[^}]*?case B_FLOAT_TYPE:\s*return\s+([^;]+?)\s*;", "str"),
    ("esz_INT64", "message/Message.cpp", r"uint32 Message :: GetElementSize\(uint32 type\)\s*\{[^}]*?case B_INT64_TYPE:\s*return\s+([^;]+?)\s*;", "str"),
    ("esz_INT32", "message/Message.cpp", r"uint32 Message :: GetElementSize\(uint32 type\)\s*\{[^}]*?case B_INT32_TYPE:\s*return\s+([^;]+?)\s*;", "str"),
    ("esz_INT16", "message/Message.cpp", r"uint32 Message :: GetElementSize\(uint32 type\)\s*\{[^}]*?case B_INT16_TYPE:\s*return\s+([^;]+?)\s*;", "str"),
    ("esz_INT8", "message/Message.cpp", r"uint32 Message :: GetElementSize\(uint32 type\)\s*\{[^}]*?case B_INT8_TYPE:\s*return\s+([^;]+?)\s*;", "str"),
    ("esz_MESSAGE", "message/Message.cpp", r"uint32 Message :: GetElementSize\(uint32 type\)\s*\{[^}]*?case B_MESSAGE_TYPE:\s*return\s+([^;]+?)\s*;", "str"),
    ("esz_STRING", "message/Message.cpp", r"uint32 Message :: GetElementSize\(uint32 type\)\s*\{[^}]*?case B_STRING_TYPE:\s*return\s+([^;]+?)\s*;", "str"),
    ("fsz_default", "message/Message.cpp", r"static uint32 GetFlattenedSizeForFixedSizeType\(uint32 typeCode\)\s*\{[^}]*?default:\s*return\s+([^;]+?)\s*;", "str"),
    ("esz_default", "message/Message.cpp", r"uint32 Message :: GetElementSize\(uint32 type\)\s*\{[^}]*?default:\s*return\s+([^;]+?)\s*;", "str"),
    ("single_bool_flat_size", "message/Message.cpp", r"uint32 MessageField :: SingleFlattenedSize\(\) const\s*\{[^}]*?if \(_typeCode == B_BOOL_TYPE\) return\s+([^;]+?)\s*;", "str"),
    # --- the other copies of the protocol constants (C08): C mini/micro codecs and gateways, Python codec
    # --- C10: ObjectPool node indices (util/ObjectPool.h): INVALID_NODE_INDEX = ((uintNN)-1) must not be a valid index
    ("pool_max_objects_per_slab", "util/ObjectPool.h", r"static_assert\(NUM_OBJECTS_PER_SLAB\s*<=\s*(\d+)", "int"),
    ("pool_node_index_bits", "util/ObjectPool.h", r"enum\s*\{\s*INVALID_NODE_INDEX\s*=\s*\(\(uint(\d+)\)\s*-1\)\s*\}", "int"),
    # --- C10: the code shape of the two atomic operations the model takes as single steps (system/AtomicCounter.h, the branch compiled
    #     here): the result is computed from the value the ONE read-modify-write returned (kind "flag": 1 iff that text is present)
    ("c10_inc_single_rmw", "system/AtomicCounter.h",
     r"inline bool AtomicIncrement\(\)\s*\{\s*(?:#ifdef MUSCLE_VERIF_HOOKS\s*MUSCLE_VERIF_YIELD\(MUSCLE_VERIF_ATOMIC_INC, this\);\s*#endif\s*)?#if defined\(MUSCLE_SINGLE_THREAD_ONLY\) \|\| !defined\(MUSCLE_AVOID_CPLUSPLUS11\)\s*return \(\+\+_count == 1\);", "flag"),
    ("c10_dec_single_rmw", "system/AtomicCounter.h",
     r"inline bool AtomicDecrement\(\)\s*\{\s*(?:#ifdef MUSCLE_VERIF_HOOKS\s*MUSCLE_VERIF_YIELD\(MUSCLE_VERIF_ATOMIC_DEC, this\);\s*#endif\s*)?#if defined\(MUSCLE_SINGLE_THREAD_ONLY\) \|\| !defined\(MUSCLE_AVOID_CPLUSPLUS11\)\s*return \(--_count == 0\);", "flag"),
    ("c10_count_is_std_atomic", "system/AtomicCounter.h",
     r"#elif !defined\(MUSCLE_AVOID_CPLUSPLUS11\)\s*std::atomic<int32> _count;", "flag"),
    ("mini_CURRENT_PROTOCOL_VERSION", "lang/c/minimessage/MiniMessage.c", r"#define\s+CURRENT_PROTOCOL_VERSION\s+(\d+)", "int"),
    ("mini_OLDEST_SUPPORTED_PROTOCOL_VERSION", "lang/c/minimessage/MiniMessage.c", r"#define\s+OLDEST_SUPPORTED_PROTOCOL_VERSION\s+(\d+)", "int"),
    ("micro_CURRENT_PROTOCOL_VERSION", "lang/c/micromessage/MicroMessage.c", r"#define\s+CURRENT_PROTOCOL_VERSION\s+(\d+)", "int"),
    ("micro_OLDEST_SUPPORTED_PROTOCOL_VERSION", "lang/c/micromessage/MicroMessage.c", r"#define\s+OLDEST_SUPPORTED_PROTOCOL_VERSION\s+(\d+)", "int"),
    ("minigw_ENCODING_DEFAULT", "lang/c/minimessage/MiniMessageGateway.c", r"_MUSCLE_MESSAGE_ENCODING_DEFAULT\s*=\s*(\d+)\s*;", "int"),
    ("microgw_ENCODING_DEFAULT", "lang/c/micromessage/MicroMessageGateway.c", r"_MUSCLE_MESSAGE_ENCODING_DEFAULT\s*=\s*(\d+)\s*;", "int"),
    ("py_ENCODING_DEFAULT", "lang/python3/message_transceiver_thread.py", r"(?m)^MUSCLE_MESSAGE_ENCODING_DEFAULT\s*=\s*(\d+)", "int"),
    ("py_CURRENT_PROTOCOL_VERSION", "lang/python3/message.py", r"(?m)^CURRENT_PROTOCOL_VERSION\s*=\s*(\d+)", "int"),
    ("py_B_BOOL_TYPE", "lang/python3/message.py", r"(?m)^B_BOOL_TYPE\s*=\s*(\d+)", "int"),
    ("py_B_DOUBLE_TYPE", "lang/python3/message.py", r"(?m)^B_DOUBLE_TYPE\s*=\s*(\d+)", "int"),
    ("py_B_FLOAT_TYPE", "lang/python3/message.py", r"(?m)^B_FLOAT_TYPE\s*=\s*(\d+)", "int"),
    ("py_B_INT64_TYPE", "lang/python3/message.py", r"(?m)^B_INT64_TYPE\s*=\s*(\d+)", "int"),
    ("py_B_INT32_TYPE", "lang/python3/message.py", r"(?m)^B_INT32_TYPE\s*=\s*(\d+)", "int"),
    ("py_B_INT16_TYPE", "lang/python3/message.py", r"(?m)^B_INT16_TYPE\s*=\s*(\d+)", "int"),
    ("py_B_INT8_TYPE", "lang/python3/message.py", r"(?m)^B_INT8_TYPE\s*=\s*(\d+)", "int"),
    ("py_B_MESSAGE_TYPE", "lang/python3/message.py", r"(?m)^B_MESSAGE_TYPE\s*=\s*(\d+)", "int"),
    ("py_B_POINTER_TYPE", "lang/python3/message.py", r"(?m)^B_POINTER_TYPE\s*=\s*(\d+)", "int"),
    ("py_B_POINT_TYPE", "lang/python3/message.py", r"(?m)^B_POINT_TYPE\s*=\s*(\d+)", "int"),
    ("py_B_RECT_TYPE", "lang/python3/message.py", r"(?m)^B_RECT_TYPE\s*=\s*(\d+)", "int"),
    ("py_B_STRING_TYPE", "lang/python3/message.py", r"(?m)^B_STRING_TYPE\s*=\s*(\d+)", "int"),
    ("py_B_RAW_TYPE", "lang/python3/message.py", r"(?m)^B_RAW_TYPE\s*=\s*(\d+)", "int"),
    ("py_B_ANY_TYPE", "lang/python3/message.py", r"(?m)^B_ANY_TYPE\s*=\s*(\d+)", "int"),
    # --- gateways (C03): constants that live inside the .cpp files
    ("gw_header_words", "iogateway/MessageIOGateway.cpp", r"GetHeaderSize\(\)\s*const\s*\{\s*return\s+(\d+)\s*\*\s*sizeof\(uint32\)\s*;", "int"),
    ("gw_scratch_size", "iogateway/MessageIOGateway.cpp", r"_scratchRecvBufferSizeBytes\s*=\s*(\d+)\s*;", "int"),
    ("gw_zlib_min_size", "iogateway/MessageIOGateway.cpp", r"ret\(\)->GetNumBytes\(\)\s*>=\s*(\d+)\)\s*//\s*below", "int"),
    ("text_buf_size", "iogateway/PlainTextMessageIOGateway.cpp", r"const\s+uint32\s+tempBufSize\s*=\s*(\d+)\s*;", "int"),
    ("text_max_recurse", "iogateway/PlainTextMessageIOGateway.cpp", r"recurseDepth\s*>=\s*(\d+)\)", "int"),
    ("raw_max_scratch", "iogateway/RawDataMessageIOGateway.cpp", r"maxScratchSpaceSize\s*=\s*(\d+)\s*;", "int"),
    ("slip_pending_initial", "iogateway/SLIPFramedDataMessageIOGateway.cpp", r"_pendingBuffer\s*=\s*GetByteBufferFromPool\((\d+)\)", "int"),
    ("zlib_hdr_dependent", "zlib/ZLibCodec.cpp", r"ZLIB_CODEC_HEADER_DEPENDENT\s*=\s*(\d+)\s*;", "int"),
    ("zlib_hdr_independent", "zlib/ZLibCodec.cpp", r"ZLIB_CODEC_HEADER_INDEPENDENT\s*=\s*(\d+)\s*;", "int"),
    # --- String growth policy (C17): constants inside util/String.cpp
    ("string_small_growth_threshold", "util/String.cpp", r"if\s*\(bufLen\s*<\s*(\d+)\)\s*return\s+bufLen\+GetMaxShortStringLength\(\)", "int"),
    ("string_page_size", "util/String.cpp", r"STRING_PAGE_SIZE\s*=\s*(\d+)\s*;", "int"),
    ("string_malloc_overhead", "util/String.cpp", r"STRING_MALLOC_OVERHEAD\s*=\s*(\d+)\s*;", "int"),
    # --- wildcard patterns (C15): character tables inside regex/StringMatcher.cpp.  kind "chars:<inner regex>":
    #     the outer regex's group 1 selects a region of text, every match of the inner regex in that region
    #     contributes its groups (C char literals) to a flat `list N` of character codes.
    ("regex_tokens_always", "regex/StringMatcher.cpp",
     r"bool IsRegexToken\(char c, bool isFirstCharInString\)\s*\{\s*switch\(c\)\s*\{([\s\S]*?)return true;", r"chars:case\s+'(\\?.)'\s*:"),
    ("regex_tokens_first", "regex/StringMatcher.cpp",
     r"bool IsRegexToken\(char c, bool isFirstCharInString\)\s*\{\s*switch\(c\)\s*\{[\s\S]*?return true;([\s\S]*?)return isFirstCharInString;", r"chars:case\s+'(\\?.)'\s*:"),
    ("regex_tokens_ncases", "regex/StringMatcher.cpp",
     r"bool IsRegexToken\(char c, bool isFirstCharInString\)\s*\{\s*switch\(c\)\s*\{([\s\S]*?)default:", r"count:case\s+'(\\?.)'\s*:"),
    ("sp_replace", "regex/StringMatcher.cpp",     # flat pairs (from, to):      case 'x':  c = 'y';  break;
     r"for \(const char \* ptr = str; \*ptr != '\\0'; ptr\+\+\)[\s\S]*?switch\(c\)\s*\{([\s\S]*?)default:", r"chars:case\s+'(\\?.)'\s*:\s*c\s*=\s*'(\\?.)'\s*;\s*break;"),
    ("sp_prefix", "regex/StringMatcher.cpp",      # flat pairs (char, prefix):  case 'x':  regexPattern += 'y';  break;
     r"for \(const char \* ptr = str; \*ptr != '\\0'; ptr\+\+\)[\s\S]*?switch\(c\)\s*\{([\s\S]*?)default:", r"chars:case\s+'(\\?.)'\s*:\s*regexPattern\s*\+=\s*'(\\?.)'\s*;\s*break;"),
    ("sp_escape", "regex/StringMatcher.cpp",      # chars that switch escapeMode on:  case 'x':  escapeMode = true;  break; (or continue;)
     r"for \(const char \* ptr = str; \*ptr != '\\0'; ptr\+\+\)[\s\S]*?switch\(c\)\s*\{([\s\S]*?)default:", r"chars:case\s+'(\\?.)'\s*:\s*escapeMode\s*=\s*true\s*;\s*(?:break|continue);"),
    ("sp_escape_emits_itself", "regex/StringMatcher.cpp",   # 1: `break` (the escape char falls through to `regexPattern += c`), 0: `continue`
     r"case\s+'\\\\'\s*:\s*escapeMode\s*=\s*true\s*;\s*break;", "flag"),
    ("sp_escaped_form", "regex/StringMatcher.cpp",          # either form of the escapeMode branch must be present (an unknown third form is an error)
     r"if \(escapeMode\)\s*\{?\s*(escapeMode = false;)(?:\s*if \(strchr\(\"(?:[^\"\\]|\\.)*\", c\) != NULL\) regexPattern \+= '\\\\';[^\n]*\n\s*\})?\s*else\b", "str"),
    ("sp_escaped_prefix_for", "regex/StringMatcher.cpp",    # escaped chars that get a backslash of their own in the regex ([] when the branch has no such list)
     r"if \(escapeMode\)\s*\{\s*escapeMode = false;\s*if \(strchr\(\"((?:[^\"\\]|\\.)*)\", c\) != NULL\) regexPattern \+= '\\\\';", "opt-cstr"),
    ("sp_trailing", "regex/StringMatcher.cpp",              # what a pattern ending in escapeMode appends
     r"if \(escapeMode\) regexPattern \+= (?:'|\")((?:[^\"'\\]|\\.)*)(?:'|\")\s*;\s*//\s*just in case", "cstr"),
    ("une_keeps_trailing", "regex/StringMatcher.cpp",       # RemoveEscapeChars: 1 iff a trailing lone backslash is kept
     r"if \(lastWasEscape\) ret \+= '\\\\';", "flag"),
    ("sp_ncases", "regex/StringMatcher.cpp",      # number of case labels in that switch (so an unmodelled new case breaks a proof)
     r"for \(const char \* ptr = str; \*ptr != '\\0'; ptr\+\+\)[\s\S]*?switch\(c\)\s*\{([\s\S]*?)default:", r"count:case\s+'(\\?.)'\s*:"),
    ("sp_regex_prefix", "regex/StringMatcher.cpp", r"regexPattern\s*=\s*\"([^\"]*)\"\s*;", "cstr"),
    ("sp_regex_suffix", "regex/StringMatcher.cpp", r"//\s*just in case[^\n]*\n\s*regexPattern\s*\+=\s*\"([^\"]*)\"\s*;", "cstr"),
    ("sp_negate_char", "regex/StringMatcher.cpp", r"if \(str\[0\] == '(\\?.)'\)\s*\{\s*_flags\.SetBit\(STRINGMATCHER_FLAG_NEGATE\)", "cchar"),
    ("sp_rawregex_char", "regex/StringMatcher.cpp", r"if \(str\[0\] == '(\\?.)'\) str\+\+;\s*//\s*note that I deliberately", "cchar"),
    ("sp_range_open", "regex/StringMatcher.cpp", r"if \(str\[0\] == '(\\?.)'\)\s*\{\s*const char \* rBracket", "cchar"),
    ("sp_range_close", "regex/StringMatcher.cpp", r"rBracket = strchr\(str\+1, '(\\?.)'\)", "cchar"),
    ("sp_range_dash", "regex/StringMatcher.cpp", r"dash = strchr\(clause, '(\\?.)'\)", "cchar"),
    ("sp_range_seps", "regex/StringMatcher.cpp", r"StringTokenizer clauses\(&str\[1\], \"([^\"]*)\"\)", "cstr"),
    ("sp_skip_escape_first", "regex/StringMatcher.cpp",   # a leading "ab" (a = this char, b in the list below) loses its first character ("\\<" -> "<")
     r"if \(\(str\[0\] == '(\\?.)'\)&&\(+str\[1\] == [^;]*?\) str\+\+;", "cchar"),
    ("sp_skip_escape_seconds", "regex/StringMatcher.cpp",
     r"if \(\(str\[0\] == '\\?.'\)&&(\(+str\[1\] == [^;]*?)\) str\+\+;", r"chars:str\[1\] == '(\\?.)'"),
    ("sp_range_all_char", "regex/StringMatcher.cpp", r"else if \(clause\[0\] != '(\\?.)'\) min = max =", "cchar"),
    ("cw_rawregex_char", "regex/StringMatcher.cpp", r"if \(str\[0\] == '(\\?.)'\) return true;", "cchar"),
    ("cw_ignored_char", "regex/StringMatcher.cpp", r"\(isEscape == false\)&&\(\*s != '(\\?.)'\)&&\(prevCharWasEscape == false\)", "cchar"),
    ("cw_comma_char", "regex/StringMatcher.cpp", r"if \(\(\*s == '(\\?.)'\)&&\(optRetOnlySpecialCharIsCommas != NULL\)\) sawComma = true;", "cchar"),
    # --- C04: reflector constants that live inside reflector/StorageReflectSession.cpp
    ("default_max_subscription_message_size", "reflector/StorageReflectSession.cpp", r"#define\s+DEFAULT_MAX_SUBSCRIPTION_MESSAGE_SIZE\s+(\d+)", "int"),
    ("default_path_prefix", "reflector/StorageReflectSession.cpp", r"#define\s+DEFAULT_PATH_PREFIX\s+\"([^\"]*)\"", "str"),
    ("cleanup_unsubscribe_delta_abs", "reflector/StorageReflectSession.cpp", r"SubscribeRefCallbackArgs srcArgs\(-(\d+)\);\s*//\s*remove all of our subscriptions", "int"),
    ("max_batch_nest_count", "reflector/StorageReflectSession.cpp", r"MAX_BATCH_NEST_COUNT\s*=\s*(\d+)\s*;", "int"),
    ("max_node_changed_aux_nest_count", "reflector/StorageReflectSession.cpp", r"MAX_NODE_CHANGED_AUX_NEST_COUNT\s*=\s*(\d+)\s*;", "int"),
    # --- C06: which of the three reflector repairs proposed with C04/C05 (F12, F14, F15) the sources at hand still lack
    #     (kind "flag": 1 iff the as-found text is present; the extracted model follows the code as it is)
    ("c06_guard_as_found", "reflector/StorageReflectSession.cpp",
     r"\(GetEntries\(\)\.GetNumItems\(\) == 1\)&&\(\(data\.IsUseFiltersOkay\(\) == false\)", "flag"),
    ("c06_cqf_as_found", "reflector/StorageReflectSession.cpp",
     r"if \(oldMatches != newMatches\) NodeChangedAux\(node, constMsg2", "flag"),
    ("c06_push_as_found", "reflector/StorageReflectSession.cpp",
     r"if \(updateDefaultMessageRoute\) UpdateDefaultMessageRoute\(\);\s*if \(getMsg\.HasName\(PR_NAME_KEYS\)\) DoGetData\(getMsg\);", "flag"),
    # --- C05: which of the repairs the routing theorems assume (F12 guard, F19 once-per-session, F20 default route) the
    #     sources at hand still lack (kind "flag": 1 iff the as-found text is present; the extracted model follows the
    #     code as it is, Properties_C05.v requires all three to be 0), and the depth PassMessageCallbackAux returns
    ("c05_guard_as_found", "reflector/StorageReflectSession.cpp",
     r"\(GetEntries\(\)\.GetNumItems\(\) == 1\)&&\(\(data\.IsUseFiltersOkay\(\) == false\)", "flag"),
    ("c05_once_as_found", "reflector/StorageReflectSession.cpp",
     r"if \(\(next\)&&\(\(next != this\)\|\|\(includeSelfOkay\)\)\) next->MessageReceivedFromSession\(\*this, msgRef, &node\);", "flag"),
    ("c05_route_as_found", "reflector/StorageReflectSession.cpp",
     r"msg\.MoveName\(fn, _defaultMessageRouteMessage\)", "flag"),
    ("c05_pass_returns_session_depth", "reflector/StorageReflectSession.cpp",
     r"PassMessageCallbackAux\(DataNode & node[^{]*\{(?:[^}]|\}(?!\s*\n\s*int\b))*?return NODE_DEPTH_SESSIONNAME;\s*// This causes the traversal to immediately skip to the next session", "flag"),
    # (F52) the comma-list loop of DoTraversalAux drops the escape characters although DoDirectChildLookup unescapes the key again
    ("c05_uvkeys_as_found", "reflector/StorageReflectSession.cpp",
     r"scratchStr\.Clear\(\);\s*\}\s*\}\s*prevCharWasEscape = curCharIsEscape;", "flag"),
    # (F63) the comma-list loop of DoTraversalAux skips empty items although the pattern matches the empty name
    ("c05_uvempty_as_found", "reflector/StorageReflectSession.cpp",
     r"else if \(scratchStr\.HasChars\(\)\)\s*\{\s*if \(DoDirectChildLookup\(data, node, scratchStr", "flag"),
    ("c05_default_flags_gw_and_nb", "reflector/DumbReflectSession.cpp",
     r"_defaultRoutingFlags\(MUSCLE_ROUTING_FLAG_GATEWAY_TO_NEIGHBORS,\s*MUSCLE_ROUTING_FLAG_NEIGHBORS_TO_GATEWAY\)", "flag"),
    # --- C07: the index JettisonOutgoingResults passes to RemoveData in its per-field item loop (finding F4: `i`, the queue
    #     index, where the item index `j` is meant; kind "flag": 1 iff the repaired text is present), and which of the three
    #     reflector repairs of C04 the sources at hand still lack (the extracted model follows the code as it is)
    ("c07_jettison_removes_item_j", "reflector/StorageReflectSession.cpp",
     r"if \(matcher->MatchesPath\(nextFieldName\(\), nextSubMsgRef\(\), NULL\)\) \(void\) msg->RemoveData\(nextFieldName, j\);\s*else j\+\+;", "flag"),
    ("c07_guard_as_found", "reflector/StorageReflectSession.cpp",
     r"\(GetEntries\(\)\.GetNumItems\(\) == 1\)&&\(\(data\.IsUseFiltersOkay\(\) == false\)", "flag"),
    ("c07_cqf_as_found", "reflector/StorageReflectSession.cpp",
     r"if \(oldMatches != newMatches\) NodeChangedAux\(node, constMsg2", "flag"),
    ("c07_push_as_found", "reflector/StorageReflectSession.cpp",
     r"if \(updateDefaultMessageRoute\) UpdateDefaultMessageRoute\(\);\s*if \(getMsg\.HasName\(PR_NAME_KEYS\)\) DoGetData\(getMsg\);", "flag"),
    # --- packet tunnels (C12): constants inside iogateway/PacketTunnelIOGateway.cpp / MiniPacketTunnelIOGateway.cpp
    ("tunnel_fragment_header_words", "iogateway/PacketTunnelIOGateway.cpp", r"FRAGMENT_HEADER_SIZE\s*=\s*(\d+)\s*\*\s*\(sizeof\(uint32\)\)\s*;", "int"),
    ("tunnel_max_receive_states", "iogateway/PacketTunnelIOGateway.cpp", r"MAX_NUM_RECEIVE_STATES\s*=\s*(\d+)\s*;", "int"),
    ("mini_packet_header_words", "iogateway/MiniPacketTunnelIOGateway.cpp", r"PACKET_HEADER_SIZE\s*=\s*(\d+)\s*\*\s*\(sizeof\(uint32\)\)\s*;", "int"),
    ("mini_chunk_header_words", "iogateway/MiniPacketTunnelIOGateway.cpp", r"CHUNK_HEADER_SIZE\s*=\s*(\d+)\s*\*\s*\(sizeof\(uint32\)\)\s*;", "int"),
    ("mini_packet_id_modulus", "iogateway/MiniPacketTunnelIOGateway.cpp", r"_sendPacketIDCounter\s*=\s*\(_sendPacketIDCounter\+1\)\s*%\s*(\d+)\s*;", "int"),
    ("mini_clevel_shift", "iogateway/MiniPacketTunnelIOGateway.cpp", r"\(\(\(uint32\)_sendCompressionLevel\)<<(\d+)\)", "int"),
    # --- Thread messaging (C11): how many signal bytes one WaitForNextMessageAux() call absorbs (system/Thread.cpp)
    ("thread_signal_absorb_size", "system/Thread.cpp", r"uint8\s+bytes\[(\d+)\]\s*;\s*\(void\)\s*recv_ignore_eintr", "int"),
    # --- query filters (C14): archive field names (string literals of the SaveToArchive methods) and the lexer's tables
    ("qf_fn", "regex/QueryFilter.cpp", r"archive\.AddString\(\"([^\"]*)\", _fieldName\)", "cstr"),
    ("qf_idx", "regex/QueryFilter.cpp", r"archive\.CAddInt32\(\"([^\"]*)\", _index\)", "cstr"),
    ("qf_what_min", "regex/QueryFilter.cpp", r"archive\.CAddInt32\(\"([^\"]*)\", _minWhatCode\)", "cstr"),
    ("qf_what_max", "regex/QueryFilter.cpp", r"archive\.CAddInt32\(\"([^\"]*)\", _maxWhatCode, _minWhatCode\)", "cstr"),
    ("qf_exists_type", "regex/QueryFilter.cpp", r"return archive\.CAddInt32\(\"([^\"]*)\", _typeCode, B_ANY_TYPE\)", "cstr"),
    ("qf_multi_kid", "regex/QueryFilter.cpp", r"archive\.AddArchiveMessage\(\"([^\"]*)\", \*nextChild\)", "cstr"),
    ("qf_min_matches", "regex/QueryFilter.cpp", r"archive\.CAddInt32\(\"([^\"]*)\", _minMatches, MUSCLE_NO_LIMIT\)", "cstr"),
    ("qf_max_matches", "regex/QueryFilter.cpp", r"archive\.CAddInt32\(\"([^\"]*)\", _maxMatches\)", "cstr"),
    ("qf_msg_kid", "regex/QueryFilter.cpp", r"archive\.AddArchiveMessage\(\"([^\"]*)\", \*_childFilter\(\)\)", "cstr"),
    ("qf_msg_defmsg", "regex/QueryFilter.cpp", r"archive\.CAddMessage\(\"([^\"]*)\", CastAwayConstFromRef\(_optDefaultChildMessage\)\)", "cstr"),
    ("qf_str_val", "regex/QueryFilter.cpp", r"archive\.AddString\(\"([^\"]*)\", _value\)", "cstr"),
    ("qf_str_def", "regex/QueryFilter.cpp", r"archive\.AddString\(\"([^\"]*)\", _default\)", "cstr"),
    ("qf_str_op", "regex/QueryFilter.cpp", r"\? archive\.AddInt8\(\"([^\"]*)\", _op\) : ret;", "cstr"),
    ("qf_raw_op", "regex/QueryFilter.cpp", r"MRETURN_ON_ERROR\(archive\.AddInt8\(\"([^\"]*)\", _op\)\);", "cstr"),
    ("qf_raw_type", "regex/QueryFilter.cpp", r"MRETURN_ON_ERROR\(archive\.CAddInt32\(\"([^\"]*)\", _typeCode, B_ANY_TYPE\)\);", "cstr"),
    ("qf_raw_val", "regex/QueryFilter.cpp", r"if \(\(bytes\)&&\(numBytes > 0\)\) MRETURN_ON_ERROR\(archive\.AddData\(\"([^\"]*)\", B_RAW_TYPE, bytes, numBytes\)\);", "cstr"),
    ("qf_raw_def", "regex/QueryFilter.cpp", r"if \(bytes\) MRETURN_ON_ERROR\(archive\.AddData\(\"([^\"]*)\", B_RAW_TYPE, bytes, numBytes\)\);", "cstr"),
    ("qf_num_op", "regex/QueryFilter.h", r"archive\.CAddInt8\(\"([^\"]*)\", _op\)", "cstr"),
    ("qf_num_mop", "regex/QueryFilter.h", r"archive\.CAddInt8\(\"([^\"]*)\", _maskOp\)", "cstr"),
    ("qf_num_val", "regex/QueryFilter.h", r"archive\.AddData\(\"([^\"]*)\", DataTypeCode, &_value,\s*sizeof\(_value\)\)", "cstr"),
    ("qf_num_msk", "regex/QueryFilter.h", r"archive\.AddData\(\"([^\"]*)\", DataTypeCode, &_mask,\s*sizeof\(_mask\)\)", "cstr"),
    ("qf_num_def", "regex/QueryFilter.h", r"archive\.AddData\(\"([^\"]*)\", DataTypeCode, &_default,\s*sizeof\(_default\)\)", "cstr"),
    # kind "cstrs:<inner regex>": every group of every inner match in the region is a C string -> `list (list N)`
    ("qf_tok_strs", "regex/QueryFilter.cpp", r"static const char \* _tokStrs\[\] =\s*\{([\s\S]*?)\n\};", r"cstrs:^\s*\"((?:[^\"\\]|\\.)*)\"\s*,"),
    ("qf_synonyms", "regex/QueryFilter.cpp",      # flat pairs (synonym text, token identifier), in the order they are tried
     r"static int32 GetMatchingToken\(const char \* s, uint32 & retNumCharsConsumed\)\s*\{([\s\S]*?)\n\}", r"cstrs:RETURN_ON_SYNONYM_FOR_TOKEN\(s, \"([^\"]*)\",\s*(\w+)\)"),
]


def c_int(v):
    v = v.strip().rstrip('uUlL')
    if re.fullmatch(r'0[0-7]+', v):
        return int(v, 8)
    return int(v, 0)


def c_char_code(lit):
    """code of the body of a C character literal such as  a  \\\\  \\'  \\n  (used by the C15 tables)"""
    esc = {"n": 10, "t": 9, "r": 13, "0": 0, "\\": 92, "'": 39, '"': 34, "a": 7, "b": 8, "f": 12, "v": 11}
    if len(lit) == 2 and lit[0] == "\\":
        if lit[1] not in esc:
            raise RuntimeError("translator: unknown character escape %r" % lit)
        return esc[lit[1]]
    if len(lit) != 1:
        raise RuntimeError("translator: not a single character literal: %r" % lit)
    return ord(lit)


def _read(repo, rel):
    with open(os.path.join(repo, rel), errors="replace") as f:
        return f.read()


def run_probe(repo):
    import tempfile, shutil
    src = os.path.join(HERE, "consts_probe.cpp")
    base = os.path.join(VERIF, "build", "gen")
    os.makedirs(base, exist_ok=True)
    bdir = tempfile.mkdtemp(prefix="probe-", dir=base)   # private: several checks may translate at once
    try:
        return _run_probe(repo, src, bdir)
    finally:
        shutil.rmtree(bdir, ignore_errors=True)


def _run_probe(repo, src, bdir):
    exe = os.path.join(bdir, "consts_probe")
    cmd = ["g++", "-std=gnu++11", "-O0", "-w", "-DMUSCLE_ENABLE_ZLIB_ENCODING", "-DMUSCLE_NO_EXCEPTIONS",
           "-I" + repo, src, "-o", exe]
    p = subprocess.run(cmd, stdout=subprocess.PIPE, stderr=subprocess.PIPE, text=True)
    if p.returncode != 0:
        raise RuntimeError("translator: constants probe does not compile against %s:\n%s" % (repo, p.stderr[-3000:]))
    p = subprocess.run([exe], stdout=subprocess.PIPE, stderr=subprocess.PIPE, text=True, timeout=60)
    if p.returncode != 0:
        raise RuntimeError("translator: constants probe failed: " + p.stderr[-2000:])
    vals = []
    for line in p.stdout.splitlines():
        parts = line.split(" ", 2)
        if len(parts) >= 3 and parts[0] in ("N", "S", "L"):
            vals.append((parts[0], parts[1], parts[2]))
    return vals


def coq_string(s):
    return '"' + s.replace('"', '""') + '"'


REFERENCE = os.path.join(HERE, "consts_reference.json")


def _reference():
    """The constants of the tree the models were written against (committed; refreshed with
    `gen_consts.py --write-reference`).  Used ONLY when a declaration can no longer be found in the
    sources at hand: the run is then reported as a violation of every property whose proofs or
    harness use that constant (the tie is broken), and the reference value merely keeps the model
    buildable so that the check can still search for a concrete failing input."""
    try:
        import json
        return json.load(open(REFERENCE))
    except Exception:
        return {"probe": [], "lines": {}, "info": {}}


def generate(repo, errors=None):
    """Returns (text of Gen/Consts.v, {name: value}).  With `errors` (a list) translator failures are
    appended to it as dicts and the reference value is substituted; without it they raise."""
    ref = _reference()
    try:
        probe_vals = run_probe(repo)
    except RuntimeError as ex:
        if errors is None or not ref["probe"]:
            raise
        errors.append({"name": "*probe*", "file": "gen/consts_probe.cpp", "what": str(ex)[-1500:]})
        probe_vals = [tuple(x) for x in ref["probe"]]
    out = ["(* GENERATED by gen/gen_consts.py from the current sources under %s -- do not edit. *)" % "/repo",
           "From Coq Require Import NArith List String.", "Import ListNotations.", "Local Open Scope N_scope.", ""]
    info = {}
    for kind, name, val in probe_vals:
        if kind == "N":
            out.append("Definition c_%s : N := %s%%N." % (name, val))
            info[name] = int(val)
        elif kind == "S":
            out.append("Definition c_%s : string := %s%%string." % (name, coq_string(val)))
            info[name] = val
        elif kind == "L":   # list of naturals
            items = [x for x in val.split(",") if x != ""]
            out.append("Definition c_%s : list N := [%s]%%N." % (name, "; ".join(items)))
            info[name] = [int(x) for x in items]
    for name, rel, rx, kind in REGEX_SPECS:
        try:
            txt = _read(repo, rel)
        except OSError:
            txt = ""
        m = re.search(rx, txt)
        if kind == "flag":            # C15: 1 iff the construct is present
            out.append("Definition c_%s : N := %d%%N." % (name, 1 if m else 0))
            info[name] = 1 if m else 0
            continue
        if kind == "opt-cstr" and not m:
            out.append("Definition c_%s : list N := []%%N." % name)
            info[name] = []
            continue
        if not m:
            msg = "translator: declaration for %s not found in %s (pattern %s)" % (name, rel, rx)
            if errors is None or name not in ref["lines"]:
                raise RuntimeError(msg)
            errors.append({"name": name, "file": rel, "pattern": rx, "what": msg})
            out.append(ref["lines"][name])
            info[name] = ref["info"].get(name)
            continue
        v = m.group(1)
        if kind == "int":
            n = c_int(v)
            out.append("Definition c_%s : N := %d%%N." % (name, n))
            info[name] = n
        elif kind == "str":
            out.append("Definition c_%s : string := %s%%string." % (name, coq_string(v)))
            info[name] = v
        elif kind.startswith("chars:") or kind.startswith("count:"):   # C15: character tables as `list N`
            codes = []
            for mm in re.finditer(kind[6:], v):
                codes += [c_char_code(g) for g in mm.groups()]
            if kind.startswith("count:"):
                out.append("Definition c_%s : N := %d%%N." % (name, len(codes)))
                info[name] = len(codes)
            else:
                out.append("Definition c_%s : list N := [%s]%%N." % (name, "; ".join(map(str, codes))))
                info[name] = codes
        elif kind.startswith("cstrs:"):     # C14: a table of C strings as `list (list N)`
            strs = []
            for mm in re.finditer(kind[6:], v, re.M):
                for g in mm.groups():
                    strs.append([c_char_code(x) for x in re.findall(r"\\.|[^\\]", g)])
            out.append("Definition c_%s : list (list N) := [%s]%%N." % (name, "; ".join("[" + "; ".join(map(str, x)) + "]" for x in strs)))
            info[name] = strs
        elif kind == "cchar":
            out.append("Definition c_%s : N := %d%%N." % (name, c_char_code(v)))
            info[name] = c_char_code(v)
        elif kind in ("cstr", "opt-cstr"):
            codes = [c_char_code(x) for x in re.findall(r"\\.|[^\\]", v)]
            out.append("Definition c_%s : list N := [%s]%%N." % (name, "; ".join(map(str, codes))))
            info[name] = codes
    out.append("")
    return "\n".join(out), info


def write_reference(repo):
    import json
    txt, info = generate(repo)
    lines = {}
    for l in txt.splitlines():
        m = re.match(r"Definition c_(\S+) :", l)
        if m:
            lines[m.group(1)] = l
    probe = [list(x) for x in run_probe(repo)]
    json.dump({"probe": probe, "lines": lines, "info": info}, open(REFERENCE, "w"), indent=0, sort_keys=True)


if __name__ == "__main__":
    if len(sys.argv) > 1 and sys.argv[1] == "--write-reference":
        write_reference(sys.argv[2] if len(sys.argv) > 2 else "/repo")
        sys.exit(0)
    repo = sys.argv[1] if len(sys.argv) > 1 else "/repo"
    txt, info = generate(repo)
    sys.stdout.write(txt)
