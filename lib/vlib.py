#!/usr/bin/env python3
"""Shared machinery for /verif/bin/check.

Stages (DESIGN.md 2.1): translate -> prove -> build impl -> correspond -> oracle/search.
A per-property plug-in (checks/cNN.py) supplies the model names, harness, generators.
"""
import fcntl, hashlib, json, os, random, re, shutil, subprocess, sys, time

VERIF = os.path.dirname(os.path.dirname(os.path.abspath(__file__)))
REPO = os.environ.get("VERIF_REPO", "/repo")
# VERIF_REPO=<scratch worktree> runs the same checks against another copy of the sources (used to try
# a candidate fix or a seeded change without touching /repo); it then gets its own build directory.
BUILD = os.environ.get("VERIF_BUILD") or (os.path.join(VERIF, "build") if REPO == "/repo" else
                                           os.path.join(VERIF, "build", "alt-" + hashlib.md5(REPO.encode()).hexdigest()[:8]))
COQ_SRC = os.path.join(VERIF, "coq")
# With VERIF_REPO set the Coq development is built in a private copy (the regenerated Gen/Consts.v
# differs per source tree, and the shared tree must not be disturbed by a scratch run).
COQ = COQ_SRC if REPO == "/repo" else os.path.join(BUILD, "coq")
THEORIES = os.path.join(COQ, "theories")


def sync_coq_copy():
    if COQ == COQ_SRC:
        return
    if not os.path.isdir(os.path.join(COQ, "theories")):
        # warm start: the private copy begins as a faithful copy (sources, compiled files, time stamps) of
        # the shared development, taken under the shared tree's lock; make then rebuilds exactly what the
        # regenerated Gen/Consts.v (or a changed source) invalidates, as a warm run in the shared tree would
        os.makedirs(COQ, exist_ok=True)
        main_build = os.path.join(VERIF, "build")
        os.makedirs(main_build, exist_ok=True)
        with open(os.path.join(main_build, ".lock-coq"), "w") as lf:
            fcntl.flock(lf, fcntl.LOCK_EX)
            try:
                subprocess.run(["rsync", "-a", "--exclude=.Makefile.d", "--exclude=*.tmp", COQ_SRC + "/theories", COQ + "/"], check=False)
            finally:
                fcntl.flock(lf, fcntl.LOCK_UN)
    # -c / no -t: a file is transferred only when its content differs and then gets a fresh mtime, so make rebuilds it
    subprocess.run(["rsync", "-rlc", "--delete", "--exclude=Gen/Consts.v", "--include=*/", "--include=*.v", "--exclude=*",
                    COQ_SRC + "/theories", COQ + "/"], check=False)
GUARD = "MUSCLE_VERIF_HOOKS"
NCPU = os.cpu_count() or 4

ALLOWED_AXIOMS = {
    # standard-library axioms that may appear (named in the trusted base when they do)
    "functional_extensionality_dep", "FunctionalExtensionality.functional_extensionality_dep",
    "proof_irrelevance", "classic", "JMeq_eq", "eq_rect_eq", "Eqdep.Eq_rect_eq.eq_rect_eq",
    "propositional_extensionality",
}

BASE_TRUSTED = [
    "Coq 8.16.1 kernel (coqc; vm_compute is used, native_compute is not); coqchk re-check in the thorough tier",
    "gen/gen_consts.py: translator regenerating coq/theories/Gen/Consts.v from /repo sources on every run",
    "Coq extraction with ExtrOcamlBasic only (Extract Inductive bool/option/unit/list/prod/sumbool/sumor to OCaml built-ins; no Extract Constant of ours; N/Z/positive/nat/byte stay extracted inductives) + OCaml 4.13.1 ocamlopt",
    "OCaml drivers under /verif/ocaml, C++ harnesses under /verif/harness, case generators and canonicaliser (checks/*.py)",
    "g++ 12 -std=gnu++11 -O1 with -fsanitize=address,undefined builds /repo working-tree sources into the harness",
    "the C++ itself is modelled, not verified: the theorems are about the Gallina model; the correspondence run ties it to the code",
]


def log(*a):
    print(*a, file=sys.stderr, flush=True)


def sh(cmd, cwd=None, timeout=None, env=None, check=False, input=None):
    """Run a command, return (rc, stdout, stderr)."""
    e = dict(os.environ)
    if env:
        e.update(env)
    try:
        p = subprocess.run(cmd, cwd=cwd, timeout=timeout, env=e, input=input,
                           stdout=subprocess.PIPE, stderr=subprocess.PIPE, text=True,
                           shell=isinstance(cmd, str), errors="replace")
        rc, out, err = p.returncode, p.stdout, p.stderr
    except subprocess.TimeoutExpired as ex:
        rc = 124
        out = ex.stdout.decode("utf8", "replace") if isinstance(ex.stdout, bytes) else (ex.stdout or "")
        err = (ex.stderr.decode("utf8", "replace") if isinstance(ex.stderr, bytes) else (ex.stderr or "")) + "\nTIMEOUT"
    if check and rc != 0:
        raise RuntimeError("command failed rc=%d: %s\n%s\n%s" % (rc, cmd, out[-3000:], err[-3000:]))
    return rc, out, err


class Lock:
    """flock-based lock so that concurrently running checks do not trample a shared build dir."""
    def __init__(self, name):
        os.makedirs(BUILD, exist_ok=True)
        self.path = os.path.join(BUILD, ".lock-" + name)
    def __enter__(self):
        self.f = open(self.path, "w")
        fcntl.flock(self.f, fcntl.LOCK_EX)
        return self
    def __exit__(self, *a):
        fcntl.flock(self.f, fcntl.LOCK_UN)
        self.f.close()


def write_if_changed(path, content):
    os.makedirs(os.path.dirname(path), exist_ok=True)
    try:
        with open(path) as f:
            if f.read() == content:
                return False
    except FileNotFoundError:
        pass
    with open(path, "w") as f:
        f.write(content)
    return True


# ---------------------------------------------------------------- stage 1: translate

def translate():
    """Regenerate Gen/Consts.v from /repo (writes only when content changed, so make's
    timestamps re-check exactly the proofs that depend on a changed constant)."""
    sys.path.insert(0, os.path.join(VERIF, "gen"))
    import gen_consts
    with Lock("coq"):
        sync_coq_copy()
    errors = []
    txt, info = gen_consts.generate(REPO, errors)
    with Lock("coq"):
        changed = write_if_changed(os.path.join(THEORIES, "Gen", "Consts.v"), txt)
    return {"changed": changed, "constants": info, "errors": errors}


def translator_errors_for(tr, closure, extra_files):
    """Translator failures (a declaration the model is generated from is no longer where the translator
    looks) that concern this property: the constant is used by a file of the proof closure or by the
    property's plug-in / harness / driver.  A failed probe concerns every property."""
    out = []
    if not tr.get("errors"):
        return out
    texts = []
    for f in list(closure) + list(extra_files):
        for base in (COQ, VERIF, ""):
            q = os.path.join(base, f) if base else f
            if os.path.isfile(q):
                try:
                    texts.append(open(q, errors="replace").read())
                except OSError:
                    pass
                break
    blob = "\n".join(texts)
    for e in tr["errors"]:
        if e["name"] == "*probe*" or re.search(r"\bc_%s\b|[\"']%s[\"']" % (re.escape(e["name"]), re.escape(e["name"])), blob):
            out.append(e)
    return out


# ---------------------------------------------------------------- stage 2: prove

def coq_files():
    out = []
    for root, _, files in os.walk(THEORIES):
        for f in sorted(files):
            if f.endswith(".v") and not f.endswith("Extract.v"):
                out.append(os.path.relpath(os.path.join(root, f), COQ))
    return sorted(out)


def coq_prepare():
    """(Re)generate _CoqProject and Makefile.  Extraction files are compiled separately."""
    proj = "-Q theories Muscle\n-arg -w -arg -all\n" + "\n".join(coq_files()) + "\n"
    ch = write_if_changed(os.path.join(COQ, "_CoqProject"), proj)
    if ch or not os.path.exists(os.path.join(COQ, "Makefile")):
        sh(["coq_makefile", "-f", "_CoqProject", "-o", "Makefile"], cwd=COQ, check=True)


FORBIDDEN = re.compile(r"\b(Admitted|admit|Axiom|Axioms|Parameter|Parameters|Conjecture|Conjectures|bypass_check|Unset\s+Guard\s+Checking|Unset\s+Positivity\s+Checking|Unset\s+Universe\s+Checking|Admit\s+Obligations|native_compute|type-in-type|impredicative-set)\b")
OBLIG = re.compile(r"^\s*(?:Local\s+|Global\s+|#\[[^\]]*\]\s*)*(Theorem|Lemma|Example|Corollary|Fact|Proposition|Remark)\s+([A-Za-z0-9_']+)", re.M)


def strip_comments(src):
    out, depth, i, n = [], 0, 0, len(src)
    while i < n:
        if src.startswith("(*", i):
            depth += 1; i += 2
        elif src.startswith("*)", i) and depth > 0:
            depth -= 1; i += 2
        else:
            if depth == 0:
                out.append(src[i])
            i += 1
    return "".join(out)


def coq_closure(target_v):
    """Files (relative to COQ) in the dependency closure of target_v, via coqdep."""
    rc, out, err = sh(["coqdep", "-Q", "theories", "Muscle"] + coq_files(), cwd=COQ)
    deps = {}
    for line in out.splitlines():
        if ":" not in line:
            continue
        lhs, rhs = line.split(":", 1)
        tg = [t for t in lhs.split() if t.endswith(".vo")]
        ds = [d[:-1] for d in rhs.split() if d.endswith(".vo") and d.startswith("theories/")]
        for t in tg:
            deps[t[:-1]] = ds
    seen, todo = set(), [target_v]
    while todo:
        f = todo.pop()
        if f in seen:
            continue
        seen.add(f)
        todo.extend(d for d in deps.get(f, []) if d != f)
    return sorted(seen)


def prove(prop_file, timeout=1500):
    """Build the closure of theories/<prop_file> with a full .vo make; recompile the
    property file itself to capture Print Assumptions.  Returns a dict."""
    res = {"ok": False, "obligations": 0, "discharged": 0, "assumptions": {}, "axioms": [],
           "failed_files": [], "first_failure": None, "forbidden": [], "theorems": []}
    target_v = "theories/" + prop_file
    with Lock("coq"):
        coq_prepare()
        closure = coq_closure(target_v)
        res["closure"] = closure
        # textual hygiene over the closure
        for f in closure:
            src = strip_comments(open(os.path.join(COQ, f)).read())
            for m in FORBIDDEN.finditer(src):
                res["forbidden"].append("%s: %s" % (f, m.group(0)))
            res["obligations"] += len(OBLIG.findall(src))
        t0 = time.time()
        # always recompile the property file itself so that Print Assumptions is printed
        for ext in (".vo", ".vok", ".vos", ".glob"):
            try:
                os.remove(os.path.join(COQ, target_v[:-2] + ext))
            except FileNotFoundError:
                pass
        rc, out, err = sh(["make", "-k", "-j%d" % NCPU, target_v + "o"], cwd=COQ, timeout=timeout)
        res["make_rc"] = rc
        res["make_s"] = round(time.time() - t0, 1)
        res["make_tail"] = (out + "\n" + err)[-4000:]
        full = out + "\n" + err
        # which files compiled
        for f in closure:
            vo = os.path.join(COQ, f + "o")
            ok = os.path.exists(vo) and os.path.getmtime(vo) >= os.path.getmtime(os.path.join(COQ, f))
            if ok:
                res["discharged"] += len(OBLIG.findall(strip_comments(open(os.path.join(COQ, f)).read())))
            else:
                res["failed_files"].append(f)
        m = re.search(r'File "\./([^"]+)", line (\d+), characters [^\n]*\n(Error:?[^\n]*(?:\n(?!File )[^\n]*){0,6})', full)
        if m:
            res["first_failure"] = {"file": m.group(1), "line": int(m.group(2)), "error": m.group(3).strip()[:600]}
            # name the lemma that contains that line
            try:
                src = open(os.path.join(COQ, m.group(1))).read().splitlines()
                for ln in range(int(m.group(2)) - 1, -1, -1):
                    mm = OBLIG.match(src[ln])
                    if mm:
                        res["first_failure"]["theorem"] = mm.group(2)
                        break
            except Exception:
                pass
        # Print Assumptions output of the property file
        src = strip_comments(open(os.path.join(COQ, target_v)).read())
        res["theorems"] = [n for (_, n) in OBLIG.findall(src)]
        printed = re.findall(r"Print Assumptions\s+([A-Za-z0-9_'.]+)", src)
        blocks = re.split(r"(?=Closed under the global context|Axioms:)", full)
        closed = full.count("Closed under the global context")
        axioms = []
        for b in blocks:
            if b.startswith("Axioms:"):
                for line in b.splitlines()[1:]:
                    mm = re.match(r"^([A-Za-z0-9_'.]+)\s*:", line)
                    if mm:
                        axioms.append(mm.group(1))
                    elif line.strip() == "" or not line.startswith(" "):
                        if line.strip() and not re.match(r"^\s", line):
                            break
        res["axioms"] = sorted(set(axioms))
        res["print_assumptions"] = {"requested": printed, "closed": closed, "with_axioms": full.count("Axioms:")}
        bad_ax = [a for a in res["axioms"] if a.split(".")[-1] not in {x.split(".")[-1] for x in ALLOWED_AXIOMS}]
        res["bad_axioms"] = bad_ax
        res["ok"] = (rc == 0 and not res["failed_files"] and not res["forbidden"] and not bad_ax
                     and res["discharged"] == res["obligations"] and res["obligations"] > 0
                     and closed + full.count("Axioms:") >= len(printed) and len(printed) > 0)
    return res


def coqchk(prop_file, timeout=1800):
    mod = "Muscle." + prop_file[:-2].replace("/", ".")
    t0 = time.time()
    rc, out, err = sh(["coqchk", "-o", "-silent", "-Q", "theories", "Muscle", mod], cwd=COQ, timeout=timeout)
    return {"rc": rc, "wall_s": round(time.time() - t0, 1), "tail": (out + err)[-3000:]}


# ---------------------------------------------------------------- extraction + OCaml driver

def build_model(extract_v, driver_ml, name, extra_ml=()):
    """Compile theories/<extract_v> (which must end with `Extraction "<name>_model.ml" ...`)
    in build/extract/<name>/ and link it with ocaml/<driver_ml> into build/bin/<name>_model."""
    d = os.path.join(BUILD, "extract", name)
    os.makedirs(d, exist_ok=True)
    os.makedirs(os.path.join(BUILD, "bin"), exist_ok=True)
    exe = os.path.join(BUILD, "bin", name + "_model")
    src_v = os.path.join(THEORIES, extract_v)
    drv = os.path.join(VERIF, "ocaml", driver_ml)
    with Lock("extract-" + name):
        # dependency hash: every .v in the closure + driver
        h = hashlib.sha256()
        with Lock("coq"):
            coq_prepare()
        for f in [src_v, drv] + [os.path.join(VERIF, "ocaml", x) for x in extra_ml]:
            h.update(open(f, "rb").read())
        for f in coq_files():
            h.update(open(os.path.join(COQ, f), "rb").read())
        stamp = os.path.join(d, "stamp")
        if os.path.exists(exe) and os.path.exists(stamp) and open(stamp).read() == h.hexdigest():
            return exe
        # the .vo files the extraction file requires are built by the ordinary full make
        with Lock("coq"):
            rc, out, err = sh(["coqdep", "-Q", "theories", "Muscle", "theories/" + extract_v] + coq_files(), cwd=COQ)
            deps = []
            for line in out.splitlines():
                if line.startswith("theories/" + extract_v[:-2] + ".vo"):
                    deps = [x for x in line.split(":", 1)[1].split() if x.endswith(".vo") and x.startswith("theories/")]
            if deps:
                rc, out, err = sh(["make", "-j%d" % NCPU] + deps, cwd=COQ, timeout=1500)
                if rc != 0:
                    raise RuntimeError("model build failed (deps of %s):\n%s" % (extract_v, (out + err)[-3000:]))
        rc, out, err = sh(["coqc", "-Q", THEORIES, "Muscle", "-w", "-all", src_v], cwd=d, timeout=900)
        if rc != 0:
            raise RuntimeError("extraction failed: %s\n%s" % (extract_v, (out + err)[-3000:]))
        for ext in (".vo", ".vok", ".vos", ".glob"):
            try:
                os.remove(src_v[:-2] + ext)
            except FileNotFoundError:
                pass
        ml = name + "_model.ml"
        cmd = ["ocamlfind", "ocamlopt", "-w", "-a", "-package", "str", "-linkpkg", "-I", d,
               name + "_model.mli", ml]
        for x in extra_ml:
            shutil.copy(os.path.join(VERIF, "ocaml", x), d)
            cmd.append(x)
        shutil.copy(drv, os.path.join(d, "driver_" + name + ".ml"))
        cmd += ["driver_" + name + ".ml", "-o", exe]
        rc, out, err = sh(cmd, cwd=d, timeout=900)
        if rc != 0:
            raise RuntimeError("ocaml build failed:\n%s" % (out + err)[-4000:])
        with open(stamp, "w") as f:
            f.write(h.hexdigest())
    return exe


# ---------------------------------------------------------------- stage 3: build implementation

CXXFLAGS_BASE = ["-std=gnu++11", "-O1", "-g", "-w", "-DMUSCLE_ENABLE_ZLIB_ENCODING", "-DMUSCLE_NO_EXCEPTIONS",
                 "-D" + GUARD, "-fno-omit-frame-pointer"]
SAN = {"asan": ["-fsanitize=address,undefined", "-fno-sanitize-recover=all"],
       "tsan": ["-fsanitize=thread"],
       "none": []}

SKIP_DIRS = ("platform/", "zlib/ZipFileUtilityFunctions.cpp", "test/", "tools/", "server/", "html/", "lang/",
             "python/", "ssl_data/", "_build/", "dataio/SSLSocketDataIO.cpp", "iogateway/SSLSocketAdapterGateway.cpp",
             "system/QMuscleSupport", "qtsupport", "sdlsupport", "winsupport", "besupport", "delphi", "csharp",
             "java", "zlib/zlib/")


def muscle_sources():
    out = []
    for root, dirs, files in os.walk(REPO):
        rel = os.path.relpath(root, REPO)
        if rel.startswith(".git") or rel.startswith("_build"):
            dirs[:] = []
            continue
        for f in sorted(files):
            if not f.endswith(".cpp"):
                continue
            p = os.path.normpath(os.path.join(rel, f))
            if any(p.startswith(s) or s in p for s in SKIP_DIRS):
                continue
            out.append(p)
    return sorted(out)


def build_lib(san="asan", extra_flags=()):
    """Build (incrementally, make + -MMD) the muscle library from /repo's working tree."""
    tag = san + ("" if not extra_flags else "-" + hashlib.md5(" ".join(extra_flags).encode()).hexdigest()[:6])
    d = os.path.join(BUILD, "impl", tag)
    os.makedirs(d, exist_ok=True)
    srcs = muscle_sources()
    flags = CXXFLAGS_BASE + SAN[san] + list(extra_flags) + ["-I" + REPO]
    objs = []
    mk = ["CXX=g++", "CXXFLAGS=" + " ".join(flags), "all: libmuscle.a", ""]
    for s in srcs:
        o = s.replace("/", "__")[:-4] + ".o"
        objs.append(o)
        mk.append("%s: %s\n\t$(CXX) $(CXXFLAGS) -MMD -MP -c %s -o %s" % (o, os.path.join(REPO, s), os.path.join(REPO, s), o))
    mk.append("libmuscle.a: %s\n\trm -f $@; ar rcs $@ %s" % (" ".join(objs), " ".join(objs)))
    mk.append("-include *.d")
    with Lock("impl-" + tag):
        write_if_changed(os.path.join(d, "Makefile"), "\n".join(mk) + "\n")
        # drop objects of sources that no longer exist
        t0 = time.time()
        rc, out, err = sh(["make", "-j%d" % NCPU, "-s"], cwd=d, timeout=1800)
        if rc != 0:
            raise RuntimeError("libmuscle build failed:\n" + (out + err)[-5000:])
    return os.path.join(d, "libmuscle.a"), flags, round(time.time() - t0, 1)


def build_harness(name, src, san="asan", link_lib=True, extra_flags=(), extra_srcs=(), c_srcs=()):
    """Compile harness/<src> against /repo's working tree (header deps tracked with -MMD)."""
    os.makedirs(os.path.join(BUILD, "bin"), exist_ok=True)
    d = os.path.join(BUILD, "harness", name + "-" + san)
    os.makedirs(d, exist_ok=True)
    exe = os.path.join(BUILD, "bin", name + "_impl")
    flags = CXXFLAGS_BASE + SAN[san] + list(extra_flags) + ["-I" + REPO, "-I" + os.path.join(VERIF, "harness")]
    lib = None
    if link_lib:
        lib, _, _ = build_lib(san)
    mk = ["CXX=g++", "CC=gcc", "CXXFLAGS=" + " ".join(flags),
          "CFLAGS=" + " ".join(["-O1", "-g", "-w", "-fno-omit-frame-pointer"] + SAN[san] + ["-I" + REPO]), ""]
    objs = []
    allsrc = [os.path.join(VERIF, "harness", src)] + [os.path.join(REPO, x) for x in extra_srcs]
    for s in allsrc:
        o = os.path.basename(s).rsplit(".", 1)[0] + ".o"
        objs.append(o)
        mk.append("%s: %s\n\t$(CXX) $(CXXFLAGS) -MMD -MP -c %s -o %s" % (o, s, s, o))
    for s in c_srcs:
        sp = os.path.join(REPO, s) if not os.path.isabs(s) else s
        o = "c_" + os.path.basename(s).rsplit(".", 1)[0] + ".o"
        objs.append(o)
        mk.append("%s: %s\n\t$(CC) $(CFLAGS) -MMD -MP -c %s -o %s" % (o, sp, sp, o))
    mk.insert(5, "all: %s\n" % exe)
    mk.append("%s: %s %s\n\t$(CXX) $(CXXFLAGS) -o $@ %s %s -lz -lpthread -lutil" %
              (exe, " ".join(objs), lib or "", " ".join(objs), lib or ""))
    mk.append("-include *.d")
    with Lock("harness-" + name):
        write_if_changed(os.path.join(d, "Makefile"), "\n".join(mk) + "\n")
        rc, out, err = sh(["make", "-s", "-j4", "all"], cwd=d, timeout=1800)
        if rc != 0:
            raise RuntimeError("harness build failed (%s):\n%s" % (name, (out + err)[-5000:]))
    return exe


SAN_ENV = {"ASAN_OPTIONS": "detect_leaks=0:abort_on_error=0:allocator_may_return_null=1:max_allocation_size_mb=4096",
           "UBSAN_OPTIONS": "print_stacktrace=1:halt_on_error=1"}


# ---------------------------------------------------------------- stages 4/5: correspondence

def run_lines(exe, case_text, timeout=600, env=None):
    e = dict(SAN_ENV)
    if env:
        e.update(env)
    rc, out, err = sh([exe], input=case_text, timeout=timeout, env=e)
    return rc, out.splitlines(), err


def san_summary(err):
    """Short, address-free summary of a sanitizer / crash report."""
    m = re.search(r"ERROR: AddressSanitizer: ([a-zA-Z\-_ ]+?)(?: on| \(|:|$)", err)
    kind = None
    if m:
        kind = "ASan " + m.group(1).strip()
    else:
        m = re.search(r"runtime error: ([^\n]*)", err)
        if m:
            kind = "UBSan " + re.sub(r"0x[0-9a-f]+", "ADDR", m.group(1))[:120]
        elif "ThreadSanitizer" in err:
            m = re.search(r"WARNING: ThreadSanitizer: ([^\n(]*)", err)
            kind = "TSan " + (m.group(1).strip() if m else "report")
        elif "ASSERTION FAILED" in err or "MCRASH" in err:
            m = re.search(r"ASSERTION FAILED[^\n]*", err)
            kind = (m.group(0) if m else "MCRASH")[:160]
    frames = re.findall(r"#\d+ 0x[0-9a-f]+ in ((?:muscle::)?[A-Za-z_][^\s(<]*)", err)
    fr = [f for f in frames if not f.startswith("__") and "interceptor" not in f and f not in ("main",)]
    return "%s in %s" % (kind or "abnormal exit", fr[0] if fr else "?")


PER_CASE_HANG_LIMIT = 300     # seconds one case may take on its own before it is reported as a hang
LAST_CORRESPOND = {}          # side information of the last correspond() call (cases not reached within the time budget)


def correspond(impl_exe, model_exe, cases, timeout=900, batch=None, max_restarts=30):
    """cases: list of one-line strings.  Both executables read all cases on stdin and print,
    per case k (0-based), lines 'k <canonical result>'; either side may in addition print
    'k ORACLE FAIL <why>' lines.  A crash of the implementation on case k is recorded and
    the run resumes with case k+1.  Returns (disagreements, oracle_failures, crashes, n_impl_lines)."""
    def index(lines, off):
        d, orc = {}, {}
        for l in lines:
            sp = l.split(" ", 1)
            if not sp[0].isdigit():
                continue
            k = int(sp[0]) + off
            rest = sp[1] if len(sp) > 1 else ""
            if rest.startswith("ORACLE"):
                orc.setdefault(k, []).append(rest)
            else:
                d.setdefault(k, []).append(rest)
        return d, orc
    text = "".join(c + "\n" for c in cases)
    LAST_CORRESPOND.clear()
    rc_m, out_m, err_m = run_lines(model_exe, text, timeout)
    dm, om = index(out_m, 0)
    model_cut = None
    if rc_m == 124:      # the model driver used up the batch's time budget: compare only what it answered
        model_cut = (max(dm) if dm else -1)
        LAST_CORRESPOND["model_time_budget_cut_at"] = model_cut
    di, oi, crashes, n_lines = {}, {}, [], 0
    off, restarts = 0, 0
    t_end = time.time() + timeout
    while off < len(cases):
        sub = cases[off:]
        rc_i, out_i, err_i = run_lines(impl_exe, "".join(c + "\n" for c in sub), max(5, t_end - time.time()))
        n_lines += len(out_i)
        d, o = index(out_i, off)
        di.update(d); 
        for k, v in o.items():
            oi.setdefault(k, []).extend(v)
        missing = [k for k in range(off, len(cases)) if k not in d]
        if not missing:
            if rc_i != 0:
                crashes.append({"case": cases[-1], "k": len(cases) - 1, "rc": rc_i,
                                "what": san_summary(err_i) + " (at exit)", "stderr": err_i[-2500:]})
            break
        k = missing[0]
        if rc_i == 124:
            # The time budget of the whole batch ran out while case k was being processed.  That is a hang only
            # if case k does not finish on its own either: run it alone with a generous limit before blaming it.
            rc1, out1, err1 = run_lines(impl_exe, cases[k] + "\n", PER_CASE_HANG_LIMIT)
            if rc1 != 124:
                d1, o1 = index(out1, k)
                di.update(d1)
                for kk, v in o1.items():
                    oi.setdefault(kk, []).extend(v)
                if k not in d1:
                    crashes.append({"case": cases[k], "k": k, "rc": rc1, "what": san_summary(err1), "stderr": err1[-2500:]})
                off = k + 1
                LAST_CORRESPOND["not_reached_time_budget"] = len(cases) - off
                break
        crashes.append({"case": cases[k], "k": k, "rc": rc_i,
                        "what": ("timeout/hang" if rc_i == 124 else san_summary(err_i)), "stderr": err_i[-2500:]})
        off = k + 1
        restarts += 1
        if restarts >= max_restarts or time.time() > t_end:
            break
    dis, ofail = [], []
    crashed = {c["k"] for c in crashes}
    for k, c in enumerate(cases):
        if k >= off and k not in di and k not in crashed:
            continue   # not reached (too many crashes)
        a, b = di.get(k), dm.get(k)
        if a is None:
            continue
        if b is None:
            if model_cut is not None and k >= model_cut:
                continue
            dis.append({"case": c, "k": k, "impl": a, "model": ["<no output>"], "stderr": err_m[-500:]})
            continue
        if a != b:
            dis.append({"case": c, "k": k, "impl": a, "model": b})
    for src in (oi, om):
        for k, ls in src.items():
            for l in ls:
                if " FAIL" in l:
                    ofail.append({"case": cases[k], "k": k, "oracle": l, "side": "impl" if src is oi else "model"})
    return dis, ofail, crashes, n_lines


def shrink_case(case, still_fails, sep=";", max_steps=400):
    """Greedy delta-debugging over `sep`-separated operations of a one-line case."""
    head, _, body = case.partition("|")
    ops = [o for o in body.split(sep) if o != ""] if body else []
    if not ops:
        return case
    steps = 0
    chunk = max(1, len(ops) // 2)
    while chunk >= 1 and steps < max_steps:
        i, changed = 0, False
        while i < len(ops) and steps < max_steps:
            cand = ops[:i] + ops[i + chunk:]
            steps += 1
            c = head + "|" + sep.join(cand)
            if cand and still_fails(c):
                ops, changed = cand, True
            else:
                i += chunk
        if not changed:
            chunk //= 2
    return head + "|" + sep.join(ops)


# ---------------------------------------------------------------- findings, replay, evidence

def load_findings(prop):
    p = os.path.join(VERIF, "known_findings.json")
    try:
        ents = json.load(open(p))
    except FileNotFoundError:
        return []
    return [e for e in ents if e.get("property") == prop]


def write_replay(prop, seed, k, payload):
    d = os.path.join(BUILD, "replay")
    os.makedirs(d, exist_ok=True)
    p = os.path.join(d, "%s-%s-%d.json" % (prop, seed, k))
    payload = dict(payload)
    payload["property"] = prop
    with open(p, "w") as f:
        json.dump(payload, f, indent=1)
    return p


def write_evidence(prop, tier, seed, coverage, assumptions, wall_s, violations):
    # runs against another tree (VERIF_REPO) keep their evidence with their private build output
    evdir = os.path.join(VERIF, "evidence") if REPO == "/repo" else os.path.join(BUILD, "evidence")
    os.makedirs(evdir, exist_ok=True)
    ev = {"property_id": prop, "tier": tier, "seed": seed, "level": "proof",
          "coverage": coverage, "assumptions": assumptions, "wall_s": round(wall_s, 1),
          "violations": violations}
    with open(os.path.join(evdir, prop + ".json"), "w") as f:
        json.dump(ev, f, indent=1)
    return ev


def count_distinct(cases, nontrivial):
    seen = set()
    for c in cases:
        if nontrivial(c):
            seen.add(hashlib.md5(c.encode()).hexdigest())
    return len(seen)


# ---------------------------------------------------------------- generic driver

class Check:
    """Base class; a plug-in subclasses it and overrides the hooks."""
    prop = "C00"
    prop_file = None            # e.g. "Properties_C16.v"
    model = None                # (extract_v, driver_ml, name)
    harness = None              # dict(name=, src=, san=, link_lib=, extra_flags=)
    premises = []               # section premises / runtime residue, for the evidence
    modelled = ""               # which part of the code is modelled
    quick_timeout = 900

    # -- hooks ---------------------------------------------------------------
    def gen_cases(self, rng, tier):
        """-> list of (stream_name, case_line)"""
        raise NotImplementedError
    def corpus_cases(self):
        p = os.path.join(VERIF, "corpus", self.prop + ".txt")
        if os.path.exists(p):
            return [("corpus", l.rstrip("\n")) for l in open(p) if l.strip() and not l.startswith("#")]
        return []
    def nontrivial(self, case):
        return True
    def distribution(self, cases):
        return {}
    def signature(self, failure):
        """A short string identifying *what* fails, for known-finding matching."""
        return failure.get("signature") or "disagree"
    def extra_stage(self, ctx):
        """property-specific extra work; may append to ctx['failures']"""
        return
    def build(self):
        impl = build_harness(**self.harness)
        model = build_model(*self.model)
        return impl, model

    def fail_key(self, f):
        """what must stay the same while shrinking"""
        sig = f.get("signature", "")
        return (f["kind"], re.sub(r"op#\d+( \w+)?", "op#", re.sub(r"^\d+ ", "", sig)))

    def eval_one(self, impl, model, case):
        dis, ofail, crashes, _ = correspond(impl, model, [case], timeout=60, max_restarts=1)
        out = []
        for c in crashes:
            out.append({"kind": "crash", "signature": "crash: " + c["what"], "case": case, "detail": c})
        for o in ofail:
            out.append({"kind": "oracle", "signature": o["oracle"], "case": case, "detail": o})
        for d in dis:
            out.append({"kind": "correspondence", "signature": "model/impl disagree", "case": case, "detail": d})
        return out

    # failures whose verdict depends on a clock (watchdogs, time-linearity oracles): a loaded machine can trip
    # them on correct code, so each is re-run alone and kept only if that run fails too ("seen twice")
    timing_signatures = r"(?i)\bhang\b|watchdog|timeout|cpu time|not linear|deadline|not returning"

    def confirm_timing_failures(self, failures, impl, model, ctx, limit=12):
        rx = re.compile(self.timing_signatures) if self.timing_signatures else None
        if rx is None:
            return failures
        hung = {f.get("case") for f in failures if f["kind"] in ("oracle", "crash") and rx.search(f["signature"])}
        verdict, dropped = {}, 0
        keep = []
        for f in failures:
            c = f.get("case")
            # (the abnormal exit of a case whose own watchdog line is in the list is the same event)
            if c in hung and f["kind"] in ("oracle", "crash") and (rx.search(f["signature"]) or (f["kind"] == "crash" and "abnormal exit" in f["signature"])):
                if c not in verdict:
                    if len(verdict) >= limit:
                        verdict[c] = True       # too many to re-run: keep (never drop unconfirmed beyond the limit)
                    else:
                        verdict[c] = bool(self.eval_one(impl, model, c))
                if not verdict[c]:
                    dropped += 1
                    continue
            keep.append(f)
        if dropped:
            ctx.setdefault("extra_coverage", {})["timing_failures_not_reproduced_when_rerun_alone"] = dropped
            log("[%s] %d clock-dependent failure(s) did not reproduce when the case was re-run alone: dropped" % (self.prop, dropped))
        return keep

    def shrink_failures(self, failures, impl, model, limit=6, budget_s=90):
        done = set()
        t_end = time.time() + budget_s
        order = {"oracle": 0, "crash": 1, "correspondence": 2}
        for f in sorted(failures, key=lambda f: order.get(f["kind"], 9)):
            if not f.get("case") or "|" not in f["case"]:
                continue
            key = self.fail_key(f)
            if key in done or len(done) >= limit or time.time() > t_end:
                continue
            done.add(key)
            def still(c):
                if time.time() > t_end:
                    return False
                return any(self.fail_key(g) == key for g in self.eval_one(impl, model, c))
            small = shrink_case(f["case"], still)
            if small != f["case"]:
                f["original_case"] = f["case"]
                f["case"] = small
                res = [g for g in self.eval_one(impl, model, small) if self.fail_key(g) == key]
                if res:
                    f["detail"] = res[0]["detail"]

    # -- main ------------------------------------------------------------------
    def run(self, tier="quick", seed=1, replay=None):
        t0 = time.time()
        prop = self.prop
        stage_t = {}
        import glob
        for old_replay in glob.glob(os.path.join(BUILD, "replay", "%s-%s-*.json" % (prop, seed))):
            os.remove(old_replay)
        tr = translate(); stage_t["translate"] = round(time.time() - t0, 1)
        t1 = time.time()
        pr = prove(self.prop_file); stage_t["prove"] = round(time.time() - t1, 1)
        chk = None
        if tier == "thorough" and pr["ok"] and os.environ.get("VERIF_NO_COQCHK") != "1":
            chk = coqchk(self.prop_file)
        t1 = time.time()
        build_err = None
        try:
            impl, model = self.build()
        except RuntimeError as ex:
            build_err = str(ex)
            impl = model = None
        stage_t["build"] = round(time.time() - t1, 1)
        failures = []      # each: dict(kind, signature, case, detail)
        cases, streams = [], []
        t1 = time.time()
        seeds = [seed] if tier == "quick" else [seed, seed + 1, seed + 2]
        if replay:
            rp = json.load(open(replay))
            gen = [("replay", rp["case"])] if "case" in rp else []
        else:
            gen = list(self.corpus_cases())
            for s in seeds:
                rng = random.Random(s * 1000003 + 17)
                gen += self.gen_cases(rng, tier)
        streams = [g[0] for g in gen]
        cases = [g[1] for g in gen]
        ctx = {"tier": tier, "seed": seed, "impl": impl, "model": model, "failures": failures, "cases": cases,
               "streams": streams, "prove": pr}
        n_out = 0
        if build_err:
            failures.append({"kind": "build", "signature": "build-failed", "case": None, "detail": build_err[-3000:]})
        elif cases:
            dis, ofail, crashes, n_out = correspond(impl, model, cases, timeout=3600 if tier == "thorough" else self.quick_timeout)
            for c in crashes:
                failures.append({"kind": "crash", "signature": "crash: " + c["what"], "case": c["case"], "detail": c})
            for o in ofail:
                failures.append({"kind": "oracle", "signature": o["oracle"], "case": o["case"], "detail": o})
            for d in dis:
                failures.append({"kind": "correspondence", "signature": "model/impl disagree", "case": d["case"], "detail": d})
        if not build_err and failures and impl and model:
            failures[:] = self.confirm_timing_failures(failures, impl, model, ctx)
        if not build_err and failures and impl and model and os.environ.get("VERIF_NO_SHRINK") != "1":
            self.shrink_failures(failures, impl, model)
        if not build_err:
            self.extra_stage(ctx)
        stage_t["correspond"] = round(time.time() - t1, 1)
        if not pr["ok"]:
            ff = pr.get("first_failure") or {}
            what = ff.get("theorem") or (pr["failed_files"][0] if pr["failed_files"] else None) or \
                (pr["forbidden"][0] if pr["forbidden"] else None) or (("axiom " + pr["bad_axioms"][0]) if pr.get("bad_axioms") else "proof stage")
            failures.append({"kind": "proof", "signature": "proof broken: %s" % what, "case": None,
                             "detail": {"first_failure": ff, "failed_files": pr["failed_files"], "forbidden": pr["forbidden"],
                                        "bad_axioms": pr.get("bad_axioms"), "make_tail": pr.get("make_tail", "")[-1500:]}})
        plug = sys.modules.get(type(self).__module__)
        extra = [getattr(plug, "__file__", None) or os.path.join(VERIF, "checks", prop.lower() + ".py")]
        for e in translator_errors_for(tr, pr.get("closure", []), extra):
            failures.append({"kind": "translator", "signature": "translator: the declaration %s is generated from is no longer found in %s" % ("c_" + e["name"], e["file"]),
                             "case": None, "detail": e})
        # ---- classify: known findings vs violations
        findings = load_findings(prop)
        known_hit, violations = {}, []
        for f in failures:
            sig = self.signature(f) if f["kind"] in ("oracle", "crash") else f["signature"]
            f["sig"] = sig
            hit = None
            for e in findings:
                if e.get("kind") == "known" and re.search(e["match"], sig + " @@ " + (f.get("case") or "")):
                    hit = e
                    break
            if hit:
                known_hit.setdefault(hit["id"], (hit, []))[1].append(f)
            else:
                violations.append(f)
        for fid, (e, fs) in known_hit.items():
            print("KNOWN-FINDING: property=%s %s (%s; %d case(s) this run)" % (prop, e["text"], fid, len(fs)))
        # ---- report violations with replay (oracle failures first: they carry a failing input)
        order = {"oracle": 0, "crash": 1, "correspondence": 2, "translator": 3, "proof": 4, "build": 5}
        violations.sort(key=lambda f: (order.get(f["kind"], 9), 0 if f.get("original_case") else 1))
        grouped, seen_keys = [], {}
        for f in violations:
            key = self.fail_key(f)
            if key in seen_keys:
                seen_keys[key]["also"] = seen_keys[key].get("also", 0) + 1
                continue
            seen_keys[key] = f
            grouped.append(f)
        violations = grouped
        has_input = any(f["kind"] in ("oracle", "crash") for f in violations)
        reported = 0
        for k, f in enumerate(violations[:5]):
            payload = {"kind": f["kind"], "signature": f["sig"], "case": f.get("case"), "detail": f.get("detail"),
                       "original_case": f.get("original_case"), "other_cases_with_same_signature": f.get("also", 0),
                       "seed": seed, "tier": tier}
            suffix = ""
            if f["kind"] in ("oracle", "crash"):
                payload["failing_input"] = f.get("case")
            else:
                if not has_input:
                    suffix = " no-failing-input-found"
                payload["unchecked"] = f["sig"]
                if has_input:
                    continue  # the failing input above is the report; do not repeat per symptom
            path = write_replay(prop, seed, k, payload)
            print("VIOLATION property=%s replay=%s%s" % (prop, path, suffix))
            reported += 1
        # ---- evidence
        nontriv = count_distinct(cases, self.nontrivial)
        cov = {
            "obligations": pr["obligations"], "discharged": pr["discharged"],
            "checker_cmd": "cd /verif/coq && coq_makefile -f _CoqProject -o Makefile && make -k -j16 theories/%so (full .vo build; Print Assumptions parsed)%s" % (self.prop_file, "; coqchk -o -silent" if chk else ""),
            "trusted_base": BASE_TRUSTED + ["Print Assumptions: %d theorem(s) 'Closed under the global context', axioms reported: %s" % (pr["print_assumptions"]["closed"], pr["axioms"] or "none")] + list(self.premises),
            "theorems": pr["theorems"],
            "proof_closure_files": pr.get("closure", []),
            "evaluations": len(cases), "distinct_nontrivial": nontriv,
            "rule": getattr(self, "rule", "cases are one-line operation scripts generated from random.Random(VERIF_SEED); distinct = distinct text; non-trivial per the plug-in's rule"),
            "samples": [c[:400] for c in cases[:: max(1, len(cases) // 6)][:6]],
            "distribution": self.distribution(list(zip(streams, cases))),
            "impl_output_lines": n_out,
            "time_budget": dict(LAST_CORRESPOND),
            "translator": tr["constants"],
            "stage_seconds": stage_t,
            "modelled": self.modelled,
            "known_findings_reconfirmed": sorted(known_hit.keys()),
        }
        if chk:
            cov["coqchk"] = chk
        if ctx.get("extra_coverage"):
            cov.update(ctx["extra_coverage"])
        write_evidence(prop, tier, seed, cov, list(self.premises), time.time() - t0, reported)
        log("[%s] tier=%s seed=%s cases=%d nontrivial=%d obligations=%d/%d stages=%s violations=%d known=%s" %
            (prop, tier, seed, len(cases), nontriv, pr["discharged"], pr["obligations"], stage_t, reported, sorted(known_hit)))
        return 1 if reported else 0
