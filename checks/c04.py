"""C04 -- a subscriber's mirror of the node tree converges to the server's tree
(reflector/StorageReflectSession.cpp, DataNode.cpp, regex/PathMatcher.cpp).

Case grammar: see harness/mirror_h.cpp.  One case = one scripted multi-client history; after every op the
server is pumped to quiescence and messages, tree (+ subscriber tables), subscription entries and every
client's mirror are compared with the extracted Coq model; the harness's oracle (mirror == brute force over the
real tree with PathMatcher::MatchesPath) is evaluated at every quiescent point.
"""
import vlib

NAMES = ["a", "b", "ab", "ac", "ba", "c", "abc"]
CLAUSES = ["*", "*", "a*", "*b", "a", "ab", "a,b", "?b", "b*", "a?", "ab,ac", "c", "*c", "a,ab,abc", "b"]
FILTERS = ["", "", "", "g2", "l5", "e3", "x", "g5", "l2", "g-1"]

# ---- the filter family (grammar in harness/mirror_h.cpp): ValueExists (field, type code, index), Int32 comparisons (field, index,
#      operator, operand), And / Or / Xor / Nand trees.  A filter CHANGE draws the new filter one attribute away from the old one
#      (kind, field name, index, type code, operator, operand, combinator, negation, or the same filter re-sent); the payloads
#      0..9 separate every such pair (see FillPayload in the harness).
def f_atom(rng):
    r = rng.random()
    if r < 0.5:
        return ("x", rng.choice("vabc"), rng.choice(["", "", "I", "S"]), rng.choice([0, 0, 0, 1]))
    return ("n", rng.choice("gle"), rng.choice("vvab"), rng.randrange(-1, 9), rng.choice([0, 0, 0, 1]))


def f_random(rng, depth=2):
    if depth > 0 and rng.random() < 0.35:
        c = rng.choice("AOXN")
        return (c, [f_random(rng, depth - 1) for _ in range(1 if c == "N" else rng.choice([2, 2, 3]))])
    return f_atom(rng)


def f_str(f):
    if f[0] == "x":
        _, fld, tc, idx = f
        return "x" + ("" if fld == "v" else fld) + tc + ("i%d" % idx if idx else "")
    if f[0] == "n":
        _, op, fld, k, idx = f
        return op + ("" if fld == "v" else fld) + str(k) + ("i%d" % idx if idx else "")
    return f[0] + "[" + ".".join(f_str(k) for k in f[1]) + "]"


def f_neighbour(rng, f):
    """a filter that differs from f in exactly one attribute (or f itself now and then)"""
    r = rng.random()
    if r < 0.08:
        return f
    if r < 0.16:
        return ("N", [f])                                   # negation
    if f[0] in "AOXN":
        c, kids = f
        if r < 0.40:
            if c == "N":
                return kids[0] if len(kids) == 1 else ("A", kids)
            return (rng.choice([x for x in "AOX" if x != c]), kids)    # combinator
        i = rng.randrange(len(kids))
        return (c, kids[:i] + [f_neighbour(rng, kids[i])] + kids[i + 1:])
    if f[0] == "x":
        _, fld, tc, idx = f
        w = rng.choice(["field", "field", "type", "index", "kind"])
        if w == "field":
            return ("x", rng.choice([x for x in "vabc" if x != fld]), tc, idx)
        if w == "type":
            return ("x", fld, rng.choice([x for x in ["", "I", "S"] if x != tc]), idx)
        if w == "index":
            return ("x", fld, tc, 1 - idx if idx in (0, 1) else 0)
        return ("n", rng.choice("gle"), fld, rng.randrange(0, 8), idx)
    _, op, fld, k, idx = f
    w = rng.choice(["field", "op", "operand", "index", "kind"])
    if w == "field":
        return ("n", op, rng.choice([x for x in "vab" if x != fld]), k, idx)
    if w == "op":
        return ("n", rng.choice([x for x in "gle" if x != op]), fld, k, idx)
    if w == "operand":
        return ("n", op, fld, k + rng.choice([-1, 1, 2]), idx)
    if w == "index":
        return ("n", op, fld, k, 1 - idx if idx in (0, 1) else 0)
    return ("x", fld, "", idx)


def f_parse(s):
    pos = [0]

    def num():
        st = pos[0]
        if pos[0] < len(s) and s[pos[0]] == "-":
            pos[0] += 1
        while pos[0] < len(s) and s[pos[0]].isdigit():
            pos[0] += 1
        return int(s[st:pos[0]])

    def go():
        c = s[pos[0]]
        pos[0] += 1
        if c in "AOXN":
            pos[0] += 1
            kids = []
            while s[pos[0]] != "]":
                kids.append(go())
                if s[pos[0]] == ".":
                    pos[0] += 1
            pos[0] += 1
            return (c, kids)
        fld = "v"
        if pos[0] < len(s) and s[pos[0]] in "abc":
            fld = s[pos[0]]
            pos[0] += 1
        if c == "x":
            tc = ""
            if pos[0] < len(s) and s[pos[0]] in "IS":
                tc = s[pos[0]]
                pos[0] += 1
            idx = 0
            if pos[0] < len(s) and s[pos[0]] == "i":
                pos[0] += 1
                idx = num()
            return ("x", fld, tc, idx)
        k = num()
        idx = 0
        if pos[0] < len(s) and s[pos[0]] == "i":
            pos[0] += 1
            idx = num()
        return ("n", c, fld, k, idx)
    return go()
MAXES = [0, 1, 2, 3, 4, 50, -1, 1, 2]


def relpath(rng, maxd=3):
    return "/".join(rng.choice(NAMES) for _ in range(rng.choice([1, 1, 2, 2, 3][:maxd + 2])))


def relpat(rng):
    return "/".join(rng.choice(CLAUSES) for _ in range(rng.choice([1, 1, 1, 2, 2, 3])))


def subpat(rng, nsess):
    r = rng.random()
    if r < 0.55:
        return relpat(rng)
    if r < 0.62:
        return rng.choice(["/*", "/H", "/*/*", "/H/*", "/*/%d" % rng.randrange(max(1, nsess))])
    host = rng.choice(["*", "H", "*"])
    sess = rng.choice(["*", "*", str(rng.randrange(max(1, nsess)))])
    return "/%s/%s/%s" % (host, sess, relpat(rng))


def with_filter(rng, p, prob=0.35):
    f = ""
    if rng.random() < prob:
        f = rng.choice(FILTERS) if rng.random() < 0.5 else f_str(f_random(rng))
    return p + ("@" + f if f else "")


def change_filter(rng, full):
    """full = "pattern" or "pattern@filter" as last subscribed: the same pattern with a filter one attribute away"""
    pat, _, flt = full.partition("@")
    r = rng.random()
    if not flt:
        return pat + "@" + f_str(f_atom(rng)) if r < 0.8 else pat
    if r < 0.10:
        return pat                                          # filter dropped
    return pat + "@" + f_str(f_neighbour(rng, f_parse(flt)))


def uniq(xs):
    seen, out = set(), []
    for x in xs:
        k = x.split("@")[0]
        if k not in seen:
            seen.add(k)
            out.append(x)
    return out


def grouped_items(items):
    """values of one field name are adjacent in a Message"""
    order, by = [], {}
    for it in items:
        k = it.split("=")[0]
        if k not in by:
            by[k] = []
            order.append(k)
        by[k].append(it)
    return [it for k in order for it in by[k]]


def subcanon(p):
    # the server's entry key for a subscription string (PathMatcher::AdjustStringPrefix with the default prefix)
    return p[1:] if p.startswith("/") else "*/*/" + p


class Gen:
    def __init__(self, rng, multi_subscribers, allow_quiet=False, allow_max=True):
        self.rng = rng
        self.multi = multi_subscribers
        self.allow_quiet = allow_quiet
        self.allow_max = allow_max
        self.n = 0              # sessions attached so far
        self.alive = []
        self.subs = {}          # session -> list of subscribed patterns (as sent)
        self.subf = {}          # session -> {pattern as sent: the full "pattern@filter" it was last subscribed with}
        self.paths = {}         # session -> relative paths it has set (approximation)

    def attach(self):
        k = self.n
        self.n += 1
        self.alive.append(k)
        self.subs[k] = []
        self.subf[k] = {}
        self.paths[k] = []
        return "a"

    def subscriber(self):
        if self.multi:
            return self.rng.choice(self.alive)
        return 0 if 0 in self.alive else None

    def sub_cmd(self, k, sep=":"):
        rng = self.rng
        r = rng.random()
        have = self.subs[k]
        if have and r < 0.30:      # change the filter of (or simply repeat) existing subscriptions
            ps = uniq([(change_filter(rng, self.subf[k][b]) if (b in self.subf[k] and rng.random() < 0.7) else with_filter(rng, b, 0.7))
                       for b in [rng.choice(have) for _ in range(rng.choice([1, 1, 2]))]] +
                      ([with_filter(rng, subpat(rng, self.n))] if rng.random() < 0.4 else []))
            seen_b, ps2 = set(), []
            for p in ps:                                    # one SUBSCRIBE: field per path
                if p.split("@")[0] not in seen_b:
                    seen_b.add(p.split("@")[0])
                    ps2.append(p)
            ps = ps2
        else:
            ps = uniq([with_filter(rng, subpat(rng, self.n)) for _ in range(rng.choice([1, 1, 1, 2, 3]))])
        rng.shuffle(ps)
        for p in ps:
            b = p.split("@")[0]
            if b not in have:
                have.append(b)
            self.subf[k][b] = p
        q = 1 if (self.allow_quiet and rng.random() < 0.15) else 0
        return ("p:%d:%d:%s" % (k, q, "&".join(ps))) if sep == ":" else ("p~%d~%s" % (q, "&".join(ps)))

    def unsub_cmd(self, k, sep=":"):
        rng = self.rng
        have = self.subs[k]
        ps = uniq([rng.choice(have) if (have and rng.random() < 0.85) else subpat(rng, self.n) for _ in range(rng.choice([1, 1, 2]))])
        # REMOVEPARAMETERS works on parameter NAMES (Refl/Params.v): now and then unsubscribe an entry under another spelling
        if have and rng.random() < 0.12:
            q = rng.choice(have)
            ps.append(q[5:] if q.startswith("/*/*/") else "/*/*/" + q)
        for p in ps:
            if p in have:
                have.remove(p)
        return ("u:%d:%s" % (k, "&".join(ps))) if sep == ":" else ("u~%s" % "&".join(ps))

    def set_cmd(self, k, sep=":"):
        rng = self.rng
        known = self.paths[k]
        items = []
        for _ in range(rng.choice([1, 1, 1, 2, 3, 5])):
            p = rng.choice(known) if (known and rng.random() < 0.5) else relpath(rng)
            if p not in known:
                known.append(p)
            items.append("%s=%d" % (p, rng.randrange(0, 10)))
        items = grouped_items(items)
        fl = rng.choice([0, 0, 0, 0, 0, 1, 2, 3]) | (4 if (self.allow_quiet and rng.random() < 0.1) else 0)
        return ("s:%d:%d:%s" % (k, fl, "&".join(items))) if sep == ":" else ("s~%d~%s" % (fl, "&".join(items)))

    def rem_cmd(self, k, sep=":"):
        rng = self.rng
        known = self.paths[k]
        ps = uniq([with_filter(rng, rng.choice(known) if (known and rng.random() < 0.5) else relpat(rng), 0.15)
                   for _ in range(rng.choice([1, 1, 2]))])
        q = 1 if (self.allow_quiet and rng.random() < 0.1) else 0
        return ("r:%d:%d:%s" % (k, q, "&".join(ps))) if sep == ":" else ("r~%d~%s" % (q, "&".join(ps)))

    def simple_cmd(self, k, sep=":"):
        """one non-batch command of session k"""
        rng = self.rng
        r = rng.random()
        is_sub = self.multi or k == 0
        if r < 0.40:
            return self.set_cmd(k, sep)
        if r < 0.52:
            return self.rem_cmd(k, sep)
        if r < 0.74 and is_sub:
            return self.sub_cmd(k, sep)
        if r < 0.82 and is_sub:
            return self.unsub_cmd(k, sep)
        if r < 0.88 and is_sub and self.allow_max:
            return ("m:%d:%d" % (k, rng.choice(MAXES))) if sep == ":" else ("m~%d" % rng.choice(MAXES))
        if r < 0.90 and is_sub and self.allow_max:
            return ("um:%d" % k) if sep == ":" else "um"
        if not is_sub and r < 0.86:
            return self.set_cmd(k, sep) if r < 0.74 else self.rem_cmd(k, sep)
        if r < 0.93:
            # explicit GETDATA: half of the time for subscriptions the sender holds, with their filters (the mirror statement
            # still applies then: cmd_covered), otherwise for anything
            have = [b for b in self.subs[k] if b in self.subf[k]]
            if have and rng.random() < 0.5:
                ps = uniq([self.subf[k][rng.choice(have)] for _ in range(rng.choice([1, 1, 2]))])
            else:
                ps = uniq([with_filter(rng, subpat(rng, self.n)) for _ in range(rng.choice([1, 2]))])
            return ("g:%d:%s" % (k, "&".join(ps))) if sep == ":" else ("g~%s" % "&".join(ps))
        return self.set_cmd(k, sep)

    def op(self):
        rng = self.rng
        r = rng.random()
        if not self.alive or (r < 0.06 and self.n < 6):
            return self.attach()
        if r < 0.10 and len(self.alive) > 1:
            k = rng.choice(self.alive if self.multi else [x for x in self.alive if x != 0] or self.alive)
            self.alive.remove(k)
            return "d:%d" % k
        k = rng.choice(self.alive)
        if r < 0.18:
            subs = [self.simple_cmd(k, "~") for _ in range(rng.choice([1, 2, 2, 3]))]
            return "b:%d:%s" % (k, "+".join(subs))
        return self.simple_cmd(k)

    def case(self, nops, nstart):
        ops = [self.attach() for _ in range(nstart)]
        # make sure there is a subscriber early
        s = self.subscriber()
        if s is not None and self.rng.random() < 0.8:
            ops.append(self.sub_cmd(s))
        ops += [self.op() for _ in range(nops)]
        return ";".join(ops)


DIRECTED = [
    # pooled subscriber tables: {1->2} (session 1, two overlapping subscriptions, shared by the nodes x1 and x2) and {2->1}
    # (session 2 on y) have the same hash sum; the second evicts the first from the pool's cache; then one of the two sharing
    # nodes changes its subscriber set (must not edit the shared table in place)
    "a;a;a;s:0:0:x1=1&x2=2&y=3;p:1:0:x*&x?;p:2:0:y;p:2:0:x1;s:0:0:x2=5;u:2:x1;s:0:0:x1=6&x2=7;d:1;s:0:0:x1=8&x2=9",
    "a;a;a;a;s:0:0:x1=1&x2=2&y1=3&y2=4;p:3:0:y*;p:1:0:x*&x?&x1,x2;p:3:0:x2;s:0:0:x1=5&x2=6;u:1:x?;p:2:0:y?&y1,y2;p:2:0:x1;s:0:0:x1=7&x2=8;d:3;s:0:0:x1=9",
    # findings F12 / F14 / F15 (clean on the repaired tree)
    "a;a;a;s:1:0:jeremy=1&jeremy/jenny=2&jeremy/kate=3;s:2:0:kevin=1&kevin/joe=4&kevin/kim=5;p:0:0:j*/k*&k*/j*",
    "a;a;s:1:0:ab=5;p:0:0:a*;p:0:0:ab@g3;p:0:0:ab@g7",
    "a;a;s:1:0:ab=5;p:0:0:a*@g3;p:0:0:a*@g7&ab",
    "a;a;s:1:0:ab=5;p:0:0:a*@g3;p:0:0:ab&a*@g7",
    # parameter names: "ab" and "/*/*/ab" are one entry but two parameters; REMOVEPARAMETERS of a name that is no parameter is a no-op
    "a;a;s:1:0:ab=1&b=2;p:0:0:/*/*/ab;u:0:ab;s:1:0:ab=3;u:0:/*/*/ab;s:1:0:ab=4",
    "a;a;s:1:0:ab=1;p:0:0:ab&/*/*/ab@g0;u:0:ab;s:1:0:ab=5;u:0:/*/*/ab;p:0:0:ab;u:0:/*/*/ab&ab;s:1:0:ab=6",
    "a;a;s:1:0:ab=1;b:0:p~0~/*/*/ab+u~ab+s~0~x=1;s:1:0:ab=2;b:0:u~/*/*/ab&/*/*/ab+p~0~ab;s:1:0:ab=3;u:0:ab;s:1:0:ab=4",
    # explicit GETDATA of a subscriber for what it is subscribed to (alone, in a BATCH after the SUBSCRIBE:), then updates
    "a;a;s:1:0:ab=6&ac=2;p:0:0:a*;p:1:1:ab;g:0:a*;b:0:p~0~ab@g4+g~ab@g4+s~0~x=1;s:1:0:ab=9;s:1:0:ab=1;g:0:a*&ab@g4;s:1:0:ac=3",
    # quiet SETDATA / REMOVEDATA of a session the subscriber cannot see (it watches session 1 only): its mirror stays exact
    "a;a;a;p:0:0:/*/1/*;s:1:0:ab=6;s:2:4:ab=7&b/c=8;b:2:r~1~b+s~0~x=1;s:1:0:ab=9;s:2:4:ab=1;r:1:0:ab",
    # quiet changes the subscriber CAN see (mirror_converges_announced): the quietly changed paths drop out of the statement,
    # everything else stays exact; a later loud change of the same node is delivered as usual
    "a;a;s:1:0:ab=6;p:0:0:a*;s:1:4:ab=7&ac=2;s:1:0:abc=1;r:1:1:abc;s:1:0:ab=9;b:1:s~4~a=1+r~1~ac;s:1:0:a=2",
    # filter changes one attribute apart: ValueExists on another field name / type code / index, alone and inside And / Or / Xor /
    # Nand trees, with nodes that match exactly one of the two; loud and QUIETLY (the seeded IsDeeplyEqualTo guard skipped the diff)
    "a;a;s:1:0:p=2&q=3&r=6;p:0:0:*@xa;p:0:0:*@xb;s:1:0:p=4&q=9;p:0:0:*@xa;p:0:0:*@xa;s:1:0:p=3",
    "a;a;a;s:2:0:p=2&q=3&r=6;p:0:0:*@xa;p:1:0:*@xa;p:0:0:*@xb;p:1:1:*@xb;s:2:0:p=4&q=9&r=1;p:1:1:*@xc;s:2:0:r=5",
    "a;a;s:1:0:p=0&q=1&r=5&t=6;p:0:0:*@xc;p:0:0:*@xcI;p:0:0:*@xcS;p:0:0:*@xc;s:1:0:p=1&q=6",
    "a;a;s:1:0:p=3&q=6&r=9&t=0;p:0:0:*@xb;p:0:0:*@xbi1;p:0:0:*@xb;s:1:0:p=6&q=3",
    "a;a;s:1:0:p=2&q=3&r=6&t=7;p:0:0:*@A[xa.g1];p:0:0:*@A[xb.g1];p:0:0:*@O[xb.g6];p:0:0:*@O[xa.g6];p:0:0:*@X[xa.xb];p:0:0:*@X[xa.xc];p:0:0:*@N[xa];p:0:0:*@N[xb];s:1:0:p=3&q=2",
    "a;a;a;s:2:0:p=2&q=3&r=6&t=7;p:0:0:*@A[xa.N[xb]];p:1:1:*@A[xa.N[xb]];p:0:0:*@A[xb.N[xb]];p:1:1:*@A[xa.N[xc]];p:0:0:*@A[xb.N[xa]];p:1:1:*@A[xb.N[xa]];s:2:0:p=3&q=4",
    "a;a;s:1:0:p=2&q=4&r=6;p:0:0:*@ga3;p:0:0:*@gb3;p:0:0:*@gb1;p:0:0:*@eb2;p:0:0:*@eb6i1;p:0:0:*@la5;p:0:0:*@l5;s:1:0:p=9&q=0",
    # unsubscribe: the client's own pruning
    "a;a;s:1:0:ab=5&ac=6;p:0:0:a*&ab;u:0:a*;s:1:0:ab=7&ac=8;u:0:ab",
    # set then remove / remove then set across one flush; nested creation; recursive removal
    "a;a;p:0:0:*&*/*&*/*/*;s:1:0:a/b/c=1;s:1:0:a=2&a/b=3;r:1:0:a;s:1:0:a/b/c=4;b:1:s~0~x=1+r~0~x+s~0~x=2",
    # filter enter / leave by payload change
    "a;a;p:0:0:a@g4;s:1:0:a=3;s:1:0:a=5;s:1:0:a=9;s:1:0:a=2;s:1:0:a=7;r:1:0:a;s:1:0:a=1;r:1:0:a",
    # session arrival / departure while subscribed to host and session nodes
    "a;p:0:0:/*&/*/*&/*/*/*;a;s:1:0:a=1;a;s:2:0:a=2;d:1;s:2:0:b=3;d:2;a;d:0",
    # max items 1 / 2 / 0 with a single subscriber
    "a;a;p:0:0:*&*/*;m:0:1;s:1:0:a=1&b=2&a/b=3;m:0:2;s:1:0:a=4&b=5&c=6&a/b=7;r:1:0:*;m:0:0;s:1:0:a=1&b=2;um:0;s:1:0:c=3",
    # flags DONTCREATE / DONTOVERWRITE
    "a;a;p:0:0:*&*/*;s:1:1:a=1;s:1:0:a=1;s:1:2:a=2;s:1:1:a=3;s:1:1:a/b=4;s:1:3:a=5",
    # the same clause list reached by the hash-lookup path and by iteration
    "a;a;a;s:1:0:a=1&b=2&ab=3&a/a=4&b/a=5;s:2:0:a=6&c=7;p:0:0:a,b&a,b/a&/H/1,2/a&/H/2/*;s:1:0:a=8;s:2:0:a=9;r:1:0:a,b;d:2",
    # overlapping subscriptions and their removal one by one
    "a;a;s:1:0:ab=1&ac=2&b=3;p:0:0:a*&*b&ab&?c@g1;u:0:a*;s:1:0:ab=4&ac=0;u:0:*b;u:0:ab;u:0:?c",
    # subscriptions to own nodes are ignored by the statement
    "a;a;p:0:0:*;s:0:0:a=1;s:1:0:a=2;r:0:0:a;d:1",
    # overlapping subscriptions made BEFORE the node exists, partial unsubscribe, then change / removal / departure (counts, not flags)
    "a;a;p:0:0:a*&ab&?b;s:1:0:ab=1;u:0:ab;s:1:0:ab=2;u:0:?b;s:1:0:ab=3;r:1:0:ab;s:1:0:ab=4;u:0:a*;s:1:0:ab=5;d:1",
    "a;a;a;p:0:0:x*&xy;p:2:0:x*&xy&*y;s:1:0:xy=1&xz=2;u:0:xy;u:2:x*;s:1:0:xy=3;u:2:*y;d:1",
    # batch of subscribe / unsubscribe / resubscribe
    "a;a;s:1:0:a=1&b=2;b:0:p~0~a+u~a+p~0~a@g0&b+u~b+p~0~*",
]


# the "malformed path" stream: paths and patterns with empty clauses (a trailing '/', a doubled '/'), which the server accepts
ZSET = ["x/", "a/", "a//b", "a/b/", "x", "a", "a/b", "x//", "b/"]
ZPAT = ["x/", "a/", "*/", "a*/", "a//b", "*//b", "/*/*/x/", "x", "a*", "a/*/", "*/*", "/H/*/a/", "x//"]


def zcanon(p):
    # the server's entry key for a subscription string (AdjustStringPrefix)
    return p[1:] if p.startswith("/") else "*/*/" + p


def malformed_case(rng):
    # one entry key = one spelling per session (two SUBSCRIBE: parameter names for one entry is a client error the model
    # does not represent), as in the other streams
    ops = ["a", "a"] + (["a"] if rng.random() < 0.4 else [])
    n = len(ops)
    subs = {k: [] for k in range(n)}

    def usable(k, p):
        return True     # two spellings of one entry are fine: the model keeps the parameter names (Refl/Params.v)

    for _ in range(rng.choice([5, 8, 12, 16])):
        k = rng.randrange(n)
        r = rng.random()
        if r < 0.30:
            items = grouped_items(["%s=%d" % (rng.choice(ZSET), rng.randrange(0, 10)) for _ in range(rng.choice([1, 1, 2, 3]))])
            ops.append("s:%d:0:%s" % (k, "&".join(items)))
        elif r < 0.40:
            ops.append("r:%d:0:%s" % (k, rng.choice(ZPAT + ZSET)))
        elif r < 0.72:
            ps = []
            for _ in range(rng.choice([1, 1, 2])):
                b = rng.choice(subs[k]) if (subs[k] and rng.random() < 0.5) else rng.choice(ZPAT)
                if usable(k, b) and all(x.split("@")[0] != b for x in ps):
                    ps.append(with_filter(rng, b, 0.2))
                    if b not in subs[k]:
                        subs[k].append(b)
            if ps:
                ops.append("p:%d:0:%s" % (k, "&".join(ps)))
        elif r < 0.90:
            p = rng.choice(subs[k]) if (subs[k] and rng.random() < 0.8) else rng.choice(ZPAT)
            if usable(k, p):
                if p in subs[k]:
                    subs[k].remove(p)
                ops.append("u:%d:%s" % (k, p))
        else:
            ops.append("g:%d:%s" % (k, rng.choice(ZPAT)))
    return ";".join(ops)


# the "pool" stream: node sets shared by several nodes' subscriber tables whose (session id, count) pairs collide in the
# ImmutableHashtablePool hash sum ({a->b} and {b->a}: the pair hash is a product), then single-node subscription changes
PXS = ["x*", "x?", "x1,x2"]          # each matches exactly x1 and x2
PYS = ["y*", "y?", "y1,y2"]          # each matches exactly y1 and y2
PONE = ["x1", "x2", "y1", "y2", "z"]


def pool_case(rng):
    ns = rng.choice([3, 4, 4])
    ops = ["a"] * ns
    ops.append("s:0:0:" + "&".join(grouped_items(["%s=%d" % (nm, rng.randrange(0, 10)) for nm in rng.sample(PONE, len(PONE))])))
    a, b = rng.sample(range(1, ns), 2)                      # session a gets count b on {x1,x2}; session b gets count a on the y side
    subs = {k: [] for k in range(ns)}
    first = [(a, PXS[:min(b, 3)]), (b, (PYS[:min(a, 3)] if rng.random() < 0.6 else ["z"] if a == 1 else PYS[:min(a, 3)]))]
    if rng.random() < 0.3:
        first.reverse()
    for k, ps in first:
        if rng.random() < 0.5:
            ops.append("p:%d:0:%s" % (k, "&".join(ps)))
        else:
            ops.extend("p:%d:0:%s" % (k, p) for p in ps)
        subs[k].extend(ps)
    for _ in range(rng.choice([4, 6, 9, 12])):
        k = rng.randrange(ns)
        r = rng.random()
        if r < 0.35:
            cand = [p for p in PONE + PXS + PYS if p not in subs[k]]
            p = rng.choice(PONE) if rng.random() < 0.7 else rng.choice(cand or PONE)
            if p not in subs[k]:
                subs[k].append(p)
            ops.append("p:%d:0:%s" % (k, with_filter(rng, p, 0.1)))
        elif r < 0.55 and subs[k]:
            p = rng.choice(subs[k])
            subs[k].remove(p)
            ops.append("u:%d:%s" % (k, p))
        elif r < 0.85:
            items = grouped_items(["%s=%d" % (rng.choice(PONE), rng.randrange(0, 10)) for _ in range(rng.choice([1, 2, 2, 3]))])
            ops.append("s:%d:0:%s" % (rng.choice([0, 0, k]), "&".join(items)))
        elif r < 0.93:
            ops.append("r:0:0:%s" % rng.choice(PONE))
        elif k != 0 and r < 0.97:
            ops.append("d:%d" % k)
            subs[k] = []
    ops.append("s:0:0:" + "&".join("%s=%d" % (nm, 10 + i) for i, nm in enumerate(PONE)))
    return ";".join(ops)


# the "filterchange" stream: one or two subscribers keep re-subscribing the SAME paths with filters one attribute away from the
# previous ones (now and then quietly), while a publisher's nodes carry payloads that tell the two filters apart
def filter_case(rng):
    nsub = rng.choice([1, 1, 2])
    pub = nsub
    ops = ["a"] * (nsub + 1)
    names = ["p", "q", "r", "t", "u"]
    ops.append("s:%d:0:%s" % (pub, "&".join("%s=%d" % (nm, rng.randrange(0, 10)) for nm in names)))
    cur = {}
    for k in range(nsub):
        pats = rng.sample(["*", "p", "?", "q,r", "/H/*/*"], rng.choice([1, 1, 2]))
        fulls = []
        for pt in pats:
            full = pt + "@" + f_str(f_random(rng, 1))
            cur[(k, pt)] = full
            fulls.append(full)
        ops.append("p:%d:0:%s" % (k, "&".join(fulls)))
    for _ in range(rng.choice([6, 9, 12])):
        r = rng.random()
        if r < 0.6:
            k, pt = rng.choice(sorted(cur.keys()))
            full = change_filter(rng, cur[(k, pt)])
            cur[(k, pt)] = full
            ops.append("p:%d:%d:%s" % (k, 1 if rng.random() < 0.2 else 0, full))
        elif r < 0.9:
            items = grouped_items(["%s=%d" % (rng.choice(names), rng.randrange(0, 10)) for _ in range(rng.choice([1, 2, 3]))])
            ops.append("s:%d:0:%s" % (pub, "&".join(items)))
        else:
            ops.append("r:%d:0:%s" % (pub, rng.choice(names)))
    ops.append("s:%d:0:%s" % (pub, "&".join("%s=%d" % (nm, rng.randrange(0, 10)) for nm in names)))
    return ("s|" if nsub == 1 else "x|") + ";".join(ops)


class CHECK(vlib.Check):
    prop = "C04"
    prop_file = "Properties_C04.v"
    model = ("Refl/MirrorExtract.v", "mirror_driver.ml", "mirror", ("ocommon.ml",))
    harness = dict(name="mirror", src="mirror_h.cpp", san="asan", link_lib=True)
    quick_timeout = 1500
    modelled = ("reflector/StorageReflectSession.cpp: AttachedToServer, Cleanup, NotifySubscribersThatNodeChanged, NotifySubscribersOfNewNode/"
                "NodeCreated, NodeChanged (filter enter/leave), NodeChangedAux (set-then-remove flush, max-items flush), SetDataNode "
                "(DONTCREATE/DONTOVERWRITE/QUIET), SETPARAMETERS (SUBSCRIBE: with/without filter, quiet, max update items), "
                "REMOVEPARAMETERS/RemoveParameter, SETDATA, GETDATA/DoGetData/GetDataCallback, REMOVEDATA/DoRemoveData, BATCH, "
                "PushSubscriptionMessages, ChangeQueryFilterCallback, DoSubscribeRefCallback, GetDataNodeSubscribersTableFromPool (content level); "
                "NodePathMatcher::DoTraversalAux/DoDirectChildLookup/CheckChildForTraversal/MatchesNode/GetMatchCount/PathMatches; "
                "regex/PathMatcher.cpp PutPathString/RemovePathString/SetFilterForEntry/MatchesPath; reflector/DataNode.cpp PutChild/SetParent/"
                "SetData/RemoveChild.  Not modelled: ordered indices, ADDTOINDEX/ENABLESUPERCEDE, reflect-to-self, disabled subscriptions, "
                "the iteration order inside the pooled subscriber tables (ImmutableHashtablePool cache), sockets and the event loop.")
    premises = ["client-mirror rule (Refl/Mirror.v): the client applies every PR_RESULT_DATAITEMS in order (removals first, then sets); the "
                "server sends no removals on unsubscribe, so on its own unsubscribe the client drops what its remaining subscriptions "
                "no longer cover",
                "mirror_converges_partial / mirror_converges_wire hold for histories in which every change of the tree is announced (no "
                "quiet SETDATA/REMOVEDATA, except by the observer itself or by a session below whose session node none of the observer's "
                "subscription paths reaches: quiet_frame; other sessions may subscribe quietly, the observer not) and an observer whose explicit GETDATA "
                "keys are subscriptions it holds at that moment (same path and filter), which sends no SUBSCRIBE:/GETDATA between two "
                "unsubscribes of one BATCH (unsubscribes at the head and in the tail of a BATCH are fine), and whose SUBSCRIBE: fields "
                "per Message have distinct non-empty paths",
                "mirror_converges_announced: a command of another session made of quiet SETDATA/REMOVEDATA only may change nodes the "
                "observer watches; the paths it changed are left out of the statement from then on (the harness collects them by "
                "comparing the real tree before and after, the driver the model's tree); a command mixing quiet and announced changes "
                "seen by the observer is not covered (those clients are taken out of the oracle)",
                "parameter names (Refl/Params.v): REMOVEPARAMETERS of a SUBSCRIBE: name the session does not hold as a parameter does nothing "
                "('SUBSCRIBE:x' does not remove what 'SUBSCRIBE:/*/*/x' created); modelled as a layer that lowers the commands on the wire",
                "MatchLaws (Refl/BaseProofs.v): clause text equality is decidable; '*' matches every name; a clause reported unique / "
                "list-of-unique-values (ckeys) matches exactly the listed names (C15's unique_spec; F8 lies outside)",
                "well-formed histories: a session arrives under a fresh (host, session-name) pair (ids come from a counter); fewer than "
                "2^31-1 SUBSCRIBE: items (uint32 counts / int32 deltas); BATCH nesting below the server's limit of 100",
                "\"own nodes\" = the code's own test (name of the depth-2 ancestor = session id string); equals the session's subtree "
                "when session names are unique and no host is named like a session",
                "memory safety and object lifetime of the C++ (observed by ASan/UBSan in the harness only)"]
    rule = ("multi-client histories generated from random.Random(seed) (streams: single subscriber with max-items changes; several "
            "subscribers; directed boundary scripts); after EVERY op: per-client PR_RESULT_DATAITEMS streams, the true tree with every "
            "node's subscriber table, every session's subscription entries and max-items, and every client's mirror are compared with "
            "the extracted model (streams with several subscribers -- multi, multimax, pool: the per-op NET EFFECT of each client's "
            "Messages plus the sorted BAG of everything sent instead of the Messages, because the split points depend on the iteration "
            "order of the pooled subscriber tables, which is not modelled (set-then-remove and max-items flushes are server-wide); "
            "stream filterchange: re-subscriptions of the same path with a filter ONE attribute away from the previous one -- kind, "
            "field name, value index, type code, operator, operand, combinator, negation, same filter re-sent; ValueExists / Int32 / And / "
            "Or / Xor / Nand; payloads are structured Messages (fields v a b c) that tell every such pair apart; "
            "stream malformed: "
            "paths and subscription strings with empty clauses such as a trailing '/', everything compared except the mirror statement); "
            "the harness's own oracles are evaluated after every op: mirror == foreign nodes accepted by PathMatcher::MatchesPath over the "
            "real tree, and refcount == every node's subscriber table holds for every attached session exactly "
            "NodePathMatcher::GetMatchCount of its entries and nothing for departed sessions.  Non-trivial = the history contains a subscription and a later data change, "
            "removal or departure by another session.")

    def gen_cases(self, rng, tier):
        n = 500 if tier == "quick" else 6000
        out = []
        for c in DIRECTED:
            out.append(("directed", "d|" + c))
        for i in range(n):
            multi = (i % 2 == 1)
            g = Gen(rng, multi_subscribers=multi, allow_quiet=False, allow_max=not multi)
            out.append(("multi" if multi else "single", ("x|" if multi else "s|") + g.case(rng.choice([6, 10, 16, 24]), rng.choice([2, 2, 3, 4]))))
        for i in range(n // 10):
            g = Gen(rng, multi_subscribers=False, allow_quiet=True)
            out.append(("quiet", "q|" + g.case(rng.choice([6, 10, 16]), rng.choice([2, 3]))))
        # quiet flags with several subscribers: the mirror oracle stays on for the clients that cannot see the quiet sender
        for i in range(n // 10):
            g = Gen(rng, multi_subscribers=True, allow_quiet=True, allow_max=False)
            out.append(("quietmulti", "x|" + g.case(rng.choice([8, 12, 16]), rng.choice([3, 4]))))
        # several subscribers AND max-items changes: the split points of one client's updates then depend on the iteration
        # order of the pooled subscriber tables (not modelled), so these cases compare the net effect of each op's Messages
        # per client (label x) next to tree, subscriber tables, entries and mirrors; the oracle applies unchanged
        for i in range(n // 4):
            g = Gen(rng, multi_subscribers=True, allow_quiet=False, allow_max=True)
            out.append(("multimax", "x|" + g.case(rng.choice([8, 12, 20]), rng.choice([2, 3, 4]))))
        # colliding hash sums in the pool of subscriber tables (session ids are 0,1,2,.. in every case: the harness forks per case)
        for i in range(n // 5):
            out.append(("pool", "x|" + pool_case(rng)))
        # filter changes one attribute apart (ValueExists field / type / index, comparisons, And / Or / Xor / Nand trees)
        for i in range(n // 5):
            out.append(("filterchange", filter_case(rng)))
        # malformed-but-accepted paths (empty clauses): model/impl correspondence plus the refcount oracle
        out.append(("malformed", "z|a;a;s:1:0:x/=1;p:0:0:x/;p:0:0:x/;u:0:x/;s:1:0:x/=2;d:0"))
        for i in range(n // 5):
            out.append(("malformed", "z|" + malformed_case(rng)))
        return out

    def nontrivial(self, case):
        body = case.split("|", 1)[1]
        ops = body.split(";")
        seen_sub = None
        for o in ops:
            f = o.split(":")
            if f[0] == "p" or (f[0] == "b" and "p~" in o):
                if seen_sub is None:
                    seen_sub = f[1]
            elif seen_sub is not None and f[0] in ("s", "r", "d", "b") and len(f) > 1 and f[1] != seen_sub:
                return True
        return False

    def distribution(self, sc):
        d = {}
        for s, c in sc:
            d["stream:" + s] = d.get("stream:" + s, 0) + 1
            for o in c.split("|", 1)[1].split(";"):
                k = "op:" + o.split(":")[0]
                d[k] = d.get(k, 0) + 1
                if "@" in o:
                    d["with-filter"] = d.get("with-filter", 0) + 1
        return d
