"""C18 -- the reader/writer mutex excludes correctly and never strands a compliant thread
(system/ReaderWriterMutex.cpp/.h on top of Mutex.h / WaitCondition.h, run under the controlled scheduler)."""
import os, subprocess
import vlib

LOCKS_R = ["lr", "lr", "lr", "lrt", "lrd"]
LOCKS_W = ["lw", "lw", "lw", "lwt", "lwd"]


def balanced_prog(rng, depth_budget):
    """a mostly well-nested program of one thread: locks are released in reverse order; try/timed locks whose
    result is unknown are followed by their unlock anyway (the unlock then fails with B_LOCK_FAILED when the lock failed)."""
    ops = []
    def block(budget, holding_r, holding_w):
        k = rng.choice([1, 1, 2])
        for _ in range(k):
            if budget <= 0:
                return
            r = rng.random()
            if r < 0.45:
                ops.append(rng.choice(LOCKS_R)); block(budget - 1 if rng.random() < 0.6 else 0, holding_r + 1, holding_w); ops.append("ur")
            elif r < 0.9:
                ops.append(rng.choice(LOCKS_W)); block(budget - 1 if rng.random() < 0.6 else 0, holding_r, holding_w + 1); ops.append("uw")
            else:
                ops.append(rng.choice(["ur", "uw"]))        # an unlock that may be unmatched
    block(depth_budget, 0, 0)
    return ops


def wild_prog(rng, n):
    return [rng.choice(["lr", "lw", "ur", "uw", "lrt", "lwt", "lrd", "lwd", "lr", "lw", "ur", "uw"]) for _ in range(n)]


def interleave(rng, progs):
    """the case body lists thread-tagged operations; only the per-thread order matters, but a shuffled body lets the
    generic shrinker drop operations of different threads independently"""
    idx = [0] * len(progs)
    out = []
    live = [t for t in range(len(progs)) if progs[t]]
    while live:
        t = rng.choice(live)
        out.append("%d:%s" % (t, progs[t][idx[t]]))
        idx[t] += 1
        if idx[t] >= len(progs[t]):
            live.remove(t)
    return ";".join(out)


DIRECTED = [
    # (threads, body)    -- each is run under both preference settings with several seeds and (thorough) exhaustively
    (2, "0:lr;0:lw;0:uw;0:ur;1:lr;1:lw;1:uw;1:ur"),             # two upgraders
    (3, "0:lr;0:ur;1:lw;1:uw;2:lr;2:ur"),                       # reader arrives behind a waiting writer
    (3, "0:lw;0:uw;1:lw;1:uw;2:lw;2:uw"),                       # writer FIFO
    (3, "0:lw;0:uw;1:lrd;1:ur;2:lwd;2:uw"),                     # timeouts racing with the hand-off
    (3, "0:lw;0:uw;0:lw;0:uw;1:lr;1:ur;2:lw;2:uw"),             # a recycled wait-condition carries a stale notification
    (3, "0:lr;0:lwt;0:uw;0:ur;1:lr;1:ur;2:lw;2:uw"),            # try-upgrade while another reader and a writer are around
    (3, "0:lr;0:lwd;0:uw;0:ur;1:lr;1:ur;2:lw;2:uw"),            # timed upgrade
    (2, "0:lw;0:lr;0:uw;0:ur;1:lr;1:ur"),                       # writer keeps a read lock after releasing the write lock
    (3, "0:lr;0:lr;0:lw;0:uw;0:ur;0:ur;1:lr;1:lw;1:uw;1:ur;2:lwd;2:uw"),
    (4, "0:lr;0:ur;1:lr;1:ur;2:lw;2:uw;3:lw;3:uw"),
    (4, "0:lw;0:uw;1:lrd;1:ur;2:lrd;2:ur;3:lwd;3:uw"),
    (2, "0:ur;0:uw;0:lr;0:uw;0:ur;1:lw;1:ur;1:uw"),             # unmatched unlocks
    (3, "0:lw;0:lw;0:uw;0:uw;1:lrt;1:ur;2:lwt;2:uw"),           # recursion + try
    (3, "0:lr;1:lw;2:lr"),                                      # never released: legitimate stranding
    (3, "0:lw;0:uw;1:lwd;1:uw;2:lw;2:uw"),                      # a timed writer gives up exactly when the lock is handed to it; a writer queued behind
    (3, "0:lw;0:uw;1:lrd;1:ur;2:lw;2:uw"),                      # same with a timed reader in front of a writer
]

EXPLORE_QUICK = [
    (2, "0:lr;0:lw;0:uw;0:ur;1:lr;1:lw;1:uw;1:ur", 1),
    (3, "0:lr;0:ur;1:lw;1:uw;2:lr;2:ur", 1),
    (3, "0:lw;0:uw;1:lrd;1:ur;2:lwd;2:uw", 1),
    (2, "0:lw;0:uw;1:lwd;1:uw", 2),
    # time-out / hand-off races with somebody queued behind: every schedule with <= 2 preemptions (about 400 each)
    (3, "0:lw;0:uw;1:lwd;1:uw;2:lw;2:uw", 2),
    (3, "0:lw;0:uw;1:lrd;1:ur;2:lw;2:uw", 2),
]


class CHECK(vlib.Check):
    prop = "C18"
    prop_file = "Properties_C18.v"
    model = ("Conc/RwMutexExtract.v", "rwmutex_driver.ml", "rwmutex", ("ocommon.ml",))
    harness = dict(name="rwmutex", src="rwmutex_h.cpp", san="asan", link_lib=True,
                   extra_srcs=[os.path.join(vlib.VERIF, "harness", "sched", "sched.cpp")])
    modelled = ("system/ReaderWriterMutex.h/.cpp as an interleaving LTS with one transition per _stateMutex critical section / "
                "return of WaitCondition::Wait(): _executingThreads (per-thread read/write recursion counts, insertion order), "
                "_totalReadWriteRecurseCount, _waitingReaderThreads/_waitingWriterThreads (FIFO, each entry with the pending-notification "
                "counter of its WaitCondition), the recycling of WaitConditions through _waitConditionPool (stale notifications), "
                "IsOkayForReader/WriterThread(s)ToExecuteNow, LockReadOnlyAux, LockReadWriteAux incl. the upgrade path "
                "(drop read locks, inner LockReadWriteAux, re-take read locks), try/timed variants with the timeout firing at any "
                "decision, Unlock*Aux, (Maybe)NotifySomeWaitingThreads, NotifyNextWriterThread, NotifyAllReaderThreads, both "
                "_preferWriters settings.  Not modelled: out-of-memory paths, the deadlock-finder and locking-violation "
                "instrumentation, uint32 wrap of the recursion counts, Mutex/WaitCondition internals (premises).")
    premises = ["std::recursive_mutex / std::condition_variable: under the controlled scheduler blocking is simulated by the scheduler (mutex owners; a WaitCondition waiter is resumed iff the real _pendingNotificationsCount is positive, the real FlushNotificationsCount/IncreaseNotificationsCount code runs); the native primitives themselves are premises (DESIGN.md 5.3)",
                "one transition = one _stateMutex critical section or one return of Wait(): the release of a recycled WaitCondition (end of the call, outside _stateMutex) is taken to be atomic with the critical section that precedes it",
                "recursion counts stay below 2^32; allocation never fails (the out-of-memory returns are not modelled; the other error returns of the upgrade path are proved dead, C18_rw_upgrade_inner_calls_succeed)",
                "liveness is proved in safety / possibility form only (hand-off invariant, an enabled transition exists, the favoured waiter is admitted within two of its own transitions); fairness of the OS scheduler is not modelled",
                "known finding F22: a timed LockReadWrite() on the upgrade path can overrun its deadline (C18_timed_upgrade_refuted)"]
    rule = ("each case = 2..4 thread programs over LockReadOnly/LockReadWrite (untimed, try, timed), UnlockReadOnly/UnlockReadWrite "
            "+ a writer-preference setting + a schedule (explicit decisions, then a seeded random or non-preemptive policy); the real "
            "ReaderWriterMutex is run under the controlled scheduler and, per decision, the enabled set, notifications, the full "
            "protected state after every critical section (tables, counts, wait-condition counters), parking/wake-up/timeout and "
            "API results are compared with the extracted LTS, which re-derives the same decisions from its own enabledness.  "
            "Non-trivial = at least two threads operate and at least one write acquisition is attempted.")
    quick_timeout = 900

    def build(self):
        impl, model = super().build()
        self._impl = impl
        return impl, model

    def explore(self, pref, n, body, bound, max_runs):
        line = "p=%d,n=%d,seed=-,sch=|%s\n" % (pref, n, body)
        env = dict(os.environ); env.update(vlib.SAN_ENV)
        p = subprocess.run([self._impl, "--explore", str(bound), str(max_runs)], input=line, stdout=subprocess.PIPE,
                           stderr=subprocess.PIPE, text=True, env=env, timeout=1800)
        return [l for l in p.stdout.splitlines() if "|" in l]

    def gen_cases(self, rng, tier):
        out = []
        n_rand = 600 if tier == "quick" else 4000
        for i in range(n_rand):
            n = rng.choice([2, 2, 3, 3, 3, 4])
            if i % 5 == 4:
                progs = [wild_prog(rng, rng.choice([1, 2, 3, 4, 6])) for _ in range(n)]
                stream = "wild"
            else:
                progs = [balanced_prog(rng, rng.choice([1, 2, 2, 3])) for _ in range(n)]
                stream = "random"
            seed = "-" if i % 10 == 0 else str(rng.randint(1, 10 ** 9))
            out.append((stream, "p=%d,n=%d,seed=%s,sch=|%s" % (rng.randint(0, 1), n, seed, interleave(rng, progs))))
        # pool race: decisions also at the WaitCondition pool's mutex (oracles only; the model covers it with the LEnv label)
        for i in range(150 if tier == "quick" else 1500):
            n = rng.choice([2, 3, 3, 4])
            progs = [balanced_prog(rng, rng.choice([1, 2, 2, 3])) for _ in range(n)]
            out.append(("poolrace", "p=%d,n=%d,pm=1,seed=%d,sch=|%s" % (rng.randint(0, 1), n, rng.randint(1, 10 ** 9), interleave(rng, progs))))
        reps = 6 if tier == "quick" else 30
        for (n, body) in DIRECTED:
            for pref in (0, 1):
                out.append(("directed", "p=%d,n=%d,seed=-,sch=|%s" % (pref, n, body)))
                for _ in range(reps):
                    out.append(("directed", "p=%d,n=%d,seed=%d,sch=|%s" % (pref, n, rng.randint(1, 10 ** 9), body)))
        # exhaustive schedules up to a preemption bound (support for the tie, not the theorem)
        if getattr(self, "_impl", None):
            if tier == "quick":
                todo = [(n, b, k, 600) for (n, b, k) in EXPLORE_QUICK]
            else:
                todo = [(n, b, 2, 1500) for (n, b) in DIRECTED[:8] + DIRECTED[-2:]] + [(n, b, 3, 2500) for (n, b, _) in EXPLORE_QUICK[-2:]]
            if not getattr(self, "_explored", None) or self._explored[0] != tier:
                cache = []
                for (n, body, bound, cap) in todo:
                    for pref in (0, 1):
                        cache += self.explore(pref, n, body, bound, cap)
                self._explored = (tier, cache)
            if not getattr(self, "_explore_emitted", False):
                out += [("exhaustive", l) for l in self._explored[1]]
                self._explore_emitted = True
        return out

    def nontrivial(self, case):
        body = case.split("|", 1)[1]
        ts = {o.split(":")[0] for o in body.split(";") if o}
        return len(ts) >= 2 and ":lw" in body

    def signature(self, f):
        return f.get("signature") or "disagree"

    def distribution(self, sc):
        d = {}
        for s, c in sc:
            d["stream:" + s] = d.get("stream:" + s, 0) + 1
            head, body = c.split("|", 1)
            for h in head.split(","):
                if h.startswith("p=") or h.startswith("n="):
                    d[h] = d.get(h, 0) + 1
                if h.startswith("seed="):
                    k = "policy:" + ("nonpreemptive" if h == "seed=-" else "random")
                    d[k] = d.get(k, 0) + 1
                if h.startswith("sch=") and len(h) > 4:
                    d["explicit-schedule"] = d.get("explicit-schedule", 0) + 1
            for o in body.split(";"):
                if o:
                    k = "op:" + o.split(":")[1]
                    d[k] = d.get(k, 0) + 1
        return d
