"""C13 -- an ordered child index replayed from its update log equals the server's index
(reflector/DataNode.cpp, reflector/StorageReflectSession.cpp).

Case grammar (one line):   <N>[n]|<step>;<step>;...
  N sessions are attached before the first step; `n` = several commands of a step travel as right-nested
  PR_COMMAND_BATCH Messages instead of one flat batch.
  step  := <sid> '>' cmd ('&' cmd)*          one Message of client <sid> (more than one cmd = PR_COMMAND_BATCH),
                                              or, for x.. commands, calls of the protected node API followed by
                                              PushSubscriptionMessages()
  cmd   := sd:<relpath>,..:<flags>           PR_COMMAND_SETDATA, one field per path (distinct); a path ending in '/' has an empty
                                              last clause = generated name; flags bit 0 = ADDTOINDEX, bit 1 = QUIET
         | io:<relpattern>,..:<b>,<b>,...    PR_COMMAND_INSERTORDEREDDATA, parent patterns (PR_NAME_KEYS) of equal depth, one child per <b>
         | ro:<relpattern>,..:<b>,..         PR_COMMAND_REORDERDATA, one field per (distinct) pattern, paired with the <b> list
         | rm:<relpattern>,..                PR_COMMAND_REMOVEDATA, keys (distinct) of equal depth
         | su:<abspattern> | sq:<abspattern> subscribe; sq = quiet subscription + GETDATA of the same pattern
         | un:<abspattern> | gd:<abspattern> unsubscribe; PR_COMMAND_GETDATA
         | ua                                unsubscribe from everything (REMOVEPARAMETERS "SUBSCRIBE:*"; alone in its step)
         | rs:<0|1> | mx:<n>                 reflect-to-self parameter; max update-message items
         | xsd:<relpath>:<0|1>:<b>           SetDataNode()        | xcl:<owner>/<relpath>:<reldst>:<0|1>:<b>  CloneDataNodeSubtree()
         | xmv:<relpattern>:<b>              MoveIndexEntries()   | xrm:<relpattern>                           RemoveDataNodes()
         | xsr:<owner>/<relpath>:<reldst>:<0|1>   SaveNodeTreeToMessage() of that node + RestoreNodeTreeFromMessage() at <reldst>
         | xra:<relpath>:<pos>               DataNode::RemoveIndexEntryAt() on an own node
         | xia:<relpath>:<pos>:<key>         DataNode::InsertIndexEntryAt() on an own node, when its documented preconditions hold
         | rq:<relpattern>                   PR_COMMAND_REMOVEDATA with PR_NAME_REMOVE_QUIETLY (alone in its step).  Not a command of the
                                              Coq run: the driver applies the model's remove_child_quiet; the replay oracle leaves the
                                              replicas of the victims' parents and subtrees alone afterwards (quiet_frame)
         | dt                                the client closes its connection (alone in its step)
         | at                                a new session is attached (alone in its step; the <sid> is ignored)
  <b>   := '-' (empty string: end of index) | '!' (PR_NAME_REMOVE_FROM_INDEX) | a node name
  abspattern := <sid|*>/<clause>/...  (sent as /*/<session id|*>/...);  clauses are names or '*'.
Generator discipline (the oracle's client needs it, see index_h.cpp): `un` travels alone; inside one step no su/sq
follows a gd; equal <b> of one io are adjacent; xcl source and destination are disjoint subtrees.
"""
import re
import vlib

KIDS = ["x", "y", "I0", "I1", "I2", "I3", "z"]
PARENTS = ["a", "b", "a/x", "a/I0"]
BEFORE = ["-", "-", "x", "y", "I0", "I1", "I2", "!", "z", "q"]
SUBPATS = ["*/a", "*/a", "*/*", "0/a", "1/a", "*/b", "*/a/*", "*/a/x", "*", "*/*/*", "0/*", "2/a", "*/c", "*/a/I0"]


def grouped(bs):
    """keep equal names adjacent (a Message groups values under one field name)"""
    out = []
    for b in bs:
        if b in out:
            i = len(out) - 1 - out[::-1].index(b)
            out.insert(i + 1, b)
        else:
            out.append(b)
    return out


def distinct(xs):
    out = []
    for x in xs:
        if x not in out:
            out.append(x)
    return out


def gen_msg_cmd(rng, n, allow_sub=True):
    r = rng.random()
    par = rng.choice(PARENTS)
    if r < 0.10:
        q = rng.choice([0, 0, 0, 2])     # QUIET changes nothing for indices
        if rng.random() < 0.2:
            ps = distinct([rng.choice([par, par + "/" + rng.choice(KIDS), "a/" + rng.choice(KIDS), "b"]) for _ in range(rng.choice([2, 3]))])
            return "sd:%s:%d" % (",".join(ps), q)
        return "sd:%s:%d" % (rng.choice([par, par + "/" + rng.choice(KIDS), "a/" + rng.choice(KIDS)]), q)
    if r < 0.20:
        q = rng.choice([1, 1, 1, 3])
        x = rng.random()
        if x < 0.15:     # trailing '/': generated name
            return "sd:%s/:%d" % (rng.choice([par, "a", "a", "b", "c/k"]), q)
        if x < 0.30:     # several fields, explicit and generated
            ps = distinct([rng.choice([par + "/" + rng.choice(KIDS), "a/" + rng.choice(KIDS), "a/", "b/", par + "/"]) for _ in range(rng.choice([2, 3]))])
            return "sd:%s:%d" % (",".join(ps), q)
        return "sd:%s/%s:%d" % (par, rng.choice(KIDS), q) if x < 0.9 else "sd:%s:%d" % (rng.choice(["a", "b", "c"]), q)
    if r < 0.42:
        pat = rng.choice([par, par, "a", "a", "*", "a/*", "b"])
        if rng.random() < 0.15:    # several keys of equal depth
            pat = ",".join(distinct(rng.choice([["a", "b"], ["a", "*"], ["b", "a", "c"], ["a/x", "a/*"], ["a/I0", "b/I0", "*/x"], ["*", "a"]])))
        bs = grouped([rng.choice(BEFORE) for _ in range(rng.choice([1, 1, 2, 3, 4]))])
        return "io:%s:%s" % (pat, ",".join(bs))
    if r < 0.58:
        def one():
            return rng.choice(["a/" + rng.choice(KIDS), "a/" + rng.choice(KIDS), "a/*", "*/x", "*/*", par + "/" + rng.choice(KIDS), "a", "b", "*"])
        if rng.random() < 0.2:
            ps = distinct([one() for _ in range(rng.choice([2, 2, 3]))])
            return "ro:%s:%s" % (",".join(ps), ",".join(rng.choice(BEFORE + ["x", "I0"]) for _ in ps))
        return "ro:%s:%s" % (one(), rng.choice(BEFORE + ["x", "I0"]))
    if r < 0.60:
        ks = rng.choice([["a/x", "a/y"], ["a/y", "a/x", "a/I0"], ["a/*", "a/x"], ["a/I1", "a/*"], ["a/I0", "b/I0", "*/x"], ["a", "b"], ["*", "a"],
                         ["a/I0", "a/I2", "a/I1"], ["b/*", "a/I0"], ["*/I0", "*/I1"], ["a/x/*", "a/I0/*"]])
        return "rm:%s" % ",".join(ks)
    if r < 0.68:
        return "rm:%s" % rng.choice(["a/" + rng.choice(KIDS), "a/" + rng.choice(KIDS), "a", "b", "a/*", "*", "*/x", par, "a/x/" + rng.choice(KIDS)])
    if r < 0.80:
        p = rng.choice(SUBPATS)
        return ("su:%s" if rng.random() < 0.7 else "sq:%s") % p if allow_sub else "gd:%s" % p
    if r < 0.92:
        return "gd:%s" % rng.choice(SUBPATS)
    if r < 0.96:
        return "rs:%d" % rng.randint(0, 1)
    return "mx:%d" % rng.choice([1, 2, 3, 50])


def gen_api_cmd(rng, n, sid):
    r = rng.random()
    par = rng.choice(PARENTS)
    if r < 0.25:
        return "xsd:%s/%s:%d:%s" % (par, rng.choice(KIDS), rng.randint(0, 1), rng.choice(BEFORE))
    if r < 0.45:
        owner = rng.randrange(n)
        return "xsr:%d/%s:%s:%d" % (owner, rng.choice(["a", "a", "b", "a/x", "c", "a/I0"]), rng.choice(["c", "c", "d", "a", "b", "c/k", "a/x"]), rng.choice([0, 0, 1]))
    if r < 0.75:
        owner = rng.randrange(n)
        src = rng.choice(["a", "a", "b", "a/x", "a/I0", "c"])
        dst = rng.choice(["c", "c", "d", "b", "a", "c/k", "a/x", "b/y"])
        if owner == sid and (src == dst or src.startswith(dst + "/") or dst.startswith(src + "/")):
            dst = "c" if not (src == "c" or src.startswith("c/")) else "d"
        return "xcl:%d/%s:%s:%d:%s" % (owner, src, dst, rng.randint(0, 1) if "/" in dst else rng.choice([0, 0, 1]), rng.choice(BEFORE))
    if r < 0.82:
        return "xmv:%s:%s" % (rng.choice(["a/" + rng.choice(KIDS), "a/*", "c/*", "*/x"]), rng.choice(BEFORE))
    if r < 0.86:
        return "xra:%s:%d" % (rng.choice(["a", "a", "c", "b", "a/x"]), rng.choice([0, 0, 1, 2, 5]))
    if r < 0.90:
        return "xia:%s:%d:%s" % (rng.choice(["a", "a", "c", "b", "a/x"]), rng.choice([0, 0, 1, 2, 3, 9]), rng.choice(KIDS))
    if r < 0.96:
        return "xrm:%s" % rng.choice(["a/" + rng.choice(KIDS), "c", "a/*", "d"])
    return "xrm:%s" % rng.choice(["a", "*"])


def gen_step(rng, n, api_ok):
    sid = rng.randrange(n)
    r = rng.random()
    if api_ok and r < 0.12:
        return "%d>%s" % (sid, "&".join(gen_api_cmd(rng, n, sid) for _ in range(rng.choice([1, 1, 2]))))
    if r < 0.165:
        return "%d>un:%s" % (sid, rng.choice(SUBPATS))
    if r < 0.17:
        return "%d>ua" % sid
    if r < 0.18 and n > 1:
        return "%d>dt" % sid
    if r < 0.195:
        return "%d>rq:%s" % (sid, rng.choice(["a/" + rng.choice(KIDS), "a/" + rng.choice(KIDS), "a", "a/*", "*/x", "b"]))
    if r < 0.205 and n < 4:
        return "0>at"
    k = 1 if r < 0.62 else rng.choice([2, 2, 3, 4])
    cmds, seen_gd = [], False
    for _ in range(k):
        c = gen_msg_cmd(rng, n, allow_sub=not seen_gd)
        if c.startswith("gd:"):
            seen_gd = True
        cmds.append(c)
    return "%d>%s" % (sid, "&".join(cmds))


def gen_case(rng, length, api_ok):
    n = rng.choice([1, 2, 2, 2, 3])
    head = "%d%s" % (n, "n" if rng.random() < 0.2 else "")
    steps = []
    # most cases start with somebody watching the node most commands aim at
    if rng.random() < 0.8:
        steps.append("%d>su:%s" % (rng.randrange(n), rng.choice(["*/a", "*/a", "*/*", "0/a", "*/a/*"])))
    if rng.random() < 0.5:
        steps.append("%d>sd:a:0" % 0)
    for _ in range(length):
        st = gen_step(rng, n, api_ok)
        if st == "0>at":
            n += 1
        steps.append(st)
    return head + "|" + ";".join(steps)


DIRECTED = [
    # the owner subscribes to a node whose index was created by REORDERDATA only
    "2|0>sd:a/x:0;0>sd:a/y:0;1>su:*/a;0>ro:a/x:-;0>su:*/a;0>ro:a/y:-;0>io:a:x,-;0>io:a:y&gd:*/a;0>rm:a",
    # a GETDATA inside a batch, after an index mutation of the same batch, by a subscriber
    "1|0>sd:a:0;0>su:0/a;0>io:a:-,-;0>io:a:I1&gd:0/a;0>io:a:I0&su:0/a&io:a:-",
    "2n|0>sd:a:0;0>su:*/a;1>su:*/a;0>io:a:-,-;0>io:a:I1&gd:*/a&io:a:I1&gd:0/a;1>gd:*/a",
    # clone onto a destination that already carries the index
    "1|0>xsd:src:0:-;0>xsd:src/I0:1:-;0>xsd:src/I1:1:-;0>xcl:0/src:dst:0:-;0>xcl:0/src:dst:0:-",
    "2|1>su:*/*;0>sd:a:0;0>io:a:-,-,-;0>ro:a/I1:I0;1>xcl:0/a:c:0:-;0>ro:a/I2:I0;1>xcl:0/a:c:0:-;1>xcl:0/a:c:1:-",
    # recursive removal through nested indices, watched
    "2|1>su:*/*;1>su:*/*/*;0>sd:a:1;0>io:a:-,-;0>io:a/I0:-,-,I0;0>io:a/I1:-;0>ro:a/I1:I0;0>rm:a;0>sd:a:0;0>io:a:-",
    # generated names skip existing children; explicit I-names; insert-before unknown / self / remove-from-index
    "1|0>su:*/a;0>sd:a/I0:1;0>sd:a/I2:0;0>io:a:-,I0,I9,!;0>io:a:-;0>ro:a/I2:I0;0>ro:a/I2:I2;0>ro:a/I0:!;0>ro:a/I0:q",
    # reorder on a node without index: remove-from-index is a no-op, before-self is a no-op, anything else creates it
    "2|1>su:*/a;0>sd:a/x:0;0>sd:a/y:0;0>sd:a/z:0;0>ro:a/x:!;0>ro:a/x:x;0>ro:a/*:-;0>ro:a/*:x;0>ro:a/y:!;1>gd:*/a",
    # the session node itself as an index node
    "2|1>su:*;0>sd:x:1;0>sd:y:1;0>ro:x:-;1>gd:*;0>rm:x;0>rm:*",
    # unsubscribe, mutate, subscribe again; quiet subscribe + GETDATA; subscribing twice
    "2|1>su:*/a;0>sd:a:0;0>io:a:-,-;1>un:*/a;0>io:a:I0;0>rm:a/I1;1>sq:*/a;0>io:a:-;1>su:*/a;1>su:0/a;0>ro:a/*:-;1>un:*/a;0>ro:a/I0:-",
    # several subscriptions dropped at once by a wildcarded REMOVEPARAMETERS
    "2|1>su:*/a;1>su:0/a;1>su:*/a/*;0>sd:a:0;0>io:a:-,-;0>io:a/I0:-;1>ua;0>io:a:I0;0>rm:a/I1;1>gd:*/a;1>su:*/a;0>io:a:-",
    # removal of every entry, then re-subscription to an empty index
    "2|1>su:*/a;0>sd:a:0;0>io:a:-,-;1>un:*/a;0>rm:a/*;1>su:*/a;0>io:a:-",
    # several fields / keys in one Message; trailing-slash SETDATA (generated names), also next to explicit I-names; QUIET SETDATA
    "2|1>su:*/*;0>sd:a,b,a/x:0;0>sd:a/,a/I5,b/:1;0>sd:a/,c/k/:1;0>sd:a/:3;0>sd:a/z:2;0>io:a,b:-,I0;0>io:*,a:x;0>ro:a/I0,a/*,b/I0:-,I1,!;1>gd:*/*",
    "1|0>su:*/a;0>sd:a/I1:1;0>sd:a/:1;0>sd:a/:1;0>sd:a/I3:0;0>sd:a/:1;0>sd:a/:1;0>sd:c/k/:1;0>gd:*/c/k",
    # several keys in one REMOVEDATA: the order of the removals (and so the logged positions) follows the multi-pattern traversal
    "2|1>su:*/a;0>sd:a:0;0>io:a:-,-,-,-,-;0>sd:a/x:1;0>rm:a/I3,a/I1;0>rm:a/*,a/I0;0>io:a:-,-,-;0>rm:a/x,a/I6,a/I5;1>gd:*/a",
    "2|1>su:*/*;0>sd:a:0;0>sd:b:0;0>io:a,b:-,-,-;0>rm:a/I0,b/I2,*/I1;0>rm:b,a",
    # wildcard parents
    "2|1>su:*/*;0>sd:a:0;0>sd:b:0;0>io:*:-,-;0>io:*:I0;0>ro:*/I1:I0;0>rm:*/I0;1>gd:*/*",
    # quiet removal: the tree and later streams still agree with the model; only the parent's watchers go stale
    "2|1>su:*/a;1>su:*/b;0>sd:a:0;0>sd:b:0;0>io:a,b:-,-,-;0>rq:a/I1;0>io:a:I2;0>io:b:I0;0>rm:a/I0;0>rq:b;0>sd:b:0;0>io:b:-;1>gd:*/a",
    # a session leaves: its nodes go, watchers see every index drained; later commands of that session are void
    "3|1>su:*/*;2>su:*/*;0>sd:a:0;0>io:a:-,-;0>io:a/I0:-,-;0>su:*/a;0>dt;0>io:a:-;1>sd:a:0;1>io:a:-;1>dt;2>gd:*/*;2>dt",
    # sessions joining later: they see snapshots on subscribing, and get their own subtree
    "1|0>sd:a:0;0>io:a:-,-;0>at;1>su:*/a;0>io:a:I0;1>sd:a:0;1>io:a:-;0>at;2>su:*/*;0>ro:a/I0:-;1>dt;2>gd:*/a;0>at;3>su:0/a;0>rm:a/I1",
    # save + restore: onto nothing, onto itself, onto a destination with an index, from another session
    "2|1>su:*/*;0>sd:a:0;0>io:a:-,-,-;0>ro:a/I1:I0;0>sd:a/z:0;0>io:a/I0:-,-;0>xsr:0/a:c:0;0>xsr:0/a:a:0;0>xsr:0/a:c:1;1>xsr:0/a:c:0;1>io:c:I0;1>xsr:0/a:c:0;0>xsr:1/c:a:0",
    # raw RemoveIndexEntryAt through the node API
    "2|1>su:*/a;0>sd:a:0;0>io:a:-,-,-;0>xra:a:1;0>xra:a:5;0>xra:a:0;0>xra:a:0;0>xra:a:0;0>xra:b:0",
    "2|1>su:*/a;0>sd:a/x:0;0>sd:a/y:0;0>sd:a/z:0;0>xia:a:0:x;0>xia:a:0:y;0>xia:a:5:z;0>xia:a:1:x;0>xia:a:2:z;0>xia:a:0:q;0>su:0/a;0>xia:b:0:x",
    # max update items 1 splits Messages but not per-node order
    "2|1>mx:1;1>su:*/*;1>su:*/*/*;0>sd:a:0;0>io:a:-,-,-;0>io:a/I0:-,-;0>rm:a",
]


class CHECK(vlib.Check):
    prop = "C13"
    prop_file = "Properties_C13.v"
    model = ("Refl/IndexExtract.v", "index_driver.ml", "index", ("ocommon.ml",))
    harness = dict(name="index", src="index_h.cpp", san="asan", link_lib=True)
    modelled = ("reflector/DataNode.cpp: InsertOrderedChild (name generation from _orderedCounter, insert position), ReorderChild, "
                "RemoveIndexEntry, InsertIndexEntryAt, RemoveIndexEntryAt, RemoveChild (recursive, index entries leave one by one); "
                "reflector/StorageReflectSession.cpp: SetDataNode (ADDTOINDEX, remove-from-index), InsertOrderedData, ReorderDataCallback, "
                "DoRemoveData, DoGetData/GetDataCallback (clear+inserts snapshot, own-subtree short cut on _indexingPresent), SUBSCRIBE / "
                "REMOVEPARAMETERS, NodeIndexChanged + PushSubscriptionMessages after every (sub-)Message, PR_COMMAND_BATCH, CloneDataNodeSubtree. "
                "Wildcard patterns with clauses name or *; several fields per SETDATA/REORDERDATA, several equal-depth keys per INSERTORDEREDDATA / REMOVEDATA (multi-pattern traversal order: Index.trav). "
                "PR_NAME_REMOVE_QUIETLY: remove_child_quiet + quiet_frame (outside the histories of replay_eq; corresponded). "
                "Not modelled: query filters, quiet subscriptions without GETDATA, payloads, DATAITEMS, "
                "Message boundaries of the update stream (only per-client per-node order), node/child count limits, DataNode::InsertIndexEntryAt called against its documented preconditions.")
    premises = ["subscriber tables equal pattern matching (C04 refcount_inv; compared in the correspondence run through DataNode::GetSubscribers())",
                "a single-pattern traversal visits exactly the matching nodes depth-first in child-table order (C05)",
                "no PR_NAME_REMOVE_QUIETLY, no SETDATANODE_FLAG_QUIET on a remove-from-index SetDataNode, no PR_NAME_SUBSCRIBE_QUIETLY without a following GETDATA (they suppress index notifications by design; see quiet_frame); SETDATANODE_FLAG_QUIET on SETDATA does not concern indices and is exercised",
                "the client drops its replica of a node when it unsubscribes from it, and treats updates of nodes it is not subscribed to as one-shot reads",
                "_orderedCounter below 2^32; node depth and counts below the configured limits",
                "a new DataNode starts with _orderedCounter = 0 (true since /repo 3a5eebc: DataNode::Init() resets it; before that a node recycled from "
                "the pool continued numbering generated children from its previous life)",
                "memory safety and object lifetime of the C++ (observed by ASan/UBSan in the harness only)"]
    rule = ("command histories over a real in-process ReflectServer with 1-3 sessions, generated from random.Random(seed) plus directed cases; "
            "after EVERY step the per-client per-node PR_RESULT_INDEXUPDATED streams, every node's child table order, index, _orderedCounter and "
            "subscriber table are compared with the extracted model; the harness's own oracle replays each client's stream and compares with the "
            "server's real index.  Non-trivial = the history mutates an index and some client watches (subscribe or GETDATA).")
    quick_timeout = 1500

    def gen_cases(self, rng, tier):
        n = 1200 if tier == "quick" else 12000
        out = [("directed", c) for c in DIRECTED]
        for i in range(n):
            length = rng.choice([4, 8, 12, 16, 24])
            out.append(("random-msg" if i % 3 else "random-api", gen_case(rng, length, api_ok=(i % 3 == 0))))
        return out

    def nontrivial(self, case):
        return bool(re.search(r"(io:|ro:|:1[;&]|xcl:|xmv:)", case + ";")) and bool(re.search(r"(su:|sq:|gd:)", case))

    def distribution(self, sc):
        d = {}
        for s, c in sc:
            d["stream:" + s] = d.get("stream:" + s, 0) + 1
            head, _, body = c.partition("|")
            d["sessions:" + head] = d.get("sessions:" + head, 0) + 1
            for st in body.split(";"):
                cmds = st.partition(">")[2].split("&")
                if len(cmds) > 1:
                    d["batch"] = d.get("batch", 0) + 1
                for o in cmds:
                    k = "cmd:" + o.split(":")[0]
                    d[k] = d.get(k, 0) + 1
        return d

    def signature(self, f):
        s = f.get("signature") or ""
        s = re.sub(r"^\d+ ", "", s)
        return s.split(" : ")[0]

    def fail_key(self, f):
        sig = re.sub(r"^\d+ ", "", f.get("signature", "")).split(" : ")[0]
        return (f["kind"], re.sub(r"op#\d+( \w+)?", "op#", sig))

    def extra_stage(self, ctx):
        # a correspondence difference in a case that also has an oracle failure or crash is explained by it
        fs = ctx["failures"]
        bad_cases = {f.get("original_case") or f.get("case") for f in fs if f["kind"] in ("oracle", "crash")} | \
                    {f.get("case") for f in fs if f["kind"] in ("oracle", "crash")}
        fs[:] = [f for f in fs if not (f["kind"] == "correspondence" and (f.get("case") in bad_cases or f.get("original_case") in bad_cases))]
