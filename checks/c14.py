"""C14 -- Query filters evaluate as documented, survive archiving, tolerate bad archives (regex/QueryFilter.{h,cpp}).

Case grammar (one line, `head|op;op;...`; every op is total on both sides so the generic shrinker may drop any):
  Messages, 8 registers:  w:r:what   a:r:<namehex>:<t>:<hex>   am:r:<namehex>:r2         (t: b c h i l f d P R s X x<code>)
  node:                   n:<numChildren>:<namehex>
  deep nesting:           nk:r:<count>:<what>:<fnhex|->   (wrap register r count times in a Message with one "kid" = the previous level)
  filters, a stack (reverse Polish):
     fw:min:max   fe:<name>:idx:tc   fn:<t>:<name>:idx:op:mop:<val>:<msk>:<def|->      (t as above, C = ChildCount)
     fs:<s|n>:<name>:idx:op:<val>:<def|->   fr:<name>:idx:op:tc:<val|->:<def|->
     fm:<name>:idx:<haskid 0|1>:<defreg|->  (pops its child)    f&:n:k  f~:n:k  f^:k  (pop k children)
     h:r  (filter from register r used as an archive)      e:<hex of expression string>
  the filter OBJECT on top of the stack:  ev (evaluate it now on all registers)   sfa (stack .. T G: T->SetFromArchive(archive of G), G dropped)
                                          so:<op> / sv:<hex>  (StringQueryFilter::SetOperator / SetValue)
  heads: T = tree built with constructors/setters, H = hostile archive, X = expression (the tree it denotes is built first)
The filter on top of the stack is evaluated on all 8 registers directly, archived, restored and evaluated again.
"""
import struct
import vlib

ANY = 1095653716
TC = {"b": 1112493900, "c": 1113150533, "h": 1397248596, "i": 1280265799, "l": 1280069191, "f": 1179406164,
      "d": 1145195589, "P": 1112559188, "R": 1380270932, "s": 1129534546, "X": 1380013908, "m": 1297303367}
NOLIM = 4294967295
QF0 = 1902537776   # QUERY_FILTER_TYPE_WHATCODE; the harness/model take the codes from the headers, this is only for hostile what-codes
WIDTH = {"b": 1, "c": 1, "h": 2, "i": 4, "l": 8, "f": 4, "d": 8, "P": 8, "R": 16, "C": 4}


def hx(b):
    return b.hex() if isinstance(b, (bytes, bytearray)) else "".join("%02x" % x for x in b)


def sx(s):
    return s.encode("latin-1").hex()


F32 = ["00000000", "00000080", "0000803f", "000080bf", "0000807f", "000080ff", "0000c07f", "0000c0ff", "0100807f",
       "01000000", "01000080", "ffff7f7f", "0000a841", "00001643", "00009041", "cdcccc3d"]
F32_SPECIAL = set(["00000080", "0000807f", "000080ff", "0000c07f", "0000c0ff", "0100807f"])
F64 = ["0000000000000000", "0000000000000080", "000000000000f03f", "000000000000f0bf", "000000000000f07f",
       "000000000000f0ff", "000000000000f87f", "000000000000f8ff", "010000000000f07f", "0100000000000000",
       "ffffffffffffef7f", "0000000000003540", "0000000000c06240", "9a9999999999b93f"]
I8 = ["00", "01", "02", "7f", "80", "ff", "15", "12", "f0", "0f"]
I16 = ["0000", "0100", "ff7f", "0080", "ffff", "1500", "1200", "00ff", "f00f"]
I32 = ["00000000", "01000000", "ffffffff", "ffffff7f", "00000080", "15000000", "12000000", "00ff00ff", "0f0f0f0f", "d2040000"]
I64 = ["0000000000000000", "0100000000000000", "ffffffffffffffff", "ffffffffffffff7f", "0000000000000080",
       "1500000000000000", "00000000ffffffff", "ffffffff00000000"]
STRS = ["", "a", "A", "b", "ab", "abc", "ABC", "aBc", "abd", "abcd", "bc", "c", "green", "Green", "GREEN", "gre", "een",
        "twenty-one", "99", "100", "Z", "z", "[", "~", "a b", "\xe9", "\xc9", "a\xe9", "ab\xff", "@", "`"]
RAWS = ["00", "01", "0001", "0100", "000102", "0102", "02", "ff", "ff00", "61", "6162", "616263", "6263", "00000000", "15000000", "6100", "616200"]
NAMES = ["a", "b", "age", "x", "s", "r", "f", "d", "p", "q", "", "idx", "val"]
MNAMES = ["m", "mm", "kid"]


def val(rng, t):
    if t == "b":
        return rng.choice(["00", "01"])
    if t == "c":
        return rng.choice(I8)
    if t == "h":
        return rng.choice(I16)
    if t in ("i", "C"):
        return rng.choice(I32) if rng.random() < 0.8 else "%02x000000" % rng.randint(0, 5)
    if t == "l":
        return rng.choice(I64)
    if t == "f":
        return rng.choice(F32)
    if t == "d":
        return rng.choice(F64)
    if t == "P":
        return rng.choice(F32) + rng.choice(F32)
    if t == "R":
        return "".join(rng.choice(F32) for _ in range(4))
    if t == "s":
        return sx(rng.choice(STRS))
    return rng.choice(RAWS)


NUMT = ["b", "c", "h", "i", "l", "f", "d", "P", "R"]
FIELD_T = NUMT + ["s", "s", "X", "x12345"]


def gen_msg_ops(rng, r, subs, plan):
    """ops filling register r; plan: name -> type letter preferred for this case (so filters hit)"""
    ops = []
    if rng.random() < 0.7:
        ops.append("w:%d:%d" % (r, rng.choice([0, 1, 5, 100, 1234, NOLIM, QF0, rng.randint(0, 10)])))
    pool = [n for n in NAMES if n in ACTIVE and rng.random() < 0.75] if ACTIVE else rng.sample(NAMES, rng.choice([0, 2, 3, 4, 6, 8]))
    if rng.random() < 0.15:
        pool = pool + rng.sample(NAMES, 2)
    for name in dict.fromkeys(pool):
        t = plan[name] if rng.random() < 0.9 else rng.choice(FIELD_T)
        for _ in range(rng.choice([1, 1, 1, 2, 3])):
            ops.append("a:%d:%s:%s:%s" % (r, sx(name), t, val(rng, t if len(t) == 1 else "X")))
    for name in MNAMES:
        if subs and rng.random() < 0.45:
            for _ in range(rng.choice([1, 1, 2])):
                ops.append("am:%d:%s:%d" % (r, sx(name), rng.choice(subs)))
    return ops


def gen_filter(rng, depth, plan, regex_ok):
    """-> list of f-ops (reverse Polish) building one filter"""
    r = rng.random()
    if depth <= 0 or r < 0.45:
        return gen_leaf(rng, depth, plan, regex_ok)
    if r < 0.60:
        kid = gen_filter(rng, depth - 1, plan, regex_ok) if rng.random() < 0.8 else []
        dreg = rng.choice(["-", "-", "5", "6", "7", "0"])
        return kid + ["fm:%s:%d:%d:%s" % (sx(rng.choice(MNAMES + ["a"])), rng.choice([0, 0, 0, 1, 2]), 1 if kid else 0, dreg)]
    k = rng.choice([0, 1, 2, 2, 3, 3, 4, 5])
    ops = []
    for _ in range(k):
        ops += gen_filter(rng, depth - 1, plan, regex_ok)
    n = rng.choice([0, 0, 1, 2, NOLIM, NOLIM, max(0, k - 1), k, k + 1, max(0, k - 2), 3])
    kind = rng.random()
    if kind < 0.4:
        return ops + ["f&:%d:%d" % (n, k)]
    if kind < 0.8:
        return ops + ["f~:%d:%d" % (n, k)]
    return ops + ["f^:%d" % k]


PRESENT = {}     # (namehex, type letter) -> values present in the Messages of the case being generated


def operand(rng, name, t):
    """an operand for a filter on field `name` of type t: mostly a value that some Message of the case holds there"""
    have = PRESENT.get((sx(name), "i" if t == "C" else t))
    if have and rng.random() < 0.65:
        return rng.choice(have)
    return val(rng, t)


ACTIVE = []      # the handful of field names the case being generated concentrates on


def pick_name(rng, plan, t):
    c = [n for n, tt in plan.items() if tt == t and (not ACTIVE or n in ACTIVE)]
    if c and rng.random() < 0.9:
        return rng.choice(c)
    if ACTIVE and rng.random() < 0.7:
        return rng.choice(ACTIVE)
    return rng.choice(NAMES)


def gen_leaf(rng, depth, plan, regex_ok):
    r = rng.random()
    idx = rng.choice([0] * 14 + [1, 1, 1, 2, 3, NOLIM])
    if r < 0.07:
        a, b = rng.choice([0, 1, 5, 100, NOLIM]), rng.choice([0, 1, 5, 100, 1234, NOLIM])
        return ["fw:%d:%d" % (a, b)]
    if r < 0.15:
        nm = rng.choice(ACTIVE) if (ACTIVE and rng.random() < 0.85) else rng.choice(NAMES + MNAMES)
        t = rng.choice(["A", "A", "A"] + FIELD_T + ["m"] + ([plan[nm]] * 6 if nm in plan else []))
        tc = ANY if t == "A" else (12345 if t == "x12345" else TC[t])
        return ["fe:%s:%d:%d" % (sx(nm), idx, tc)]
    if r < 0.62:
        t = rng.choice(NUMT + ["f", "d", "P", "i"] + (["C"] if rng.random() < 0.3 else []))
        act_t = [plan[n] for n in ACTIVE if plan[n] in NUMT]
        if act_t and rng.random() < 0.75:
            t = rng.choice(act_t)
        op = rng.choice([0, 1, 2, 3, 4, 5] * 8 + [6, 7, 200, 255])
        mop = rng.choice([0] * 12 + [1, 2, 3, 4, 5, 6, 7, 99, 255])
        name = "" if (t == "C" and rng.random() < 0.8) else pick_name(rng, plan, "i" if t == "C" else t)
        if t == "C" and rng.random() < 0.8:
            idx = 0
        d = val(rng, t) if rng.random() < 0.4 else "-"
        return ["fn:%s:%s:%d:%d:%d:%s:%s:%s" % (t, sx(name), idx, op, mop, operand(rng, name, t), val(rng, t), d)]
    if r < 0.82:
        ops_pool = list(range(0, 24)) * 2 + list(range(0, 12)) * 2 + [28, 99, 255] + ([24, 25, 26, 27] * 2 if regex_ok else [])
        op = rng.choice(ops_pool)
        kind = "n" if rng.random() < 0.12 else "s"
        v = rng.choice(STRS)
        if op == 24:
            v = rng.choice(PATTERNS)
        if op == 26:
            v = rng.choice(PATTERNS_CI)
        if op in (25, 27):
            v = rng.choice(REGEXES)
        d = sx(rng.choice(STRS)) if rng.random() < 0.35 else "-"
        nm = pick_name(rng, plan, "s")
        vx = sx(v)
        if op < 24:
            vx = operand(rng, nm, "s")
        return ["fs:%s:%s:%d:%d:%s:%s" % (kind, sx(nm), idx, op, vx, d)]
    t = rng.choice(["A", "A", "X", "X", "i", "s", "c", "x12345", "d"])
    tc = ANY if t == "A" else (12345 if t == "x12345" else TC[t])
    op = rng.choice(list(range(0, 12)) * 2 + [12, 77, 255])
    v = rng.choice(RAWS + [sx(s) for s in STRS if s]) if rng.random() < 0.93 else "-"
    d = rng.choice(RAWS) if rng.random() < 0.3 else "-"
    name = rng.choice([n for n in NAMES])         # never a sub-Message field: its "raw bytes" are a pointer
    if t in ("X", "A") and v != "-":
        name = pick_name(rng, plan, rng.choice(["X", "x12345"]))
        have = PRESENT.get((sx(name), "X")) or PRESENT.get((sx(name), "x12345"))
        if have and rng.random() < 0.6:
            v = rng.choice(have)
    return ["fr:%s:%d:%d:%d:%s:%s" % (sx(name), idx, op, tc, v, d)]


# simple wildcard / regex patterns inside the subset the C15 model's ERE engine supports
PATTERNS = ["*", "a*", "*c", "a?c", "gre*", "[a-c]*", "ab", "g*n", "*e*", "?", "??", "a,b", "abc,green", "A*"]
# raw regular expressions within what property C15's ERE engine model supports (its only quantifier is `*`)
REGEXES = ["c", "ab", "^a", "c$", "a.c", "a*", "(ab|gr)", "^gr.*n$", "g.*n", "^$", "a|c", ".", "A", "^[a-c]*$", "x*"]
PATTERNS_CI = [p for p in PATTERNS if "[" not in p]      # MakeRegexCaseInsensitive would rewrite the letters inside a bracket expression


def gen_tree_case(rng, depth, regex_ok=False):
    plan = {}
    for n in NAMES:
        plan[n] = rng.choice(FIELD_T)
    ACTIVE[:] = rng.sample(NAMES, rng.choice([3, 4, 5, 6]))
    for n in ACTIVE:      # make the popular filter types well represented among the active fields
        if rng.random() < 0.5:
            plan[n] = rng.choice(["i", "f", "d", "s", "P", "X", "c", "l"])
    plan[ACTIVE[0]] = "s"
    plan[ACTIVE[1]] = rng.choice(["X", "x12345", "i", "f"])
    ops = []
    subs = []
    for r in (7, 6, 5, 4, 3, 2, 1, 0):
        if r < 5 and rng.random() < 0.15:
            continue
        ops += gen_msg_ops(rng, r, subs, plan)
        if r >= 4:
            subs.append(r)
    if rng.random() < 0.25:
        ops.append("n:%d:%s" % (rng.choice([0, 0, 1, 2, 3, 5]), sx(rng.choice(STRS))))
    PRESENT.clear()
    for o in ops:
        a = o.split(":")
        if a[0] == "a":
            PRESENT.setdefault((a[2], a[3]), []).append(a[4])
    ops += gen_filter(rng, depth, plan, regex_ok)
    return "T|" + ";".join(ops)


# ---------------------------------------------------------------- hostile archives

ARCH_NAMES = ["fn", "idx", "op", "mop", "val", "msk", "min", "max", "type", "kid", "defmsg", "def"]


def gen_hostile_case(rng, nest):
    ACTIVE[:] = []
    """register 0 is offered as an archive.  It is assembled from fields with the right names but wrong types /
    counts / what-codes, nested through `kid` up to `nest` levels (registers are composed bottom-up)."""
    ops = []
    for r in (5, 6, 7):       # plain Messages to evaluate on
        ops += gen_msg_ops(rng, r, [], {n: rng.choice(FIELD_T) for n in NAMES})
    level = 0
    cur = 4
    chain = [4, 3, 2, 1, 0] if nest > 2 else [1, 0]
    prev = None
    for r in chain:
        what = rng.choice([QF0 + i for i in range(0, 19)] * 3 + [QF0 - 1, QF0 + 19, QF0 + 20, 0, NOLIM])
        ops.append("w:%d:%d" % (r, what))
        for name in rng.sample(ARCH_NAMES, rng.choice([0, 2, 3, 4, 6, 8])):
            if name in ("kid", "defmsg") and rng.random() < 0.7:
                continue
            t = rng.choice(FIELD_T + ["s", "i", "c", "c"])
            if rng.random() < 0.6:
                t = {"fn": "s", "idx": "i", "op": "c", "mop": "c", "min": "i", "max": "i", "type": "i", "def": "X"}.get(name, t)
            for _ in range(rng.choice([1, 1, 2, 3])):
                ops.append("a:%d:%s:%s:%s" % (r, sx(name), t, val(rng, t if len(t) == 1 else "X")))
        if prev is not None and rng.random() < 0.85:
            for _ in range(rng.choice([1, 1, 2, 3])):
                ops.append("am:%d:%s:%d" % (r, sx("kid"), prev))
        if rng.random() < 0.3:
            ops.append("am:%d:%s:%d" % (r, sx("defmsg"), rng.choice([5, 6, 7])))
        prev = r
    ops.append("h:0")
    return "H|" + ";".join(ops)


def gen_mutated_archive_case(rng):
    ACTIVE[:] = []
    """a valid filter is archived by the *generator's own* description (fields as ops), then one field is damaged"""
    ops = []
    for r in (5, 6, 7):
        ops += gen_msg_ops(rng, r, [], {n: rng.choice(FIELD_T) for n in NAMES})
    kind = rng.choice(["num", "str", "raw", "what", "exists", "multi", "msg"])
    r = 0
    if kind == "num":
        t = rng.choice(NUMT)
        what = {"b": 2, "d": 3, "f": 4, "l": 5, "i": 6, "h": 7, "c": 8, "P": 9, "R": 10}[t] + QF0
        if rng.random() < 0.1:
            what = QF0 + 17
            t = "i"
        ops.append("w:0:%d" % what)
        fields = [("fn", "s", sx(rng.choice(NAMES))), ("idx", "i", "%02x000000" % rng.choice([0, 1, 2])), ("op", "c", "%02x" % rng.choice([0, 1, 2, 3, 4, 5, 6, 200])),
                  ("mop", "c", "%02x" % rng.choice([0, 1, 2, 6, 9])), ("val", t, val(rng, t)), ("msk", t, val(rng, t)), ("val", t, val(rng, t))]
    elif kind == "str":
        ops.append("w:0:%d" % (QF0 + rng.choice([11, 11, 18])))
        fields = [("fn", "s", sx(rng.choice(NAMES))), ("idx", "i", "%02x000000" % rng.choice([0, 1])), ("val", "s", sx(rng.choice(STRS))), ("val", "s", sx(rng.choice(STRS))),
                  ("op", "c", "%02x" % rng.choice(list(range(0, 24)) + [28, 255]))]
    elif kind == "raw":
        ops.append("w:0:%d" % (QF0 + 13))
        fields = [("fn", "s", sx(rng.choice(NAMES))), ("op", "c", "%02x" % rng.choice(range(0, 13))), ("type", "i", rng.choice(["544e5941", "47544c4c", "39300000"])),
                  ("val", "X", rng.choice(RAWS)), ("def", "X", rng.choice(RAWS))]
    elif kind == "what":
        ops.append("w:0:%d" % QF0)
        fields = [("min", "i", val(rng, "i")), ("max", "i", val(rng, "i"))]
    elif kind == "exists":
        ops.append("w:0:%d" % (QF0 + 1))
        fields = [("fn", "s", sx(rng.choice(NAMES))), ("idx", "i", "%02x000000" % rng.choice([0, 1])), ("type", "i", rng.choice(["544e5941", "47544c4c", "52545343"]))]
    elif kind == "multi":
        ops.append("w:0:%d" % (QF0 + rng.choice([14, 15, 16])))
        ops.append("w:1:%d" % QF0)
        ops.append("a:1:%s:i:%s" % (sx("min"), val(rng, "i")))
        fields = [("min", "i", val(rng, "i")), ("max", "i", val(rng, "i"))]
        for _ in range(rng.choice([0, 1, 2, 3])):
            ops.append("am:0:%s:1" % sx("kid"))
    else:
        ops.append("w:0:%d" % (QF0 + 12))
        ops.append("w:1:%d" % QF0)
        fields = [("fn", "s", sx(rng.choice(MNAMES))), ("idx", "i", "%02x000000" % rng.choice([0, 1]))]
        if rng.random() < 0.7:
            ops.append("am:0:%s:1" % sx("kid"))
        if rng.random() < 0.5:
            ops.append("am:0:%s:%d" % (sx("defmsg"), rng.choice([5, 6, 7])))
    # damage: drop / retype / duplicate one field
    dmg = rng.random()
    victim = rng.randrange(len(fields)) if fields else 0
    for i, (n, t, v) in enumerate(fields):
        if i == victim and dmg < 0.3:
            continue
        if i == victim and dmg < 0.6:
            t2 = rng.choice(FIELD_T)
            ops.append("a:0:%s:%s:%s" % (sx(n), t2, val(rng, t2 if len(t2) == 1 else "X")))
            continue
        ops.append("a:0:%s:%s:%s" % (sx(n), t, v))
    ops.append("h:0")
    return "H|" + ";".join(ops)


# ---------------------------------------------------------------- expression strings (documented grammar)

XNAMES = ["age", "weight", "x", "n1", "s", "sober", "f", "d", "p", "q", "count", "Name"]
XNAMES_SYN = ["eyecolor", "this", "floor", "band", "mentor", "knot"]   # a synonym keyword ("or ", "is ", "and ", "not ") ends the name
NUMOP = {"==": 0, "<": 1, ">": 2, "<=": 3, ">=": 4, "!=": 5}
STROP = dict(NUMOP)
STROP.update({"startswith": 6, "endswith": 7, "contains": 8, "isstartof": 9, "isendof": 10, "issubstringof": 11})
STROP_RX = {"matches": 24, "matchesregex": 25}
DEFAULT_RECT = "0000000000000000000080bf000080bf"     # Rect(): the mask member of a filter nobody called SetMask() on
CASTS = {"c": "(int8)", "h": "(int16)", "i": "(int32)", "l": "(int64)", "b": "(bool)", "f": "(float)", "d": "(double)", "s": "(string)", "P": "(point)", "R": "(rect)"}


def f32(x):
    return struct.pack("<f", x).hex()


def f64(x):
    return struct.pack("<d", x).hex()


FSPECIAL = {"nan": ("0000c07f", "000000000000f87f"), "inf": ("0000807f", "000000000000f07f"), "-inf": ("000080ff", "000000000000f0ff"),
            "-0.0": ("00000080", "0000000000000080"), "infinity": ("0000807f", "000000000000f07f")}


def lit_for(rng, t, as_default=False):
    """-> (text, needs_cast, hex bytes) : a literal the documented grammar reads as type t.  as_default: text must be legal
    inside an unquoted field-name token (no blanks, no operator characters)"""
    if t == "i":
        txt = rng.choice(["0", "21", "18", "-1", "1234", "2147483647", "-2147483648", "007", "+5", "100", "99"])
        return txt, False, struct.pack("<i", int(txt)).hex()
    if t in ("c", "h", "l"):
        txt = rng.choice(["0", "21", "-1", "127", "-128", "200", "-129", "70000", "100"] + (["9223372036854775807", "-5", "4294967296"] if t == "l" else []))
        w = {"c": 1, "h": 2, "l": 8}[t]
        return txt, True, (int(txt) & ((1 << (8 * w)) - 1)).to_bytes(w, "little").hex()
    if t == "f":
        if rng.random() < 0.35:
            k = rng.choice(list(FSPECIAL))
            return k, True, FSPECIAL[k][0]
        txt = rng.choice(["21f", "155.0f", "-0.0f", "1e3f", "0.5f", "150.0f", "-1.5f", ".25f", "100f"])
        return txt, False, f32(float(txt[:-1]))
    if t == "d":
        if rng.random() < 0.35:
            k = rng.choice(list(FSPECIAL))
            if k == "-0.0":
                return k, False, FSPECIAL[k][1]
            return k, True, FSPECIAL[k][1]
        txt = rng.choice(["21.3", "-0.0", "1.5e10", "0.5", "150.0", "-1.5", ".25", "100.", "21.0"])
        return txt, False, f64(float(txt))
    if t == "b":
        txt, v = rng.choice([("true", 1), ("false", 0), ("TRUE", 1), ("False", 0)])
        return txt, False, "%02x" % v
    if t == "P":
        a, b = rng.choice(["1.0", "2.5", "-0.0", "0", "1e3"]), rng.choice(["1.0", "2.5", "-3", "0", "7"])
        return a + "," + b, False, f32(float(a)) + f32(float(b))
    if t == "R":
        xs = [rng.choice(["1.0", "2.5", "-3", "0", "7", "0.5"]) for _ in range(4)]
        return ",".join(xs), False, "".join(f32(float(x)) for x in xs)
    # strings
    word = rng.choice(["green", "twenty-one", "abc", "x99", "Green", "a", "g"])
    if as_default:
        return word, False, sx(word)
    r = rng.random()
    if r < 0.45:
        q = rng.choice(["green", "", "twenty one", "a|b:c", "99", "(x) && !y", "Green", "abc", "or is and"])
        return '"' + q + '"', False, sx(q)
    if r < 0.8:
        return word, False, sx(word)
    w2 = rng.choice(["99", "twenty-one", "21.5", "true"])
    return w2, True, sx(w2)


def default_text(rng, t):
    """a default value as it may appear after `|` in a field-name token, of the type the right-hand side has"""
    if t in ("i", "c", "h", "l"):
        txt = rng.choice(["18", "0", "100", "-1", "7"])
        w = {"i": 4, "c": 1, "h": 2, "l": 8}[t]
        return txt, (int(txt) & ((1 << (8 * w)) - 1)).to_bytes(w, "little").hex()
    if t == "f":
        txt = rng.choice(["100", "1.5", "nan", "inf", "-0.0", "0"])
        return txt, (FSPECIAL[txt][0] if txt in FSPECIAL else f32(float(txt)))
    if t == "d":
        txt = rng.choice(["100", "1.5", "nan", "-inf", "-0.0", "0"])
        return txt, (FSPECIAL[txt][1] if txt in FSPECIAL else f64(float(txt)))
    if t == "b":
        txt, v = rng.choice([("true", 1), ("false", 0), ("1", 1), ("0", 0), ("yes", 1), ("off", 0)])
        return txt, "%02x" % v
    if t == "P":
        return "1,2", f32(1.0) + f32(2.0)
    if t == "R":
        return "1,2,3,4", f32(1.0) + f32(2.0) + f32(3.0) + f32(4.0)
    txt = rng.choice(["100", "abc", "green", "x"])
    return txt, sx(txt)


def sp(rng):
    return rng.choice([" ", " ", " ", "  ", "\t"])


def gen_pred(rng, feat, regex_ok):
    """-> (text, denoted f-ops).  feat: set of features allowed ('idx', 'def', 'syn')"""
    r = rng.random()
    if r < 0.10:     # what-code predicates
        op = rng.choice(["==", "!=", "<", ">", "<=", ">="])
        v = rng.choice([0, 1, 5, 100, 1234, 4294967295, 4294967296 + 7])
        vv = v & 0xFFFFFFFF
        txt = "what" + rng.choice([" ", ""]) + op + rng.choice([" ", ""]) + str(v)
        if op == "==":
            return txt, ["fw:%d:%d" % (vv, vv)]
        if op == "!=":
            return txt, ["fw:%d:%d" % (vv, vv), "f~:0:1"]
        if op == "<":
            return txt, (["fw:1:0"] if vv == 0 else ["fw:0:%d" % (vv - 1)])
        if op == ">":
            return txt, (["fw:1:0"] if vv == NOLIM else ["fw:%d:%d" % (vv + 1, NOLIM)])
        if op == "<=":
            return txt, ["fw:0:%d" % vv]
        return txt, ["fw:%d:%d" % (vv, NOLIM)]
    name = rng.choice(XNAMES_SYN) if ("syn" in feat and rng.random() < 0.5) else rng.choice(XNAMES)
    quoted_name = rng.random() < 0.08
    idx = 0
    spec = name
    if "idx" in feat and rng.random() < 0.6 and not quoted_name:
        idx = rng.choice([0, 1, 2, 3])
        spec = "%s:%d" % (name, idx)
    if r < 0.2:      # exists
        cast_t = rng.choice([None, None, "i", "s", "f", "b", "l"])
        txt = "exists" + rng.choice([" ", " ", "  "]) + (CASTS[cast_t] if cast_t else "") + ('"%s"' % name if quoted_name else spec)
        return txt, ["fe:%s:%d:%d" % (sx(name), idx, TC[cast_t] if cast_t else ANY)]
    t = rng.choice(["i", "i", "f", "d", "b", "s", "s", "c", "h", "l", "P", "R"])
    ltxt, need_cast, lhex = lit_for(rng, t)
    cast = CASTS[t] if (need_cast or rng.random() < 0.15) else ""
    if cast and ltxt.startswith('"'):
        cast = ""        # (string)"x" is rejected by the grammar ("too weird")
    dhex = "-"
    if "def" in feat and rng.random() < 0.6 and not quoted_name:
        dtxt, dhex = default_text(rng, t)
        spec = spec + "|" + dtxt
    if t == "s":
        pool = list(STROP) + (list(STROP_RX) if regex_ok else [])
        op = rng.choice(pool)
        if op in STROP_RX:
            ltxt, lhex = '"' + rng.choice(PATTERNS if op == "matches" else REGEXES) + '"', None
            lhex = sx(ltxt[1:-1])
            cast = ""
        opc = STROP.get(op, STROP_RX.get(op))
        ops = ["fs:s:%s:%d:%d:%s:%s" % (sx(name), idx, opc, lhex, dhex)]
    else:
        op = rng.choice(list(NUMOP))
        ops = ["fn:%s:%s:%d:%d:0:%s:%s:%s" % (t, sx(name), idx, NUMOP[op], lhex, DEFAULT_RECT if t == "R" else "00" * WIDTH[t], dhex)]
    optxt = op
    if op == "==" and rng.random() < 0.3:
        optxt = rng.choice(["is", "equals", "="])
    lhs = ('"%s"' % name) if quoted_name else spec
    if optxt[0].isalpha():
        txt = lhs + sp(rng) + optxt + " " + rng.choice(["", " "]) + cast + ltxt
    else:
        txt = lhs + rng.choice([" ", " ", ""]) + optxt + rng.choice([" ", " ", ""]) + cast + ltxt
    return txt, ops


def gen_expr(rng, depth, feat, regex_ok):
    """-> (text, ops, is_compound)"""
    if depth <= 0 or rng.random() < 0.4:
        txt, ops = gen_pred(rng, feat, regex_ok)
        if rng.random() < 0.2:
            neg = rng.choice(["!", "! ", "not "])
            return neg + txt, ops + ["f~:0:1"], False
        return txt, ops, False
    k = rng.choice([2, 2, 3, 4])
    conj = rng.choice(["&&", "||", "^", "and", "or", "xor"])
    parts, ops = [], []
    for _ in range(k):
        t, o, _c = gen_expr(rng, depth - 1, feat, regex_ok)
        neg = rng.random() < 0.2
        r = rng.random()
        if r < 0.08:            # redundant parentheses (accepted since the fix of F56)
            t = "(" + t + ")"
        elif r < 0.14:
            t, o = "!(" + t + ")", o + ["f~:0:1"]
        parts.append(("!" if neg else "") + "(" + rng.choice(["", " "]) + t + rng.choice(["", " "]) + ")")
        ops += o + (["f~:0:1"] if neg else [])
    sep = " " + conj + " "
    code = {"&&": "f&:%d:%d" % (NOLIM, k), "and": "f&:%d:%d" % (NOLIM, k), "||": "f&:0:%d" % k, "or": "f&:0:%d" % k, "^": "f^:%d" % k, "xor": "f^:%d" % k}[conj]
    return sep.join(parts), ops + [code], True


def gen_expr_case(rng, feat, regex_ok=False):
    ops = []
    plan = {n: rng.choice(["i", "i", "f", "d", "s", "b", "c", "h", "l", "P", "R"]) for n in XNAMES + XNAMES_SYN}
    for r in range(8):
        if rng.random() < 0.6:
            ops.append("w:%d:%d" % (r, rng.choice([0, 1, 5, 100, 1234, NOLIM, 7])))
        for name in rng.sample(XNAMES + XNAMES_SYN, rng.choice([1, 2, 3, 5])):
            t = plan[name]
            for _ in range(rng.choice([1, 1, 2, 3, 4])):
                if t == "s":
                    v = sx(rng.choice(["green", "twenty-one", "abc", "x99", "Green", "a", "99", "twenty one", "100", ""]))
                elif t == "i":
                    v = struct.pack("<i", rng.choice([0, 21, 18, -1, 1234, 2147483647, -2147483648, 7, 5, 100, 99, 20, 22])).hex()
                elif t == "f":
                    v = rng.choice(F32 + [f32(x) for x in (21.0, 155.0, 1000.0, 0.5, 150.0, -1.5, 0.25, 100.0)])
                elif t == "d":
                    v = rng.choice(F64 + [f64(x) for x in (21.3, 1.5e10, 0.5, 150.0, -1.5, 0.25, 100.0, 21.0)])
                else:
                    v = val(rng, t)
                ops.append("a:%d:%s:%s:%s" % (r, sx(name), t, v))
    txt, fops, _c = gen_expr(rng, rng.choice([0, 0, 1, 1, 2]), feat, regex_ok)
    r = rng.random()
    if r < 0.1:
        txt = "(" + txt + ")"
    elif r < 0.15:
        txt = "((" + txt + "))"
    elif r < 0.2:
        txt, fops = "(!(" + txt + "))", fops + ["f~:0:1"]
    return "X|" + ";".join(ops + fops + ["e:" + sx(txt)])


# ---------------------------------------------------------------- reused (stateful) filter objects

def kind_of(fop):
    a = fop.split(":")
    if a[0] == "fn":
        return "fn:" + a[1]
    if a[0] == "fs":
        return "fs:" + a[1]
    return a[0]


def gen_same_kind(rng, kind, depth, plan, regex_ok, tries=60):
    """a filter (list of f-ops) whose top node has the given kind, or None"""
    for _ in range(tries):
        ops = gen_filter(rng, depth, plan, regex_ok) if kind in ("fm", "f&", "f~", "f^") else gen_leaf(rng, depth, plan, regex_ok)
        if kind_of(ops[-1]) == kind:
            return ops
    return None


REUSE_STRS = ["abc", "green", "ac", "c", "Abc", "a,b", "", "abcd", "GREEN", "gre", "b", "ab"]


def gen_reuse_case(rng, regex_ok=True):
    """one filter OBJECT is built, evaluated (so that it caches whatever it caches), then overwritten in place with
    SetFromArchive(archive of a second filter of the same class) -- or SetOperator/SetValue -- and evaluated again"""
    plan = {n: rng.choice(FIELD_T) for n in NAMES}
    ACTIVE[:] = rng.sample(NAMES, rng.choice([3, 4, 5]))
    plan[ACTIVE[0]] = "s"
    plan[ACTIVE[1]] = rng.choice(["X", "i", "f"])
    ops, subs = [], []
    for r in (7, 6, 5, 4, 3, 2, 1, 0):
        ops += gen_msg_ops(rng, r, subs, plan)
        if rng.random() < 0.8:
            for _ in range(rng.choice([1, 2])):
                ops.append("a:%d:%s:s:%s" % (r, sx(ACTIVE[0]), sx(rng.choice(REUSE_STRS))))
        if r >= 5:
            subs.append(r)
    if rng.random() < 0.5:
        ops.append("n:%d:%s" % (rng.choice([0, 1, 3]), sx(rng.choice(REUSE_STRS))))
    PRESENT.clear()
    for o in ops:
        a = o.split(":")
        if a[0] == "a":
            PRESENT.setdefault((a[2], a[3]), []).append(a[4])
    r = rng.random()
    if r < 0.55:
        # string / node-name filters with the pattern operators: same operator, different pattern is the interesting case
        kind = "n" if rng.random() < 0.2 else "s"
        name = sx(ACTIVE[0])
        op1 = rng.choice([24, 24, 25, 26, 27, 24, 25] + [0, 6, 8])
        op2 = op1 if rng.random() < 0.7 else rng.choice([24, 25, 26, 27, 0, 6, 8, 28])

        def pat(op):
            if op in (24,):
                return rng.choice(PATTERNS)
            if op == 26:
                return rng.choice(PATTERNS_CI)
            if op in (25, 27):
                return rng.choice(REGEXES)
            return rng.choice(REUSE_STRS)
        d1 = sx(rng.choice(REUSE_STRS)) if rng.random() < 0.3 else "-"
        d2 = sx(rng.choice(REUSE_STRS)) if rng.random() < 0.3 else "-"
        t_ops = ["fs:%s:%s:0:%d:%s:%s" % (kind, name, op1, sx(pat(op1)), d1)]
        g_ops = ["fs:%s:%s:%d:%d:%s:%s" % (kind, name if rng.random() < 0.85 else sx(rng.choice(NAMES)), rng.choice([0, 0, 0, 1]), op2, sx(pat(op2)), d2)]
    else:
        depth = rng.choice([0, 1, 2])
        t_ops = gen_filter(rng, depth, plan, regex_ok)
        kind = kind_of(t_ops[-1])
        g_ops = gen_same_kind(rng, kind, depth, plan, regex_ok) if rng.random() < 0.9 else gen_filter(rng, depth, plan, regex_ok)
        if g_ops is None:
            g_ops = list(t_ops)
    seq = list(t_ops)
    if rng.random() < 0.9:
        seq.append("ev")
    step = rng.random()
    if step < 0.75:
        seq += g_ops + ["sfa"]
    elif step < 0.88:
        seq.append("so:%d" % rng.choice([24, 25, 26, 27, 0, 6, 8]))
    else:
        seq.append("sv:%s" % sx(rng.choice(PATTERNS + REUSE_STRS)))
    if rng.random() < 0.4:
        seq.append("ev")
        if rng.random() < 0.5:
            seq += g_ops + ["sfa"] if rng.random() < 0.5 else ["sv:%s" % sx(rng.choice(PATTERNS_CI + REGEXES[:4]))]
    return "T|" + ";".join(ops + seq)


# ---------------------------------------------------------------- substring search (MemMem, strstr, StrcasestrEx)

def _words(alpha, maxlen):
    out = [[]]
    level = [[]]
    for _ in range(maxlen):
        level = [w + [c] for w in level for c in alpha]
        out += level
    return out


def search_cases(rng, tier):
    """needle/haystack pairs over tiny alphabets (incl. 0x00): every haystack up to a length, every short needle, so that
    the needle's first byte occurs at non-matching positions before the real occurrence (ab in aaab, abab in ababab ..);
    plus longer random haystacks with a planted needle behind partial matches.  Raw and String infix/prefix/suffix
    operators, both directions, plain and negated."""
    out = []
    hay_len = 5 if tier == "quick" else 7

    def emit(kind, op, value_hex, items_hex, neg, tc=None):
        ops = []
        for r, it in enumerate(items_hex[:8]):
            if kind == "raw":
                ops.append("a:%d:%s:X:%s" % (r, sx("r"), it))
            else:
                ops.append("a:%d:%s:s:%s" % (r, sx("r"), it))
        if kind == "raw":
            ops.append("fr:%s:0:%d:%d:%s:-" % (sx("r"), op, tc if tc is not None else TC["X"], value_hex))
        else:
            ops.append("fs:s:%s:0:%d:%s:-" % (sx("r"), op, value_hex))
        if neg:
            ops.append("f~:0:1")
        out.append(("search", "T|" + ";".join(ops)))

    def chunks(l, n=8):
        for i in range(0, len(l), n):
            yield l[i:i + n]

    for alpha, kind in (([0x00, 0x01], "raw"), ([0x61, 0x62], "raw"), ([0x61, 0x62], "str"), ([0x61, 0x41, 0x62], "str")):
        hays = _words(alpha, hay_len if len(alpha) == 2 else hay_len - 2)
        needles = [w for w in _words(alpha, 3 if len(alpha) == 2 else 2)]
        if kind == "raw":
            hays = [h for h in hays if h]
            needles = [n for n in needles if n]
        ops_fwd = (8, 6, 7) if kind == "raw" else (8, 6, 7, 20)          # value = needle, items = haystacks
        ops_rev = (11, 9, 10) if kind == "raw" else (11, 9, 10, 23)     # value = haystack, items = needles
        for n in needles:
            for ch in chunks(hays):
                for op in ops_fwd[:1] if tier == "quick" and rng.random() < 0.5 else ops_fwd:
                    emit(kind, op, hx(n), [hx(h) for h in ch], rng.random() < 0.2, ANY if rng.random() < 0.2 else None)
        # reverse direction: sample of haystacks as the filter's value
        for h in rng.sample(hays, min(len(hays), 40 if tier == "quick" else 150)):
            for ch in chunks(needles):
                for op in ops_rev:
                    emit(kind, op, hx(h) if (h or kind == "str") else "00", [hx(n) for n in ch], rng.random() < 0.2)
    # longer haystacks: a needle planted at every offset behind a run of partial matches
    nrand = 150 if tier == "quick" else 1500
    for _ in range(nrand):
        kind = rng.choice(["raw", "raw", "str"])
        alpha = rng.choice([[0x00, 0x01], [0x61, 0x62], [0x61], [0x00], [0x61, 0x62, 0x63]]) if kind == "raw" else rng.choice([[0x61, 0x62], [0x61], [0x61, 0x42, 0x62]])
        nl = rng.choice([1, 2, 2, 3, 3, 4, 5])
        needle = [rng.choice(alpha) for _ in range(nl)]
        if rng.random() < 0.6 and nl >= 2:
            needle = [alpha[0]] * (nl - 1) + [alpha[-1]]           # a..ab : every earlier a is a failed candidate
        items = []
        for r in range(8):
            pre = [needle[0]] * rng.choice([0, 1, 2, 3, 5]) if rng.random() < 0.7 else [rng.choice(alpha) for _ in range(rng.randint(0, 6))]
            post = [rng.choice(alpha) for _ in range(rng.randint(0, 3))]
            mid = needle if rng.random() < 0.75 else needle[:-1]
            h = (pre + mid + post)[:10]
            items.append(h if h else [alpha[0]])
        op = rng.choice([8, 8, 8, 6, 7, 0, 5])
        emit(kind, op, hx(needle), [hx(h) for h in items], rng.random() < 0.25)
        # and the same pairs the other way round (value = one haystack, items = needle variants)
        h = rng.choice(items)
        variants = [needle, needle[:-1] or needle, needle[1:] or needle, h, h[1:] or h, needle + [alpha[0]], [alpha[-1]] + needle, needle[::-1]]
        emit(kind, rng.choice([11, 11, 9, 10]), hx(h), [hx(v) for v in variants], rng.random() < 0.25)
    return out


def deep_archive_cases():
    """a valid leaf archive wrapped in many levels of kid nesting (a safe depth: the unbounded recursion itself is finding F5)"""
    out = []
    leaf = "w:0:%d;a:0:%s:i:05000000;a:0:%s:i:09000000" % (QF0, sx("min"), sx("max"))      # WhatCode [5, 9]
    msgs = "w:5:5;w:6:7;w:7:10"
    for depth in (1, 2, 3, 10, 50, 200, 400):
        for what, fn in ((QF0 + 15, "-"), (QF0 + 14, "-"), (QF0 + 16, "-"), (QF0 + 12, sx("m"))):
            out.append(("hostile-deep", "H|%s;%s;nk:0:%d:%d:%s;h:0" % (msgs, leaf, depth, what, fn)))
        # a broken innermost archive under many good levels: the whole thing must fail cleanly
        out.append(("hostile-deep", "H|%s;w:0:%d;nk:0:%d:%d:-;h:0" % (msgs, QF0 + 99, depth, QF0 + 15)))
    return out


def directed_cases():
    out = []
    msgs = []
    # register 0..3: one float/double/Point/Rect field "f" holding each special value at index 0..
    for i, v in enumerate(["0000c07f", "00000080", "0000807f", "000080ff", "00000000", "0000803f"]):
        pass
    base = []
    specials32 = ["0000c07f", "00000080", "00000000", "0000807f", "000080ff", "0000803f", "0000c0ff", "0100807f"]
    specials64 = ["000000000000f87f", "0000000000000080", "0000000000000000", "000000000000f07f", "000000000000f0ff", "000000000000f03f", "000000000000f8ff", "010000000000f07f"]
    for r in range(8):
        base.append("a:%d:%s:f:%s" % (r, sx("f"), specials32[r]))
        base.append("a:%d:%s:d:%s" % (r, sx("d"), specials64[r]))
        base.append("a:%d:%s:P:%s" % (r, sx("p"), specials32[r] + specials32[(r + 3) % 8]))
        base.append("a:%d:%s:R:%s" % (r, sx("q"), specials32[r] + specials32[(r + 1) % 8] + specials32[(r + 2) % 8] + "00000000"))
    b = ";".join(base)
    for op in range(0, 7):
        for v in specials32:
            out.append(("directed", "T|%s;fn:f:%s:0:%d:0:%s:00000000:-" % (b, sx("f"), op, v)))
            out.append(("directed", "T|%s;fn:f:%s:1:%d:0:%s:00000000:%s" % (b, sx("f"), op, "0000803f", v)))     # the assumed default is the special value
            out.append(("directed", "T|%s;fn:P:%s:0:%d:0:%s:0000000000000000:-" % (b, sx("p"), op, v + "00000000")))
            out.append(("directed", "T|%s;fn:P:%s:0:%d:0:%s:0000000000000000:-" % (b, sx("p"), op, "0000803f" + v)))
            out.append(("directed", "T|%s;fn:R:%s:0:%d:0:%s:%s:-" % (b, sx("q"), op, v + "000000000000000000000000", "00" * 16)))
        for v in specials64:
            out.append(("directed", "T|%s;fn:d:%s:0:%d:0:%s:0000000000000000:-" % (b, sx("d"), op, v)))
            out.append(("directed", "T|%s;fn:d:%s:3:%d:0:%s:0000000000000000:%s" % (b, sx("d"), op, "000000000000f03f", v)))
    # threshold boundaries: k children of which j match, every n around them
    for k in range(0, 5):
        for j in range(0, k + 1):
            kids = ["fw:0:0" if i < j else "fw:1:0" for i in range(k)]
            for n in (0, 1, 2, 3, 4, 5, NOLIM):
                for c in ("f&:%d:%d" % (n, k), "f~:%d:%d" % (n, k)):
                    out.append(("directed", "T|w:1:7;" + ";".join(kids + [c])))
            out.append(("directed", "T|w:1:7;" + ";".join(kids + ["f^:%d" % k])))
    return out


class CHECK(vlib.Check):
    prop = "C14"
    prop_file = "Properties_C14.v"
    model = ("Flt/FltExtract.v", "flt_driver.ml", "flt", ("ocommon.ml",))
    harness = dict(name="flt", src="flt_h.cpp", san="asan", link_lib=True)
    modelled = ("regex/QueryFilter.{h,cpp}, LexerToken.h, ISubexpressionFactory.h: Matches() of every filter class (WhatCode, ValueExists, the nine "
                "NumericQueryFilter instantiations incl. mask operations and assumed defaults, ChildCount and NodeName (with a DataNode), String "
                "with all 28 operators, RawData, Message, Minimum/MaximumThreshold with ThresholdMaxAux's early exits, Xor), Message::FindData's "
                "type switch, SaveToArchive/SetFromArchive of every class and the MuscleQueryFilterFactory, and CreateQueryFilterFromExpression "
                "(GetMatchingToken, the Lexer, CreateQueryFilterFromExpressionAux, GetValueStringType, ParseFieldNameAux, GetValueAs<T>, "
                "DefaultSubexpressionFactory), and the filter as a REUSED stateful object: StringQueryFilter's cached StringMatcher (DoMatch/FreeMatcher), "
                "SetFromArchive called on an existing, already evaluated object of every class, StringQueryFilter::SetOperator/SetValue.  IEEE-754 float/double comparison is modelled on the bit patterns and proved equal to Flocq's "
                "Bcompare.  Not modelled: NULL children of a MultiQueryFilter, empty (zero-length) ByteBuffers as RawData value/default, Strings "
                "with embedded NUL, RawData filters aimed at sub-Message/pointer fields (pointer bits), custom ISubexpressionFactory/QueryFilterFactory.")
    premises = ["memory safety of the C++ (observed under ASan/UBSan in the harness only); recursion depth of nested archives (F5)",
                "axioms: Print Assumptions reports every C14 theorem 'Closed under the global context'; coqchk -o additionally lists four standard-library axioms declared by libraries that Flocq (imported by Flt/FltIeee.v for the IEEE-754 link) loads and that no theorem here uses: Coq.Logic.FunctionalExtensionality.functional_extensionality_dep, Coq.Reals.ClassicalDedekindReals.sig_not_dec, Coq.Reals.ClassicalDedekindReals.sig_forall_dec, Coq.Logic.Classical_Prop.classic",
                "StringMatcher-backed string operators (wildcard / regex match) are a Section variable [smatch] of the evaluator: every theorem holds for any such function; the correspondence run instantiates it with property C15's StringMatcher model over its ERE engine",
                "libc atof (strtod) and the double->float conversion are Section variables of the expression-parser model (instantiated with OCaml's in the driver)",
                "domain: Strings NUL-free; a held ByteBuffer is non-empty; MultiQueryFilter children non-NULL; operand members within their C++ types (wf_filter)",
                "non-claim: a NULL child reference placed in a MultiQueryFilter through GetChildren() is tolerated by Matches() but dropped by SaveToArchive "
                "(And(NULL, x) decides 0, its restored copy decides x): outside the documented use, not represented in the model",
                "non-claim: a RawDataQueryFilter aimed at a sub-Message (or pointer) field compares the bytes of the MessageRef object (pointer bits): "
                "outside the documented use, the model answers false, generators never aim a raw filter at such a field"]
    rule = ("a case builds 8 Messages and a filter (constructors/setters; an object that is evaluated, then overwritten in place with SetFromArchive / "
            "SetOperator / SetValue, then evaluated again; the archive factory on a hostile or deeply nested Message; or "
            "CreateQueryFilterFromExpression, with the tree the documented grammar denotes built next to it); the filter is evaluated on all "
            "8 Messages directly, archived, sent through Flatten/Unflatten, restored and evaluated again; every line (tree read from the objects' "
            "private members, decisions, archive content, restored tree and decisions) is compared with the extracted model; the harness's own "
            "documented-semantics evaluator (native C++ comparisons on the decoded values), byte-identity of the Messages after Matches(), "
            "restored-decides-identically and expression-decides-as-denoted are the oracle.  A dedicated stream enumerates needle/haystack pairs over "
            "1-3 letter alphabets (incl. 0x00) for the infix/prefix/suffix operators (the oracle uses std::search / std::string::find).  Non-trivial = at least two filter nodes, or a "
            "float/double/Point/Rect comparison, or an archive/expression construction, and at least one non-empty Message.")

    def build(self):
        """the generic build; the model's extraction is retried when another check recompiled Gen/Consts.vo between
        the make of its dependencies and the extraction itself (seen as "inconsistent assumptions over library")"""
        impl = vlib.build_harness(**self.harness)
        last = None
        for attempt in range(4):
            try:
                return impl, vlib.build_model(*self.model)
            except RuntimeError as ex:
                last = ex
                if "inconsistent assumptions" not in str(ex):
                    raise
                vlib.log("[C14] extraction raced with another check's rebuild of Gen/Consts.vo; retrying (%d)" % (attempt + 1))
        raise last

    def gen_cases(self, rng, tier):
        n = 900 if tier == "quick" else 12000
        out = []
        for i in range(n):
            out.append(("tree", gen_tree_case(rng, rng.choice([0, 1, 1, 2, 2, 3]), regex_ok=True)))
        for i in range(n // 3):
            out.append(("hostile", gen_hostile_case(rng, rng.choice([1, 2, 3, 5]))))
            out.append(("hostile-mutated", gen_mutated_archive_case(rng)))
        for i in range(n // 2):
            out.append(("reuse", gen_reuse_case(rng)))
        for i in range(n // 2):
            out.append(("expr", gen_expr_case(rng, set(), regex_ok=True)))
        for i in range(n // 8):
            out.append(("expr-index-default", gen_expr_case(rng, set(["idx", "def"]))))
            out.append(("expr-synonym-in-name", gen_expr_case(rng, set(["syn"]))))
        out += search_cases(rng, tier)
        out += directed_cases()
        out += deep_archive_cases()
        return out

    def nontrivial(self, case):
        body = case.split("|", 1)[1]
        nf = sum(1 for o in body.split(";") if o.startswith("f") or o.startswith("h:") or o.startswith("e:") or o in ("ev", "sfa"))
        fl = any(o.startswith("fn:f") or o.startswith("fn:d") or o.startswith("fn:P") or o.startswith("fn:R") for o in body.split(";"))
        return (nf >= 2 or fl or "h:" in body) and ("a:" in body)

    def distribution(self, sc):
        d = {}
        for s, c in sc:
            d["stream:" + s] = d.get("stream:" + s, 0) + 1
            for o in c.split("|", 1)[1].split(";"):
                a = o.split(":")
                k = a[0]
                if k == "fn":
                    k = "fn:" + a[1]
                    if a[6] in F32_SPECIAL or a[8] in F32_SPECIAL:
                        d["float-special-operand"] = d.get("float-special-operand", 0) + 1
                if k in ("a", "w", "am"):
                    k = "msg-op"
                d["op:" + k] = d.get("op:" + k, 0) + 1
        return d
