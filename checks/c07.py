"""C07 -- one client's traffic can never hang or crash the server
(reflector/StorageReflectSession.cpp, ReflectServer.cpp, regex/PathMatcher.cpp, StringMatcher.cpp, QueryFilter.cpp).

Case grammar: see harness/bounded_h.cpp.  Two kinds of cases:
  M|...  modelled stream: multi-client histories over the commands of the Coq model (Refl/Server.v + Refl/Bounded.v):
         data / subscription commands, PING, NOOP, bounced codes, JETTISONRESULTS, JETTISONDATATREES, GETDATATREES, BATCH
         (also deeply nested), clients that stop and resume reading.  After EVERY op the Messages each client received, the
         outgoing queue of every non-reading session (read in-process), the tree with its subscriber tables and the
         subscription entries are compared with the extracted model.
  F|...  flood stream (oracle and sanitizers only): arbitrary structurally valid Messages -- any what-code, reserved field
         names with right and wrong types, degenerate and hostile patterns, archived query filters of any shape, deep
         nesting -- sent by hostile clients, partly while they do not read.
In both streams the property's own statement is evaluated after every op: the witness (client 0) sends a PING and must
get its PONG back within a fixed number of event-loop turns; a handler that does not return trips the watchdog (20 s); an op
that burns more than 2 s of process CPU time (ordinary ops: < 0.1 s) or whose malloc() calls add up to more than 32 MB (ordinary
ops: < 1 MB; counted with the sanitizer's malloc hook, independent of the machine's load) is reported as a slow handler /
resource hog.
Known finding F60 (regcomp bomb) is re-confirmed by a calibrated small bomb in the quick tier and by the full-size one in the
thorough tier (see BOMB_* below).
"""
import os, re
import vlib

NAMES = ["a", "b", "ab", "ac", "ba", "c", "abc"]
LASTCL = ["*", "*", "a*", "*b", "a", "ab", "a,b", "?b", "b*", "a?", "ab,ac", "c", "*c", "a,ab,abc", "b"]
FILTERS = ["g2", "l5", "e3", "x", "g5", "l2", "g-1"]
MAXES = [0, 1, 2, 3, 4, 50, -1, 1, 2]
UNIMPL = [0, 18, 21, 22, 27, 32, 33]          # offsets from BEGIN_PR_COMMANDS the server bounces as unimplemented
DENIED = [10, 11, 12, 16, 17]                  # KICK, ADDBANS, REMOVEBANS, ADDREQUIRES, REMOVEREQUIRES (no privilege)
IDS = ["t1", "t2", "ab", "q", "#42", "#7"]
IDPATS = ["t1", "t*", "*", "t?", "ab,q", "zz", "q"]


def hexs(s):
    return s.encode("utf8", "surrogateescape").hex() if isinstance(s, str) else bytes(s).hex()


# ------------------------------------------------------------------------------------------- modelled stream

class Gen:
    """Histories for the modelled stream.  Restrictions that keep the three candidate repairs of C04 (F12/F14/F15, see
    Refl/Server.v [fixes]) unobservable, so that the same cases agree with the code before and after them: within one key
    list all patterns of equal clause count share every clause but the last; the filter of an existing subscription is
    never changed."""

    def __init__(self, rng):
        self.rng = rng
        self.n = 0
        self.alive = []
        self.blocked = set()
        self.subs = {}      # session -> {pattern: filter}
        self.paths = {}     # session -> relative paths it has set
        self.ping = 0
        self.subpre = {}    # session -> its per-group shared prefix
        # The order in which the subscribers of one node are notified is the iteration order of a pooled immutable table
        # (util/ImmutableHashtablePool.h), which the model does not have; it is observable only when a max-items flush of
        # one subscriber pushes another subscriber's half-built update.  So: either one subscriber (which may change its
        # max-items), or several subscribers that all keep the default of 50 (never reached by these histories).
        self.single = rng.random() < 0.5
        self.subscriber = None

    def attach(self):
        k = self.n
        self.n += 1
        self.alive.append(k)
        self.subs[k] = {}
        self.paths[k] = []
        return "a"

    def relpath(self):
        rng = self.rng
        return "/".join(rng.choice(NAMES) for _ in range(rng.choice([1, 1, 1, 2, 2, 3])))

    def keylist(self, prefixes=None, relative_root=False, nmax=3):
        """patterns of one key list; all patterns with the same number of clauses share every clause but the last
        ([prefixes]: clause count -> the shared prefix text; pass a session's own map for its subscriptions)"""
        rng = self.rng
        if prefixes is None:
            prefixes = {}
        out = []
        for _ in range(rng.choice([1, 1, 1, 2, 2, 3][:nmax + 3])):
            if relative_root:                      # REMOVEDATA: relative to the session node
                g = rng.choice([1, 1, 1, 2, 2, 3])
                if g not in prefixes:
                    prefixes[g] = "".join(rng.choice(["*", "a", "a*", "b", "*"]) + "/" for _ in range(g - 1))
                last = rng.choice(LASTCL)
            else:
                g = rng.choice([3, 3, 3, 3, 4, 4, 5, 2, 1])
                if g not in prefixes:
                    if g <= 2:
                        prefixes[g] = "/" if g == 1 else rng.choice(["/H/", "/*/"])
                    else:
                        mid = "".join(rng.choice(["*", "a", "a*", "b", "*"]) + "/" for _ in range(g - 3))
                        if rng.random() < 0.3:
                            prefixes[g] = "/%s/%s/" % (rng.choice(["*", "H", "*"]), rng.choice(["*", "*", str(rng.randrange(max(1, self.n)))])) + mid
                        else:
                            prefixes[g] = mid          # DEFAULT_PATH_PREFIX "*/*" is prepended by the server
                if g == 1:
                    last = rng.choice(["*", "H", "*"])
                elif g == 2:
                    last = rng.choice(["*", "*", str(rng.randrange(max(1, self.n))), "0,1"])
                else:
                    last = rng.choice(LASTCL)
            p = prefixes[g] + last
            if p not in out:
                out.append(p)
        return out

    def with_filter(self, p, prob):
        return p + ("@" + self.rng.choice(FILTERS) if self.rng.random() < prob else "")

    def sub_cmd(self, k, sep):
        rng = self.rng
        have = self.subs[k]
        ps = []
        for p in self.keylist(self.subpre.setdefault(k, {})):
            if p in have:
                ps.append(p + (("@" + have[p]) if have[p] else ""))     # repeat with the SAME filter
            else:
                q = self.with_filter(p, 0.35)
                have[p] = q.split("@")[1] if "@" in q else ""
                ps.append(q)
        q = 1 if rng.random() < 0.15 else 0
        return ("p:%d:%d:%s" % (k, q, "&".join(ps))) if sep == ":" else ("p~%d~%s" % (q, "&".join(ps)))

    def unsub_cmd(self, k, sep):
        rng = self.rng
        have = self.subs[k]
        ps = []
        for _ in range(rng.choice([1, 1, 2])):
            if have and rng.random() < 0.85:
                p = rng.choice(sorted(have))
                del have[p]
            else:
                p = self.keylist(self.subpre.setdefault(k, {}), nmax=1)[0]
                have.pop(p, None)
            if p not in ps:
                ps.append(p)
        return ("u:%d:%s" % (k, "&".join(ps))) if sep == ":" else ("u~%s" % "&".join(ps))

    def set_cmd(self, k, sep):
        rng = self.rng
        known = self.paths[k]
        items, order, by = [], [], {}
        for _ in range(rng.choice([1, 1, 1, 2, 3, 5])):
            p = rng.choice(known) if (known and rng.random() < 0.5) else self.relpath()
            if p not in known:
                known.append(p)
            if p not in by:
                by[p] = []
                order.append(p)
            elif not self.single:
                continue      # several subscribers: a node set twice in one Message can leave a filter after entering it, which
                              # forces a flush whose effect on the OTHER subscribers depends on the unmodelled notification order
            by[p].append("%s=%d" % (p, rng.randrange(0, 10)))
        items = [it for p in order for it in by[p]]
        fl = rng.choice([0, 0, 0, 0, 0, 1, 2, 3]) | (4 if rng.random() < 0.08 else 0) | (16 if rng.random() < 0.35 else 0)
        return ("s:%d:%d:%s" % (k, fl, "&".join(items))) if sep == ":" else ("s~%d~%s" % (fl, "&".join(items)))

    def rem_cmd(self, k, sep):
        rng = self.rng
        ps = [self.with_filter(p, 0.15) for p in self.keylist(relative_root=True, nmax=2)]
        q = 1 if rng.random() < 0.1 else 0
        return ("r:%d:%d:%s" % (k, q, "&".join(ps))) if sep == ":" else ("r~%d~%s" % (q, "&".join(ps)))

    def keys_arg(self, fprob):
        return "&".join(self.with_filter(p, fprob) for p in self.keylist())

    def simple_cmd(self, k, sep=":"):
        """one non-batch command of session k"""
        rng = self.rng
        r = rng.random()
        j = lambda *a: (a[0] + ":%d:" % k + ":".join(a[1:])).rstrip(":") if sep == ":" else "~".join(a)
        if r < 0.22:
            return self.set_cmd(k, sep)
        if r < 0.30:
            return self.rem_cmd(k, sep)
        if self.single and self.subscriber is None and r < 0.53:
            self.subscriber = k
        may_sub = (not self.single) or (k == self.subscriber)
        if r < 0.42 and may_sub:
            return self.sub_cmd(k, sep)
        if r < 0.47 and may_sub:
            return self.unsub_cmd(k, sep)
        if r < 0.51 and may_sub and self.single:
            return j("m", str(rng.choice(MAXES)))
        if r < 0.53 and may_sub and self.single:
            return ("um:%d" % k) if sep == ":" else "um"
        if r < 0.65:
            return j("g", self.keys_arg(0.3))
        if r < 0.71:
            self.ping += 1
            return j("pi", str(self.ping))
        if r < 0.73:
            return ("no:%d" % k) if sep == ":" else "no"
        if r < 0.76:
            return j("un", str(rng.choice(UNIMPL)))
        if r < 0.78:
            return j("dn", str(rng.choice(DENIED)))
        if r < 0.90:
            return j("jr", "-" if rng.random() < 0.15 else self.keys_arg(0.5))
        if r < 0.94:
            rr = rng.random()
            return j("jt", "-" if rr < 0.2 else ("#42" if rr < 0.3 else "&".join(rng.choice(IDPATS) for _ in range(rng.choice([1, 1, 2])))))
        return j("gt", rng.choice(IDS + ["-"]), self.keys_arg(0.2))

    def op(self):
        rng = self.rng
        r = rng.random()
        if r < 0.05 and self.n < 5:
            return self.attach()
        others = [x for x in self.alive if x != 0]
        if r < 0.08 and len(others) > 1:
            k = rng.choice(others)
            self.alive.remove(k)
            self.blocked.discard(k)
            return "d:%d" % k
        if r < 0.16 and others:
            k = rng.choice(others)
            if k in self.blocked:
                self.blocked.discard(k)
                return "x:%d:0" % k
            self.blocked.add(k)
            return "x:%d:1" % k
        # hostile (non-reading) sessions talk more
        pool = self.alive + [x for x in self.alive if x in self.blocked] * 3
        k = rng.choice(pool)
        if r < 0.40:
            subs = [self.simple_cmd(k, "~") for _ in range(rng.choice([1, 2, 2, 3, 4]))]
            return "b:%d:%s" % (k, "+".join(subs))
        if r < 0.42:
            return "nb:%d:%d:%s" % (k, rng.choice([1, 2, 3, 99, 100, 101, 102]), self.simple_cmd(k, "~"))
        return self.simple_cmd(k)

    def case(self, nops, nstart):
        ops = [self.attach() for _ in range(nstart)]
        # data to talk about, owned by the witness and by others
        for k in self.alive:
            if self.rng.random() < 0.8:
                ops.append(self.set_cmd(k, ":"))
        ops += [self.op() for _ in range(nops)]
        return ";".join(ops)


DIRECTED_M = [
    # F4: two queued replies, then a jettison with a filter (the second GETDATA reply sits at queue index 1, its field has 1 value)
    "a;a;s:0:0:a=1&b=2;b:1:g~a+g~b+jr~a@g0&b@g0",
    "a;a;s:0:0:a=1&b=2;x:1:1;g:1:a;g:1:b;jr:1:*@x;x:1:0",
    # jettison without / with keys, without filters; removed-items strings; everything
    "a;a;p:1:0:*;s:0:0:a=1&b=2&c=3;x:1:1;s:0:0:a=4;r:0:0:b;s:0:0:c=5;jr:1:a;jr:1:b,c;jr:1:-;x:1:0",
    "a;a;p:1:0:*;x:1:1;s:0:0:a=1&b=2;r:0:0:a;s:0:0:a=3;r:0:0:*;jr:1:a;jr:1:*;x:1:0",
    # several values under one field name (a node set twice inside one update), filters selecting some of them
    "a;a;p:1:0:*;m:1:50;x:1:1;b:0:s~0~a=1+s~0~a=7+s~0~a=2+s~0~b=9;jr:1:a@g5;jr:1:a@l2;jr:1:*@g0;x:1:0",
    "a;a;p:1:0:*;x:1:1;b:0:s~0~a=1+s~0~a=7+s~0~a=2;b:0:s~0~a=8+s~0~a=0+s~0~a=9;b:0:s~0~a=3+s~0~a=6;jr:1:a@g5;x:1:0",
    # data trees: ids, patterns, none
    "a;a;s:0:0:a=1&a/b=2;x:1:1;gt:1:t1:a;gt:1:t2:*;gt:1:-:a/*;gt:1:ab:zz;jt:1:t1;jt:1:-;jt:1:t*&ab;x:1:0",
    # request ids of the wrong type: the reply is untagged, a wrong-typed jettison id is "no id"; patterns meet untagged / tagged replies
    "a;a;s:0:0:a=1;x:1:1;gt:1:#42:a;gt:1:t1:a;gt:1:-:a;jt:1:4*;jt:1:*;jt:1:#42;x:1:0;b:1:gt~#7~*+gt~q~*+jt~q+jt~#7",
    # ping / noop / bounced codes, also inside a batch and for a non-reading client
    "a;a;pi:1:1;no:1;un:1:18;un:1:0;un:1:33;dn:1:10;dn:1:17;x:1:1;b:1:pi~2+un~21+dn~11+no+pi~3;x:1:0",
    # batch nesting cap
    "a;a;s:0:0:a=1;nb:1:99:g~a;nb:1:100:g~a;nb:1:101:g~a;nb:1:102:pi~5;nb:1:100:pi~6",
    # a non-reading subscriber while nodes come and go; then it leaves with a full queue
    "a;a;a;p:1:0:*&*/*;x:1:1;s:0:0:a=1&a/b=2;s:2:0:c=3;r:0:0:a;d:2;jr:1:a/b;d:1",
    # ENABLESUPERCEDE: the scan of the subscriber's outgoing queue (most recent update of the node goes, emptied Messages leave),
    # the pending Message pruned first (same node twice in one SETDATA), filters, creation, a reading subscriber
    "a;a;p:1:0:*;x:1:1;s:0:0:a=1;s:0:16:a=2;s:0:16:a=3;s:0:0:b=1;s:0:16:a=4&b=5;s:0:16:b=6;x:1:0",
    "a;a;p:1:0:*;m:1:50;x:1:1;s:0:0:a=1&b=2;s:0:0:a=3&c=4;s:0:16:a=5;s:0:16:a=6&a=7&a=8;s:0:16:c=9;jr:1:b;s:0:16:b=1;x:1:0",
    "a;a;a;p:1:0:*@g3;p:2:0:*;x:1:1;s:0:16:a=5;s:0:16:a=7;s:0:16:a=1;s:0:16:a=9;s:0:18:a=4;s:0:17:zz=1;s:0:16:zz/y=1;s:0:16:zz/y=2;x:1:0",
    "a;a;p:1:0:*&*/*;x:1:1;s:0:16:a/b=1;s:0:16:a/b=2;r:0:0:a;s:0:16:a/b=3;s:0:16:a=4;s:0:20:a=5;b:0:s~16~a=6+s~16~a=7+g~a;x:1:0",
    # max items 1: many small Messages in the queue
    "a;a;p:1:0:*;m:1:1;x:1:1;s:0:0:a=1&b=2&c=3;s:0:0:a=4&b=5;jr:1:b;jr:1:a@g3;x:1:0",
]


# ------------------------------------------------------------------------------------------- flood stream

def pr_names(repo):
    txt = open(os.path.join(repo, "reflector", "StorageReflectConstants.h")).read()
    names = re.findall(r'#define\s+(PR_NAME_[A-Z_0-9]+)\s+"([^"]*)"', txt)
    return dict(names)


DEGENERATE = ["", "`", "~", "<>", "<5-", "\\", "[", "(", "a[", "(a", "a)", "*(", "`[", "`(", "~`", "<", "<->", "<,>", "<1-2,", "`*", "``",
              "~<1-2>", "\\<", "<9999999999-1>", "a{1", "a{1,", "+", "?", "|", "^", "$", "`^$", "`a|", "[]", "[^]", "[a-", "[[:alpha:]",
              "<-5>", "<5->", "<5>", "~~", ",", ",,", "a,", ",a", "`\\", "a\\", "((((((((((", "*" * 40, "?" * 30 + "*"]
ORDINARY = ["a", "b", "ab", "a*", "*b", "a,b", "?b", "abc", "x1", "<1-5>", "~a", "a?c"]


class Flood:
    def __init__(self, rng, names):
        self.rng = rng
        self.N = names
        self.reserved = sorted(names.values())
        self.qf_fields = ["fn", "idx", "op", "val", "min", "max", "type", "kid", "msk", "mop", "def", "defmsg", "what", "child"]

    def clause(self, hostile):
        rng = self.rng
        if hostile and rng.random() < 0.6:
            return rng.choice(DEGENERATE)
        return rng.choice(ORDINARY + NAMES)

    def pattern(self, hostile):
        rng = self.rng
        n = rng.choice([1, 1, 1, 2, 2, 3, 4])
        p = "/".join(self.clause(hostile) for _ in range(n))
        r = rng.random()
        if r < 0.2:
            p = "/" + p
        elif r < 0.3:
            p = "/*/*/" + p
        elif r < 0.33:
            p = "//" + p + "/"
        return p

    def fld(self, name, ty, vals):
        return "(%s,%s%s)" % (hexs(name), ty, "".join("," + v for v in vals))

    def strs(self, name, ss):
        return self.fld(name, "s", [hexs(s) for s in ss])

    def scalar_field(self, name):
        rng = self.rng
        ty = rng.choice("ilbyhfdrpe")
        n = rng.choice([1, 1, 2, 3])
        if ty == "r":
            vals = [hexs(bytes(rng.randrange(256) for _ in range(rng.choice([0, 1, 4, 9])))) for _ in range(n)]
        elif ty == "b":
            vals = [str(rng.randrange(2)) for _ in range(n)]
        elif ty in "fdpe":
            vals = [rng.choice(["0", "1.5", "-3", "1e30", "nan", "inf"]) for _ in range(n)]
        else:
            vals = [str(rng.choice([0, 1, -1, 2, 50, 127, -128, 255, 32767, 65536, 2147483647, -2147483648, 7])) for _ in range(n)]
        return self.fld(name, ty, vals)

    def filter_msg(self, depth=0):
        """an archived QueryFilter of any shape: right and wrong what-codes, right and wrong field types, nesting"""
        rng = self.rng
        base = 1902537776      # QUERY_FILTER_TYPE_WHATCODE = 'qfl0'
        r = rng.random()
        if r < 0.08:
            what = rng.choice([0, 1, base - 1, base + 40, 4294967295])
        else:
            what = base + rng.randrange(0, 20)
        fs = []
        for _ in range(rng.choice([0, 1, 2, 3, 4, 6])):
            name = rng.choice(self.qf_fields)
            rr = rng.random()
            if name in ("kid", "defmsg", "child") and depth < 4 and rr < 0.7:
                fs.append("(%s,m%s)" % (hexs(name), "".join("," + self.filter_msg(depth + 1) for _ in range(rng.choice([1, 1, 2, 3])))))
            elif name in ("fn", "val") and rr < 0.6:
                fs.append(self.strs(name, [rng.choice(["v", "", "nope", self.clause(True)])]))
            elif rr < 0.5:
                fs.append(self.fld(name, "i", [str(rng.choice([0, 1, 2, 3, 5, 6, 7, -1, 255, 2147483647, -2147483648]))]))
            elif rr < 0.6:
                fs.append(self.fld(name, "y", [str(rng.choice([0, 1, 2, 5, 6, 7, -1]))]))
            else:
                fs.append(self.scalar_field(name))
        return "{%d%s}" % (what, "".join("," + f for f in fs))

    def data_msg(self):
        rng = self.rng
        fs = []
        if rng.random() < 0.8:
            fs.append(self.fld("v", "i", [str(rng.randrange(10))]))
        for _ in range(rng.choice([0, 0, 1, 2])):
            fs.append(self.scalar_field(rng.choice(["v", "w", "", "fn"])))
        return "{0%s}" % "".join("," + f for f in fs)

    def message(self, hostile, depth=0):
        """one structurally valid Message for a StorageReflectSession"""
        rng = self.rng
        N = self.N
        r = rng.random()
        if r < 0.80:
            off = rng.choice([1, 1, 1, 2, 3, 3, 4, 4, 4, 5, 5, 5, 6, 6, 7, 7, 7, 8, 9, 10, 11, 12, 13, 13, 14, 15, 16, 17, 18, 19, 19, 20, 20, 21, 33, 0])
            what = "c%d" % off
        elif r < 0.9:
            what = str(rng.choice([0, 1, 1234, 558916399, 558916434, 558920242, 558920245, 4294967295, 1886680168]))
            off = -1
        else:
            what = str(rng.randrange(0, 2 ** 32))
            off = -1
        fs = []
        nkeys = rng.choice([0, 1, 1, 2, 3])
        if off == 13 and depth < 3:     # BATCH
            subs = [self.message(hostile, depth + 1) for _ in range(rng.choice([1, 2, 3, 5]))]
            fs.append("(%s,m%s)" % (hexs(N["PR_NAME_KEYS"]), "".join("," + s for s in subs)))
        elif rng.random() < 0.85:
            if rng.random() < 0.9:
                if nkeys:
                    fs.append(self.strs(N["PR_NAME_KEYS"], [self.pattern(hostile) for _ in range(nkeys)]))
            else:
                fs.append(self.scalar_field(N["PR_NAME_KEYS"]))          # wrong type
            if rng.random() < 0.6:
                nf = rng.choice([0, 1, nkeys, nkeys + 1])
                if nf:
                    if rng.random() < 0.9:
                        fs.append("(%s,m%s)" % (hexs(N["PR_NAME_FILTERS"]), "".join("," + (self.filter_msg() if rng.random() < 0.85 else "{0}") for _ in range(nf))))
                    else:
                        fs.append(self.strs(N["PR_NAME_FILTERS"], ["x"]))  # wrong type
        # fields the SETPARAMETERS / SETDATA / REORDER / INSERT handlers iterate over
        for _ in range(rng.choice([0, 1, 1, 2, 3, 5])):
            rr = rng.random()
            if rr < 0.35:
                name = "SUBSCRIBE:" + self.pattern(hostile)
                kind = rng.random()
                if kind < 0.4:
                    fs.append(self.fld(name, "b", ["1"]))
                elif kind < 0.8:
                    fs.append("(%s,m,%s)" % (hexs(name), self.filter_msg()))
                else:
                    fs.append(self.scalar_field(name))
            elif rr < 0.6:
                name = "/".join(rng.choice(NAMES + ["", "*", "..", "a" * 30]) for _ in range(rng.choice([1, 1, 2, 3, 6])))
                if rng.random() < 0.15:
                    name = "/".join(["d"] * rng.choice([99, 100, 101, 120]))
                fs.append("(%s,m%s)" % (hexs(name), "".join("," + self.data_msg() for _ in range(rng.choice([1, 1, 2, 3])))))
            elif rr < 0.8:
                name = rng.choice(self.reserved)
                kind = rng.random()
                if kind < 0.35:
                    fs.append(self.fld(name, "i", [str(rng.choice([0, 1, 2, -1, 3, 9, 50, 2147483647, -2147483648, 31, 63]))]))
                elif kind < 0.5:
                    fs.append(self.fld(name, "b", ["1"]))
                elif kind < 0.7:
                    fs.append(self.strs(name, [self.pattern(hostile) for _ in range(rng.choice([1, 2]))]))
                elif kind < 0.85:
                    fs.append("(%s,m,%s)" % (hexs(name), self.filter_msg()))
                else:
                    fs.append(self.scalar_field(name))
            else:
                # REORDERDATA / index fields: string valued arbitrary names
                fs.append(self.strs(self.pattern(hostile), [rng.choice(NAMES + ["", "I0", self.clause(hostile)])]))
        # one field per name: drop later duplicates
        seen, out = set(), []
        for f in fs:
            nm = f[1:].split(",", 1)[0]
            if nm in seen:
                continue
            seen.add(nm)
            out.append(f)
        return "{%s%s}" % (what, "".join("," + f for f in out))

    def case(self, nops):
        rng = self.rng
        ops = ["a", "a", "a"]
        nsess = 3
        blocked = set()
        # ordinary traffic first: populates the matcher / queue / message pools
        ops += ["s:0:0:a=1&b=2&a/b=3", "s:1:0:a=4&c=5", "p:2:0:*&a*/b", "g:1:a,b&*/b", "p:1:0:ab&<1-5>", "u:1:ab", "g:2:/*/*/a?c&x1", "r:2:0:zz"]
        for i in range(nops):
            r = rng.random()
            hostile = rng.choice([1, 2]) if nsess <= 3 else rng.randrange(1, nsess)
            if r < 0.04 and nsess < 6:
                ops.append("a"); nsess += 1
            elif r < 0.10:
                if hostile in blocked:
                    blocked.discard(hostile); ops.append("x:%d:0" % hostile)
                else:
                    blocked.add(hostile); ops.append("x:%d:1" % hostile)
            elif r < 0.20:
                # the witness works on its own data: node creation at the depths hostile patterns talk about
                p = "/".join(rng.choice(NAMES + ["1", "3", "x1"]) for _ in range(rng.choice([1, 1, 2, 3])))
                ops.append("s:0:0:%s=%d" % (p, rng.randrange(10)))
            elif r < 0.24:
                ops.append("r:0:0:%s" % rng.choice(["*", "a", "*/*", "a*"]))
            elif r < 0.26:
                ops.append("g:0:*&*/*")
            elif r < 0.27 and nsess > 3:
                ops.append("d:%d" % rng.randrange(3, nsess))
            else:
                ops.append("M:%d:%s" % (hostile, self.message(True)))
        return ";".join(ops)


# ---- systematic streams (deterministic; no rng): every command x every reserved field name x wrong types, and the
#      command pairs that meet in the sender's own outgoing queue

def _f(name, ty, *vals):
    return "(%s,%s%s)" % (hexs(name), ty, "".join("," + v for v in vals))


def _msg(what, *fields):
    return "{%s%s}" % (what, "".join("," + f for f in fields))


# (type letter, values): right and wrong types, empty values, several values
TYPED_VALUES = [("i", ["42"]), ("s", [hexs("4*")]), ("l", ["-1"]), ("m", ["{0}"]), ("b", ["1"]), ("s", [""]), ("y", ["7"]),
                ("s", [hexs("*"), hexs("42")]), ("h", ["-3"]), ("m", ["{0,(76,i,3)}", "{1902537776}"]), ("f", ["1.5"]),
                ("r", [hexs("\x00\x01")]), ("d", ["nan"]), ("i", ["1", "2", "3"]), ("p", ["1"]), ("e", ["2"]), ("r", [""])]


def typed_matrix_cases(names, variants=3):
    """every what-code of the command range (and one outside) x every reserved PR_NAME_* x three of the typed values above
    (rotating, so that every (name, typed value) and (command, typed value) pair occurs); the sender does not read during
    the first half of each case, so that replies are queued when the JETTISON* / later commands arrive"""
    K = names["PR_NAME_KEYS"]
    reserved = [v for k, v in sorted(names.items()) if k != "PR_NAME_SUBSCRIBE_PREFIX"] + ["SUBSCRIBE:*", "SUBSCRIBE:a/b"]
    whats = ["c%d" % o for o in range(0, 34)] + ["1234"]
    cases = []
    for ni, nm in enumerate(reserved):
        for j in range(variants):
            ops = ["a", "a", "a", "s:0:0:a=1&b=2", "s:2:0:c=3&a/b=4", "p:2:0:*", "x:1:1"]
            for ci, w in enumerate(whats):
                ty, vals = TYPED_VALUES[(ci * 7 + ni * 3 + j * 5) % len(TYPED_VALUES)]
                fields = [_f(nm, ty, *vals)]
                if nm != K:
                    fields.append(_f(K, "s", hexs("*")))
                ops.append("M:1:" + _msg(w, *fields))
                if ci == len(whats) // 2:
                    ops += ["s:0:0:a=%d" % (ni % 10), "x:1:0", "x:1:1"]
            ops += ["s:0:0:zz/y=1", "x:1:0", "r:0:0:zz"]
            cases.append(";".join(ops))
    return cases


def queue_pair_cases(names, full=True):
    """a reply-producing command followed by a queue-editing command of the SAME client, with matching / non-matching / wildcard /
    wrong-typed / empty / missing request ids and keys, (1) inside one PR_COMMAND_BATCH, (2) across reads while the client does
    not drain its replies, (3) twice over in one batch"""
    K, F, T = names["PR_NAME_KEYS"], names["PR_NAME_FILTERS"], names["PR_NAME_TREE_REQUEST_ID"]
    keys = _f(K, "s", hexs("*"))
    idv = [None] + [_f(T, ty, *vals) for ty, vals in TYPED_VALUES] + [_f(T, "s", hexs("t1")), _f(T, "s", hexs("42"))]
    gets = []
    for iv in idv:
        gets.append(_msg("c19", *([iv] if iv else []), keys))                       # GETDATATREES
    for iv in idv[:6]:
        gets.append(_msg("c5", *([iv] if iv else []), keys))                        # GETDATA
        gets.append(_msg("c1", *([iv] if iv else []), _f("SUBSCRIBE:*", "b", "1")))  # SETPARAMETERS (initial values)
        gets.append(_msg("c2", *([iv] if iv else [])))                              # GETPARAMETERS
        gets.append(_msg("c9", *([iv] if iv else [])))                              # PING
        gets.append(_msg("c19", *([iv] if iv else [])))                             # GETDATATREES without keys
    jv = [None, _f(T, "s", hexs("4*")), _f(T, "s", hexs("*")), _f(T, "s", hexs("42")), _f(T, "s", hexs("t?")), _f(T, "s", hexs("<1-50>")),
          _f(T, "s", hexs("zz")), _f(T, "s", ""), _f(T, "s", hexs("t1"), hexs("4*")), _f(T, "i", "42"), _f(T, "m", "{0}"), _f(T, "s", hexs("`")),
          _f(T, "s", hexs("["))]
    jets = [_msg("c20", *([v] if v else [])) for v in jv]                            # JETTISONDATATREES
    jets += [_msg("c7", keys), _msg("c7"), _msg("c7", _f(K, "i", "1")), _msg("c7", keys, _f(F, "m", "{1902537777,(6669,s,76)}")),
             _msg("c7", keys, _f(T, "s", hexs("4*"))), _msg("c7", _f(K, "s", ""))]  # JETTISONRESULTS
    pre = ["a", "a", "a", "s:0:0:a=1&b=2", "s:2:0:c=3&a/b=4"]
    cases, ops, n = [], list(pre), 0
    ntree = len(idv)          # the GETDATATREES-with-keys requests come first: always paired with every jettison
    for gi, g in enumerate(gets):
        for ji, j in enumerate(jets):
            if not full and gi >= ntree and (gi + ji) % 4 != 0:
                continue
            mode = (gi + ji) % 3
            if mode == 0:
                ops.append("M:1:" + _msg("c13", "(%s,m,%s,%s)" % (hexs(K), g, j)))
            elif mode == 1:
                ops += ["x:1:1", "M:1:" + g, "M:1:" + j, "x:1:0"]
            else:
                ops += ["x:1:1", "M:1:" + _msg("c13", "(%s,m,%s,%s,%s,%s)" % (hexs(K), g, g, j, j)), "s:0:0:a=%d" % (n % 10), "M:1:" + j, "x:1:0"]
            n += 1
            if n % 12 == 0:
                cases.append(";".join(ops))
                ops = list(pre)
    if len(ops) > len(pre):
        cases.append(";".join(ops))
    return cases


def directed_flood(names):
    K, F, TR = names["PR_NAME_KEYS"], names["PR_NAME_FILTERS"], names["PR_NAME_TREE_REQUEST_ID"]
    out = []
    pre = "a;a;a;s:0:0:a=1;p:1:0:a&b&ab;u:1:a&b&ab;g:1:a,b&x1;g:2:abc&a*"
    # degenerate clause in every place a pattern is compiled, after ordinary traffic, then the witness creates / changes / removes nodes
    for d in DEGENERATE:
        sub = "M:1:{c1,(%s,b,1)}" % hexs("SUBSCRIBE:" + d)
        get = "M:2:{c5,(%s,s,%s)}" % (hexs(K), hexs(d))
        rem = "M:2:{c6,(%s,s,%s)}" % (hexs(K), hexs(d))
        jet = "M:2:{c7,(%s,s,%s)}" % (hexs(K), hexs(d))
        jtr = "M:2:{c20,(%s,s,%s)}" % (hexs(TR), hexs(d))
        rpm = "M:1:{c3,(%s,s,%s)}" % (hexs(K), hexs(d))
        usr = "M:2:{1234,(%s,s,%s)}" % (hexs(K), hexs(d))
        out.append(";".join([pre, sub, "s:0:0:x=1&y=2&3=3", get, "s:2:0:q=1", rem, jet, jtr, usr, "s:0:0:x=2", rpm, "r:0:0:x", "s:0:0:z/x=1"]))
    # deep filter nesting, deep batch nesting, deep node paths
    deep = "{1902537776}"
    for _ in range(60):
        deep = "{1902537789,(%s,m,%s)}" % (hexs("kid"), deep)
    out.append(pre + ";M:1:{c5,(%s,s,%s),(%s,m,%s)};s:0:0:n=1" % (hexs(K), hexs("*"), hexs(F), deep))
    nest = "{c9}"
    for _ in range(150):
        nest = "{c13,(%s,m,%s)}" % (hexs(K), nest)
    out.append(pre + ";M:1:%s;s:0:0:n=1" % nest)
    out.append(pre + ";M:1:{c4,(%s,m,{0})};s:0:0:n=1;M:1:{c6,(%s,s,%s)}" % (hexs("/".join(["d"] * 120)), hexs(K), hexs("d")))
    return out


# Finding F60 (regcomp bomb; known finding): StringMatcher::SetPattern hands client patterns to regcomp() unrestricted; glibc
# expands interval expressions by repetition and nested ones multiply.  Full size: the 31-byte clause BOMB_FULL keeps the
# (single-threaded) server inside regcomp() for ~2 minutes and 2-5 GB (ASan build) -- nobody's ping is answered meanwhile.
# The quick tier re-confirms the finding with a calibrated small bomb (measured on the ASan build: 108 MB of malloc() volume in
# one op, ~205 MB resident, 1-10 s of process CPU time depending on the machine's load) that trips the harness's per-op
# malloc-volume budget (32 MB, load-independent; ordinary ops stay below 1 MB) or its CPU budget (2 s); the thorough tier and
# C07_REGEX_BOMB=1 use the full size, which the 20 s watchdog kills and reports.  C07_REGEX_BOMB=0 leaves the cases out.
# The cases are generated only while known_findings.json lists the finding (match "regcomp-bomb") or on request.
BOMB_FULL = "`(((a{1,100}){1,100}){1,100})"
BOMB_QUICK = "`((a{1,170}){1,170})"
CPU_BUDGET_S = "2"

# every harness run of this check: a hard bound on resident memory (the bomb allocates until it is killed)
vlib.SAN_ENV["ASAN_OPTIONS"] = vlib.SAN_ENV["ASAN_OPTIONS"] + ":hard_rss_limit_mb=3000"
os.environ.setdefault("C07_CPU_BUDGET_S", CPU_BUDGET_S)


def bomb_mode(tier):
    """-> None | "quick" | "full" """
    env = os.environ.get("C07_REGEX_BOMB")
    if env == "0":
        return None
    if env == "1":
        return "full"
    if any("regcomp-bomb" in (e.get("match") or "") for e in vlib.load_findings("C07") if e.get("kind") == "known"):
        return "full" if tier == "thorough" else "quick"
    return None


def bomb_cases(names, mode):
    """already minimal (two sessions, one Message), so the shrinker has nothing slow to try"""
    K = names["PR_NAME_KEYS"]
    if mode == "quick":
        return ["a;a;M:1:{c5,(%s,s,%s)}" % (hexs(K), hexs(BOMB_QUICK))]
    return ["a;a;M:1:{c5,(%s,s,%s)}" % (hexs(K), hexs(BOMB_FULL)),
            "a;a;M:1:{c1,(%s,b,1)}" % hexs("SUBSCRIBE:" + BOMB_FULL)]


class CHECK(vlib.Check):
    prop = "C07"
    prop_file = "Properties_C07.v"
    model = ("Refl/BoundedExtract.v", "bounded_driver.ml", "bounded", ("ocommon.ml",))
    harness = dict(name="bounded", src="bounded_h.cpp", san="asan", link_lib=True)
    quick_timeout = 1500
    modelled = ("reflector/StorageReflectSession.cpp MessageReceivedFromGateway: the C04 command set (SETDATA, REMOVEDATA, GETDATA, SETPARAMETERS/"
                "REMOVEPARAMETERS for SUBSCRIBE: and max-update-items, BATCH with its nest cap) plus PR_COMMAND_PING, NOOP, the bounced codes "
                "(unimplemented / access denied), JETTISONRESULTS -> JettisonOutgoingResults (removed-strings loop, per-field item loop with the "
                "index it passes to RemoveData, emptied Messages leaving the queue), JETTISONDATATREES -> JettisonOutgoingSubtrees, GETDATATREES "
                "(reply id + matched roots), AfterMessageReceivedFromGateway/PushSubscriptionMessages (while-dirty loop on fuel), NodeChangedAux "
                "recursion with its nest counter, DataNode::RemoveChild recursion, SETDATA with SETDATANODE_FLAG_ENABLESUPERCEDE (pending Message "
                "pruned, else the supersede scan of the subscriber's outgoing queue); the gateway's outgoing Message queue of a "
                "client that has stopped reading (no writable socket -> no DoOutput).  Not modelled (flood stream: oracle + sanitizers only): "
                "arbitrary what-codes and field types, real regex / QueryFilter evaluation of hostile patterns and archives, parameters other "
                "than subscriptions, client-to-client Messages, ordered indices, keep-alive, reply encoding, sockets and select.")
    premises = ["theorems (Properties_C07.v): handler/step/run totality with fuel linear in the heaviest queued Message a jettison pass "
                "meets, and that weight bounded by a cubic polynomial in (command size, nodes, node weight, sessions, items held) of the state "
                "the command arrives in (handler_fuel; premise: distinct session ids and node paths), fuelled run = meaning for any "
                "fuel, witness_ping_answered (+_fuel, +_any_fuel) for every history of other sessions' events, jettison_refuted (F4), "
                "NodeChangedAux / RemoveChild / DoTraversal fuel adequacy, what-code dispatch coverage over the regenerated constants",
                "MatchLaws-free: the fuel theorems hold for ANY clause matcher and filter (class MatchOps is a parameter); termination of "
                "regexec / QueryFilter::Matches themselves is runtime (libc / C14)",
                "a client that does not read is modelled as a session whose DataIO reports no writable socket (what a full TCP send buffer "
                "looks like to ReflectServer::HandleEvents); bytes already handed to the kernel are out of scope",
                "memory safety and object lifetime of the C++ (observed by ASan/UBSan in the harness only); real time (the oracle counts "
                "event-loop turns, process CPU time per op and uses a wall-clock watchdog)",
                "the libc regex engine: compile / match cost of hostile patterns is runtime (known finding F60: nested interval "
                "expressions; back-reference patterns are polynomial of high degree in the subject length)",
                "notification order among the subscribers of one node (iteration order of a pooled immutable table) is not modelled; the "
                "modelled stream avoids the two situations where it is observable (max-items flush / forced flush with several subscribers)"]
    rule = ("modelled stream: multi-client histories from random.Random(seed) over the model's commands, with clients that stop reading; after "
            "EVERY op the Messages received per client, the outgoing queue of every non-reading session, the tree with subscriber tables and "
            "the subscription entries are compared with the extracted model.  flood stream: arbitrary structurally valid Messages (oracle only).  "
            "After every op of both streams the witness's PING must be answered within 40 event-loop turns; a watchdog turns a hang into a "
            "failure; more than 2 s of process CPU time or more than 32 MB of malloc volume for one op is a slow-handler / resource-hog failure.  "
            "Streams flood-typed (every what-code x every reserved PR_NAME_* x right/wrong types, empty and multiple values) and "
            "flood-queue-pairs (reply-producing command + queue-editing command of the same client: in one BATCH, across reads while it "
            "does not drain) are enumerated, not sampled.  Non-trivial = a jettison / data-tree / batch command issued while a non-reading client has queued replies, or a flood "
            "case with degenerate patterns or archived filters.")

    def gen_cases(self, rng, tier):
        names = pr_names(vlib.REPO)
        n = 250 if tier == "quick" else 3000
        out = [("directed", "M|" + c) for c in DIRECTED_M]
        for i in range(n):
            g = Gen(rng)
            out.append(("modelled", "M|" + g.case(rng.choice([8, 12, 20, 30]), rng.choice([2, 2, 3]))))
        for c in directed_flood(names):
            out.append(("flood-directed", "F|" + c))
        for c in queue_pair_cases(names, full=(tier != "quick")):
            out.append(("flood-queue-pairs", "F|" + c))
        for c in typed_matrix_cases(names, variants=(2 if tier == "quick" else 3)):
            out.append(("flood-typed", "F|" + c))
        mode = bomb_mode(tier)
        if mode:
            for c in bomb_cases(names, mode):
                out.append(("flood-regcomp-bomb", "F|" + c))
        fl = Flood(rng, names)
        for i in range(n // 2):
            out.append(("flood", "F|" + fl.case(rng.choice([10, 20, 40]))))
        return out

    def nontrivial(self, case):
        if case.startswith("F"):
            return "M:" in case
        body = case.split("|", 1)[1]
        blocked = False
        for o in body.split(";"):
            f = o.split(":")
            if f[0] == "x":
                blocked = (f[-1] == "1")
            if f[0] in ("jr", "jt") and blocked:
                return True
            if f[0] in ("b", "nb") and ("jr~" in o or "jt~" in o or "gt~" in o):
                return True
        return False

    @staticmethod
    def _bomb(f):
        """a failure (hang, slow handler, memory kill) on a case that carries NESTED interval expressions is the regcomp bomb (F60)"""
        return f.get("kind") in ("oracle", "crash") and hexs("}){1,") in (f.get("case") or "")

    def signature(self, f):
        s = f.get("signature", "")
        m = re.search(r"ORACLE FAIL (\S+)", s)
        if m:
            s = "oracle: " + m.group(1)
        return s + (" regcomp-bomb" if self._bomb(f) else "")

    def fail_key(self, f):
        sig = f.get("signature", "")
        tag = " regcomp-bomb" if self._bomb(f) else ""
        m = re.search(r"ORACLE FAIL (\S+)", sig)
        if m:
            return ("oracle", m.group(1) + tag)
        return (f["kind"], re.sub(r"op#\d+.*", "op#", sig) + tag)

    def distribution(self, sc):
        d = {}
        for s, c in sc:
            d["stream:" + s] = d.get("stream:" + s, 0) + 1
            for o in c.split("|", 1)[1].split(";"):
                k = "op:" + o.split(":")[0]
                d[k] = d.get(k, 0) + 1
                if o.startswith("b:") or o.startswith("nb:"):
                    for so in o.split(":", 2)[2].replace(":", "+").split("+"):
                        kk = "sub:" + so.split("~")[0]
                        d[kk] = d.get(kk, 0) + 1
        return d
