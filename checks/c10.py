"""C10 -- reference-counted and pooled objects are released exactly once, never early
(util/RefCount.h, util/ObjectPool.h)."""
import json
import vlib

S = 4          # stack slots per thread
K = 2          # member Ref slots per Item (harness/refcnt_h.cpp and ocaml/refcnt_driver.ml agree)


def loc(rng, mem_p=0.35):
    if rng.random() < mem_p:
        return "m%d.%d" % (rng.randrange(S), rng.randrange(K))
    return "s%d" % rng.randrange(S)


def gen_ops(rng, n, pooled_p):
    ops = []
    for _ in range(n):
        r = rng.random()
        if r < 0.22:
            ops.append(("np:%d" if rng.random() < pooled_p else "nh:%d") % rng.randrange(S))
        elif r < 0.44:
            ops.append("as:%s:%s" % (loc(rng, 0.45), loc(rng, 0.35)))
        elif r < 0.485:
            ops.append("al:%s:%s" % (loc(rng, 0.30), loc(rng, 0.25)))
        elif r < 0.50:
            ops.append("ne:%s" % loc(rng, 0.25))
        elif r < 0.64:
            ops.append("rs:%s" % loc(rng, 0.25))
        elif r < 0.76:
            ops.append("sw:%s:%s" % (loc(rng, 0.35), loc(rng, 0.35)))
        elif r < 0.88:
            ops.append("cc:%s:%s" % (loc(rng, 0.40), loc(rng, 0.35)))
        elif r < 0.93:
            ops.append("sv:%d:%d" % (rng.randrange(S), rng.choice([0, 1, 7])))
        elif r < 0.97:
            ops.append("dr")
        else:
            # the list-advance idiom on whatever slot 0..S-1 holds
            i = rng.randrange(S)
            ops.append("as:s%d:m%d.%d" % (i, i, rng.randrange(K)))
    return ops


def chain(kind, n, slot=0, tmp=1, via=0):
    """build a chain of n objects hanging off stack slot `slot` (head first), using slot `tmp`"""
    ops = ["%s:%d" % (kind, slot)]
    # build from the tail: tmp = new; tmp.m = slot... simpler: prepend: new into tmp; tmp.m[via] = slot; slot = tmp; reset tmp
    for _ in range(n - 1):
        ops += ["%s:%d" % (kind, tmp), "as:m%d.%d:s%d" % (tmp, via, slot), "as:s%d:s%d" % (slot, tmp), "rs:s%d" % tmp]
    return ops


def gen_worker(rng, n):
    ops = []
    for _ in range(n):
        r = rng.random()
        if r < 0.30:
            ops.append("as:%s:%s" % (loc(rng, 0.25), loc(rng, 0.45)))
        elif r < 0.45:
            ops.append("rs:%s" % loc(rng, 0.15))
        elif r < 0.58:
            ops.append("cc:%s:%s" % (loc(rng, 0.2), loc(rng, 0.4)))
        elif r < 0.64:
            ops.append("al:%s:%s" % (loc(rng, 0.2), loc(rng, 0.3)))
        elif r < 0.66:
            ops.append("ne:%s" % loc(rng, 0.2))
        elif r < 0.80:
            ops.append(("np:%d" if rng.random() < 0.7 else "nh:%d") % rng.randrange(S))
        elif r < 0.88:
            ops.append("sw:%s:%s" % (loc(rng, 0.3), loc(rng, 0.3)))
        elif r < 0.93:
            i = rng.randrange(S)
            ops.append("as:s%d:m%d.%d" % (i, i, rng.randrange(K)))
        elif r < 0.97:
            ops.append("sv:%d:%d" % (rng.randrange(S), rng.choice([1, 7])))
        else:
            ops.append("dr")
    return ops


def gen_schedule(rng, T, n):
    out, cur = [], rng.randrange(T)
    for _ in range(n):
        if rng.random() < 0.45:
            cur = rng.randrange(T)
        out.append(str(cur))
    return ".".join(out)


DROP = ["rs:s%d" % i for i in range(S)]


def sched_case(rng):
    N = rng.choice([1, 2, 2, 3])
    mx = rng.choice([0, 0, 1, 3])
    T = rng.choice([2, 2, 3])
    kind = rng.choice(["np", "np", "nh"])
    setup = []
    shape = rng.randrange(4)
    if shape == 0:      # one shared object
        setup = [kind + ":0"]
    elif shape == 1:    # a shared chain hanging off slot 0, plus a second shared object
        setup = chain(kind, rng.choice([2, 3]), 0, 1, rng.randrange(K)) + ["np:2"]
    elif shape == 2:    # two shared objects, one referenced from the other as well
        setup = [kind + ":0", "np:1", "as:m0.1:s1", "al:s3:s1"]
    else:
        setup = gen_ops(rng, rng.choice([4, 8]), 0.7)
    workers = [gen_worker(rng, rng.choice([2, 4, 6, 9])) + DROP for _ in range(T)]
    return "S%d:%d:%d:%s|%s" % (N, mx, S, gen_schedule(rng, T, 80), "/".join([";".join(setup), ";".join(DROP)] + [";".join(w) for w in workers]))


class CHECK(vlib.Check):
    prop = "C10"
    prop_file = "Properties_C10.v"
    model = ("Conc/RefExtract.v", "refcnt_driver.ml", "refcnt", ("ocommon.ml",))
    harness = dict(name="refcnt", src="refcnt_h.cpp", san="asan", link_lib=True, extra_srcs=["/verif/harness/sched/sched.cpp"])
    modelled = ("util/RefCount.h: ConstRef/Ref SetRef (switch-items branch in the repaired order, and the same-item branch converting a "
                "reference between counting and non-counting in both directions), operator=, Reset/SetStatus, UnrefItem/UnrefItemAux "
                "(decrement-and-test, recycle or delete, cascade through member Refs in the order the code releases them), SwapContents / "
                "move assignment, CastAwayConstFromRef, IsRefPrivate; system/AtomicCounter.h increment / decrement-and-test as single atomic "
                "steps of an interleaving transition system with any number of threads (thread creation = copies of the parent's references); "
                "util/ObjectPool.h: ObtainObject/ObtainObjectAux, ReleaseObject (reset-to-default, critical section, slab deletion after "
                "unlock)/ReleaseObjectAux, Drain, ObjectSlab free lists (PopObjectNode/PushObjectNode/InitializeObjectNode), slab list order, "
                "_curPoolSize, the conditions of PerformSanityCheck; the link between heap life-cycle states and free lists.  "
                "Neutralize (= stop-counting conversion of the slot onto itself, then Reset of the non-counting slot).  Not modelled: Clone/EnsureRefIsPrivate, Prefill, SetMaxPoolSize, error-status payload of null refs, the "
                "_prev/_next pointer representation of the slab list (the harness checks it describes the same sequence), references "
                "shared between threads through mutex-protected containers (threads share objects through references copied at creation).")
    premises = ["std::atomic read-modify-write operations are atomic (the code shape `return (--_count == 0)` / `(++_count == 1)` on a std::atomic is translated and checked: C10_atomic_premise_tied) and sequentially consistent; std::mutex excludes "
                "(memory ordering is runtime residue; free-running ASan/TSan stress is supporting evidence only)",
                "data-race freedom of the Ref variables themselves, as the class documents: a thread writes only its own Ref "
                "variables and member Refs of objects private to it (IsRefPrivate), and stores no reference to an object into itself",
                "allocator: operator new returns memory not in use; _maxPoolSize + NUM_OBJECTS_PER_SLAB < 2^32 (saturation not modelled)"]
    rule = ("single-threaded histories over %d stack Ref slots and %d member Ref slots per object (new heap/pooled, assign, "
            "non-counting alias, Neutralize, reset, swap, const-cast, payload write, drain) generated from random.Random(seed) with slab sizes 1..4 and "
            "_maxPoolSize 0..4; after EVERY operation the destruction/recycle/obtain events in order, every object's state, "
            "count, payload, members and birth/death counters, the stack, and the pool's slab order, free lists, "
            "_numNodesInUse, _nextIndex arrays and _curPoolSize are compared with the extracted model; the harness's own "
            "ideal reference graph is the oracle.  Multi-threaded histories (2-3 worker threads started with copies of the main thread's references, random programs x random and exhaustive schedules) run under the controlled scheduler (decision points: the AtomicCounter increment/decrement and Mutex lock hooks); decision points also at the start of a pooled object's reset-to-default (Item::operator=); the sequence (thread resumed, atomic step executed) the counts of all objects each time a thread parks before an atomic operation, and the complete final state must equal the model's run of the same schedule (deterministic: one thread runs at a time, every decision comes from the case text).  Non-trivial = the history stores into a member slot and later drops or "
            "overwrites a reference (so a release can cascade), or obtains from the pool more objects than one slab holds.") % (S, K)

    def gen_cases(self, rng, tier):
        n = 1200 if tier == "quick" else 15000
        out = []
        for i in range(n):
            N = rng.choice([1, 2, 2, 3, 3, 4])
            mx = rng.choice([0, 0, 1, 2, 4])
            length = rng.choice([4, 8, 12, 20, 30, 45])
            pooled_p = rng.choice([0.0, 0.5, 0.8, 1.0])
            out.append(("random", "%d:%d:%d|%s" % (N, mx, S, ";".join(gen_ops(rng, length, pooled_p)))))
        # multi-threaded histories under the controlled scheduler: random programs x random schedules
        for i in range(250 if tier == "quick" else 4000):
            out.append(("sched-random", sched_case(rng)))
        # every schedule (all 2^9 explicit decision strings, then non-preemptive) of two workers that drop / copy / advance /
        # convert on shared objects, and that obtain from / release to a pool whose slabs are created and deleted on the way
        for hdr, progs in (("S2:0", "np:0;np:1;as:m0.0:s1;rs:s1/rs:s0/as:s0:m0.0;rs:s0/rs:s0"),
                           ("S2:0", "nh:0/rs:s0/as:s1:s0;rs:s0;rs:s1/cc:s1:s0;rs:s1;rs:s0"),
                           ("S2:0", "np:0/rs:s0/rs:s0;np:0;rs:s0/rs:s0;np:1;rs:s1"),
                           ("S1:0", "np:0/rs:s0/rs:s0;np:1;rs:s1/rs:s0;np:1;rs:s1"),
                           ("S2:1", "nh:0/rs:s0/al:s1:s0;as:s1:s0;rs:s1;rs:s0/al:s0:s0;as:s1:s0;rs:s0;rs:s1"),
                           ("S2:0", "np:0;np:1;as:m0.0:s1;rs:s1/rs:s0;rs:s1/as:s0:m0.0;rs:s0/as:s1:m0.0;rs:s0;rs:s1"),
                           # one worker drops the last reference to an object with state (payload, child) while the other obtains
                           # from the same pool: the object must be reset BEFORE it is back on the free list
                           ("S2:0", "np:0;np:1;as:m0.0:s1;rs:s1;sv:0:7/rs:s0/rs:s0/rs:s0;np:1;sv:1:5;np:2;rs:s1;rs:s2"),
                           ("S2:2", "np:0;sv:0:7/rs:s0/rs:s0/rs:s0;np:1;np:2;rs:s1;rs:s2")):
            for bits in range(512):
                out.append(("sched-exhaustive", "%s:%d:%s|%s" % (hdr, S, ".".join(str((bits >> j) & 1) for j in range(9)), progs)))
        # free-running, IN the verdict: real threads drop the last references to one object at the same instant, round after round.
        # Definitive outcomes only (handed back != exactly once; pool not back to nothing-in-use / inconsistent; sanitizer / MASSERT
        # death), so correct code cannot fail whatever the timing.  This is the stage that meets the real std::atomic code where no
        # hook can: a decrement whose test is a separate read has no yield point between its halves.
        for spec in (["R3:h:1500", "R2:h:1200", "R4:p:1500", "R3:p:1200", "R2:p:1000"] if tier == "quick" else
                     ["R3:h:6000", "R2:h:5000", "R4:h:5000", "R4:p:6000", "R3:p:5000", "R2:p:5000"]):
            out.append(("race", spec + "|"))
        # directed: the list-advance idiom (F11) over chains of 2..4 objects, heap and pooled
        for kind in ("nh", "np"):
            for N in (1, 2, 3):
                for mx in (0, 1, 4):
                    for ln in (2, 3, 4):
                        for via in (0, 1):
                            base = chain(kind, ln, 0, 1, via)
                            adv = ["as:s0:m0.%d" % via] * ln
                            out.append(("directed-advance", "%d:%d:%d|%s" % (N, mx, S, ";".join(base + adv))))
                            out.append(("directed-advance", "%d:%d:%d|%s" % (N, mx, S, ";".join(base + ["cc:s0:m0.%d" % via] * ln))))
                            out.append(("directed-advance", "%d:%d:%d|%s" % (N, mx, S, ";".join(base + ["as:s2:s0", "rs:s0", "sw:s0:s2", "rs:s0"]))))
        # directed: non-counting references; conversion of the same item between the two kinds, both directions;
        # a dangling alias must not keep (or bring back) anything
        for kind in ("nh", "np"):
            for N in (1, 2):
                for mx in (0, 2):
                    hdr = "%d:%d:%d|" % (N, mx, S)
                    out.append(("directed-alias", hdr + ";".join([kind + ":0", "al:s1:s0", "as:s1:s0", "rs:s0", "np:2", "rs:s1", "np:3"])))
                    out.append(("directed-alias", hdr + ";".join([kind + ":0", "as:s1:s0", "al:s1:s0", "rs:s0", "np:2", "as:s3:s1", "rs:s1"])))
                    out.append(("directed-alias", hdr + ";".join([kind + ":0", "al:s0:s0", "np:1", "as:s2:s0", "cc:s3:s0", "al:s3:s2", "as:s0:s0", "rs:s2"])))
                    out.append(("directed-alias", hdr + ";".join([kind + ":0", kind + ":1", "al:m0.0:s1", "as:m0.1:s1", "al:m0.1:s1", "as:m0.0:s1", "rs:s1", "rs:s0", "np:2"])))
                    out.append(("directed-alias", hdr + ";".join([kind + ":0", "al:s1:s0", "sw:s0:s1", "as:s2:s1", "rs:s1", "as:s0:s2", "cc:s0:s2", "rs:s2", "rs:s0"])))
                    # Neutralize: the count goes, the object stays (until somebody adopts it again)
                    out.append(("directed-alias", hdr + ";".join([kind + ":0", "as:s1:s0", "ne:s0", "ne:s0", "rs:s1", kind + ":2", "al:s3:s2", "ne:s2", "as:s1:s3", "rs:s1"])))
                    out.append(("directed-alias", hdr + ";".join([kind + ":0", kind + ":1", "as:m0.0:s1", "ne:m0.0", "ne:s1", "rs:s0", "np:2", "np:3"])))
        # directed: slab creation, recycling, deletion boundaries
        for N in (1, 2, 3, 4):
            for mx in (0, 1, 2, 4):
                for cnt in range(1, 2 * N + 3):
                    ops = []
                    for j in range(cnt):
                        ops += ["np:%d" % (j % S)] if j < S else ["np:0"]
                    ops += ["rs:s%d" % j for j in range(S)] + ["np:0", "np:1", "rs:s0", "dr", "rs:s1", "dr", "np:2"]
                    out.append(("directed-slab", "%d:%d:%d|%s" % (N, mx, S, ";".join(ops))))
                # keep objects of several slabs alive through a chain, then release in one cascade
                ops = chain("np", 2 * N + 1, 0, 1, 0) + ["sv:0:7", "rs:s0", "dr", "np:3", "np:2"]
                out.append(("directed-slab", "%d:%d:%d|%s" % (N, mx, S, ";".join(ops))))
        return out

    def nontrivial(self, case):
        if case.startswith("R"):
            return True
        if case.startswith("S"):
            return case.count("/") >= 3
        body = case.split("|", 1)[1]
        ops = body.split(";")
        stores = any(o.startswith(("as:m", "cc:m", "sw:m", "al:m")) or (o.startswith("sw:") and ":m" in o) for o in ops)
        drops = any(o.startswith(("rs:", "as:s", "cc:s", "al:s")) for o in ops)
        return (stores and drops) or body.count("np:") >= 3

    def stress_cases(self, rng, tier):
        """free-running threads (no scheduler), the same kind of programs repeated.  Their outcome depends on real thread
        timing, so they are SUPPORTING EVIDENCE ONLY: run in extra_stage, recorded in the evidence, never a VIOLATION."""
        out = []
        for i in range(8 if tier == "quick" else 60):
            N = rng.choice([1, 2, 3]); mx = rng.choice([0, 1, 3]); T = rng.choice([2, 3, 4])
            kind = rng.choice(["np", "nh"])
            setup = chain(kind, rng.choice([1, 2, 3]), 0, 1, rng.randrange(K)) + ["np:2"]
            workers = [[o for o in gen_worker(rng, rng.choice([4, 8, 12])) if not o.startswith("al:")] for _ in range(T)]
            out.append("M%d:%d:%d:%d|%s" % (N, mx, S, 200 if tier == "quick" else 2000, "/".join([";".join(setup)] + [";".join(w) for w in workers])))
        return out

    def extra_stage(self, ctx):
        """Supporting evidence only (timing-dependent, hence never part of the verdict): free-running multi-threaded stress
        under ASan (every tier) and under ThreadSanitizer (thorough tier).  Results go to the evidence file."""
        import random
        cases = self.stress_cases(random.Random(ctx["seed"] * 7919 + 3), ctx["tier"])
        text = "".join(c + "\n" for c in cases)
        ev = {"cases": len(cases), "note": "free-running threads; supporting evidence only, not part of the verdict"}
        try:
            rc, out, err = vlib.run_lines(ctx["impl"], text, timeout=600)
            ev["asan"] = {"rc": rc, "ok": sum(1 for l in out if l.endswith("stress ok")), "bad": [l for l in out if "stress ok" not in l][:5],
                          "sanitizer": (vlib.san_summary(err) if rc != 0 else None)}
            if ctx["tier"] == "thorough":
                exe = vlib.build_harness(name="refcnt_tsan", src="refcnt_h.cpp", san="tsan", link_lib=True,
                                         extra_srcs=["/verif/harness/sched/sched.cpp"])
                rc, out, err = vlib.run_lines(exe, text, timeout=1800, env={"TSAN_OPTIONS": "halt_on_error=0:report_signal_unsafe=0"})
                ev["tsan"] = {"rc": rc, "ok": sum(1 for l in out if l.endswith("stress ok")), "reports": err.count("WARNING: ThreadSanitizer")}
        except Exception as ex:   # never let supporting evidence affect the verdict
            ev["error"] = str(ex)[:300]
        ctx.setdefault("extra_coverage", {})["stress_supporting_evidence"] = ev
        if ev.get("asan", {}).get("bad") or ev.get("asan", {}).get("rc") or ev.get("tsan", {}).get("reports"):
            vlib.log("[C10] NOTE: the timing-dependent stress run (supporting evidence) reported something: %s" % json.dumps(ev)[:600])

    def distribution(self, sc):
        d = {}
        for s, c in sc:
            d["stream:" + s] = d.get("stream:" + s, 0) + 1
            hdr, body = c.split("|", 1)
            hk = "hdr:N=%s" % hdr.lstrip("MSR").split(":")[0]
            d[hk] = d.get(hk, 0) + 1
            for o in body.replace("/", ";").split(";"):
                if o:
                    k = "op:" + o.split(":")[0]
                    d[k] = d.get(k, 0) + 1
        return d
