"""C03 -- a gateway delivers exactly the sent Message sequence for every byte segmentation."""
import os, re, struct
import vlib

NOLIM = 4294967295
PV = 1347235888          # CURRENT_PROTOCOL_VERSION 'PM00'
B_RAW, B_STRING, B_INT32, B_MESSAGE = 1380013908, 1129534546, 1280265799, 1297303367


# ------------------------------------------------------------------ flattened Messages (canonical form)
def fld(name, tc, payload):
    nm = name.encode() + b"\0"
    return struct.pack("<I", len(nm)) + nm + struct.pack("<II", tc, len(payload)) + payload


def flat_msg(what, fields=()):
    return struct.pack("<III", PV, what & 0xffffffff, len(fields)) + b"".join(fields)


def f_raw(name, items):
    return fld(name, B_RAW, struct.pack("<I", len(items)) + b"".join(struct.pack("<I", len(i)) + i for i in items))


def f_str(name, items):
    return fld(name, B_STRING, struct.pack("<I", len(items)) + b"".join(struct.pack("<I", len(i) + 1) + i + b"\0" for i in items))


def f_i32(name, items):
    return fld(name, B_INT32, b"".join(struct.pack("<i", i) for i in items))


def f_msg(name, items):
    return fld(name, B_MESSAGE, b"".join(struct.pack("<I", len(i)) + i for i in items))


def body_of_size(rng, size):
    """a flattened Message of exactly `size` bytes (size == 12 or size >= 12+22+1)"""
    if size < 35:
        return flat_msg(rng.choice([0, 1, 7, 0x7fffffff, 0xffffffff]))
    n = size - 34                       # 12 header + field header (4+2+4+4) + count(4) + len(4)
    style = rng.randint(0, 2)
    if style == 0:
        data = bytes(rng.randrange(256) for _ in range(n))
    elif style == 1:
        data = bytes([rng.choice([0, 0x41, 0xff])]) * n          # compressible
    else:
        w = bytes(rng.randrange(256) for _ in range(rng.choice([1, 2, 3, 5, 8])))
        data = (w * (n // len(w) + 1))[:n]
    return flat_msg(rng.choice([0, 1, 1234, 0xffffffff]), [f_raw("d", [data])])


def rand_body(rng, big_ok=True):
    r = rng.random()
    if r < 0.25:
        return flat_msg(rng.choice([0, 1, 2, 77]))                                  # 12 bytes: stays uncompressed
    if r < 0.35:
        return flat_msg(5, [f_i32("i", [rng.randint(-5, 5) for _ in range(rng.randint(1, 3))])])
    if r < 0.5:
        return flat_msg(6, [f_str("s", [bytes(rng.choice(b"abcxyz ") for _ in range(rng.randint(0, 9))) for _ in range(rng.randint(1, 3))]),
                            f_i32("n", [rng.randint(0, 9)])])
    if r < 0.6:
        return flat_msg(8, [f_msg("m", [rand_body(rng, False) for _ in range(rng.randint(1, 2))])])
    if r < 0.93 or not big_ok:
        return body_of_size(rng, rng.choice([35, 36, 40, 47, 56, 57, 64, 100, 200]))
    return body_of_size(rng, rng.choice([2039, 2040, 2041, 2047, 2048, 2049, 2056, 2057, 3000, 5000]))


# ------------------------------------------------------------------ transport scripts
def script(rng, n=None):
    style = rng.random()
    n = n or rng.choice([1, 1, 2, 3, 5, 8, 12])
    if style < 0.25:
        return [NOLIM] * n
    if style < 0.45:
        return [1] * (n * 3)
    if style < 0.6:
        return [rng.choice([0, 1, 1, 2, 3]) for _ in range(n * 2)]
    return [rng.choice([0, 1, 2, 3, 4, 5, 7, 8, 9, 11, 12, 13, 19, 20, 21, 100, 2039, 2040, 2041, 2047, 2048, 2049, NOLIM]) for _ in range(n)]


def maxb(rng):
    return rng.choice([NOLIM, NOLIM, NOLIM, 0, 1, 2, 3, 7, 8, 9, 10, 19, 20, 21, 100, 2047, 2048, 2049])


def op_o(rng, n=None):
    return "o:%d:%s" % (maxb(rng), ",".join(map(str, script(rng, n))))


def op_i(rng, n=None):
    return "i:%d:%s" % (maxb(rng), ",".join(map(str, script(rng, n))))


def drain(rng, rounds=3, onebyone=0):
    ops = []
    for _ in range(rounds):
        if onebyone:
            ops.append("o:%d:%s" % (NOLIM, ",".join(["1"] * onebyone)))
            ops.append("i:%d:%s" % (NOLIM, ",".join(["1"] * onebyone)))
        else:
            ops.append("o:%d:%s" % (NOLIM, ",".join([str(NOLIM)] * 40)))
            ops.append("i:%d:%s" % (NOLIM, ",".join([str(NOLIM)] * 40)))
    return ops


def interleave(rng, qs, n_io, tail):
    """queue ops in order, I/O calls sprinkled in between, then the tail"""
    ops = []
    qs = list(qs)
    while qs or n_io > 0:
        if qs and (n_io <= 0 or rng.random() < 0.35):
            ops.append(qs.pop(0))
        else:
            ops.append(op_o(rng) if rng.random() < 0.5 else op_i(rng))
            n_io -= 1
    return ops + tail


def hexs(b):
    return bytes(b).hex()


# ------------------------------------------------------------------ per gateway generators
def gen_frame(rng, head="F:0:%d" % NOLIM, big_ok=True):
    nm = rng.choice([1, 1, 2, 3, 4, 6])
    qs = ["q:" + hexs(rand_body(rng, big_ok)) for _ in range(nm)]
    tail = drain(rng, rng.choice([0, 2, 3]), rng.choice([0, 0, 0, 30]))
    return head + "|" + ";".join(interleave(rng, qs, rng.choice([0, 2, 4, 8, 12]), tail))


def deflate_table(enc, bodies):
    """what ZLibCodec::Deflate(dependent) will produce for the bodies that get compressed (header+body >= 32
    bytes), in queue order: one zlib stream per gateway, Z_SYNC_FLUSH after every Message"""
    import zlib
    if enc == 0:
        return []
    c = zlib.compressobj(enc)
    out = []
    for b in bodies:
        if len(b) + 8 >= 32:
            out.append(c.compress(b) + c.flush(zlib.Z_SYNC_FLUSH))
    return out


def gen_codec_oracle(rng, kind, enc):
    """oracle-only stream for the encodings / gateways not (yet) modelled: big (compressed, deflate state
    carried over) and tiny (sent with a DEFAULT header, codec untouched) Messages mixed, repeated bodies
    (so that later deflate blocks refer back to earlier ones), arbitrary segmentation."""
    bodies = []
    base = [body_of_size(rng, rng.choice([40, 64, 100, 200, 300])) for _ in range(2)]
    for _ in range(rng.choice([3, 4, 6, 9])):
        r = rng.random()
        if r < 0.3:
            bodies.append(flat_msg(rng.choice([0, 1, 2, 77])))          # 12 bytes: below the 32-byte compression threshold
        elif r < 0.4:
            bodies.append(flat_msg(3, [f_i32("i", [rng.randint(0, 3)])]))  # 30 bytes with header: still below
        elif r < 0.7:
            bodies.append(rng.choice(base))                                # repeats: depend on earlier deflate history
        else:
            bodies.append(rand_body(rng, rng.random() < 0.1))
    qs = ["q:" + hexs(b) for b in bodies]
    tail = drain(rng, 3, rng.choice([0, 0, 0, 25]))
    tbl = ",".join(hexs(d) for d in deflate_table(enc, bodies)) if kind == "F" else ""
    return "%s:%d:%d:%s|" % (kind, enc, NOLIM, tbl) + ";".join(interleave(rng, qs, rng.choice([0, 2, 4, 8]), tail))


def gen_packet_oracle(rng, kind):
    """oracle-only: the same gateway classes over a packet-style (UDP-like) DataIO: one packet per Message,
    a script entry 0 = would-block, >0 = the packet moves"""
    if kind == "F":
        head = "KF:0:%d" % NOLIM
        qs = ["q:" + hexs(rand_body(rng, False)) for _ in range(rng.choice([1, 2, 3, 5]))]
    elif kind == "T":
        head = "KT:%s" % rng.choice(["0d0a", "0d", "0a"])
        qs = ["q:" + ",".join(hexs(rand_line(rng)) for _ in range(rng.choice([1, 2, 3]))) for _ in range(rng.choice([1, 2, 3]))]
    else:
        head = "KR:0:%d" % NOLIM
        qs = ["q:" + hexs(rand_chunk(rng)) for _ in range(rng.choice([1, 2, 3, 5]))]
    ops = []
    for q in qs:
        ops.append(q)
        if rng.random() < 0.5:
            ops.append("o:%d:%s" % (NOLIM, ",".join(str(rng.choice([0, 1, 1])) for _ in range(3))))
        if rng.random() < 0.5:
            ops.append("i:%d:%s" % (NOLIM, ",".join(str(rng.choice([0, 1, 1])) for _ in range(3))))
    ops += ["o:%d:%s" % (NOLIM, ",".join(["1"] * 12)), "i:%d:%s" % (NOLIM, ",".join(["1"] * 12))]
    return head + "|" + ";".join(ops)


def describe_msgs(bodies, exe=None):
    """the Message-level facts the templating model needs (trivial?/what/TemplateHashCode64/template size/
    TemplatedFlatten bytes/shape), tabulated by the harness itself (head D); None if unavailable"""
    import subprocess
    exe = exe or os.path.join(vlib.BUILD, "bin", "gw_impl")
    if not os.path.exists(exe):
        return None
    try:
        p = subprocess.run([exe], input="D|" + ";".join("q:" + hexs(b) for b in bodies) + "\n", stdout=subprocess.PIPE,
                           stderr=subprocess.PIPE, text=True, timeout=60, env=dict(os.environ, **vlib.SAN_ENV))
    except Exception:
        return None
    if p.returncode != 0 or not p.stdout.startswith("0 "):
        return None
    ents = [e for e in p.stdout.strip()[2:].split(",") if e != ""]
    if len(ents) != len(bodies) or any(e == "bad" for e in ents):
        return None
    return ents


def tmpl_bodies(rng):
    """Messages drawn from a few shapes (so that templates get reused), what-only Messages, shapes whose
    template hashes collide, nested Messages"""
    shapes = []
    names = ["a", "b", "cc", "nm"]
    for _ in range(rng.choice([1, 2, 3, 4])):
        k = rng.choice([1, 1, 2, 3])
        shapes.append([(rng.choice(names) + str(j), rng.choice(["i", "s", "r"]), rng.choice([1, 1, 2, 3])) for j in range(k)])
    if rng.random() < 0.5:      # two shapes with the same TemplateHashCode64
        shapes.append([("a", "i", 3), ("b", "i", 1)])
        shapes.append([("a", "i", 1), ("b", "i", 2)])
    out = []
    for _ in range(rng.choice([2, 3, 5, 8, 12])):
        r = rng.random()
        if r < 0.2:
            out.append(flat_msg(rng.choice([0, 1, 2, 77])))
            continue
        sh = rng.choice(shapes)
        fields = []
        for (nm, ty, cnt) in sh:
            if ty == "i":
                fields.append(f_i32(nm, [rng.randint(-9, 9) for _ in range(cnt)]))
            elif ty == "s":
                fields.append(f_str(nm, [bytes(rng.choice(b"abcxyz") for _ in range(rng.randint(0, 6))) for _ in range(cnt)]))
            else:
                fields.append(f_raw(nm, [bytes(rng.randrange(256) for _ in range(rng.randint(1, 9))) for _ in range(cnt)]))
        if r > 0.9:
            fields.append(f_msg("sub", [flat_msg(3, [f_i32("q", [rng.randint(0, 5)])])]))
        out.append(flat_msg(rng.choice([1, 2, 3]), fields))
    return out


def gen_tmpl_model(rng):
    """templating gateway, DEFAULT encoding, corresponded with the Coq model (both LRU caches compared after every call)"""
    bodies = tmpl_bodies(rng)
    ents = describe_msgs(bodies)
    if ents is None:
        return None
    maxcache = rng.choice([1048576, 1048576, 40, 60, 100, 150, 300])
    qs = ["q:" + hexs(b) for b in bodies]
    tail = drain(rng, rng.choice([0, 2, 3]), rng.choice([0, 0, 30]))
    return "P:0:%d:%d:%s|" % (NOLIM, maxcache, ",".join(ents)) + ";".join(interleave(rng, qs, rng.choice([0, 2, 4, 8]), tail))


def collision_family(rng, tag):
    """shapes {n1:T x c1, n2:T x c2 [, n3:T x c3]} with c1 + 2*c2 [+ 3*c3] constant: all have the same
    TemplateHashCode64 (= sum_k k*(H(name_k) + count_k*type_k)) but different structure"""
    k = rng.choice([2, 2, 3])
    names = ["%s%d" % (tag, j) for j in range(k)]
    ty = rng.choice(["i", "i", "s"])
    S = rng.choice([7, 9, 11]) if k == 2 else rng.choice([10, 12, 14])
    shapes = []
    if k == 2:
        for c2 in range(1, S // 2 + 1):
            c1 = S - 2 * c2
            if c1 >= 1:
                shapes.append([(names[0], ty, c1), (names[1], ty, c2)])
    else:
        for c3 in range(1, S // 3 + 1):
            for c2 in range(1, (S - 3 * c3) // 2 + 1):
                c1 = S - 3 * c3 - 2 * c2
                if c1 >= 1:
                    shapes.append([(names[0], ty, c1), (names[1], ty, c2), (names[2], ty, c3)])
    rng.shuffle(shapes)
    return shapes[:rng.choice([2, 3, 4])]


def msg_of_shape(rng, sh, what=None):
    fields = []
    for (nm, ty, cnt) in sh:
        if ty == "i":
            fields.append(f_i32(nm, [rng.randint(-9, 99) for _ in range(cnt)]))
        elif ty == "s":
            fields.append(f_str(nm, [bytes(rng.choice(b"abcxyz") for _ in range(rng.randint(0, 4))) for _ in range(cnt)]))
        else:
            fields.append(f_raw(nm, [bytes(rng.randrange(256) for _ in range(rng.randint(1, 6))) for _ in range(cnt)]))
    return flat_msg(rng.choice([1, 2, 3]) if what is None else what, fields)


def gen_tmpl_pressure(rng, enc=0, model=True):
    """templating gateway under LRU-cache pressure: byte budgets with room for 1, 2 or 3 templates, families of shapes
    whose template hashes collide, fresh shapes that force trims, re-use of older shapes -- the situations in which the
    two caches only stay usable if they agree on contents AND order.  Corresponded with the Coq model (cache keys in LRU
    order and byte tally of both ends after every call) when the describe pre-pass is available, oracle-only otherwise."""
    fams = [collision_family(rng, "abcdefgh"[j]) for j in range(rng.choice([1, 2, 2, 3]))]
    fresh = [[("%s%d" % ("uvwxyz"[j], q), rng.choice(["i", "i", "s", "r"]), rng.choice([1, 2, 3])) for q in range(rng.choice([1, 2]))]
             for j in range(rng.choice([1, 2, 3, 4]))]
    pool = [sh for f in fams for sh in f] + fresh
    seq = []
    # the critical pattern, possibly several times: X, (others), X' colliding with X while X is not at the front,
    # a new shape forcing a trim, X (or X') again
    for _ in range(rng.choice([1, 1, 2, 3])):
        fam = rng.choice(fams)
        x, x2 = rng.sample(fam, 2) if len(fam) >= 2 else (fam[0], fam[0])
        seq.append(x)
        seq += [rng.choice(pool) for _ in range(rng.choice([1, 1, 2]))]
        seq.append(x2)
        seq += [rng.choice(fresh + pool) for _ in range(rng.choice([1, 1, 2, 3]))]
        seq.append(rng.choice([x, x, x2]))
        seq += [rng.choice(pool) for _ in range(rng.choice([0, 1, 2]))]
    # random walk with a bias towards recently used shapes
    for _ in range(rng.choice([0, 3, 6])):
        seq.append(rng.choice(seq[-4:] + pool))
    bodies = []
    for sh in seq:
        bodies.append(flat_msg(rng.choice([0, 7])) if rng.random() < 0.08 else msg_of_shape(rng, sh))
    ents = describe_msgs(bodies) if (model and enc == 0) else None
    # budget: room for k templates of the sizes actually in play (a template of int32/string fields flattens to about
    # the size of the Message's own structure; take the real sizes from the describe pass when we have them)
    if ents is not None:
        sizes = sorted(set(int(e.split("/")[3]) for e in ents if e.split("/")[0] == "0"))
    else:
        sizes = sorted(set(len(b) for b in bodies if len(b) > 12))
    sizes = sizes or [56]
    k = rng.choice([1, 2, 2, 2, 3, 3])
    base = rng.choice([sizes[0], sizes[-1], sizes[len(sizes) // 2]])
    maxcache = max(1, k * base + rng.choice([-1, 0, 0, 1, base // 2]))
    qs = ["q:" + hexs(b) for b in bodies]
    # mostly: each Message goes all the way through before the next is queued (so that the n-th decision of the
    # sender meets the n-th state of the receiver's cache), sometimes fully interleaved
    if rng.random() < 0.6:
        ops = []
        for q in qs:
            ops.append(q)
            if rng.random() < 0.8:
                ops += ["o:%d:%s" % (NOLIM, ",".join(map(str, script(rng, 6)))), "i:%d:%s" % (NOLIM, ",".join(map(str, script(rng, 6))))]
        ops += drain(rng, 3)
    else:
        ops = interleave(rng, qs, rng.choice([0, 4, 8]), drain(rng, 3, rng.choice([0, 0, 30])))
    if ents is not None:
        return "P:0:%d:%d:%s|" % (NOLIM, maxcache, ",".join(ents)) + ";".join(ops)
    return "P:%d:%d:%d|" % (enc, NOLIM, maxcache) + ";".join(ops)


def simple_body(rng):
    """Messages within the repertoire the C mini/micro codecs and the C++ one share"""
    r = rng.random()
    if r < 0.3:
        return flat_msg(rng.choice([0, 1, 77, 0xffffffff]))
    if r < 0.7:
        return flat_msg(5, [f_i32("i", [rng.randint(-5, 5) for _ in range(rng.randint(1, 3))])])
    return flat_msg(6, [f_str("s", [bytes(rng.choice(b"abcxyz ") for _ in range(rng.randint(0, 9))) for _ in range(rng.randint(1, 3))]),
                        f_i32("n", [rng.randint(0, 9)])])


def gen_c_gateway(rng, head):
    """lang/c MiniMessageGateway / MicroMessageGateway talking to the C++ MessageIOGateway (MC, CM, UC, CU); the mini
    gateway's calls (MC, CM) are also compared with Gw/MiniModel.v, the micro ones are oracle-only"""
    def body():
        if head in ("MC", "CM") and rng.random() < 0.08:
            # big enough that the mini receiver trades up its input buffer past 64 KB (and shrinks it afterwards), and
            # the C++ receiver leaves its scratch buffer
            base = len(flat_msg(6, [f_str("s", [b""])]))
            edge = 32768 - 8 - base     # string length at which 2*(frame size) is exactly the 64 KB the mini receiver shrinks above
            return flat_msg(6, [f_str("s", [bytes(rng.choice(b"abcxyz ") for _ in range(rng.choice([2000, 20000, edge - 1, edge, edge + 1, 70000])))])])
        return simple_body(rng)
    qs = ["q:" + hexs(body()) for _ in range(rng.choice([1, 2, 3, 5]))]
    return head + "|" + ";".join(interleave(rng, qs, rng.choice([0, 2, 4, 8]), drain(rng, 3, rng.choice([0, 0, 30]))))


def gen_c_mini_bad(rng):
    """the mini receiver fed frames built here: valid ones, then a header it must refuse (body size 0, an encoding other
    than 'Enc0', sizes whose +8 or whose doubling wraps 32 bits), then more bytes, which it must leave alone"""
    def frame(body):
        return struct.pack("<II", len(body), 1164862256) + body
    ops = []
    for _ in range(rng.choice([0, 1, 2])):
        ops.append("x:" + hexs(frame(simple_body(rng))))
        if rng.random() < 0.5:
            ops.append(op_i(rng))
    r = rng.randrange(4)
    if r == 0:
        bad = struct.pack("<II", 0, 1164862256)
    elif r == 1:
        bad = struct.pack("<II", rng.choice([12, 100]), rng.choice([1164862257, 1164862262, 0, 0xffffffff]))
    elif r == 2:
        bad = struct.pack("<II", rng.choice([0xfffffff8, 0xffffffff, 0xfffffffb]), 1164862256)
    else:
        bad = struct.pack("<II", rng.choice([0x7ffffffc, 0x7ffffff8, 0x80000000, 0xc0000000, 0xfffffff7]), 1164862256)
    ops.append("x:" + hexs(bad + frame(simple_body(rng))))
    ops += drain(rng, 2, rng.choice([0, 30]))[1::2] + [op_i(rng), op_i(rng)]
    return "CM|" + ";".join(ops)


def gen_websocket(rng, head):
    """oracle-only: WebSocketMessageIOGateway pair after the handshake, slave MessageIOGateway on both ends;
    WC = client sends (masked frames), WS = server sends"""
    qs = ["q:" + hexs(rand_body(rng, rng.random() < 0.1)) for _ in range(rng.choice([1, 2, 3, 5]))]
    return head + "|" + ";".join(interleave(rng, qs, rng.choice([0, 2, 4, 8]), drain(rng, 3, rng.choice([0, 0, 30]))))


def ws_wire_frame(payload, op=2, fin=True, key=None):
    """RFC 6455 frame, as a client (key = 4 masking bytes) or a server (key None) builds it"""
    n = len(payload)
    b0 = (0x80 if fin else 0) | op
    mb = 0x80 if key is not None else 0
    if n > 65535:
        h = bytes([b0, mb | 127]) + struct.pack(">Q", n)
    elif n > 125:
        h = bytes([b0, mb | 126]) + struct.pack(">H", n)
    else:
        h = bytes([b0, mb | n])
    if key is not None:
        return h + key + bytes(p ^ key[i % 4] for i, p in enumerate(payload))
    return h + payload


def gen_ws_recv(rng):
    """a WebSocket SERVER receiver (slave MessageIOGateway) fed client frames built here: random masking keys, the three
    length forms, fragmented messages (FIN=0 + continuation), pong / close frames in between; corresponded with the model"""
    def slave(body):
        return struct.pack("<II", len(body), 1164862256) + body
    ops = []
    for _ in range(rng.choice([1, 2, 3])):
        pl = slave(rand_body(rng, rng.random() < 0.1))
        key = bytes(rng.randrange(256) for _ in range(4))
        r = rng.random()
        if r < 0.55:
            wire = ws_wire_frame(pl, 2, True, key)
        elif r < 0.8:
            cut = rng.randint(1, len(pl) - 1)
            wire = ws_wire_frame(pl[:cut], 2, False, key) + ws_wire_frame(pl[cut:], 0, True, bytes(rng.randrange(256) for _ in range(4)))
        elif r < 0.9:
            wire = ws_wire_frame(b"", 10, True, key) + ws_wire_frame(pl, 2, True, key)
        elif r < 0.95:
            wire = ws_wire_frame(pl, 2, True, key) + ws_wire_frame(b"xy", 8, True, key) + ws_wire_frame(pl, 2, True, key)
        else:   # malformed: reserved bit / unmasked frame to a server / 64-bit size above the 10 MB limit
            wire = rng.choice([bytes([0xC2, 0x80]) + key, ws_wire_frame(pl, 2, True, None),
                               bytes([0x82, 0xFF]) + struct.pack(">Q", 10 * 1024 * 1024 + 1) + key])
        ops.append("x:" + hexs(wire))
        for _ in range(rng.randint(0, 4)):
            ops.append(op_i(rng))
    ops.append("i:%d:%s" % (NOLIM, ",".join([str(NOLIM)] * 30)))
    return "WR|" + ";".join(ops)


def gen_websocket_client(rng):
    """WebSocket client -> server pair corresponded with the model: the client's masking keys are fixed by the case
    (head WC:<key,key,..>; the harness wraps GetInsecurePseudoRandomNumber32 at link time), one key per queued Message"""
    nm = rng.choice([1, 2, 3, 5])
    qs = ["q:" + hexs(rand_body(rng, rng.random() < 0.1)) for _ in range(nm)]
    keys = ",".join(hexs(bytes(rng.choice([0, 1, 0x80, 0xff, rng.randrange(256)]) for _ in range(4))) for _ in range(nm))
    return "WC:%s|" % keys + ";".join(interleave(rng, qs, rng.choice([0, 2, 4, 8]), drain(rng, 3, rng.choice([0, 0, 30]))))


def gen_stress(rng):
    """oracle-only: dataio/StressTestParserProxyDataIO between the sender and the scripted transport, as a second,
    independent segmenter (min/max child write sizes in the head; op f = WriteBufferedOutput under a script)"""
    base = rng.choice([lambda: gen_frame(rng, big_ok=False), lambda: gen_text(rng), lambda: gen_slip(rng), lambda: gen_raw(rng)])()
    head, body = base.split("|", 1)
    out = []
    for o in body.split(";"):
        out.append(o)
        if o.startswith("o:") and rng.random() < 0.5:
            out.append("f:" + ",".join(map(str, script(rng))))
    out.append("f:" + ",".join([str(NOLIM)] * 300))
    out.append("i:%d:%s" % (NOLIM, ",".join([str(NOLIM)] * 40)))
    return "X%s:%d:%d|" % (head, rng.choice([0, 1, 3, 8]), rng.choice([1, 2, 5, 100])) + ";".join(out)


def gen_tmpl_collision(rng, enc):
    """templating gateway, Messages whose TemplateHashCode64 collide: the hash is
    sum_k k*(H(name_k) + count_k*type_k), so {a:T x n1, b:T x n2} collide whenever n1+2*n2 is equal"""
    names = rng.choice([("a", "b"), ("x", "yy"), ("f1", "f2")])
    s = rng.choice([5, 6, 7, 9])
    shapes = [(n1, (s - n1) // 2) for n1 in range(1, s) if (s - n1) % 2 == 0 and (s - n1) // 2 >= 1]
    bodies = []
    for _ in range(rng.choice([2, 3, 4, 6])):
        n1, n2 = rng.choice(shapes)
        bodies.append(flat_msg(rng.choice([1, 2]), [f_i32(names[0], [rng.randint(1, 99) for _ in range(n1)]),
                                                   f_i32(names[1], [rng.randint(1, 99) for _ in range(n2)])]))
    qs = ["q:" + hexs(b) for b in bodies]
    return "P:%d:%d|" % (enc, NOLIM) + ";".join(interleave(rng, qs, rng.choice([0, 2, 4]), drain(rng, 3)))


def le32(n):
    return struct.pack("<I", n & 0xffffffff)


def gen_frame_bad(rng):
    """mostly valid stream with one malformed header injected (oracle off)"""
    maxin = rng.choice([NOLIM, 100, 12, 11, 40])
    good = rand_body(rng, False)
    enc0 = 1164862256
    kind = rng.randint(0, 5)
    if kind == 0:      # encoding word out of range
        bad = le32(len(good)) + le32(rng.choice([0, enc0 - 1, enc0 + 10, enc0 + 11, 0xffffffff])) + good
    elif kind == 1:    # declared size above the incoming limit (limit small so nothing big is allocated)
        maxin = rng.choice([11, 12, 40, 100])
        bad = le32(maxin + rng.choice([1, 2, 1000])) + le32(enc0) + good
    elif kind == 2:    # a zlib encoding word in front of a body that is not a zlib stream
        bad = le32(len(good)) + le32(enc0 + rng.randint(1, 9)) + good
    elif kind == 3:    # truncated header / body: nothing may be delivered from it
        whole = le32(len(good)) + le32(enc0) + good
        bad = whole[:rng.choice([0, 1, 3, 4, 7, 8, 9, len(whole) - 1])]
    elif kind == 4:    # size word exactly at the limit, body valid
        maxin = len(good)
        bad = le32(len(good)) + le32(enc0) + good
    else:              # good frame followed by garbage header
        bad = le32(len(good)) + le32(enc0) + good + bytes(rng.randrange(256) for _ in range(8))
    pre = [("q:" + hexs(rand_body(rng, False))) for _ in range(rng.randint(0, 2))]
    ops = pre + [op_o(rng) for _ in pre] + drain(rng, 1)[:1] + ["x:" + hexs(bad)]
    ops += [op_i(rng) for _ in range(rng.randint(1, 5))] + drain(rng, 1) + [op_i(rng)]
    return "F:0:%d|" % maxin + ";".join(ops)


TEXT_ALPHA = b"abcdefgh XYZ.,;:!?\t\x01\x7f\x80\xfe\xff0123"


def rand_line(rng):
    n = rng.choice([0, 0, 1, 2, 3, 5, 8, 13])
    return bytes(rng.choice(TEXT_ALPHA) for _ in range(n))


def gen_text(rng):
    eol = rng.choice(["0d0a", "0d0a", "0d", "0a"])
    qs = []
    for _ in range(rng.choice([1, 2, 3, 5])):
        nl = rng.choice([0, 1, 1, 2, 3, 5])
        qs.append("q:" + (",".join(hexs(rand_line(rng)) for _ in range(nl)) if nl else "!"))
    tail = drain(rng, rng.choice([0, 2, 3]), rng.choice([0, 0, 40]))
    return "T:%s|" % eol + ";".join(interleave(rng, qs, rng.choice([0, 2, 4, 8, 12]), tail))


TEXT_CAP = 1024     # recurseDepth cap of PlainTextMessageIOGateway::DoOutputImplementationAux (model: c_text_max_recurse)


def gen_text_long(rng):
    """text Messages with about / more than 1024 lines: one DoOutput() call stops at the recursion cap in the middle of
    a Message (current line fully written, later lines unsent); HasBytesToOutput() is printed after every call and the
    harness finishes with a HasBytesToOutput()-driven pump"""
    eol = rng.choice(["0d0a", "0d", "0a"])
    nl = rng.choice([TEXT_CAP - 1, TEXT_CAP, TEXT_CAP + 1, TEXT_CAP + 1, 2 * TEXT_CAP - 1, 2 * TEXT_CAP, 2 * TEXT_CAP + 1, 3000])
    line = lambda: hexs(bytes(rng.choice(b"abc") for _ in range(rng.choice([0, 1, 1, 2]))))
    ops = []
    if rng.random() < 0.3:
        ops.append("q:" + ",".join(line() for _ in range(rng.choice([1, 2, 5]))))
    ops.append("q:" + ",".join(line() for _ in range(nl)))
    later = ["q:" + line()] if rng.random() < 0.3 else []
    if later and rng.random() < 0.5:
        ops += later
        later = []
    for _ in range(rng.choice([1, 1, 2, 4])):
        r = rng.random()
        if r < 0.6:      # a call that can write whole lines until the cap stops it
            ops.append("o:%d:%d*%d" % (NOLIM, NOLIM, rng.choice([TEXT_CAP + 5, 4000])))
        elif r < 0.8:    # the transport blocks after fewer writes than the cap
            ops.append("o:%d:%d*%d" % (NOLIM, NOLIM, rng.choice([1, 100, TEXT_CAP - 1, TEXT_CAP])))
        else:            # a byte budget that runs out first / short writes
            ops.append("o:%d:%s" % (rng.choice([1, 50, 2000, NOLIM]), ",".join(str(rng.choice([1, 2, NOLIM])) for _ in range(rng.choice([3, 40])))))
        if rng.random() < 0.5:
            ops.append("i:%d:%d*%d" % (NOLIM, NOLIM, rng.choice([1, 3])))
        if later and rng.random() < 0.3:
            ops += later
            later = []
    ops.append("i:%d:%d*4" % (NOLIM, NOLIM))
    return "T:%s|" % eol + ";".join(ops)


def gen_many_units(rng):
    """the other gateways have no per-call iteration cap; the analogous stress: far more than 1024 small units (Messages,
    chunks) leave in ONE DoOutput() call"""
    n = rng.choice([TEXT_CAP + 1, 1500])
    kind = rng.choice(["F", "R", "S", "T", "WS", "MC", "CM"])
    if kind in ("F", "WS", "MC", "CM"):
        qs = ["q:" + hexs(flat_msg(i % 7)) for i in range(n)]
        head = {"F": "F:0:%d" % NOLIM}.get(kind, kind)
    elif kind == "T":
        qs = ["q:" + hexs(bytes([0x61 + i % 3])) for i in range(n)]
        head = "T:0a"
    else:
        per = rng.choice([1, 3])
        qs = ["q:" + ",".join(hexs(bytes([1 + (i + j) % 200])) for j in range(per)) for i in range(n // per)]
        head = "R:0:%d" % NOLIM if kind == "R" else "S"
    ops = qs + ["o:%d:%d*6000" % (NOLIM, NOLIM), "i:%d:%d*6000" % (NOLIM, NOLIM)] * 2
    return head + "|" + ";".join(ops)


def gen_text_foreign(rng):
    """byte soup with CR/LF/NUL put straight on the wire in pieces (oracle off)"""
    alpha = [13, 10, 13, 10, 0, 0x61, 0x62, 0x63, 0x20, 0xff]
    ops = []
    for _ in range(rng.randint(1, 6)):
        ops.append("x:" + hexs(bytes(rng.choice(alpha) for _ in range(rng.choice([1, 2, 3, 5, 9])))))
        for _ in range(rng.randint(0, 3)):
            ops.append(op_i(rng, rng.choice([1, 2])))
    return "T:0d0a|" + ";".join(ops + drain(rng, 1))


SLIP_SPECIAL = [0xC0, 0xDB, 0xDC, 0xDD]


def rand_chunk(rng, special=False, allow_empty=False):
    n = rng.choice(([0] if allow_empty else []) + [1, 1, 2, 3, 5, 8, 13, 21])
    if special:
        return bytes(rng.choice(SLIP_SPECIAL + [0x41, 0x00, 0xff, rng.randrange(256)]) for _ in range(n))
    return bytes(rng.randrange(256) for _ in range(n))


def gen_chunks(rng, head, special):
    qs = []
    empties = rng.random() < 0.08
    for _ in range(rng.choice([1, 2, 3, 5])):
        nc = rng.choice([0, 1, 1, 2, 3, 4])
        qs.append("q:" + (",".join(hexs(rand_chunk(rng, special, empties)) for _ in range(nc)) if nc else "!"))
    tail = drain(rng, rng.choice([0, 2, 3]), rng.choice([0, 0, 40]))
    return head + "|" + ";".join(interleave(rng, qs, rng.choice([0, 2, 4, 8, 12]), tail))


def gen_raw(rng):
    minc = rng.choice([0, 0, 0, 1, 2, 3, 5, 8])
    maxc = rng.choice([NOLIM, NOLIM, 0, 1, 4, 8192, 10000])
    return gen_chunks(rng, "R:%d:%d" % (minc, maxc), False)


def gen_slip(rng):
    return gen_chunks(rng, "S", True)


def gen_slip_foreign(rng):
    alpha = SLIP_SPECIAL * 2 + [0x41, 0x42, 0x00]
    ops = []
    for _ in range(rng.randint(1, 6)):
        ops.append("x:" + hexs(bytes(rng.choice(alpha) for _ in range(rng.choice([1, 2, 3, 5, 9])))))
        for _ in range(rng.randint(0, 3)):
            ops.append(op_i(rng, 1))
    return "S|" + ";".join(ops + drain(rng, 1))


def directed():
    out = []
    ALL = str(NOLIM)
    b12 = flat_msg(7)
    # binary framing: every cut position of a 20-byte frame and of two frames back to back
    for body in (b12, flat_msg(9, [f_i32("i", [1, 2])])):
        L = len(body) + 8
        for cut in range(0, L + 1):
            out.append("F:0:%s|q:%s;q:%s;o:%s:%s;i:%d:%s;i:%s:%s;i:%s:%s" % (ALL, hexs(body), hexs(b12), ALL, ALL + "," + ALL + "," + ALL, cut, ALL, ALL, ALL + "," + ALL + "," + ALL + "," + ALL, ALL, ALL))
            out.append("F:0:%s|q:%s;q:%s;o:%d:%s;o:%s:%s;i:%s:%d,%s,%s,%s,%s;i:%s:%s" % (ALL, hexs(body), hexs(b12), cut, ALL, ALL, ALL + "," + ALL + "," + ALL, ALL, cut, ALL, ALL, ALL, ALL, ALL, ALL + "," + ALL))
    # the scratch buffer boundary: bodies of 2039..2041 and 2048 bytes, whole and byte-wise around the header
    for sz in (2039, 2040, 2041, 2048):
        import random
        body = body_of_size(random.Random(sz), sz)
        out.append("F:0:%s|q:%s;q:%s;o:%s:%s;i:%s:%s;i:%s:%s" % (ALL, hexs(body), hexs(b12), ALL, ",".join([ALL] * 4), ALL, ",".join([ALL] * 6), ALL, ALL))
        out.append("F:0:%s|q:%s;o:%s:%s;i:%s:%s;i:%s:%s;i:%s:%s" % (ALL, hexs(body), ALL, ALL, "2047", ",".join(["1"] * 9 + [ALL] * 3), "2", "1,1", ALL, ALL + "," + ALL))
    # zlib: compressed Message, tiny uncompressed one, compressed one depending on the first (every level, both gateways)
    import random as _r
    big1 = body_of_size(_r.Random(11), 300)
    for enc in range(1, 10):
        for kind in "FP":
            for scr in (ALL, ",".join(["7"] * 400)):
                tbl = ",".join(hexs(d) for d in deflate_table(enc, [big1, b12, big1, b12, big1])) if kind == "F" else ""
                out.append("%s:%d:%s:%s|q:%s;q:%s;q:%s;q:%s;q:%s;o:%s:%s;i:%s:%s;o:%s:%s;i:%s:%s" % (kind, enc, ALL, tbl, hexs(big1), hexs(b12), hexs(big1), hexs(b12), hexs(big1), ALL, scr, ALL, scr, ALL, scr, ALL, scr))
    # templating gateway: two Messages of different shape with the same TemplateHashCode64 ({a:int32x3,b:int32x1} / {a:int32x1,b:int32x2})
    cA = flat_msg(1, [f_i32("a", [1, 2, 3]), f_i32("b", [4])])
    cB = flat_msg(1, [f_i32("a", [5]), f_i32("b", [6, 7])])
    out.append("P:0:%s|q:%s;q:%s;o:%s:%s;i:%s:%s" % (ALL, hexs(cA), hexs(cB), ALL, ",".join([ALL] * 4), ALL, ",".join([ALL] * 8)))
    # WebSocket: slave frames whose size sits on the 7-bit / 16-bit / 64-bit length-field boundaries, both directions
    for sz in (125, 126, 127, 65535, 65536, 65537):
        wb = body_of_size(_r.Random(sz), sz - 8)
        for whead in ("WC", "WC:01020304", "WS"):
            out.append("%s|q:%s;o:%s:%s;i:%s:%s;i:%s:%s" % (whead, hexs(wb), ALL, ",".join([ALL] * 4), ALL, ",".join(["7"] * 50), ALL, ",".join([ALL] * 20)))
    # templating gateway, cache budget = two templates (each 56 bytes): A, B, A' (collides with A, sent plain, must NOT touch
    # the LRU order on either end), C (forces a trim: both ends must evict the same template), then A and B again
    tA = flat_msg(1, [f_i32("a", [1, 2, 3]), f_i32("b", [4])])
    tA2 = flat_msg(1, [f_i32("a", [5]), f_i32("b", [6, 7])])
    tB = flat_msg(2, [f_i32("c", [1, 2, 3]), f_i32("d", [4])])
    tC = flat_msg(3, [f_i32("e", [1, 2, 3]), f_i32("f", [4])])
    for budget in (56, 111, 112, 120, 167, 168):
        for seqm in ((tA, tB, tA2, tC, tA, tB, tA2), (tA, tB, tC, tA2, tB, tA), (tA2, tB, tA, tC, tA2, tA, tB)):
            out.append("P:0:%s:%d|%s;o:%s:%s;i:%s:%s" % (ALL, budget, ";".join("q:" + hexs(m) for m in seqm), ALL, ",".join([ALL] * 10), ALL, ",".join([ALL] * 20)))
            out.append("P:0:%s:%d|%s" % (ALL, budget, ";".join("q:%s;o:%s:%s;i:%s:%s" % (hexs(m), ALL, ",".join([ALL] * 3), ALL, ",".join(["7"] * 30)) for m in seqm)))
    # packet mode: one text Message, two lines, sent as one packet (PlainTextMessageIOGateway.cpp 28-68)
    out.append("KT:0d0a|q:6162,63;o:%s:1,1;i:%s:1,1" % (ALL, ALL))
    # maxIncoming exactly at / below the body size
    for lim in (11, 12, 13):
        out.append("F:0:%d|q:%s;o:%s:%s;i:%s:%s;i:%s:%s" % (lim, hexs(b12), ALL, ALL, ALL, ALL + "," + ALL + "," + ALL, ALL, ALL))
    # text: terminator split across reads, CR at the end of a read, empty lines, every eol
    for eol in ("0d0a", "0d", "0a"):
        for cut in range(0, 12):
            out.append("T:%s|q:6162,,63;q:!;q:64;o:%s:%s;i:%d:%s;i:%s:%s;i:%s:%s" % (eol, ALL, ",".join([ALL] * 12), cut, ALL, "1", "1", ALL, ALL))
    out.append("T:0d0a|x:61620d;i:100:100;x:0a63;i:100:100;x:0d0d0a0a;i:100:100;x:640a0d65;i:100:100;i:100:100")
    out.append("T:0d0a|x:6162006364;i:100:100;x:0a;i:100:100")           # NUL inside a line: C-string truncation
    out.append("T:0d0a|x:616200;i:100:100;x:63640a;i:100:100")           # the same bytes, read boundary after the NUL
    out.append("T:0d0a|q:%s;o:%s:%s;i:%s:%s;i:%s:%s;i:%s:%s" % ("61" * 3000, ALL, ALL + "," + ALL, ALL, ALL, ALL, ALL, ALL, ALL))   # a line longer than the 2047-byte read
    # text sender: recursion cap of 1024 per DoOutput call
    out.append("T:0d0a|q:%s;o:%s:%s;o:%s:%s;i:%s:%s" % (",".join(["61"] * 700), ALL, ",".join(["1"] * 2100), ALL, ",".join([ALL] * 1500), ALL, ALL))
    out.append("T:0d0a|%s;q:62;o:%s:%s;o:%s:%s;i:%s:%s" % (";".join(["q:!"] * 1100), ALL, ALL, ALL, ALL + "," + ALL, ALL, ALL))
    # raw: scratch size 8192, maxChunk below it, min-chunk assembly
    big = "ab" * 8200
    out.append("R:0:%s|q:%s;o:%s:%s;i:%s:%s;i:%s:%s" % (ALL, big, ALL, ALL, ALL, ALL, ALL, ALL))
    out.append("R:0:4|q:0102030405060708090a;o:%s:%s;i:%s:%s;i:3:%s;i:%s:%s;i:%s:%s" % (ALL, ALL, ALL, ALL, ALL, ALL, ALL, ALL, ALL))
    out.append("R:3:%s|q:0102030405060708;o:%s:%s;i:%s:%s;i:%s:%s" % (ALL, ALL, ALL, ALL, "1,1,5,5,5,5", ALL, ALL))
    out.append("R:3:%s|q:010203,040506;o:%s:%s,%s;i:3:%s,%s;i:%s:%s,%s,%s" % (ALL, ALL, ALL, ALL, ALL, ALL, ALL, ALL, ALL, ALL))
    out.append("R:0:%s|q:6162,,63;q:64;o:100:2,100;o:100:100;i:100:3;i:100:100" % ALL)      # empty chunk ends the Message (domain boundary)
    # SLIP: every special byte, ESC as the last byte of a read
    out.append("S|q:c0,db,dc,dd,c0dbdcdd;o:%s:%s;i:%s:%s;i:%s:%s" % (ALL, ",".join([ALL] * 8), ALL, ALL, ALL, ALL))
    for cut in range(0, 14):
        out.append("S|q:41c0db42,db;q:43;o:%s:%s;i:%d:%s;i:%s:%s;i:%s:%s" % (ALL, ",".join([ALL] * 6), cut, ALL, "1", "1", ALL, ALL))
    out.append("S|x:c0c0c041c0dbc0db41dbdbc0;i:100:100;x:dbdc;i:1:1;i:100:100;x:c0;i:100:100")
    out.append("S|q:61c0db62,,63;o:100:2,100;o:100:100;i:100:3;i:100:100")
    return out


class CHECK(vlib.Check):
    prop = "C03"
    prop_file = "Properties_C03.v"
    model = ("Gw/GwExtract.v", "gw_driver.ml", "gw", ("ocommon.ml",))
    harness = dict(name="gw", src="gw_h.cpp", san="asan", link_lib=True,
                   # calls of the library to its PRNG go through the harness, which can supply WebSocket masking keys
                   extra_flags=("-Wl,--wrap=_ZN6muscle31GetInsecurePseudoRandomNumber32Ej",),
                   # gw_c_minigw.c = lang/c/minimessage/MiniMessageGateway.c + read-only accessors for its private state
                   c_srcs=("lang/c/minimessage/MiniMessage.c", os.path.join(vlib.VERIF, "harness", "gw_c_minigw.c"),
                           os.path.join(vlib.VERIF, "harness", "gw_c_micromsg.c"), "lang/c/micromessage/MicroMessageGateway.c"))
    modelled = ("iogateway/MessageIOGateway.cpp stream mode: DoOutputImplementation/SendMoreData, DoInputImplementation/"
                "ReceiveMoreData/GetBodySize with scratch-buffer sizing and uint32 size arithmetic, for the DEFAULT encoding and "
                "the nine zlib encodings (32-byte threshold, ZLibCodec header, codec creation per level; deflate/inflate "
                "themselves are premises, instantiated in the correspondence by the same libz via python); "
                "TemplatingMessageIOGateway.cpp (three wire forms + plain fallback, flag bits, both LRU caches incl. TrimLRUCache; "
                "Message-level template functions are premises, tabulated by the harness); "
                "PlainTextMessageIOGateway.cpp DoOutputImplementationAux (1024 recursion cap) and the stream line splitter incl. "
                "C-string handling; RawDataMessageIOGateway.cpp stream sender and both receive modes; "
                "SLIPFramedDataMessageIOGateway.cpp encoder, decoder and per-call Message assembly. "
                "Messages are opaque flattened bytes at this level (Message codec: C01). "
                "WebSocketMessageIOGateway.cpp after the handshake with MessageIOGateway slaves: CreateReplyFrame, the header/payload "
                "receive loop, un-masking, fragments, binary/close/continuation/pong frames (corresponded: server->client pair and a "
                "server receiver fed client frames built by the generator, client->server pair with the masking keys fixed by the case "
                "through a link-time wrapper of the PRNG; TEXT/PING frames and the HTTP handshake are not modelled). "
                "lang/c/minimessage/MiniMessageGateway.c: MGAddOutgoingMessage/MGDoOutput and MGDoInput (header checks, buffer "
                "trade-up and 64 KB shrink, one Message per call), corresponded in both directions against the C++ binary gateway "
                "(MMFlatten/MMUnflattenMessage are outside the model). "
                "Harness oracle only (not modelled): WebSocket client sender with its own random keys, "
                "the C micro gateway against the C++ one, zlib under the templating gateway, packet-mode (UDP-style) "
                "operation of the binary/text/raw gateways, StressTestParserProxyDataIO as second segmenter.")
    premises = ["memory safety and object lifetime of the C++ (observed by ASan/UBSan in the harness only)",
                "Message::Flatten/Unflatten round trip (C01) for the bodies carried by the binary gateway",
                "zlib: inflate undoes deflate(Z_SYNC_FLUSH) on streams in step (hypothesis zlib_roundtrip of the C03_zlib_* theorems)",
                "templating: Flatten/Unflatten and TemplatedFlatten/TemplatedUnflatten (against a template that describes the "
                "Message) round-trip, template hash of a template = hash of its Message, bodies below 2^31 bytes "
                "(hypotheses of the C03_templating_* theorems; no hash injectivity assumed)",
                "text lines free of CR/LF/NUL; raw/SLIP chunks non-empty (stated domain boundaries)"]
    rule = ("op scripts (queue Message / DoOutput(max) with a per-Write byte-count script / DoInput(max) with a per-Read "
            "script / raw injection) over a sender and a receiver gateway joined by a scripted DataIO; after EVERY call the "
            "return value, the bytes moved, the Messages delivered, the internal cursors (and template caches) of both ends "
            "and the sender's HasBytesToOutput() are compared with the extracted Coq model; the harness evaluates prefix-safety "
            "after every DoInput and, after the scripted calls, pumps the pair the way an event loop does (DoOutput only while "
            "HasBytesToOutput() says true, unlimited transport, receiver drained) and then requires delivered == queued "
            "(HasBytesToOutput() false implies nothing unsent). Non-trivial = at least one Message queued or bytes injected and at least one DoInput call.")

    def gen_cases(self, rng, tier):
        n = 500 if tier == "quick" else 6000
        out = []
        for i in range(n):
            out.append(("frame", gen_frame(rng, big_ok=(i % 10 == 0))))
            out.append(("text", gen_text(rng)))
            out.append(("raw", gen_raw(rng)))
            out.append(("slip", gen_slip(rng)))
            if i % 4 == 0:
                out.append(("frame-malformed", gen_frame_bad(rng)))
                out.append(("text-foreign", gen_text_foreign(rng)))
                out.append(("slip-foreign", gen_slip_foreign(rng)))
        m = 6 if tier == "quick" else 60
        for enc in range(0, 10):
            for j in range(m):
                if enc > 0:
                    out.append(("zlib", gen_codec_oracle(rng, "F", enc)))
                out.append(("templating-oracle", gen_codec_oracle(rng, "P", enc)))
        for j in range(12 if tier == "quick" else 100):
            out.append(("templating-collision", gen_tmpl_collision(rng, rng.choice([0, 0, 6]))))
        for j in range(150 if tier == "quick" else 1500):
            c = gen_tmpl_model(rng)
            if c is not None:
                out.append(("templating", c))
        for j in range(250 if tier == "quick" else 2500):
            out.append(("templating-pressure", gen_tmpl_pressure(rng)))
            if j % 5 == 0:
                out.append(("templating-pressure-oracle", gen_tmpl_pressure(rng, enc=rng.choice([0, 1, 6, 9]), model=False)))
        for j in range(16 if tier == "quick" else 160):
            out.append(("text-recursion-cap", gen_text_long(rng)))
        for j in range(4 if tier == "quick" else 40):
            out.append(("many-units-per-call", gen_many_units(rng)))
        for j in range(10 if tier == "quick" else 100):
            for head in ("UC", "CU"):
                out.append(("c-gateways-oracle", gen_c_gateway(rng, head)))
            for _ in range(3):
                for head in ("MC", "CM"):
                    out.append(("c-mini-gateway", gen_c_gateway(rng, head)))
                out.append(("c-mini-gateway", gen_c_mini_bad(rng)))
            out.append(("websocket-oracle", gen_websocket(rng, "WC")))
            for _ in range(3):
                out.append(("websocket", gen_websocket(rng, "WS")))
                out.append(("websocket", gen_ws_recv(rng)))
                out.append(("websocket", gen_websocket_client(rng)))
            for _ in range(3):
                out.append(("stress-proxy-oracle", gen_stress(rng)))
        for j in range(6 if tier == "quick" else 40):
            for kind in "FTR":
                out.append(("packet-oracle", gen_packet_oracle(rng, kind)))
        out += [("directed", c) for c in directed()]
        return out

    def signature(self, f):
        """what fails: for a crash, the MCRASH site if the implementation named one"""
        import re
        sig = f.get("signature") or "disagree"
        det = f.get("detail") or {}
        err = det.get("stderr", "") if isinstance(det, dict) else ""
        m = re.search(r"Crash\(\) was called from (\S+)", err)
        if f.get("kind") == "crash" and m:
            site = m.group(1)
            site = site.split("/repo/")[-1] if "/repo/" in site else re.sub(r"^/tmp/wt-[^/]+/", "", site)
            return "crash: MCRASH at " + site
        return sig

    def fail_key(self, f):
        """what must stay the same while shrinking / what groups failures: the oracle text without its counters"""
        kind, sig = super().fail_key(f)
        return (kind, re.sub(r"\(\d+ of \d+ items[^)]*\)", "(..)", re.sub(r"\b\d+\+?\d* of \d+\b", "n of m", sig)))

    def nontrivial(self, case):
        return ("q:" in case or "x:" in case) and ";i:" in case

    def distribution(self, sc):
        d = {}
        for s, c in sc:
            d["stream:" + s] = d.get("stream:" + s, 0) + 1
            d["gateway:" + c[0]] = d.get("gateway:" + c[0], 0) + 1
            for o in c.split("|", 1)[1].split(";"):
                k = "op:" + o.split(":")[0]
                d[k] = d.get(k, 0) + 1
        return d
