"""C15 -- wildcard patterns match exactly the strings their documented syntax denotes (regex/StringMatcher.*)."""
import itertools, os, re, subprocess
import vlib

META = "ab0*?[]()|,~<>-\\`"          # the alphabet of DESIGN.md 6/C15: every metacharacter + three ordinary characters
EXTRA = ".+^${}=:!'\"/ wWsSbB19_"     # further characters with a meaning somewhere (regex leakage, GNU escapes)


def hx(s):
    if isinstance(s, str):
        s = s.encode("latin-1")
    return s.hex()


def subj_alphabet(pat, rng, cap):
    """characters worth putting into subjects for this pattern: its own characters first, then a, b, 0"""
    seen = []
    for ch in pat + "ab0":
        if ch not in seen and ch != "\0":
            seen.append(ch)
    lits = [c for c in seen if c in "ab0"]
    metas = [c for c in seen if c not in "ab0"]
    rng.shuffle(metas)
    out = (lits[:2] + metas)[:cap]
    if len(out) < 2:
        out += [c for c in "ab" if c not in out]
    return "".join(out[:cap])


def gen_valid(rng, depth=0, top=True):
    """a mostly well-formed simple pattern"""
    def atom():
        r = rng.random()
        if r < 0.40:
            return rng.choice("ab0abxyz.+-_:")
        if r < 0.52:
            return "*"
        if r < 0.62:
            return "?"
        if r < 0.72:
            return "\\" + rng.choice("*?[]()|,\\~<ab.+-{}^$=`w1s")
        if r < 0.84:
            items = []
            for _ in range(rng.choice([1, 1, 2, 3])):
                if rng.random() < 0.3:
                    a, b = sorted([rng.choice("ab0xyz09AZ"), rng.choice("ab0xyz09AZ")])
                    items.append(a + "-" + b)
                else:
                    items.append(rng.choice("ab0xyz-^]!,.*?+\\|") if rng.random() < 0.35 else rng.choice("ab0xyz"))
            return "[" + rng.choice(["", "", "^"]) + "".join(items) + "]"
        if depth < 2:
            return "(" + gen_valid(rng, depth + 1, False) + ")"
        return rng.choice("ab")
    branches = []
    for _ in range(rng.choice([1, 1, 1, 2, 2, 3])):
        branches.append("".join(atom() for _ in range(rng.choice([0, 1, 1, 2, 2, 3, 4]))))
    s = branches[0]
    for b in branches[1:]:
        s += rng.choice("|,") + b
    if top and rng.random() < 0.12:
        s = "~" + s
    return s


def gen_soup(rng, alphabet, n):
    return "".join(rng.choice(alphabet) for _ in range(n))


def gen_range_pattern(rng):
    nums = ["0", "1", "2", "5", "9", "10", "19", "21", "99", "100", "4294967295", "4294967296", "4294967297",
            "18446744073709551615", "18446744073709551616", "18446744073709551621", "007", "00"]
    def clause():
        r = rng.random()
        a, b = rng.choice(nums), rng.choice(nums)
        if r < 0.25: return a
        if r < 0.55: return a + "-" + b
        if r < 0.65: return "-" + b
        if r < 0.75: return a + "-"
        if r < 0.80: return "-"
        if r < 0.84: return ""
        if r < 0.88: return " " + a
        if r < 0.91: return "x" + a + "y-" + b + "z"
        if r < 0.94: return a + "-" + b + "-" + a
        if r < 0.96: return ">"
        if r < 0.98: return a + "x" + b
        return rng.choice(["a", "*", "\\", "5 ", "\t5"])
    body = ",".join(clause() for _ in range(rng.choice([1, 1, 2, 3])))
    p = "<" + body + ">"
    r = rng.random()
    if r < 0.1: p = "~" + p
    elif r < 0.15: p = p + "x"
    elif r < 0.2: p = "\\" + p
    elif r < 0.23: p = p[:-1]
    elif r < 0.26: p = p + ">"
    return p


NUM_SUBJECTS = ["", "0", "1", "2", "4", "5", "6", "9", "10", "11", "18", "19", "20", "21", "22", "99", "100", "101", "007", "00",
                "4294967294", "4294967295", "4294967296", "4294967297", "4294967301", "18446744073709551616", "18446744073709551621",
                "5x", "12abc", "x5", " 5", "-5", "5-", "a", "<5>", "5,6"]


class CHECK(vlib.Check):
    prop = "C15"
    prop_file = "Properties_C15.v"
    model = ("Pat/PatExtract.v", "pat_driver.ml", "pat", ("ocommon.ml",))
    harness = dict(name="pat", src="pat_h.cpp", san="asan", link_lib=True)
    modelled = ("regex/StringMatcher.cpp: IsRegexToken, HasRegexTokens, EscapeRegexTokens, RemoveEscapeChars, "
                "CanWildcardStringMatchMultipleValues, DigitsOnly, Atoull, StringMatcher::SetPattern (both modes, as a "
                "transition of the whole object state: pattern, the five flags, ranges, compiled regex), Match, "
                "IsPatternUnique, IsPatternListOfUniqueValues, SetNegate, Reset, operator=, recycling through the "
                "object pool; character tables and marker characters regenerated from the source by the translator. "
                "libc regcomp/regexec is modelled by Pat/Ere.v (parser following glibc's for RE_SYNTAX_POSIX_EXTENDED + "
                "derivative matcher with anchors) and compared with the real libc on every generated pattern; regex "
                "strings outside that model (intervals {..}, [: :] classes, \\b \\B \\< \\> \\` \\' and "
                "back-references) are marked U and only their regex-independent observables are compared. "
                "The glue is modelled too: SegmentedStringMatcher (SetPattern/Match/IsPatternUnique) and PathMatcher "
                "(PutPathString + MatchesPath without filter, GetPathDepth). "
                "Not modelled: ToString, MakeRegexCaseInsensitive, PathMatcher with query filters, NodePathMatcher traversal (C05).")
    premises = ["engine_is_ere: libc regcomp(REG_EXTENDED)/regexec agree with Pat/Ere.v (ere_compile/ere_exec) on the regex "
                "strings SetPattern produces (exercised by every correspondence case; a premise of the theorems)",
                "C locale, NUL-free strings; memory safety of the C++ observed by ASan/UBSan in the harness only"]
    rule = ("cases are scripts of SetPattern/Match/SetNegate/Reset/assign/pool operations on ONE re-used StringMatcher (and "
            "on pooled ones), strings in hex; after every operation the status, all flags, the range list, the stored "
            "pattern and the Match answers (single subjects and exhaustive enumerations over a small alphabet) are compared "
            "with the extracted model; the harness evaluates the documented syntax independently (ORACLE).  Non-trivial = "
            "the script sets at least one pattern holding a metacharacter and asks at least one Match.")
    quick_timeout = 900

    # ------------------------------------------------------------------ generators
    def _subjects(self, rng, pat, tier, n_single=4):
        ops = []
        cap, n = (4, 3) if tier == "quick" else (4, 4)
        if len(pat) > 6:
            cap = 3
        ops.append("e:%s:%d" % (hx(subj_alphabet(pat, rng, cap)), n))
        lits = [c for c in pat if c not in "*?[]()|,\\~<>`"] or ["a"]
        for _ in range(n_single):
            # something that resembles the pattern
            s = "".join(rng.choice([c, c, rng.choice("ab0x"), ""]) if c not in "*?" else rng.choice(["", "a", "ab", "xyz"]) for c in pat
                        if c not in "[]()\\~")
            if rng.random() < 0.3:
                s = "".join(rng.choice(lits) for _ in range(rng.randint(0, 6)))
            ops.append("m:" + hx(s.replace("\0", "")))
        return ops

    _calls = 0

    def gen_cases(self, rng, tier):
        quick = (tier == "quick")
        self._calls += 1          # thorough runs three seeds: the exhaustive enumeration is generated once
        out = []
        def case(stream, ops, head="O"):
            out.append((stream, head + "|" + ";".join(ops)))

        # ---- 1. small-scope enumeration over the metacharacter alphabet (exhaustive to length 4 in thorough)
        pats = []
        for L in (0, 1, 2):
            pats += ["".join(t) for t in itertools.product(META, repeat=L)]
        if quick or self._calls > 1:
            for L, cnt in ((3, 500), (4, 700)):
                pats += [gen_soup(rng, META, L) for _ in range(cnt)]
        else:
            for L in (3, 4):
                pats += ["".join(t) for t in itertools.product(META, repeat=L)]
        for p in pats:
            cap, n = (3, 3) if quick else ((3, 5) if len(p) <= 3 else (3, 4))   # thorough: every subject up to length 5 (4 for the 83521 patterns of length 4) over three characters
            case("enum", ["sp:%s:?" % hx(p), "e:%s:%d" % (hx(subj_alphabet(p, rng, cap)), n)])

        # ---- 2. mostly valid random patterns
        for _ in range(1200 if quick else 15000):
            p = gen_valid(rng)
            case("valid", ["sp:%s:?" % hx(p)] + self._subjects(rng, p, tier))

        # ---- 3. character soup over the wider alphabet (malformed stream)
        for _ in range(500 if quick else 10000):
            p = gen_soup(rng, META + EXTRA, rng.choice([1, 2, 3, 5, 7, 10]))
            case("soup", ["sp:%s:?" % hx(p)] + self._subjects(rng, p, tier, 2))

        # ---- 4. escaping: EscapeRegexTokens(s) must match s only
        esc_alpha = META + EXTRA + "\x01\x7f\x80\xff"
        firsts = "`<~\\[*a-."
        for i in range(700 if quick else 10000):
            L = rng.choice([0, 1, 1, 2, 3, 4, 6, 9])
            s = gen_soup(rng, esc_alpha, L)
            if s and rng.random() < 0.35:
                s = rng.choice(firsts) + s[1:]
            near = []
            for _ in range(3):
                if s:
                    j = rng.randrange(len(s))
                    near += [s[:j] + s[j + 1:], s[:j] + rng.choice("ab\\*") + s[j:], s[:j] + rng.choice("ab.") + s[j + 1:]]
            near += [s + s, "\\" + s, s[1:], "z" + s + "z", ""]
            ops = ["ep:%s:?" % hx(s), "m:" + hx(s)] + ["m:" + hx(t) for t in near[:8]]
            ops.append("e:%s:%d" % (hx(subj_alphabet(s, rng, 3)), 3))
            case("escape", ops)

        # ---- 5. numeric range lists
        for _ in range(500 if quick else 8000):
            p = gen_range_pattern(rng)
            subs = rng.sample(NUM_SUBJECTS, 10) + [str(rng.choice([0, 1, 5, 9, 10, 20, 21, 100, 4294967295, 4294967296]) + rng.choice([-1, 0, 1]))]
            case("range", ["sp:%s:?" % hx(p)] + ["m:" + hx(s) for s in subs if not s.startswith("-1")])

        # ---- 6. one object re-used for a sequence of patterns (and pooled matchers); state must not leak
        def some_pattern(kind):
            if kind == "range": return rng.choice(["<5-10>", "<3>", "<20->", "<-4>", "<1,3,5-7>", "~<5-10>", "<->"])
            if kind == "plain": return rng.choice(["abc", "a", "5", "7", "x.y", "a\\*b", "\\<5>", ""])
            if kind == "wild": return rng.choice(["a*", "?", "*", "[a-c]x", "(a|b)c", "a,b", "5,7", "*5*"])
            if kind == "neg": return rng.choice(["~a*", "~abc", "~", "~5", "~<3>", "~~a"])
            if kind == "bad": return rng.choice(["(", "[a", "a)|(", "[b-a]", "\\1", "(()"])
            if kind == "raw": return rng.choice(["`a.*", "`^a$", "`[0-9]", "`", "~`a", "`(a|b)c", "`a+b", "`ab?c", "`(a|b)+", "`a+?", "`+a", "`a{2}", "`[ab]+c?"])
            return gen_valid(rng)
        kinds = ["range", "plain", "wild", "neg", "bad", "raw", "any"]
        for _ in range(700 if quick else 8000):
            ops = []
            for step in range(rng.choice([2, 2, 3, 4, 6])):
                k = rng.choice(kinds)
                p = some_pattern(k)
                r = rng.random()
                if r < 0.55: ops.append("sp:%s:?" % hx(p))
                elif r < 0.65: ops.append("sr:%s:?" % hx(p.lstrip("`~") if rng.random() < 0.7 else p))
                elif r < 0.80: ops.append("pl:%s:%d:?" % (hx(p), rng.choice([1, 1, 1, 0])))
                elif r < 0.90: ops.append("as:%s:%d:%d:?" % (hx(p), rng.choice([1, 1, 0]), rng.choice([0, 0, 1])))
                elif r < 0.95: ops.append("rs")
                else: ops.append("ep:%s:?" % hx(p))
                if rng.random() < 0.15:
                    ops.append("ng:%d" % rng.randint(0, 1))
                for s in rng.sample(["5", "7", "3", "25", "abc", "a", "ab", "x", "", "5x", "a*b", "<5>", "b", "ac", "~a"], 4):
                    ops.append("m:" + hx(s))
            case("reuse", ops)

        # ---- 7. directed cases (every boundary known from reading the code)
        D = [
            ["sp:%s:?" % hx("<5-10>"), "m:" + hx("7"), "sp:%s:?" % hx("abc"), "m:" + hx("7"), "m:" + hx("abc")],
            ["sp:%s:?" % hx("<5-10>"), "sp:%s:?" % hx("a*"), "m:" + hx("7"), "m:" + hx("ab")],
            ["sp:%s:?" % hx("<5-10>"), "sp:%s:?" % hx("~x"), "m:" + hx("7"), "m:" + hx("x"), "m:" + hx("y")],
            ["sp:%s:?" % hx("~a"), "sp:%s:?" % hx("a"), "m:" + hx("a"), "m:" + hx("b")],
            ["sp:%s:?" % hx("~a"), "sr:%s:?" % hx("a"), "m:" + hx("a"), "m:" + hx("b"), "m:" + hx("xay")],
            ["sp:%s:?" % hx("a*"), "sp:%s:?" % hx("("), "m:" + hx("a"), "sp:%s:?" % hx("`"), "m:" + hx("a"), "m:"],
            ["sp:%s:?" % hx("<3>"), "sp:%s:?" % hx("`"), "m:" + hx("3"), "sr::?", "m:" + hx("3"), "m:"],
            ["pl:%s:1:?" % hx("<5-10>"), "m:" + hx("7"), "pl:%s:1:?" % hx("abc"), "m:" + hx("7"), "m:" + hx("abc"),
             "pl:%s:1:?" % hx("~q"), "pl:%s:1:?" % hx("r"), "m:" + hx("r"), "m:" + hx("z")],
            ["sp:%s:?" % hx("<5-10>"), "as:%s:1:0:?" % hx("abc"), "m:" + hx("7"), "m:" + hx("abc"), "as:%s:1:1:?" % hx("a*"), "m:" + hx("ab"), "m:" + hx("b")],
            ["sp:%s:?" % hx("<5-10>"), "rs", "m:" + hx("7"), "m:", "sp:%s:?" % hx("7"), "m:" + hx("7")],
            ["sp:%s:?" % hx("a,b"), "sp:%s:?" % hx("~a,b"), "sp:%s:?" % hx("<1>,2"), "sp:%s:?" % hx("a\\,b"), "m:" + hx("a,b")],
            ["sp:%s:?" % hx("\\<5>"), "m:" + hx("<5>"), "m:" + hx("5"), "sp:%s:?" % hx("a\\<5>"), "m:" + hx("a<5>")],
            ["sp:%s:?" % hx("~"), "m:", "m:" + hx("a"), "sp::?", "m:", "m:" + hx("a"), "sp:%s:?" % hx("~~a"), "m:" + hx("~a"), "m:" + hx("a")],
            ["sp:%s:?" % hx("<>"), "m:" + hx("0"), "m:" + hx("a"), "sp:%s:?" % hx("<->"), "m:" + hx("4294967295"), "m:" + hx("x")],
            ["sp:%s:?" % hx("<1>"), "m:" + hx("4294967297"), "m:" + hx("18446744073709551617"), "m:" + hx("1x"), "m:" + hx("01")],
            ["sp:%s:?" % hx("<4294967296-4294967297>"), "m:" + hx("0"), "m:" + hx("1"), "m:" + hx("2")],
            ["sp:%s:?" % hx("a\\"), "m:" + hx("a\\"), "m:" + hx("a"), "sp:%s:?" % hx("a\\\\"), "m:" + hx("a\\"), "m:" + hx("a\\\\")],
            ["sp:%s:?" % hx("\\w"), "m:" + hx("a"), "m:" + hx("w"), "sp:%s:?" % hx("a\\bc"), "m:" + hx("abc"), "sp:%s:?" % hx("\\1"), "m:" + hx("1")],
            ["ep:%s:?" % hx("`abc"), "m:" + hx("`abc"), "m:" + hx("abc"), "m:" + hx("zabcz")],
            ["ep:%s:?" % hx("<5>"), "m:" + hx("<5>"), "m:" + hx("5"), "ep:%s:?" % hx("~a"), "m:" + hx("~a"), "m:" + hx("b")],
            ["sp:%s:?" % hx("[,]"), "m:" + hx(","), "m:" + hx("|"), "sp:%s:?" % hx("[?]"), "m:" + hx("?"), "m:" + hx("."), "sp:%s:?" % hx("[.]"), "m:" + hx("\\"),
             "sp:%s:?" % hx("[*]"), "m:" + hx("."), "sp:%s:?" % hx("[\\]]"), "m:" + hx("]"), "m:" + hx("\\]")],
            ["sp:%s:?" % hx("a)b"), "m:" + hx("ab)"), "m:" + hx("a)b"), "sp:%s:?" % hx("a)|(b"), "m:" + hx("a"), "m:" + hx("xb"), "m:" + hx("ax")],
            ["sp:%s:?" % hx("a^b"), "m:" + hx("a^b"), "sp:%s:?" % hx("a$"), "m:" + hx("a"), "m:" + hx("a$"), "sp:%s:?" % hx("^a|b$"), "m:" + hx("a"), "m:" + hx("b")],
            ["sp:%s:?" % hx("a{2}"), "m:" + hx("aa"), "sp:%s:?" % hx("a}"), "m:" + hx("a}"), "sp:%s:?" % hx("{"), "m:" + hx("{")],
            ["sp:%s:?" % hx("[a-b-c]"), "m:" + hx("a"), "sp:%s:?" % hx("[--a]"), "m:" + hx("0"), "sp:%s:?" % hx("[a-]"), "m:" + hx("-"),
             "sp:%s:?" % hx("[]a]"), "m:" + hx("]"), "sp:%s:?" % hx("[^]a]"), "m:" + hx("b"), "sp:%s:?" % hx("[[a]"), "m:" + hx("["),
             "sp:%s:?" % hx("[[:alpha:]]"), "m:" + hx("a"), "sp:%s:?" % hx("[a-[]"), "m:" + hx("["), "sp:%s:?" % hx("[%--]"), "m:" + hx("-")],
            ["sp:%s:?" % hx("a||b"), "m:", "sp:%s:?" % hx("()"), "m:", "sp:%s:?" % hx("(|a)"), "m:", "m:" + hx("a"), "sp:%s:?" % hx("|"), "m:"],
            ["sp:%s:?" % hx("a.b"), "m:" + hx("a.b"), "m:" + hx("axb"), "sp:%s:?" % hx("a+"), "m:" + hx("a+"), "m:" + hx("aa")],
            ["sp:%s:?" % hx("**"), "m:", "m:" + hx("abc"), "sp:%s:?" % hx("?*"), "m:", "m:" + hx("a"), "sp:%s:?" % hx("\\\\*"), "m:" + hx("\\abc")],
        ]
        for ops in D:
            case("directed", ops)
        # every ordered pair (and some triples) of state-changing operations on one object, a Match after each:
        # compiled regex -> range list / "`" / "" (the paths of SetPattern that return before regcomp) and back,
        # negated -> plain, simple -> regex syntax, failed compile -> ok, through SetPattern, the pool and operator=
        reps = [("sp", "abc"), ("sp", "a*"), ("sp", "("), ("sp", "`"), ("sp", ""), ("sp", "~"), ("sp", "<5-10>"), ("sp", "~<3>"),
                ("sp", "`a"), ("sp", "~x"), ("sr", ""), ("sr", "a.*"), ("sr", "("), ("pl1", "abc"), ("pl1", "<5-10>"), ("pl1", "`"),
                ("pl0", ""), ("as1", "a*"), ("as1", "<3>"), ("as0", ""), ("rs", "")]
        probe = ["m:" + hx(s) for s in ("7", "abc", "a", "", "x", "3")]
        def rep_op(kind, p):
            if kind in ("sp", "sr"): return "%s:%s:?" % (kind, hx(p))
            if kind.startswith("pl"): return "pl:%s:%s:?" % (hx(p), kind[2])
            if kind.startswith("as"): return "as:%s:%s:0:?" % (hx(p), kind[2])
            return "rs"
        for a in reps:
            for b in reps:
                case("reuse-pairs", [rep_op(*a)] + probe[:3] + [rep_op(*b)] + probe)
        for _ in range(200 if quick else 3000):
            ops = []
            for r in [rng.choice(reps) for _ in range(rng.choice([3, 4, 5]))]:
                ops += [rep_op(*r)] + rng.sample(probe, 3)
            case("reuse-pairs", ops)
        # ---- 8. the glue around StringMatcher: SegmentedStringMatcher and PathMatcher (one pooled matcher per '/'-separated clause)
        def clause():
            r = rng.random()
            if r < 0.25: return "*"
            if r < 0.5: return rng.choice(["a", "b", "ab", "x.y", "5", "a\\*b", ""])
            if r < 0.6: return rng.choice(["<5-10>", "<3>", "~a", "~<3>", "`a.*", "(", "[b-a]"])
            return gen_valid(rng, 1, False)
        def piece(cl):
            r = rng.random()
            if r < 0.5:
                return "".join(rng.choice([c, c, "a", ""]) if c not in "*?" else rng.choice(["", "a", "xy"]) for c in cl if c not in "[]()\\~|,<>`")
            return rng.choice(["a", "b", "ab", "7", "", "x.y", "a*b", "abc"])
        for _ in range(400 if quick else 6000):
            cls = [clause() for _ in range(rng.choice([1, 2, 2, 3, 4]))]
            pat = "/".join(cls)
            r = rng.random()
            if r < 0.15: pat = "/" + pat
            elif r < 0.25: pat = pat + "/"
            elif r < 0.3: pat = "~" + pat
            ops = []
            for _ in range(4):
                ps = [piece(c) for c in cls]
                r = rng.random()
                if r < 0.15: ps = ps[:-1]
                elif r < 0.3: ps = ps + [rng.choice(["a", "", "x"])]
                subj = "/".join(ps)
                r = rng.random()
                if r < 0.2: subj = "/" + subj
                elif r < 0.3: subj = subj + "/"
                elif r < 0.35: subj = subj.replace("/", "//", 1)
                ops.append("sg:%s:%d:%d:%s:?" % (hx(pat), rng.choice([1, 1, 1, 0]), rng.choice([0, 0, 1]), hx(subj)))
                if pat:
                    ops.append("pm:%s:%s:?" % (hx(pat), hx(subj)))
            case("glue", ops)
        return self._mark(out)

    def _mark(self, out):
        """replace every '?' marker by S/U as computed by the model (`pat_model --classify`)"""
        exe = os.path.join(vlib.BUILD, "bin", "pat_model")
        lines = [c for _, c in out]
        marks = {}
        self._grammar = getattr(self, "_grammar", {"W": 0, "n": 0})
        if os.path.exists(exe):
            p = subprocess.run([exe, "--classify"], input="".join(l + "\n" for l in lines), stdout=subprocess.PIPE, text=True, timeout=900)
            for l in p.stdout.splitlines():
                sp = l.split(" ", 1)
                if sp[0].isdigit():
                    f = (sp[1] if len(sp) > 1 else "").split(" ")
                    marks[int(sp[0])] = f[0]
                    for ch in (f[1] if len(f) > 1 else ""):
                        self._grammar[ch] = self._grammar.get(ch, 0) + 1
        res = []
        for k, (stream, line) in enumerate(out):
            ms = list(marks.get(k, ""))
            def sub(m):
                return ":" + (ms.pop(0) if ms else "S")
            res.append((stream, re.sub(r":\?", sub, line)))
        return res

    def nontrivial(self, case):
        body = case.split("|", 1)[1] if "|" in case else ""
        pats = re.findall(r"(?:sp|sr|ep|pl|as):([0-9a-f]*)", body)
        has_meta = any(any(ch in bytes.fromhex(p).decode("latin-1") for ch in "*?[](|,~<\\`") for p in pats)
        return has_meta and (";m:" in body or ";e:" in body)

    def signature(self, failure):
        sig = failure.get("signature") or "disagree"
        m = re.match(r"ORACLE FAIL (\S+)", sig)
        return ("oracle " + m.group(1)) if m else sig

    def fail_key(self, f):
        sig = f.get("signature", "")
        m = re.match(r"ORACLE FAIL (\S+)", sig)
        return (f["kind"], m.group(1) if m else re.sub(r"^\d+ ", "", sig))

    def distribution(self, sc):
        d = {}
        for s, c in sc:
            d["stream:" + s] = d.get("stream:" + s, 0) + 1
            for o in c.split("|", 1)[1].split(";"):
                k = "op:" + o.split(":")[0]
                d[k] = d.get(k, 0) + 1
            d["marker:U"] = d.get("marker:U", 0) + len(re.findall(r":U(;|$)", c))
            d["marker:S"] = d.get("marker:S", 0) + len(re.findall(r":S(;|$)", c))
        g = getattr(self, "_grammar", {})
        d["patterns accepted by the reader of the documented wildcard grammar (domain of translate_correct)"] = g.get("W", 0)
        d["patterns accepted by the reader of the documented range-list form (domain of range_doc)"] = g.get("R", 0)
        d["patterns outside both (raw regex, regex-syntax mode, malformed, undocumented range clauses, class members , . + * ? \\ ...)"] = g.get("n", 0)
        return d
