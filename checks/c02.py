"""C02 -- Parsing untrusted bytes is memory-safe, terminates, and costs O(input).

Case line:  <target>[,param...]|<hex>;<hex>;...     (see harness/parse_h.cpp)
Generators: valid encodings (own Python encoder, independent of muscle and of the Coq model), every
truncation, every length/count/type word replaced by boundary values, bit flips, random bytes, splices;
for the gateways additionally every kind of segmentation.  Valid wire streams of the gateways whose
framing needs muscle's own state (templating ids, SLIP, WebSocket masks, tunnels) are obtained from a
sender gateway of the same kind (harness target `emit`) and then corrupted here.
"""
import os, re, struct, subprocess, zlib
import vlib

PM = 1347235888            # 'PM00'
ENC_DEFAULT = 1164862256   # MUSCLE_MESSAGE_ENCODING_DEFAULT


def tcode(s):
    return struct.unpack(">I", s)[0]


TC = dict(BOOL=tcode(b"BOOL"), DBLE=tcode(b"DBLE"), FLOT=tcode(b"FLOT"), LLNG=tcode(b"LLNG"), LONG=tcode(b"LONG"),
          SHRT=tcode(b"SHRT"), BYTE=tcode(b"BYTE"), MSGG=tcode(b"MSGG"), PNTR=tcode(b"PNTR"), BPNT=tcode(b"BPNT"),
          RECT=tcode(b"RECT"), CSTR=tcode(b"CSTR"), RAWT=tcode(b"RAWT"), TAGT=tcode(b"MTAG"), ANYT=tcode(b"ANYT"))
FIXED = {"BOOL": 1, "DBLE": 8, "FLOT": 4, "LLNG": 8, "LONG": 4, "SHRT": 2, "BYTE": 1, "BPNT": 8, "RECT": 16}


def w32(x):
    return struct.pack("<I", x & 0xFFFFFFFF)


class Enc:
    """byte builder that remembers where every 32-bit length/count/type word sits"""
    def __init__(self):
        self.b = bytearray()
        self.marks = []          # (offset, kind)
    def word(self, x, kind):
        self.marks.append((len(self.b), kind))
        self.b += w32(x)
    def raw(self, bs):
        self.b += bs
    def sub(self, other):
        off = len(self.b)
        self.marks += [(o + off, k) for (o, k) in other.marks]
        self.b += other.b


# ---------------------------------------------------------------------------- valid Messages
NAMES = [b"", b"a", b"b", b"i", b"name", b"seven77", b"eight888", b"nine99999", b"x\xc3\xa9", b"sub", b"data", b"zz", b"q"]


def rand_bytes(rng, n):
    return bytes(rng.getrandbits(8) for _ in range(n))


def gen_field(rng, depth, names_used):
    kind = rng.choice(["BOOL", "BYTE", "SHRT", "LONG", "LLNG", "FLOT", "DBLE", "BPNT", "RECT", "CSTR", "CSTR", "RAWT", "RAWT",
                       "MSGG", "MSGG", "CUST"] if depth > 0 else
                      ["BOOL", "BYTE", "SHRT", "LONG", "LLNG", "FLOT", "DBLE", "BPNT", "RECT", "CSTR", "RAWT", "CUST"])
    n = rng.choice([1, 1, 1, 2, 2, 3, 0, 5])
    name = rng.choice(NAMES)
    if rng.random() < 0.85:
        tries = 0
        while name in names_used and tries < 20:
            name = rng.choice(NAMES) + bytes([rng.choice(b"abcdefgh")]) * rng.randint(0, 2)
            tries += 1
    names_used.add(name)
    if kind in FIXED:
        sz = FIXED[kind]
        items = [rng.choice([b"\0" * sz, b"\xff" * sz, b"\x01" + b"\0" * (sz - 1), rand_bytes(rng, sz)]) for _ in range(n)]
        if kind == "BOOL":
            items = [bytes([rng.choice([0, 1, 1, 2, 255])]) for _ in range(n)]
        return (name, TC[kind], kind, items)
    if kind == "CSTR":
        items = [rng.choice([b"", b"x", b"hello", b"1234567", b"12345678", b"123456789", b"caf\xc3\xa9" * 3, rand_bytes(rng, rng.randint(0, 20)).replace(b"\0", b"!")]) for _ in range(n)]
        return (name, TC[kind], kind, items)
    if kind == "RAWT":
        items = [rand_bytes(rng, rng.choice([0, 1, 2, 7, 8, 9, 30])) for _ in range(n)]
        return (name, TC[kind], "RAWT", items)
    if kind == "CUST":
        tc = rng.choice([tcode(b"zzzz"), 0, 1, TC["BOOL"] + 1, TC["MSGG"] - 1, 0xFFFFFFFF, TC["RAWT"] + 1])
        items = [rand_bytes(rng, rng.choice([0, 1, 4, 12])) for _ in range(n)]
        return (name, tc, "RAWT", items)
    items = [gen_msg(rng, depth - 1) for _ in range(n)]
    return (name, TC["MSGG"], "MSGG", items)


def gen_msg(rng, depth, maxfields=4):
    nf = rng.choice([0, 1, 1, 2, 2, 3, maxfields])
    used = set()
    return (rng.choice([0, 1, 7, 0x7FFFFFFF, 0xFFFFFFFF, rng.getrandbits(32)]), [gen_field(rng, depth, used) for _ in range(nf)])


def enc_field_payload(kind, items):
    e = Enc()
    if kind in FIXED:
        for it in items:
            e.raw(it)
    elif kind == "CSTR":
        e.word(len(items), "count")
        for it in items:
            e.word(len(it) + 1, "itemlen")
            e.raw(it + b"\0")
    elif kind == "RAWT":
        e.word(len(items), "count")
        for it in items:
            e.word(len(it), "itemlen")
            e.raw(it)
    elif kind == "MSGG":
        for it in items:
            s = enc_msg(it)
            e.word(len(s.b), "sublen")
            e.sub(s)
    return e


def enc_msg(m):
    what, fields = m
    e = Enc()
    e.word(PM, "version")
    e.word(what, "what")
    e.word(len(fields), "nentries")
    for (name, tc, kind, items) in fields:
        e.word(len(name) + 1, "namelen")
        e.raw(name + b"\0")
        e.word(tc, "typecode")
        p = enc_field_payload(kind, items)
        e.word(len(p.b), "fieldlen")
        e.sub(p)
    return e


# templated encoding (Message::TemplatedFlatten of a payload that has the template's own shape)
def enc_tmsg(m):
    what, fields = m
    e = Enc()
    e.word(what, "what")
    for (name, tc, kind, items) in fields:
        if kind in FIXED:
            for it in items:
                e.raw(it)
        elif kind == "MSGG":
            e.word(len(items), "count")
            for it in items:
                s = enc_tmsg(it)
                e.word(len(s.b), "sublen")
                e.sub(s)
        else:
            p = enc_field_payload(kind, items)
            e.sub(p)
    return e


def template_ok(m):
    """a template the templated decoder can take apart again: no empty fields (GetNumItems()==0 never occurs in a parsed template
    with count words), unique names"""
    what, fields = m
    names = [f[0] for f in fields]
    if len(set(names)) != len(names):
        return False
    for (name, tc, kind, items) in fields:
        if len(items) == 0:
            return False
        if kind == "MSGG" and not all(template_ok(x) for x in items):
            return False
    return True


def strict_ok(m):
    """what a sender can produce: unique field names at every level (a duplicate of another type is a type-mismatch error in
    the C++ parser), no field without items (no API leaves one behind; the C parser rejects them)"""
    what, fields = m
    names = [f[0] for f in fields]
    if len(set(names)) != len(names) or any(len(f[3]) == 0 for f in fields):
        return False
    return all(strict_ok(x) for f in fields if f[2] == "MSGG" for x in f[3])


# ---------------------------------------------------------------------------- corruptions
def boundary_values(orig, rem, total):
    vals = [0, 1, 2, 3, 4, 7, 8, 11, 12, 13, orig - 1, orig + 1, rem - 1, rem, rem + 1, total - 1, total, total + 1,
            0x7FFFFFFF, 0x80000000, 0x80000001, 0x04000000, 0x00FFFFFF, 0x01000000, 65535, 65536, 255, 256] + \
           list(range(0xFFFFFFF8, 0x100000000))
    out, seen = [], set()
    for v in vals:
        v &= 0xFFFFFFFF
        if v != (orig & 0xFFFFFFFF) and v not in seen:
            seen.add(v)
            out.append(v)
    return out


def chunks_hex(b, cuts=None):
    if not cuts:
        return b.hex()
    cuts = sorted(set(c for c in cuts if 0 < c < len(b)))
    parts, prev = [], 0
    for c in cuts + [len(b)]:
        parts.append(b[prev:c].hex())
        prev = c
    return ";".join(parts)


def word_cuts(e):
    """cut the hex at every marked word so that the generic shrinker can drop fields/words"""
    cuts = []
    for (o, k) in e.marks:
        cuts += [o, o + 4]
    return cuts


def segmentations(rng, n, marks=()):
    """a few ways of cutting n bytes into segments"""
    out = [[]]
    if n <= 1:
        return out
    out.append(list(range(1, n)) if n <= 64 else sorted(rng.sample(range(1, n), 40)))
    for h in (7, 8, 9):
        if h < n:
            out.append([h])
    if n > 16:
        out.append([8, n - 1])
    for _ in range(2):
        k = rng.randint(1, min(6, n - 1))
        out.append(sorted(rng.sample(range(1, n), k)))
    if marks:
        out.append(sorted(set(o + d for (o, _) in marks for d in (0, 3, 4) if 0 < o + d < n))[:60])
    return out


def frame(body, enc=ENC_DEFAULT, size=None):
    return w32(len(body) if size is None else size) + w32(enc) + body


class CHECK(vlib.Check):
    prop = "C02"
    prop_file = "Properties_C02.v"
    model = ("Msg/ParseExtract.v", "parse_driver.ml", "parse", ("ocommon.ml",))
    harness = dict(name="parse", src="parse_h.cpp", san="asan", link_lib=True,
                   c_srcs=("lang/c/minimessage/MiniMessage.c", "lang/c/minimessage/MiniMessageGateway.c",
                           os.path.join(vlib.VERIF, "harness", "parse_c_micro.c"), "lang/c/micromessage/MicroMessageGateway.c"))
    quick_timeout = 1500
    modelled = ("Modelled in Coq and corresponded: message/Message.cpp Message::Unflatten, MessageField::Unflatten / SingleUnflatten / "
                "GetNumItemsInFlattenedBuffer, every *DataArray::TemplatedUnflatten, GetOrCreateMessageField; support/DataUnflattener.h (cursor, "
                "budget, SizeCheck, read limiter, child readers, SeekRelative's int32 argument, ReadCString); String::Unflatten; the allocation "
                "requests of these paths; Message::TemplatedUnflatten / MessageField::TemplatedUnflatten (model corresponded, pinned code refuted "
                "by witness, general theorems not proved); iogateway/MessageIOGateway.cpp DoInputImplementation / ReceiveMoreData / GetBodySize "
                "in stream mode (model corresponded, soundness theorem proved).  Targets corresponded to the model: msg, tmsg, nest, gw,mio.  "
                "Sanitizer + oracle only (not modelled): C MiniMessage / MicroMessage parsers and gateways, Templating / PacketTunnel / "
                "MiniPacketTunnel / WebSocket / PlainText / RawData / SLIP gateways, zlib encodings, packet (UDP) mode of MessageIOGateway.")
    premises = ["memory safety of the C++/C object code itself is observed by ASan/UBSan in the harness, not proved",
                "stack exhaustion on deeply nested input is runtime (finding F5, known); the model proves 28*depth <= len",
                "allocation is counted in the model's units (sizeof-based requests, amortised growth); the harness meters real heap bytes "
                "against its own bound K=64, C=256 KiB (plus 1 MiB and the configured maximum for gateways)",
                "buffer length below 2^31 (the uint32 API cannot describe 2^32-1 or more; SeekRelative takes its uint32 argument as int32)",
                "zlib inflate, the templated parser's general safety and the C parsers are outside the theorems"]
    rule = ("byte strings from random.Random(seed): valid encodings from an independent Python encoder; every truncation; every marked "
            "length/count/type word replaced by boundary values; two- and three-word conspiracies (field length x item count x next word, "
            "field tails with 0..5 bytes left); bit flips; splices; random bytes; nesting to depth 200; each sent to the C++ parser, the "
            "templated parser, the C mini/micro parsers and through every gateway under several segmentations; multi-packet conspiracies "
            "against the tunnel.  Non-trivial = everything except a valid encoding handed unmodified to a Message parser (flag ',v').")

    # ------------------------------------------------------------------ generator support: wire bytes from a sender gateway
    def emit(self, reqs):
        """reqs: list of (spec string like 'tmpl,n', [flattened message bytes...]) -> list of list of wire chunks"""
        exe = os.path.join(vlib.BUILD, "bin", "parse_impl")
        if not os.path.exists(exe) or not reqs:
            return [[] for _ in reqs]
        text = "".join("emit,%s|%s\n" % (spec, ";".join(m.hex() for m in msgs)) for (spec, msgs) in reqs)
        try:
            rc, lines, err = vlib.run_lines(exe, text, timeout=120)
        except Exception:
            return [[] for _ in reqs]
        out = [[] for _ in reqs]
        for l in lines:
            m = re.match(r"^(\d+) w ?(.*)$", l)
            if m and int(m.group(1)) < len(out):
                out[int(m.group(1))] = [bytes.fromhex(x) for x in m.group(2).split(";") if x != ""]
        return out

    # ------------------------------------------------------------------ streams
    def gen_cases(self, rng, tier):
        big = (tier != "quick")
        out = []
        add = lambda stream, line: out.append((stream, line))
        def some(seq, n):
            seq = list(seq)
            return seq if len(seq) <= n else rng.sample(seq, n)

        nvalid = 60 if not big else 400
        msgs = [gen_msg(rng, rng.choice([0, 1, 1, 2, 3])) for _ in range(nvalid)]
        encs = [enc_msg(m) for m in msgs]
        strict = [strict_ok(m) for m in msgs]
        small = [e for e in encs if 20 < len(e.b) <= 140]
        C3 = ["msg|", "mini|", "micro|"]

        # ---- 1. valid encodings to every Message parser ("v": unique names at every level, so every parser must accept)
        for e, ok in zip(encs, strict):
            h = chunks_hex(bytes(e.b), word_cuts(e))
            v = ",v|" if ok else "|"
            add("valid", "msg" + v + h)
            add("valid-c", "mini" + v + h)
            add("valid-c", "micro" + v + h)
        # ---- 2. every truncation of small valid encodings
        for e in small[: (6 if not big else 60)]:
            b = bytes(e.b)
            for n in range(len(b)):
                add("trunc", "msg|" + b[:n].hex())
            for n in sorted(set(some(range(len(b)), 10) + [o for (o, _) in e.marks] + [o + 3 for (o, _) in e.marks])):
                add("trunc-c", "mini|" + b[:n].hex())
                add("trunc-c", "micro|" + b[:n].hex())
        # ---- 3. every marked word replaced by boundary values (all values for a few encodings, a sample for the rest)
        for idx, e in enumerate(encs[: (30 if not big else 200)]):
            b = bytes(e.b)
            full = idx < (2 if not big else 30)
            for (o, kind) in e.marks:
                orig = struct.unpack_from("<I", b, o)[0]
                vals = boundary_values(orig, len(b) - o - 4, len(b))
                if kind == "typecode":
                    vals = [v for v in TC.values() if v != orig] + [0, 0xFFFFFFFF, orig ^ 1]
                if kind in ("what", "version"):
                    vals = vals[:2]
                if not full:
                    vals = some(vals, 3 if not big else 8)
                for v in vals:
                    c = b[:o] + w32(v) + b[o + 4:]
                    h = chunks_hex(c, word_cuts(e))
                    add("word:" + kind, "msg|" + h)
                    if rng.random() < (0.3 if not big else 0.6):
                        add("word-c:" + kind, rng.choice(["mini|", "micro|"]) + h)
        # ---- 3b. two-word conspiracies: (field length, item count) set to inconsistent pairs, boundary value planted in the word after
        for e in encs[: (20 if not big else 150)]:
            b = bytes(e.b)
            mk = e.marks
            for i, (o, kind) in enumerate(mk):
                if kind != "fieldlen" or o + 12 > len(b):
                    continue
                nxt = mk[i + 1][1] if i + 1 < len(mk) and mk[i + 1][0] == o + 4 else None
                rem = len(b) - o - 12
                plant = [0, 1, 4, rem - 1, rem, rem + 1, rem + 4, 0x7FFFFFFF, 0x80000000, 0xFFFFFFFB, 0xFFFFFFFC, 0xFFFFFFFF, len(b)]
                if nxt == "count":          # variable-sized items (strings, raw buffers): field length, item count, first item length
                    combos = [(el, ni, pv) for el in [0, 1, 2, 3, 4, 5, 6, 7, 8, 9, 11, 12, 13, 16] for ni in [0, 1, 2, 3, 0x40000000, 0xFFFFFFFF] for pv in plant]
                    pick = [(4, 1, rem + 1), (4, 1, 0xFFFFFFFF), (5, 1, rem + 4), (8, 1, rem), (8, 2, 0), (7, 1, 0x7FFFFFFF)] + some(combos, 10 if not big else 60)
                    for (el, ni, pv) in pick:
                        c = b[:o] + w32(el) + w32(ni) + w32(pv) + b[o + 12:]
                        for t in C3:
                            add("pair:len-count", t + chunks_hex(c, word_cuts(e)))
                elif nxt == "sublen":       # sub-Messages: field length, first sub-Message length, (version word of the sub-Message)
                    combos = [(el, sl) for el in [0, 1, 3, 4, 5, 8, 12, 15, 16, 17, rem + 8, rem + 9, 0xFFFFFFFF] for sl in [0, 1, 11, 12, 13, rem + 4, rem + 5, rem + 3, 0x7FFFFFFF, 0xFFFFFFFC, 0xFFFFFFFF]]
                    for (el, sl) in some(combos, 8 if not big else 50):
                        c = b[:o] + w32(el) + w32(sl) + b[o + 8:]
                        for t in C3:
                            add("pair:len-sublen", t + chunks_hex(c, word_cuts(e)))
            # entry count against what is left: (nentries, first name length)
            for (ne, nl) in some([(ne, nl) for ne in [0, 1, 2, len(b) // 12, len(b) // 12 + 1, 0xFFFFFFFF] for nl in [0, 1, len(b) - 16, len(b) - 15, 0xFFFFFFFF]], 4 if not big else 20):
                if len(b) >= 16:
                    c = b[:8] + w32(ne) + w32(nl) + b[16:]
                    add("pair:nentries-namelen", rng.choice(C3) + c.hex())
        # ---- 3c. the tail of a variable-sized field: n items claimed, the first n-1 well formed, r bytes of the field left for
        #          the last one (r in 0..5, so its 4-byte size word does or does not fit), boundary values in that size word.
        #          A bounds test written as a subtraction (size <= left-4) wraps exactly here.
        tails = []
        for tcn, tcv in [("CSTR", TC["CSTR"]), ("RAWT", TC["RAWT"]), ("CUST", tcode(b"zzzz"))]:
            for n in (1, 2, 3, 4):
                for r in (0, 1, 2, 3, 4, 5):
                    for layout in ("last", "followed"):
                        tails.append((tcn, tcv, n, r, layout))
        must = [("RAWT", TC["RAWT"], 2, 3, "last"), ("CSTR", TC["CSTR"], 2, 3, "last"), ("RAWT", TC["RAWT"], 1, 0, "last"), ("RAWT", TC["RAWT"], 3, 1, "followed")]
        for (tcn, tcv, n, r, layout) in must + some(tails, 40 if not big else len(tails)):
            good = b""
            for j in range(n - 1):
                it = rand_bytes(rng, rng.choice([0, 1, 4, 4, 7])).replace(b"\0", b"x")
                if tcn == "CSTR":
                    it += b"\0"
                good += w32(len(it)) + it
            data = rand_bytes(rng, rng.choice([0, 0, 1, 4, 8]))
            trailer = b"" if layout == "last" else w32(2) + b"z\0" + w32(TC["LONG"]) + w32(4) + w32(7)
            pre = w32(PM) + w32(1) + w32(1 if layout == "last" else 2) + w32(2) + b"f\0" + w32(tcv) + w32(4 + len(good) + r) + w32(n) + good
            rem = len(data) + len(trailer)
            lasts = [0, 1, (r - 4) & 0xFFFFFFFF, r, 0x7FFFFFFF, 0x80000000, rem, rem + 1, len(data), len(data) + 1] + list(range(0xFFFFFFF8, 0x100000000))
            for lv in (lasts if big else [rem + 1, 0xFFFFFFFF, 0x7FFFFFFF] + some(lasts, 3)):
                b = pre + w32(lv) + data + trailer
                for t in C3:
                    add("tail:" + tcn, t + b.hex())
        # ---- 4. bit flips, splices, random bytes
        for e in encs[: (40 if not big else 300)]:
            b = bytearray(e.b)
            for _ in range(5):
                c = bytearray(b)
                for _ in range(rng.choice([1, 1, 2, 4])):
                    i = rng.randrange(len(c))
                    c[i] ^= 1 << rng.randrange(8)
                add("flip", rng.choice(["msg|", "msg|", "mini|", "micro|"]) + chunks_hex(bytes(c), word_cuts(e)))
            c = bytearray(b)
            i = rng.randrange(len(c) + 1)
            if rng.random() < 0.5:
                c[i:i] = rand_bytes(rng, rng.choice([1, 4, 8]))
            else:
                del c[i:i + rng.choice([1, 4, 8])]
            add("splice", rng.choice(C3) + bytes(c).hex())
        for _ in range(150 if not big else 2000):
            n = rng.choice([0, 1, 3, 4, 11, 12, 13, 16, 24, 40, 100, 300])
            b = rand_bytes(rng, n)
            if rng.random() < 0.7 and n >= 12:
                b = w32(PM) + b[4:8] + w32(rng.choice([0, 1, 2, (n - 12) // 12, n])) + b[12:]
            add("random", rng.choice(["msg|", "msg|", "mini|", "micro|"]) + b.hex())

        # ---- 5. nesting: safe depths in the normal stream, one deliberately deep case (finding F5) in its own stream
        for d in [1, 2, 3, 10, 50, 100, 200]:
            add("nest", "nest,%d,0|" % d)
        for d in [1, 2, 5, 20, 60, 200]:
            add("nest-overdeclared", "nest,%d,1|" % d)
        add("deep", "nest,100000,0|")

        # ---- 6. templated parser
        tm = [m for m in msgs if template_ok(m) and len(m[1]) > 0][: (20 if not big else 150)]
        for ti, m in enumerate(tm):
            t = bytes(enc_msg(m).b)
            e = enc_tmsg(m)
            b = bytes(e.b)
            head = "tmsg,%s|" % t.hex()
            add("tmsg-valid", head + chunks_hex(b, word_cuts(e)))
            for n in sorted(set(some(range(len(b)), 8) + [o for (o, _) in e.marks] + [o + 3 for (o, _) in e.marks] + [len(b) - 1])):
                if 0 <= n < len(b):
                    add("tmsg-trunc", head + b[:n].hex())
            for (o, kind) in e.marks:
                orig = struct.unpack_from("<I", b, o)[0]
                vals = boundary_values(orig, len(b) - o - 4, len(b))
                if kind == "what":
                    vals = vals[:1]
                for v in (vals if (big or ti < 2) else some(vals, 5)):
                    add("tmsg-word:" + kind, head + chunks_hex(b[:o] + w32(v) + b[o + 4:], word_cuts(e)))
                if kind == "count" and o + 8 <= len(b):     # (item count, first item size) pairs
                    rem = len(b) - o - 8
                    for (ni, sz) in some([(ni, sz) for ni in [orig, orig + 1, 0, 1, 0xFFFFFFFF] for sz in [0, 3, 4, rem - 1, rem, rem + 1, 0x1000, 0x7FFFFFFF, 0xFFFFFFFC, 0xFFFFFFFF]], 6 if not big else 30):
                        add("tmsg-pair", head + chunks_hex(b[:o] + w32(ni) + w32(sz) + b[o + 8:], word_cuts(e)))
            for _ in range(3):
                c = bytearray(b)
                if c:
                    c[rng.randrange(len(c))] ^= 1 << rng.randrange(8)
                add("tmsg-flip", head + bytes(c).hex())
            add("tmsg-random", head + rand_bytes(rng, rng.choice([0, 3, 4, 8, 16, 40])).hex())

        # ---- 7. MessageIOGateway (stream mode): frames under every segmentation, header corruptions
        gwmsgs = [e for e in encs if len(e.b) < 400][: (16 if not big else 120)]
        for idx, e in enumerate(gwmsgs):
            body = bytes(e.b)
            nxt = bytes(gwmsgs[(idx + 1) % len(gwmsgs)].b)
            stream = frame(body) + frame(nxt)
            for cuts in segmentations(rng, len(stream), [(8 + o, k) for (o, k) in e.marks])[: (5 if not big else 12)]:
                add("gw-mio-valid", "gw,mio,%s|%s" % (rng.choice(["n", "n", str(len(body)), str(len(body) + len(nxt)), "100000"]), chunks_hex(stream, cuts)))
            add("gw-c-valid", "minigw|" + chunks_hex(stream, rng.choice(segmentations(rng, len(stream)))))
            add("gw-c-valid", "microgw,%d|%s" % (rng.choice([16, 64, 256, 4096]), chunks_hex(stream, rng.choice(segmentations(rng, len(stream))))))
            add("gw-mio-pkt", "gw,mio,n,%d|%s" % (rng.choice([8, 64, 1400]), frame(body).hex() + ";" + frame(nxt).hex()))
        for e in gwmsgs[: (6 if not big else 40)]:
            body = bytes(e.b)
            L = len(body)
            for maxin in ["n", str(L), str(max(0, L - 1)), "4000"]:
                sizes = [0, 1, L - 1, L + 1, 2040, 2041, 4000, 4001, 0x7FFFFFFF, 0x80000000] + list(range(0xFFFFFFF8, 0x100000000))
                if maxin == "n":       # an unlimited gateway really allocates what the header says: keep the multi-GiB requests out of the quick tier
                    sizes = [x for x in sizes if x <= 4001 or x >= 0xFFFFFFF8] + ([0x04000000] if not big else [0x04000000, 0x7FFFFFFF, 0x80000000])
                for sz in sizes:
                    st = frame(body, size=sz & 0xFFFFFFFF) + frame(body)
                    add("gw-mio-size", "gw,mio,%s|%s" % (maxin, chunks_hex(st, rng.choice([[], [8], [4, 8, 12]]))))
                for enc in [0, ENC_DEFAULT - 1, ENC_DEFAULT + 10, ENC_DEFAULT + 11, 0xFFFFFFFF, ENC_DEFAULT + 3]:
                    st = frame(body, enc=enc) + frame(body)
                    add("gw-mio-enc", "gw,mio,%s|%s" % (maxin, chunks_hex(st, rng.choice([[], [7], [8, 9]]))))
            for _ in range(4):
                c = bytearray(frame(body) + frame(body))
                i = rng.randrange(8, len(c))
                c[i] ^= 1 << rng.randrange(8)
                add("gw-mio-flip", "gw,mio,%s|%s" % (rng.choice(["n", "5000"]), chunks_hex(bytes(c), rng.choice(segmentations(rng, len(c))))))
                add("gw-c-flip", rng.choice(["minigw|", "microgw,256|"]) + chunks_hex(bytes(c), rng.choice(segmentations(rng, len(c)))))
            for sz in [0, 1, L + 1, 0x04000000, 0xFFFFFFF7, 0xFFFFFFF8, 0xFFFFFFFF] + ([0x7FFFFFFF, 0x80000000] if big else []):
                st = frame(body, size=sz) + frame(body)
                add("gw-c-size", "minigw|" + chunks_hex(st, [8]))
                add("gw-c-size", "microgw,%d|%s" % (rng.choice([16, 256]), chunks_hex(st, [8])))
        # C gateways: a second frame whose size sits at the capacity the first frame left behind (mini: 2*(size+8)
        # bytes including the 8-byte header; micro: the caller's buffer), +-1 and +-8 around it
        for e in gwmsgs[:3]:
            body = bytes(e.b)
            cap = 2 * (len(body) + 8)
            for s2 in sorted(set([1, 7, 8, 9, cap - 17, cap - 9, cap - 8, cap - 7, cap - 1, cap, cap + 1])):
                if s2 > 0:
                    add("gw-c-capacity", "minigw|%s;%s" % (frame(body).hex(), frame(rand_bytes(rng, s2)).hex()))
            for bufsz in (64, 256):
                for s2 in (bufsz - 9, bufsz - 8, bufsz - 7, bufsz, bufsz + 1):
                    add("gw-c-capacity", "microgw,%d|%s" % (bufsz, frame(rand_bytes(rng, max(1, s2))).hex()))
        for s1 in (1, 2, 7, 8, 9, 12, 13):
            add("gw-c-capacity", "minigw|" + frame(rand_bytes(rng, s1)).hex())
        # ... the same under other read segmentations, three frames in a row, and the 64 KiB regime (after a frame larger
        # than 64 KiB the mini gateway swaps in a 64 KiB buffer)
        for e in gwmsgs[3:5]:
            body = bytes(e.b)
            cap = 2 * (len(body) + 8)
            for s2 in (cap - 8, cap - 7, cap - 3, cap):
                st = frame(body) + frame(rand_bytes(rng, s2)) + frame(body)
                add("gw-c-capacity", "minigw|" + chunks_hex(st, rng.choice(segmentations(rng, len(st))[1:])))
        bigbody = bytes(enc_msg((7, [(b"big", TC["RAWT"], "RAWT", [rand_bytes(rng, 66000)])])).b)
        for s2 in ((65536 - 7, 65536, 65536 + 1) if not big else (65536 - 9, 65536 - 8, 65536 - 7, 65536 - 1, 65536, 65536 + 1)):
            st = frame(bigbody) + frame(rand_bytes(rng, s2))
            add("gw-c-capacity", "minigw|" + chunks_hex(st, [8, len(bigbody) + 8, len(bigbody) + 16]))
        for _ in range(40 if not big else 400):
            n = rng.choice([1, 7, 8, 9, 20, 60])
            b = rand_bytes(rng, n)
            if rng.random() < 0.6 and n >= 8:
                b = w32(rng.choice([0, 1, n - 8, n, 40])) + w32(ENC_DEFAULT) + b[8:]
            add("gw-random", rng.choice(["gw,mio,n|", "gw,mio,64|", "minigw|", "microgw,64|", "gw,tmpl,n|", "gw,mio,n,64|"]) + chunks_hex(b, rng.choice(segmentations(rng, n))))
        # zlib-encoded frames (not modelled: kind mioz is MessageIOGateway with the model switched off)
        for e in gwmsgs[: (6 if not big else 40)]:
            body = bytes(e.b)
            co = zlib.compressobj(6)
            z = w32(2053925219) + w32(len(body)) + co.compress(body) + co.flush(zlib.Z_SYNC_FLUSH)
            st = frame(z, enc=ENC_DEFAULT + 6)
            add("gw-zlib", "gw,mioz,n|" + st.hex())
            for rawlen in [0, 1, len(body) - 1, len(body) + 1, 1 << 20, 0x04000000, 0x80000000, 0xFFFFFFFF] + ([0x7FFFFFFF] if big else []):
                z2 = z[:4] + w32(rawlen) + z[8:]
                add("gw-zlib", "gw,mioz,n|" + frame(z2, enc=ENC_DEFAULT + 6).hex())
            for _ in range(3):
                c = bytearray(st)
                i = rng.randrange(8, len(c))
                c[i] ^= 1 << rng.randrange(8)
                add("gw-zlib", "gw,mioz,n|" + bytes(c).hex())

        # ---- 8. the other gateways: valid streams from a sender of the same kind, then corrupted
        kinds = ["tmpl,n", "tmpl,300", "ptun,1400,100000,0,1", "ptun,64,100000,1,1", "ptun,64,200,1,0", "ptun,1400,n,0,1,1", "mptun,1400,0,1", "mptun,64,1,1", "mptun,1400,1,0",
                 "ws,0,0,0", "ws,1,0,0", "ws,0,0,1", "ws,1,0,1", "text,0,0", "text,1,0", "text,0,1", "text,0,0,64", "raw,0,n", "raw,4,n", "raw,1,n", "raw,0,n,64", "slip"]
        textmsg = enc_msg((0x74787473, [(b"tl", TC["CSTR"], "CSTR", [b"hello", b"", b"world \xc3\xa9", b"x" * 70])]))
        rawmsg = enc_msg((0x72617764, [(b"rd", TC["RAWT"], "RAWT", [b"\x01\xc0\xdb\x02\xdc\xdd", b"\xdb", bytes(range(256))])]))
        okmsgs = [bytes(e.b) for e, ok in zip(encs, strict) if ok and len(e.b) < 600]
        reqs = []
        for kd in kinds:
            base = kd.split(",")[0]
            ms = some(okmsgs, 3)
            if base in ("text",):
                ms = [bytes(textmsg.b)]
            if base in ("raw", "slip"):
                ms = [bytes(rawmsg.b)]
            if base == "tmpl":
                ms = ms + ms          # second round goes out payload-only against the cached templates
            reqs.append((kd, ms))
        wires = self.emit(reqs)
        for (kd, ms), wire in zip(reqs, wires):
            base = kd.split(",")[0]
            allb = b"".join(wire)
            unlimited = (base == "ptun" and kd.split(",")[2] == "n")
            pk = base in ("ptun", "mptun") or (base in ("text", "raw") and kd.count(",") >= 3)
            if wire:
                if pk:
                    add("gw-%s-valid" % base, "gw,%s|%s" % (kd, ";".join(x.hex() for x in wire)))
                else:
                    for cuts in segmentations(rng, len(allb))[: (4 if not big else 10)]:
                        add("gw-%s-valid" % base, "gw,%s|%s" % (kd, chunks_hex(allb, cuts)))
                for _ in range(12 if not big else 80):
                    ws = [bytearray(x) for x in wire]
                    j = rng.randrange(len(ws))
                    if not ws[j]:
                        continue
                    r = rng.random()
                    if r < 0.35:
                        i = rng.randrange(len(ws[j]))
                        ws[j][i] ^= 1 << rng.randrange(8)
                    elif r < 0.6:
                        ws[j] = ws[j][: rng.randrange(len(ws[j]))]
                    elif r < 0.9 and len(ws[j]) >= 4:
                        i = rng.randrange(0, len(ws[j]) - 3) & ~3 if rng.random() < 0.7 else rng.randrange(0, len(ws[j]) - 3)
                        huge = [0x04000000] if unlimited or base in ("ws", "tmpl") else [0x7FFFFFFF, 0x80000000]
                        ws[j][i:i + 4] = w32(rng.choice([0, 1, len(ws[j]), len(ws[j]) + 1, 0xFFFFFFF8, 0xFFFFFFFF, 0xFFFF, 0x10000] + huge))
                    else:
                        i = rng.randrange(len(ws[j]) + 1)
                        ws[j][i:i] = rand_bytes(rng, rng.choice([1, 2, 8]))
                    if pk:
                        add("gw-%s-corrupt" % base, "gw,%s|%s" % (kd, ";".join(bytes(x).hex() for x in ws if x)))
                    else:
                        ab = b"".join(bytes(x) for x in ws)
                        add("gw-%s-corrupt" % base, "gw,%s|%s" % (kd, chunks_hex(ab, rng.choice(segmentations(rng, len(ab))))))
            for _ in range(6 if not big else 40):
                n = rng.choice([1, 2, 6, 12, 13, 24, 25, 40, 200])
                b = rand_bytes(rng, n)
                if base == "ptun" and n >= 24:
                    tot = [0, 1, n - 24, 100, 0x04000000] + ([] if unlimited else [0x7FFFFFFF, 0xFFFFFFFF])
                    b = w32(1114989680) + w32(rng.choice([0, 1])) + w32(rng.randrange(4)) + w32(rng.choice([0, 0, 1, n, 0xFFFFFFFF])) + \
                        w32(rng.choice([0, 1, n - 24, n - 23, 0xFFFFFFFF, 0x7FFFFFFF])) + w32(rng.choice(tot)) + b[24:]
                if base == "mptun" and n >= 12:
                    b = w32(1836345197) + w32(0) + w32(rng.choice([0, 1, 1 << 24, 9 << 24, 255 << 24])) + \
                        (w32(rng.choice([0, 1, n - 16, n - 15, 0xFFFFFFFF])) + b[16:] if n >= 16 else b[12:])
                if base == "ws":
                    first = rng.choice([0x81, 0x82, 0x01, 0x02, 0x00, 0x88, 0x89, 0x8A, 0xC1, 0x8F])
                    ln = rng.choice([0, 1, 125, 126, 127])
                    mask = 0x80 if kd.split(",")[1] == "0" else 0
                    ext = b""
                    if ln == 126:
                        ext = struct.pack(">H", rng.choice([0, 1, 126, 65535]))
                    if ln == 127:
                        ext = struct.pack(">Q", rng.choice([0, 1, 65536, 10 * 1024 * 1024, 10 * 1024 * 1024 + 1, 1 << 31, 1 << 32, (1 << 63) - 1, 1 << 63]))
                    b = bytes([first, mask | ln]) + ext + (b"\x01\x02\x03\x04" if mask else b"") + b
                add("gw-%s-random" % base, "gw,%s|%s" % (kd, chunks_hex(b, rng.choice(segmentations(rng, len(b))))))
        # multi-packet conspiracies against the tunnel's reassembly: fragments of ONE message id from one source, contiguous
        # offsets, each well-formed on its own, whose headers disagree about the total size (smaller first / larger first),
        # chunk sizes up to what the MTU allows; also id changes in mid-message, gaps, overlaps, several fragments in one packet
        def frag(mid, off, chunk, total, data=None):
            data = rand_bytes(rng, chunk) if data is None else data
            return w32(1114989680) + w32(0) + w32(mid) + w32(off) + w32(chunk) + w32(total) + data
        for (mtu, spec) in [(64, "ptun,64,100000,0,1"), (1400, "ptun,1400,100000,0,1"), (1400, "ptun,1400,n,1,1"), (1400, "ptun,1400,100000,0,0")]:
            room = mtu - 24
            seqs = []
            for c2 in [1, 8, room // 2, room]:
                for t2 in [16, 17, 8 + c2, 8 + c2 + 1, 5000, 100000]:
                    seqs.append([frag(1, 0, 8, 16), frag(1, 8, c2, t2)])                     # small total first, larger later
                    seqs.append([frag(1, 0, 8, t2), frag(1, 8, min(c2, 8), 16)])              # larger first, smaller later
            seqs.append([frag(1, 0, 8, 16), frag(1, 8, room, 5000), frag(1, 8 + room, room, 5000)])
            seqs.append([frag(1, 0, 8, 16), frag(2, 8, room, 5000)])                         # id changes at a non-zero offset
            seqs.append([frag(1, 0, 8, 16), frag(1, 4, 8, 16), frag(1, 8, 8, 16)])            # overlap, then the expected one
            seqs.append([frag(1, 0, 8, 16), frag(1, 12, 4, 16)])                             # gap
            seqs.append([frag(1, 0, 0, 0), frag(1, 0, 8, 8)])
            seqs.append([frag(1, 0, 8, 16), frag(1, 8, 0xFFFFFFF8, 16, b"")])
            seqs.append([frag(3, 0, room, room * 3), frag(3, room, room, room * 2), frag(3, 2 * room, room, room * 3)])
            for sq in (seqs if big else some(seqs, 30) + seqs[-7:]):
                add("gw-ptun-multi", "gw,%s|%s" % (spec, ";".join(x.hex() for x in sq)))
                if len(sq[0]) + len(sq[1]) <= mtu:                                            # the same fragments inside one packet
                    add("gw-ptun-multi", "gw,%s|%s" % (spec, (sq[0] + sq[1]).hex() + "".join(";" + x.hex() for x in sq[2:])))
        # mini tunnel: several chunks per packet whose sizes disagree with what is left of the packet
        for spec in ["mptun,1400,0,1", "mptun,64,1,1"]:
            for sizes in [[4, 0xFFFFFFFF], [0, 0, 1], [8, 9, 2], [0x7FFFFFFF], [12, 12, 0xFFFFFFFC]]:
                body = b"".join(w32(z) + rand_bytes(rng, min(z, 12)) for z in sizes)
                add("gw-mptun-multi", "gw,%s|%s" % (spec, (w32(1836345197) + w32(0) + w32(rng.randrange(1 << 24)) + body).hex()))
        # a long unbroken run through the raw gateway in minimum-chunk mode (its receive path recurses once per completed chunk)
        for mn, n in [(1, 64), (1, 3000 if not big else 20000), (4, 4096)]:
            add("gw-raw-long", "gw,raw,%d,n|%s" % (mn, rand_bytes(rng, n).hex()))
        # websocket handshakes
        hs_req = b"GET / HTTP/1.1\r\nHost: h\r\nUpgrade: websocket\r\nConnection: Upgrade\r\nSec-WebSocket-Key: dGhlIHNhbXBsZSBub25jZQ==\r\nSec-WebSocket-Version: 13\r\n\r\n"
        for hb in [hs_req, hs_req[:-2], hs_req.replace(b"Upgrade: websocket\r\n", b""), b"GET\r\n\r\n", b"\r\n\r\n", b"A" * 300 + b"\r\n\r\n",
                   hs_req.replace(b"Sec-WebSocket-Key: dGhlIHNhbXBsZSBub25jZQ==", b"Sec-WebSocket-Key:"), b"HTTP/1.1 101 Switching Protocols\r\nUpgrade: websocket\r\n\r\n"]:
            for cl in (0, 1):
                add("gw-ws-handshake", "gw,ws,%d,1,0|%s" % (cl, chunks_hex(hb + b"\x81\x80\x01\x02\x03\x04", [len(hb)])))
        if big:
            add("gw-ws-handshake", "gw,ws,0,1,0|" + (b"x" * 26000).hex())

        # ---- 9. directed witnesses of the suspected findings (minimal replays)
        f1b = bytes(w32(PM) + w32(0) + w32(1) + w32(2) + b"s\0" + w32(TC["CSTR"]) + w32(9) + w32(0x04000000) + w32(1) + b"\0")
        add("directed-F1", "msg|" + f1b.hex())
        add("directed-F1", "mini|" + f1b.hex())
        # F2: template {sub-Message field with one item}; payload declares a sub-Message size beyond the buffer
        t2 = bytes(enc_msg((1, [(b"m", TC["MSGG"], "MSGG", [(2, [(b"i", TC["LONG"], "LONG", [b"\1\0\0\0"])])])])).b)
        add("directed-F2", "tmsg,%s|%s" % (t2.hex(), (w32(1) + w32(1) + w32(0x1000) + w32(5)).hex()))
        add("directed-F2", "tmsg,%s|%s" % (t2.hex(), (w32(1) + w32(1) + w32(9) + w32(5)).hex()))
        # F3: body size word >= 2^32-8 with unlimited max incoming size
        for sz in (0xFFFFFFF8, 0xFFFFFFFC, 0xFFFFFFFF):
            add("directed-F3", "gw,mio,n|" + (w32(sz) + w32(ENC_DEFAULT)).hex())
        # pointer/tag type codes on the wire (not flattenable; an array of them reaches an MCRASH)
        for tc in (TC["PNTR"], TC["TAGT"]):
            for payload in (b"", b"\0" * 8, b"\0" * 16, w32(2) + w32(0) + w32(0)):
                add("directed-ptrtag", "msg|" + (w32(PM) + w32(0) + w32(1) + w32(2) + b"p\0" + w32(tc) + w32(len(payload)) + payload).hex())
        # bool array holding bytes other than 0/1
        add("directed-bool", "msg|" + (w32(PM) + w32(0) + w32(1) + w32(2) + b"b\0" + w32(TC["BOOL"]) + w32(3) + b"\x01\xff\x02").hex())
        # the MicroMessage cases run in a forked child each (see the harness); keep an evenly spread sample of them
        micro = [i for i, (st, c) in enumerate(out) if c.startswith("micro") and not st.startswith("gw-c-capacity")]
        keep = set(micro[:: max(1, len(micro) // (50 if not big else 600))])
        out = [x for i, x in enumerate(out) if not x[1].startswith("micro") or x[0].startswith("gw-c-capacity") or i in keep]
        return out

    def nontrivial(self, case):
        head, _, body = case.partition("|")
        return not head.endswith(",v")

    def distribution(self, sc):
        d = {}
        for s, c in sc:
            k = "stream:" + s.split(":")[0]
            d[k] = d.get(k, 0) + 1
            t = c.split("|", 1)[0].split(",")
            tk = "target:" + (t[0] if t[0] != "gw" else "gw," + t[1])
            d[tk] = d.get(tk, 0) + 1
            n = len(c.split("|", 1)[1].replace(";", "")) // 2 if "|" in c else 0
            b = "len:" + ("0" if n == 0 else "1-11" if n < 12 else "12-63" if n < 64 else "64-255" if n < 256 else "256+")
            d[b] = d.get(b, 0) + 1
        return d

    def fail_key(self, f):
        """what must stay the same while shrinking: the oracle text without its numbers, the crash kind and function"""
        sig = re.sub(r"\([^)]*\)", "", f.get("signature", ""))
        sig = re.sub(r"^\d+ ", "", sig)
        return (f["kind"], sig.strip())
