"""C09 -- Hashtable behaves as an ordered map and its iterators survive any mutation (util/Hashtable.h)."""
import os
import vlib

KEYS = [0, 1, 2, 3, 4, 5, 6, 7, 8, 9, 10, 11, -1, -2, 14, 17, 20, 23]
VALS = [0, 1, 2, 3, 4, 5, -1]
SIZES = [0, 1, 5, 7, 8, 14, 15, 20, 28, 254, 255, 256, 300, 65534, 65535, 65536]


class Sim:
    """A rough ideal map per table kept by the generator itself, only to aim operations (existing /
    missing keys, positions); exact for the plain class, approximate for the ordered ones."""
    def __init__(self, nt):
        self.t = [[] for _ in range(nt)]

    def has(self, t, k):
        return k in self.t[t]

    def put(self, t, k):
        if k not in self.t[t]:
            self.t[t].append(k)

    def rm(self, t, k):
        if k in self.t[t]:
            self.t[t].remove(k)

    def move(self, t, k, pos):
        if k in self.t[t]:
            self.t[t].remove(k)
            self.t[t].insert(min(pos, len(self.t[t])), k)


def gen_ops(rng, n, var, nt, ni, keys=KEYS, heavy_iter=True):
    sim = Sim(nt)
    ops = []
    live = set()

    def T():
        return rng.randrange(nt) if rng.random() < 0.35 else 0

    def K(t, want_present=None):
        if want_present is None:
            want_present = rng.random() < 0.6
        cand = [k for k in keys if (k in sim.t[t]) == want_present]
        return rng.choice(cand) if cand else rng.choice(keys)

    for _ in range(n):
        r = rng.random()
        t = T()
        sz = len(sim.t[t])
        if r < 0.20:
            k = K(t, rng.random() < 0.3); ops.append("put:%d:%d:%d" % (t, k, rng.choice(VALS))); sim.put(t, k)
        elif r < 0.23:
            k = K(t); kind = rng.choice(["pia", "gop"]); ops.append("%s:%d:%d:%d" % (kind, t, k, rng.choice(VALS))); sim.put(t, k)
        elif r < 0.26:
            k = K(t); kind = rng.choice(["paf", "pab"]); ops.append("%s:%d:%d:%d" % (kind, t, k, rng.choice(VALS)))
            sim.put(t, k); sim.move(t, k, 0 if kind == "paf" else 10 ** 6)
        elif r < 0.29:
            k = K(t); k2 = K(t, True); kind = rng.choice(["pbf", "pbh"])
            ops.append("%s:%d:%d:%d:%d" % (kind, t, k, k2, rng.choice(VALS))); sim.put(t, k)
            if k != k2 and k2 in sim.t[t]:
                sim.t[t].remove(k); j = sim.t[t].index(k2); sim.t[t].insert(j + (1 if kind == "pbh" else 0), k)
        elif r < 0.31:
            k = K(t)
            cur = sim.t[t].index(k) if k in sim.t[t] else sz
            idx = rng.choice([0, 1, 2, sz // 2, max(0, sz - 1), sz, sz + 3, cur, cur])
            ops.append("pap:%d:%d:%d:%d" % (t, k, idx, rng.choice(VALS))); sim.put(t, k); sim.move(t, k, idx)
        elif r < 0.35:
            k = K(t); kind = rng.choice(["get", "has", "iok", "kb", "ka"]); ops.append("%s:%d:%d" % (kind, t, k))
        elif r < 0.37:
            kind = rng.choice(["kat", "vat"]); ops.append("%s:%d:%d" % (kind, t, rng.choice([0, 1, sz // 2, max(0, sz - 1), sz, sz + 2])))
        elif r < 0.39:
            kind = rng.choice(["fk", "lk", "num"]); ops.append("%s:%d" % (kind, t))
        elif r < 0.40:
            ops.append("iov:%d:%d:%d" % (t, rng.choice(VALS), rng.randint(0, 1)))
        elif r < 0.47:
            k = K(t, rng.random() < 0.8); ops.append("rm:%d:%d" % (t, k)); sim.rm(t, k)
        elif r < 0.49:
            kind = rng.choice(["rf", "rl"]); ops.append("%s:%d" % (kind, t))
            if sim.t[t]:
                sim.t[t].pop(0 if kind == "rf" else -1)
        elif r < 0.53:
            k = K(t, rng.random() < 0.85); kind = rng.choice(["mf", "mb", "gmf", "gmb"]); ops.append("%s:%d:%d" % (kind, t, k))
            sim.move(t, k, 0 if kind in ("mf", "gmf") else 10 ** 6)
        elif r < 0.56:
            k = K(t, True); k2 = K(t, True); kind = rng.choice(["mbf", "mbh"]); ops.append("%s:%d:%d:%d" % (kind, t, k, k2))
            if k != k2 and k in sim.t[t] and k2 in sim.t[t]:
                sim.t[t].remove(k); j = sim.t[t].index(k2); sim.t[t].insert(j + (1 if kind == "mbh" else 0), k)
        elif r < 0.58:
            k = K(t, True)
            cur = sim.t[t].index(k) if k in sim.t[t] else sz
            idx = rng.choice([0, 1, 2, sz // 2, max(0, sz - 2), max(0, sz - 1), sz, sz + 3, cur, cur, cur])
            ops.append("mp:%d:%d:%d" % (t, k, idx)); sim.move(t, k, idx)
        elif r < 0.60:
            kind = rng.choice(["sk", "sv", "so"]); ops.append("%s:%d" % (kind, t))
            if kind == "sk" or (kind == "so" and var == "K"):
                sim.t[t].sort()
        elif r < 0.61:
            if var != "P":
                if rng.random() < 0.5:
                    ops.append("rep:%d:%d" % (t, K(t, True)))
                else:
                    ops.append("sas:%d:%d:%d" % (t, rng.randint(0, 1), rng.randint(0, 1)))
            else:
                ops.append("num:%d" % t)
        elif r < 0.64:
            kind = rng.random()
            if kind < 0.6:
                ops.append("es:%d:%d:%d" % (t, rng.choice(SIZES[:13] + [sz, sz + 1, 2 * sz]), rng.randint(0, 1)))
            elif kind < 0.8:
                ops.append("stf:%d:%d" % (t, rng.choice([0, 0, 1, 3])))
            else:
                ops.append("ecp:%d:%d" % (t, rng.choice([0, 1, 2, 9])))
        elif r < 0.655:
            ops.append("clr:%d:%d" % (t, rng.randint(0, 1))); sim.t[t] = []
        elif r < 0.70 and nt > 1:
            u = rng.randrange(nt)
            kind = rng.choice(["cpf", "cpf", "swp", "swp", "eq", "mtt", "mtt", "ctt", "rmt", "ixt", "cpc", "des", "mvc", "mva", "pre"])
            if kind == "mva":
                ops.append("mva:%d:%d" % (t, u)); sim.t[t], sim.t[u] = sim.t[u], sim.t[t]; continue
            if kind == "mvc":
                ops.append("mvc:%d:%d" % (t, u))
                if t != u:
                    sim.t[t] = sim.t[u]; sim.t[u] = []
                continue
            if kind == "pre":
                ops.append("pre:%d:%d" % (t, rng.choice([0, 0, 1, 7, 8, 255, 256]))); sim.t[t] = []; continue
            if kind == "cpf":
                cf = rng.randint(0, 1); ops.append("cpf:%d:%d:%d" % (t, u, cf))
                if t != u:
                    if cf:
                        sim.t[t] = []
                    for k in sim.t[u]:
                        sim.put(t, k)
            elif kind == "swp":
                ops.append("swp:%d:%d" % (t, u)); sim.t[t], sim.t[u] = sim.t[u], sim.t[t]
            elif kind == "eq":
                ops.append("eq:%d:%d:%d" % (t, u, rng.randint(0, 1)))
            elif kind in ("mtt", "ctt"):
                k = K(t, True); ops.append("%s:%d:%d:%d" % (kind, t, u, k))
                if k in sim.t[t] and t != u:
                    sim.put(u, k)
                    if kind == "mtt":
                        sim.rm(t, k)
            elif kind == "rmt":
                ops.append("rmt:%d:%d" % (t, u))
                sim.t[t] = [] if t == u else [k for k in sim.t[t] if k not in sim.t[u]]
            elif kind == "ixt":
                ops.append("ixt:%d:%d" % (t, u))
                if t != u:
                    sim.t[t] = [k for k in sim.t[t] if k in sim.t[u]]
            elif kind == "cpc":
                ops.append("cpc:%d:%d" % (t, u))
                if t != u:
                    sim.t[t] = list(sim.t[u])
            else:
                ops.append("des:%d" % t); sim.t[t] = []
        else:
            # iterator operations
            i = rng.randrange(ni)
            q = rng.random()
            if (not live) or q < 0.16:
                ops.append("in:%d:%d:%d" % (i, t, rng.randint(0, 1))); live.add(i)
            elif q < 0.22:
                ops.append("ia:%d:%d:%d:%d" % (i, t, K(t, rng.random() < 0.85), rng.randint(0, 1))); live.add(i)
            elif q < 0.80:
                ops.append("adv:%d" % rng.choice(sorted(live)))
            elif q < 0.85:
                ops.append("ret:%d" % rng.choice(sorted(live)))
            elif q < 0.88:
                ops.append("sbw:%d:%d" % (rng.choice(sorted(live)), rng.randint(0, 1)))
            elif q < 0.92:
                j = rng.choice(sorted(live)); ops.append("icp:%d:%d" % (i, j))
                if i != j:
                    live.add(i)
            elif q < 0.96:
                ops.append("del:%d" % i); live.discard(i)
            else:
                ops.append("ish:%d" % i)
    return ops


def header(var, coll, nt, ni):
    return "%s%d,%d,%d" % (var, coll, nt, ni)


def traversal_case(rng, var, coll, size, bw):
    """fill a table, start an iterator at one end and walk it to the other end while removing and
    adding (never moving) entries: the harness's no-skip / no-dup oracle applies in full"""
    ops = ["put:0:%d:%d" % (k, rng.choice(VALS)) for k in rng.sample(range(0, 3 * size + 3), size)]
    ops.append("in:0:0:%d" % bw)
    if rng.random() < 0.5:
        ops.append("in:1:0:%d" % (1 - bw))
    present = None
    for _ in range(size + 6):
        q = rng.random()
        if q < 0.30:
            ops.append("rm:0:%d" % rng.randrange(0, 3 * size + 3))
        elif q < 0.45:
            ops.append("put:0:%d:%d" % (rng.randrange(0, 3 * size + 40), rng.choice(VALS)) if var != "V" else "pia:0:%d:%d" % (rng.randrange(0, 3 * size + 40), rng.choice(VALS)))
        elif q < 0.50:
            ops.append(rng.choice(["rf:0", "rl:0", "es:0:%d:%d" % (rng.choice([0, 5, 40, 255, 256, 300]), rng.randint(0, 1)), "stf:0:0", "swp:0:1", "adv:1"]))
        ops.append("adv:0")
    ops += ["adv:0"] * 3
    return header(var, coll, 2, 3) + "|" + ";".join(ops)


def parked_case(rng, var, coll):
    """iterators parked on entries; the current entry and then the entries it would visit next (and
    the ones behind it) are removed one after the other WITHOUT advancing in between"""
    n = rng.choice([4, 6, 10, 10, 12])
    ops = ["put:0:%d:%d" % (k, k if var == "V" else rng.choice(VALS)) for k in range(n)]
    its = []
    for i in range(rng.choice([1, 2, 3])):
        bw = rng.randint(0, 1); at = rng.randrange(n)
        if rng.random() < 0.5:
            ops.append("ia:%d:0:%d:%d" % (i, at, bw))
        else:
            ops.append("in:%d:0:%d" % (i, bw)); ops += ["adv:%d" % i] * (at if not bw else n - 1 - at)
        its.append((i, bw, at))
    for (i, bw, at) in its:
        step = -1 if bw else 1
        run = rng.choice([1, 2, 2, 3, 4])
        ks = [at + j * step for j in range(run)]
        if rng.random() < 0.3:
            ks.append(at - step)          # also the entry just behind the cursor
        if rng.random() < 0.2:
            rng.shuffle(ks)
        for k in ks:
            if 0 <= k < n:
                ops.append(rng.choice(["rm:0:%d", "rm:0:%d", "rm:0:%d", "mtt:0:1:%d"]) % k)
        if rng.random() < 0.3:
            ops.append(rng.choice(["put:0:%d:1" % (n + 5), "es:0:40:0", "stf:0:0", "ish:%d" % i]))
    for _ in range(n + 2):
        for (i, bw, at) in its:
            ops.append("adv:%d" % i)
    return header(var, coll, 2, 3) + "|" + ";".join(ops)


def grow_case(rng, var, coll, upto):
    """population crossing the 8-bit index boundary (table sizes 224 -> 448) with live iterators"""
    ops = []
    keys = list(range(upto))
    if var != "K":
        rng.shuffle(keys)
    for n, k in enumerate(keys):
        ops.append("put:0:%d:%d" % (k, k % 5))
        if n == 3:
            ops += ["in:0:0:0", "in:1:0:1"]
        if n % 9 == 4:
            ops.append("adv:%d" % rng.randint(0, 1))
        if n % 40 == 17:
            ops.append("rm:0:%d" % rng.choice(keys[:n]))
        if n in (223, 224, 225, 254, 255, 256):
            ops += ["in:2:0:0", "adv:2", "ish:0", "ish:1"]
    ops += ["es:0:255:1", "adv:0", "es:0:254:1", "adv:1", "es:0:256:1", "adv:2", "stf:0:0", "adv:0", "es:0:65535:0", "adv:1", "es:0:65534:1", "adv:2",
            "es:0:65536:1", "adv:0", "stf:0:1", "adv:1", "clr:0:0", "adv:0", "adv:1", "adv:2"]
    return header(var, coll, 1, 3) + "|" + ";".join(ops)


def big_case(rng, var, coll):
    """oracle-only: population crossing the 16-bit index boundary (57344 -> 114688 slots) with live iterators"""
    ops = ["fill:0:0:300:1:0", "in:0:0:0", "in:1:0:1", "fill:0:300:57100:1:97", "in:2:0:0", "fill:0:57400:9000:1:11",
           "adv:0", "adv:1", "adv:2", "drain:0:1:20000:3:7", "adv:0", "ish:1", "es:0:65535:1", "adv:2", "es:0:65534:1", "adv:0",
           "es:0:70000:1", "adv:1", "in:0:0:0", "drain:0:0:66400:1:5", "adv:0", "adv:1", "adv:2", "stf:0:0", "clr:0:1", "adv:0"]
    return "B" + header(var, coll, 1, 3) + "|" + ";".join(ops)


DIRECTED = [
    # a parked iterator whose current entry and then its successor / predecessor are removed before the next advance
    "P0,1,2|put:0:0:0;put:0:1:1;put:0:2:2;put:0:3:3;put:0:4:4;put:0:5:5;put:0:6:6;put:0:7:7;put:0:8:8;put:0:9:9;ia:0:0:3:0;ia:1:0:6:1;rm:0:3;rm:0:4;rm:0:6;rm:0:5;adv:0;adv:1;adv:0;adv:1;adv:0;adv:1;adv:0;adv:1;adv:0;adv:1;adv:0;adv:1",
    # MoveToPosition / PutAtPosition onto the entry's own position must not disturb a pending iterator (fix 5556955)
    "P0,1,1|put:0:0:0;put:0:1:1;put:0:2:2;put:0:3:3;in:0:0:0;adv:0;rm:0:1;mp:0:2:1;adv:0;adv:0;adv:0",
    "P0,1,1|put:0:0:0;put:0:1:1;put:0:2:2;put:0:3:3;in:0:0:0;adv:0;rm:0:1;pap:0:2:1:9;adv:0;adv:0;adv:0",
    # a moved-from table and a table preallocated with zero slots must still accept Put
    "P0,2,1|put:0:1:1;put:0:2:2;in:0:0:0;mvc:1:0;adv:0;put:0:5:5;get:0:5;put:1:6:6;adv:0;adv:0",
    "P0,1,1|pre:0:0;put:0:1:1;get:0:1;pre:0:3;put:0:1:1;put:0:2:2;put:0:3:3;put:0:4:4",
    "K0,2,1|put:0:2:2;put:0:1:1;mvc:1:0;put:0:3:0;put:0:0:0;mva:0:1;put:1:9:9;clr:1:0;put:1:4:4",
    # RemoveIterationEntry patching: current entry removed, neighbours removed, both directions
    "P0,1,2|put:0:1:1;put:0:2:2;put:0:3:3;in:0:0:0;in:1:0:1;rm:0:1;rm:0:3;adv:0;adv:1;rm:0:2;adv:0;adv:1;adv:0",
    "P0,1,2|put:0:1:1;put:0:2:2;put:0:3:3;ia:0:0:2:0;ia:1:0:2:1;rm:0:2;ret:0;ret:1;adv:0;adv:1",
    # Clear / destroy / copy over a table with live iterators (scratch copy replaced)
    "P0,2,3|put:0:1:1;put:0:2:2;put:0:3:3;in:0:0:0;rm:0:1;in:1:0:1;clr:0:0;ish:0;adv:0;adv:1;put:0:5:5;adv:0",
    "P0,2,3|put:0:1:1;put:0:2:2;in:0:0:0;in:1:0:0;adv:1;adv:1;des:0;ish:0;adv:0;put:0:4:4;adv:0;icp:2:0;adv:2",
    "P0,2,3|put:1:1:1;put:0:2:2;in:0:0:0;cpf:0:1:1;ish:0;adv:0;in:1:0:0;cpc:0:1;adv:1",
    # SwapContents carries the iterators along
    "P0,2,3|put:0:1:1;put:0:2:2;put:1:7:7;in:0:0:0;in:1:1:0;swp:0:1;adv:0;adv:1;rm:1:2;adv:0;put:0:9:9;adv:1;adv:1",
    # iterator created on an empty table never registers
    "P0,1,2|in:0:0:0;put:0:1:1;adv:0;icp:1:0;rm:0:1;in:0:0:1;rm:0:1;adv:0",
    # moves of the current entry
    "P0,1,2|put:0:1:1;put:0:2:2;put:0:3:3;put:0:4:4;in:0:0:0;adv:0;mb:0:2;adv:0;adv:0;adv:0;adv:0",
    "P0,1,2|put:0:1:1;put:0:2:2;put:0:3:3;put:0:4:4;in:0:0:1;adv:0;mf:0:3;adv:0;adv:0;adv:0;adv:0",
    "P0,1,2|put:0:1:1;put:0:2:2;put:0:3:3;put:0:4:4;in:0:0:0;mbh:0:1:3;adv:0;mbf:0:4:2;adv:0;adv:0;adv:0;adv:0",
    # auto-sort: ties keep insertion order, replaced values are repositioned, sorted after copy
    "V0,2,2|put:0:1:5;put:0:2:3;put:0:3:5;put:0:4:3;put:0:5:4;put:0:2:9;put:0:3:0;in:0:0:0;put:0:5:-1;adv:0;adv:0;adv:0;adv:0;adv:0",
    "K0,2,2|put:0:5:0;put:0:1:0;put:0:3:0;put:0:2:0;put:0:4:0;in:0:0:1;put:0:0:0;put:0:6:1;adv:0;rm:0:5;adv:0;adv:0",
    "K0,2,2|sas:0:0:0;put:0:5:0;put:0:1:0;put:0:3:0;sas:0:1:1;put:0:2:0;mf:0:5;put:0:4:1;rep:0:5;so:0",
    "V0,2,2|put:1:1:3;put:1:2:1;put:0:9:2;cpf:0:1:0;put:1:9:9;cpf:0:1:0;cpf:0:1:1",
    # sorting under a live iterator keeps the cursor on its entry
    "P0,1,2|put:0:3:1;put:0:1:2;put:0:2:0;in:0:0:0;sk:0;adv:0;sv:0;adv:0;adv:0;adv:0",
    # sizes: EnsureSize boundaries, shrink to zero with a registered iterator at the end, resource limit
    "P0,1,2|put:0:1:1;in:0:0:0;adv:0;rm:0:1;es:0:0:1;ish:0;es:0:4294967295:0;es:0:255:0;es:0:254:1;es:0:256:0;es:0:65535:0;es:0:65534:1;stf:0:0;ecp:0:9",
    "P0,1,2|put:0:1:1;put:0:2:2;put:0:3:3;put:0:4:4;put:0:5:5;put:0:6:6;put:0:7:7;in:0:0:0;adv:0;put:0:8:8;adv:0;adv:0;adv:0;adv:0;adv:0;adv:0;adv:0;adv:0",
    # two-table operations
    "P0,2,2|put:0:1:1;put:0:2:2;put:1:2:5;put:1:3:3;in:0:0:0;mtt:0:1:1;adv:0;ctt:1:0:3;eq:0:1:0;eq:0:1:1;rmt:0:1;adv:0;ixt:1:0;eq:0:1:0",
    "P1,2,2|put:0:0:0;put:0:3:3;put:0:6:6;put:0:9:9;put:0:1:1;rm:0:3;put:0:12:2;in:0:0:0;rm:0:0;adv:0;rm:0:6;adv:0;adv:0;adv:0;adv:0",
]



def store_case(rng, hm, size, length, universe):
    """storage-layer script: Put / Get / Remove / EnsureSize on one Hashtable<int,int>; the whole slot array is compared"""
    ops = []
    present = set()
    for _ in range(length):
        x = rng.random()
        if x < 0.55 or not present:
            k = rng.randrange(universe); ops.append("sp:%d:%d" % (k, rng.randrange(100))); present.add(k)
        elif x < 0.80:
            k = rng.choice(sorted(present)) if rng.random() < 0.85 else rng.randrange(universe)
            ops.append("sr:%d" % k); present.discard(k)
        elif x < 0.95:
            ops.append("sg:%d" % rng.randrange(universe))
        else:
            ops.append("se:%d" % rng.choice([0, 3, 8, 15, 20, 33, len(present) * 2 + 1]))
    return "S%d,%d|%s" % (hm, size, ";".join(ops))


def store_width_case(rng, hm):
    """fills past 255 slots (index width uint8 -> uint16, several reallocations), removes half, fills again"""
    n = rng.choice([260, 300, 330])
    keys = list(range(n)); rng.shuffle(keys)
    ops = ["sp:%d:%d" % (k, k % 97) for k in keys]
    ops += ["sr:%d" % k for k in keys[::2]]
    ops += ["sg:%d" % k for k in keys[:6]]
    ops += ["sp:%d:%d" % (k + 1000, 1) for k in keys[:40]]
    if rng.random() < 0.5:
        ops.insert(rng.randrange(len(ops)), "se:%d" % rng.choice([254, 255, 256, 600]))
    return "S%d,%d|%s" % (hm, rng.choice([0, 200, 254, 255]), ";".join(ops))


def owning(case):
    """the same script for the tables instantiated with the owning type: P/K/V/S -> p/k/v/s (behind the B of a big case)"""
    if case[0] == "B":
        return "B" + case[1].lower() + case[2:]
    return case[0].lower() + case[1:]


class CHECK(vlib.Check):
    prop = "C09"
    prop_file = "Properties_C09.v"
    model = ("Cont/HtExtract.v", "ht_driver.ml", "ht", ("ocommon.ml",))
    harness = dict(name="ht", src="ht_h.cpp", san="asan", link_lib=True)
    modelled = ("util/Hashtable.h + util/HashtableIterator.h, iteration layer (L1, coq/theories/Cont/HtModel.v, HtStep.v): entry key/value, "
                "ITER_PREV/ITER_NEXT links, _iterHeadIdx/_iterTailIdx/_numItems/_tableSize/_autoSortEnabled/_iterList; InsertIterationEntry, "
                "RemoveIterationEntry (iterator fix-up: scratch pair, cookie to the subsequent entry), MoveTo{Front,Back,Before,Behind,Position}Aux "
                "(repaired 5556955), InsertIterationEntryInOrder, MoveIterationEntryToCorrectPosition, PutAux (replace / grow / insert, "
                "EnsureTableAllocated fallback of 9ea4433), all Put*/Get*/Remove*/MoveTo*/IndexOf*/GetKeyAt/GetValueAt/GetKeyBefore/After, "
                "EnsureSize/ShrinkToFit/EnsureCanPut size policy, Clear, CopyFrom / copy construction, SwapContents / move assignment, move "
                "construction, PreallocatedItemSlotsCount construction, IsEqualTo, MoveToTable/CopyToTable, Remove(table), Intersect, "
                "SetAutoSortEnabled, Reposition, destruction; HashtableIterator: construction (registered / unregistered when empty), ++, --, "
                "SetBackwards, assignment, destruction.  Ideal ordered map (L0, HtIdeal.v) with capacity and auto-sort attribute.  Proved: world "
                "invariant for every operation, iterator safety, refinement L1 = L0 with equal results for every operation and all three classes, "
                "traversal no-skip / no-duplicate / completeness for every interleaving whose mutations do not reorder the iterator's table, liveness of "
                "the shown entry and termination under any mutations, sorted order of the auto-sorting classes.  Effect level: SortByEntry "
                "(stable sort + relink); Clear is modelled by its effect and the literal RemoveEntryByIndex loop is proved to have that effect (HtClear.v).  Storage layer (HtStore.v, second model): the slot array with "
                "per-slot hash/key/value, BUCKET_PREV/BUCKET_NEXT, MAP_TO/MAPPED_FROM, the free list, CreateEntriesArray, GetEntry, PutAuxAux, "
                "SwapEntryMaps, RemoveEntry (storage part), PushToFreeList/PopFromFreeList, the rebuild of EnsureSize, the growth rule of PutAux, "
                "ComputeTableIndexTypeForTableSize; proved: chain / permutation / free-list invariant, GetEntry finds exactly the stored keys, "
                "finite-map laws, reallocation keeps every binding, every index fits its width below the sentinel, and for all histories of "
                "Put/Get/Remove/EnsureSize the results equal those of the L1 model (C09_store_refines_l1) and the reallocation order is the L1 "
                "iteration order (C09_store_order_is_iteration_order); compared slot by slot with the "
                "implementation after every operation (streams store / store-width, crossing 255 slots).  Not modelled: the iterator re-pointing "
                "inside EnsureSize at slot level (L1 keeps abstract node ids), hash functors (the storage theorems hold for an arbitrary hash "
                "function), thread-id bookkeeping of iterator registration; the 65535/65536 crossing is exercised by the oracle-only big stream.")
    premises = ["memory safety and object lifetime of the C++ (observed by ASan/UBSan in the harness only)",
                "node identifiers of the L1 model are abstract (fresh per entry, never reused) and GetEntry(hash,key) is there the entry of the "
                "iteration list holding the key; slot assignment, bucket chains, index width and reallocation live in the separate storage model, "
                "tied to L1 by equal results for all Put/Get/Remove/EnsureSize histories (not by a joint state); hashes are unbounded numbers there "
                "(a hash equal to the invalid code 2^32-1 is not considered)",
                "sizes and counts below 2^32 (uint32 wrap-around is not modelled); allocation never fails",
                "single thread (iterator registration is never refused)",
                "traversal theorems (no-dup / no-skip / complete): a relinking operation (MoveTo*, PutAt*, Sort*, Reposition, Put on an existing key "
                "of an auto-sorting table, CopyFrom without clearing, MoveToTable/CopyToTable) must leave the relative order of the entries of the "
                "iterator's table unchanged (decidable premise sem_okd); Put-with-position of an existing key on an auto-sorting class counts as "
                "a reordering operation (it moves the entry twice: C09_traversal_semantic_refuted) unless it changes nothing; the harness oracle "
                "evaluates the same semantic condition on the implementation"]
    rule = ("operation scripts over 1-3 tables of one class (Hashtable / OrderedKeysHashtable / OrderedValuesHashtable <int,int>, default or "
            "colliding hash functor; int keys and values, and -- every third script again -- an owning key/value type whose move empties its "
            "source) and up to 5 HashtableIterators, from random.Random(seed); after EVERY operation the result, every "
            "table's order read through the next links (and cross-checked through the prev links), count, capacity, auto-sort flag, "
            "registered-iterator list and every iterator's owner/cookie/flags/scratch are compared with the extracted L1 model (storage "
            "scripts: the whole slot array, free-list head, count and index width with the extracted storage model); the "
            "harness's own ideal-map + iterator-safety + traversal oracle is evaluated as well.  Non-trivial = the script mutates a "
            "table while an iterator is live and advances it afterwards, or crosses an index-width boundary.")

    def gen_cases(self, rng, tier):
        n = 1200 if tier == "quick" else 8000
        out = [("directed", c) for c in DIRECTED]
        for i in range(n):
            var = "PKV"[i % 3] if i % 4 else "P"
            coll = 1 if rng.random() < 0.3 else 0
            nt = rng.choice([1, 2, 2, 3]); ni = rng.choice([2, 4, 5])
            length = rng.choice([8, 15, 25, 40, 70])
            out.append(("random", header(var, coll, nt, ni) + "|" + ";".join(gen_ops(rng, length, var, nt, ni))))
        for i in range(150 if tier == "quick" else 1500):
            var = "PKV"[i % 3]
            out.append(("traversal", traversal_case(rng, var, rng.randint(0, 1), rng.choice([0, 1, 2, 3, 5, 8, 13, 30]), rng.randint(0, 1))))
        for i in range(300 if tier == "quick" else 2000):
            out.append(("parked", parked_case(rng, "PKV"[i % 3], 1 if rng.random() < 0.3 else 0)))
        for i in range(4 if tier == "quick" else 12):
            out.append(("grow", grow_case(rng, "PKV"[i % 3], 1 if i % 4 == 3 else 0, rng.choice([260, 300, 470]))))
        for i in range(150 if tier == "quick" else 1500):
            out.append(("store", store_case(rng, i % 3, rng.choice([0, 0, 3, 10, 16]), rng.choice([10, 25, 45, 80]), rng.choice([6, 12, 30, 60]))))
        for i in range(2 if tier == "quick" else 6):
            out.append(("store-width", store_width_case(rng, (0, 2, 1)[i % 3] if i % 3 != 2 or tier != "quick" else 0)))
        for i in range(1 if tier == "quick" else 3):
            out.append(("big", big_case(rng, "PKV"[i % 3], 1 if i == 4 else 0)))
        # the same scripts on tables with an owning key and value type whose move empties the source (struct Own in the
        # harness; lower-case class letter): every directed / grow / store-width case, and every third case of the other streams
        own = []
        cnt = {}
        for (stream, c) in out:
            cnt[stream] = cnt.get(stream, 0) + 1
            if stream in ("directed", "grow", "store-width") or cnt[stream] % 3 == 0:
                own.append((stream + "-own", owning(c)))
        return out + own

    def nontrivial(self, case):
        body = case.split("|", 1)[1]
        if case[0] in "Ss":
            return "sr:" in body and body.count("sp:") >= 3
        if "fill:" in body or ":254:" in body or ":65535:" in body:
            return True
        ops = body.split(";")
        seen_iter = seen_mut = False
        for o in ops:
            k = o.split(":")[0]
            if k in ("in", "ia"):
                seen_iter = True
            elif seen_iter and k in ("put", "rm", "rf", "rl", "clr", "swp", "mf", "mb", "mp", "es", "des", "cpf", "mtt", "pia", "gop", "paf", "pab"):
                seen_mut = True
            elif seen_mut and k == "adv":
                return True
        return False

    def distribution(self, sc):
        d = {}
        for s, c in sc:
            d["stream:" + s] = d.get("stream:" + s, 0) + 1
            head, body = c.split("|", 1)
            d["class:" + head.split(",")[0]] = d.get("class:" + head.split(",")[0], 0) + 1
            for o in body.split(";"):
                k = "op:" + o.split(":")[0]
                d[k] = d.get(k, 0) + 1
        return d
