"""C08 -- all Message implementations agree on one wire format, byte for byte.

Reference: spec_msg (coq/theories/Msg/MsgSpec.v), the layout written from the documentation, extracted to OCaml;
theorems in Properties_C08.v tie it to the code-shaped model of Message::Flatten (C01).  Differential, both
directions, on generated Messages of the common repertoire:
   C++ (muscle::Message)  <->  Coq reference            bytes and content text, by the generic correspondence
   C mini / C micro       <->  C++                      in harness/wire_h.cpp (parse C++ bytes to same content;
                                                         build with own API -> same bytes; C++ parses them)
   Python message.py      <->  C++                      harness/py_codec.py in a python3 subprocess (extra stage)
and the 8-byte stream frame of the four gateways, in BOTH directions: every case's stream (Message 0, Message 1, Message 0)
is sent by the C++, mini and micro gateways (byte-identical) and received by each of them through a transport that cuts it
into arbitrary segments; head `wg` cases steer the frame sizes across the C++ gateway's scratch-buffer size (translated
constant c_gw_scratch_size) with `pad:R:NAME:SIZE`.  Scripts use the grammar of checks/c01.py with head `w`/`wg`.
"""
import os, random, struct
import vlib
import c01


def gen_wire_script(rng, nops, maxreg):
    s = c01.gen_script(rng, nops, "m", maxreg)
    return "w|" + s.split("|", 1)[1]


def directed():
    out = []
    for c in c01.directed():
        head, body = c.split("|", 1)
        if head == "m":
            out.append("w|" + body)
    hx = c01.hx
    a, b, k = hx(b"a"), hx(b"b"), hx(b"kids")
    out += [
        "w|",                                                                 # the empty Message: 12 bytes
        "w|w:0:1234",
        "w|a:0:%s:s:" % a, "w|a:0:%s:s:;a:0:%s:s:" % (a, a),                  # empty strings
        "w|a:0:%s:X:" % a, "w|a:0:%s:X:00;a:0:%s:X:" % (a, a), "w|a:0:%s:X:;a:0:%s:X:00" % (a, a),   # zero-length raw items, first / last
        "w|a:0:%s:x0:01;a:0:%s:x4294967295:02;a:0:%s:x305419896:03" % (a, b, k),
        "w|am:0:%s:1;am:0:%s:1;am:0:%s:1" % (k, k, k),                        # three empty sub-Messages
        "w|a:2:%s:l:0100000000000080;am:1:%s:2;am:1:%s:2;am:0:%s:1;a:0:%s:h:ff7f" % (a, k, k, k, b),
        "w|a:0:%s:o:01;a:0:%s:i:01000000;a:0:%s:g:01" % (a, b, k),            # non-flattenable fields around a flattenable one
    ]
    return out


def scratch_size():
    """the C++ gateway's scratch receive buffer size, as translated from iogateway/MessageIOGateway.cpp by this run"""
    import re
    try:
        txt = open(os.path.join(vlib.THEORIES, "Gen", "Consts.v")).read()
        m = re.search(r"Definition c_gw_scratch_size : N := (\d+)%N", txt)
        return int(m.group(1)) if m else 2048
    except OSError:
        return 2048


def gateway_cases(rng, tier):
    """head `wg`: Messages whose flattened size (the frame's body length) is steered with pad:R:NAME:SIZE across the C++
    gateway's scratch-buffer boundary; the stream is Message 0, Message 1, Message 0, sent and received by every gateway"""
    S = scratch_size()
    zp, hx = c01.hx(b"zpad"), c01.hx
    sizes = list(range(S - 18, S + 13)) + list(range(2 * S - 16, 2 * S + 17)) + [S - 8 - 1, S - 8, S - 8 + 1, S + 8, 3 * S, 3 * S + 8]
    out = []
    for sz in sizes:
        out.append("wg|a:0:%s:s:%s;a:0:%s:i:07000000;a:0:%s:i:f9ffffff;pad:0:%s:%d" % (hx(b"name"), hx(b"wire-format"), hx(b"c"), hx(b"c"), zp, sz))
        out.append("wg|pad:1:%s:%d;a:0:%s:b:01;pad:0:%s:%d" % (zp, sz, hx(b"a"), zp, max(40, 3 * S - sz)))
    for _ in range(60 if tier == "quick" else 1500):
        ops = [o for o in c01.gen_script(rng, rng.choice([0, 1, 2, 4]), "m", 2).split("|", 1)[1].split(";") if o and not o.startswith(("cp:", "u:"))]
        near = rng.choice([S - 8, S, 2 * S, S + 8])
        ops.append("pad:0:%s:%d" % (zp, rng.choice([near + rng.randint(-12, 12), rng.randint(12, 3 * S)])))
        if rng.random() < 0.5:
            ops.append("pad:1:%s:%d" % (zp, rng.choice([near + rng.randint(-12, 12), rng.randint(12, 3 * S)])))
        out.append("wg|" + ";".join(ops))
    return out


class CHECK(vlib.Check):
    prop = "C08"
    prop_file = "Properties_C08.v"
    model = ("Msg/MsgExtract.v", "msg_driver.ml", "msg", ("ocommon.ml",))
    harness = dict(name="wire", src="wire_h.cpp", san="asan", link_lib=True,
                   c_srcs=("lang/c/minimessage/MiniMessage.c", os.path.join(vlib.VERIF, "harness", "wire_micro.c"),
                           "lang/c/minimessage/MiniMessageGateway.c", "lang/c/micromessage/MicroMessageGateway.c"))
    modelled = ("the wire format as documented (spec_msg: header, per-field framing, per-type payload forms, the three "
                "historical special cases) and its equality with the code-shaped model of Message::Flatten; the 8-byte stream "
                "frame; the protocol constants of all implementations (translated from message/Message.h, MiniMessage.c, "
                "MicroMessage.c, the two C gateways, message.py, message_transceiver_thread.py).  NOT modelled, covered by the "
                "differential run only: lang/c/minimessage, lang/c/micromessage, lang/python3/message.py (programs quantifier: "
                "partial) and the send/receive state machines of the C++, mini and micro gateways (exercised on three-frame streams "
                "cut into arbitrary segments, frame sizes swept across the scratch-buffer boundary; the C++ receive machine is "
                "modelled by C03).")
    premises = ["the C mini/micro codecs and the Python codec are compared, not modelled (differential testing on generated Messages)",
                "common repertoire: field names and strings without NUL; Python additionally needs UTF-8 names/strings and compares "
                "Point/Rect on non-NaN values only (its struct round trip goes through Python floats)",
                "flattened sizes below 2^32"]
    rule = ("operation scripts (checks/c01.py grammar) building Messages over every field type, counts 0/1/2/3.., nesting, raw type "
            "codes, empty strings / zero-length raw items, non-flattenable fields in between; for each: C++ bytes and content vs the "
            "Coq reference spec (byte-identical), C mini and micro parse/build/serialise vs C++, Python parse/build/serialise vs "
            "C++, the stream frame of the four gateways; the MiniMessage of the same final content is built three times -- one-shot with "
            "MMPut*, and twice through a pseudo-random EDIT HISTORY per field (MMRenameField from a longer / shorter / equally long "
            "temporary name, two renames in a row, rename onto an existing field, re-put over a field of another type or item count "
            "with and without retainOldData, a decoy neighbour removed with MMRemoveField, MMMoveField from another MMessage, "
            "MMSetWhat; recursively for sub-Messages) -- and each must serialise into an exact-size buffer to the C++ bytes, pass an "
            "independent layout walk (name-length prefix == strlen(name)+1, every byte accounted for), read back and parse in C++ to "
            "the same content, re-serialise from C++ to the same bytes and give the same gateway stream; the Python Message is built "
            "with re-put / RemoveName histories too (MicroMessage and the Python class have no rename or move); every case's three-frame stream is sent by and fed (in segments of 1.."
            "5000 bytes) to the C++, mini and micro gateways, with a stream of cases whose frame sizes sweep scratch-18..scratch+12, "
            "2*scratch+-16 and random sizes up to 3*scratch.  Non-trivial = register 0 receives at least two add/prepend/pad operations.")

    def gen_cases(self, rng, tier):
        n = 1200 if tier == "quick" else 20000
        out = [("directed", c) for c in directed()]
        for i in range(n):
            nops = rng.choice([2, 4, 6, 9, 12, 16, 24])
            out.append(("random", gen_wire_script(rng, nops, 4 if tier == "quick" else 8)))
        out += [("gateway-sizes", c) for c in gateway_cases(rng, tier)]
        return out

    def signature(self, failure):
        """what fails, with the case-specific numbers removed (so that a known-finding entry can match it)"""
        import re
        return re.sub(r"\d+", "N", re.sub(r": [0-9a-f]{8,}$", "", failure.get("signature") or "disagree"))

    def fail_key(self, f):
        import re
        return (f["kind"], re.sub(r"\d+", "N", re.sub(r": [0-9a-f]{8,}$", "", re.sub(r"^\d+ ", "", f.get("signature", "")))))

    def nontrivial(self, case):
        body = case.split("|", 1)[1]
        return len([o for o in body.split(";") if o[:2] in ("a:", "p:", "am", "pm", "pa")]) >= 2

    def distribution(self, sc):
        d = c01.CHECK.distribution(self, sc)
        d.update(getattr(self, "_py_stats", {}))
        return d

    def extra_stage(self, ctx):
        """Python leg of the differential: feed the bytes and content text the C++ produced to message.py."""
        impl, cases = ctx["impl"], ctx["cases"]
        if not impl or not cases:
            return
        rc, lines, err = vlib.run_lines(impl, "".join(c + "\n" for c in cases), timeout=900)
        B, CCT, FR = {}, {}, {}
        for l in lines:
            sp = l.split(" ", 2)
            if len(sp) == 3 and sp[0].isdigit():
                if sp[1] == "B":
                    B[int(sp[0])] = sp[2]
                elif sp[1] == "CCT":
                    CCT[int(sp[0])] = sp[2]
                elif sp[1] == "FR":
                    FR[int(sp[0])] = sp[2]
        ks = sorted(k for k in B if k in CCT and not CCT[k].startswith("error"))
        text = "".join("%d %s %s\n" % (k, B[k], CCT[k]) for k in ks)
        py = os.path.join(vlib.VERIF, "harness", "py_codec.py")
        rc, out, err = vlib.sh(["python3", py, os.path.join(vlib.REPO, "lang", "python3")], input=text, timeout=900)
        seen, stats = set(), {"py:ok": 0, "py:skip-non-utf8": 0, "py:skip-nan": 0, "py:err": 0}
        for l in out.splitlines():
            sp = l.split(" ")
            if not sp or not sp[0].isdigit():
                continue
            k = int(sp[0]); seen.add(k)
            why = None
            if sp[1] == "SKIP":
                stats["py:skip-non-utf8" if "utf8" in l else "py:skip-nan"] += 1
                continue
            if sp[1] == "ERR":
                why = "python: exception while parsing/serialising C++ bytes: " + " ".join(sp[2:])[:160]
            elif sp[1] == "OK" and len(sp) == 6:
                if sp[2] != CCT[k]:
                    why = "python: parses the C++ bytes to different content"
                elif sp[3] != B[k]:
                    why = "python: re-serialises the parsed Message to different bytes"
                elif sp[4] != B[k]:
                    why = "python: a Message built with the Put API serialises to different bytes"
                elif sp[5] != FR.get(k):
                    why = "python: stream frame header differs from the C++ gateway's"
            else:
                why = "python: unparsable codec output"
            if why:
                stats["py:err"] += 1
                ctx["failures"].append({"kind": "oracle", "signature": "ORACLE FAIL " + why, "case": cases[k],
                                        "detail": {"python": l[:1500], "cpp_bytes": B[k], "cct": CCT[k][:1500]}})
            else:
                stats["py:ok"] += 1
        missing = [k for k in ks if k not in seen]
        if missing or rc != 0:
            ctx["failures"].append({"kind": "oracle", "signature": "ORACLE FAIL python: codec subprocess died (rc=%s)" % rc,
                                    "case": cases[missing[0]] if missing else None, "detail": err[-1500:]})
        self._py_stats = stats
        ctx["extra_coverage"] = {"python_leg": stats}
