"""C16 -- Queue is an ideal double-ended sequence (util/Queue.h)."""
import vlib


def gen_ops(rng, n, vals, big):
    ops = []
    size_guess = 0
    for _ in range(n):
        r = rng.random()
        v = rng.choice(vals)
        idx = rng.choice([0, 1, 2, 3, 4, size_guess // 2, max(0, size_guess - 1), size_guess, size_guess + 1, rng.randint(0, 12)])
        if r < 0.16:
            ops.append("at:%d" % v); size_guess += 1
        elif r < 0.28:
            ops.append("ah:%d" % v); size_guess += 1
        elif r < 0.34:
            ops.append("rh"); size_guess = max(0, size_guess - 1)
        elif r < 0.40:
            ops.append("rt"); size_guess = max(0, size_guess - 1)
        elif r < 0.44:
            k = rng.choice([0, 1, 2, 3, size_guess, size_guess + 1]); ops.append("rhm:%d" % k); size_guess = max(0, size_guess - k)
        elif r < 0.48:
            k = rng.choice([0, 1, 2, 3, size_guess, size_guess + 1]); ops.append("rtm:%d" % k); size_guess = max(0, size_guess - k)
        elif r < 0.54:
            ops.append("ra:%d" % idx); size_guess = max(0, size_guess - 1)
        elif r < 0.61:
            ops.append("ia:%d:%d" % (idx, v)); size_guess += 1
        elif r < 0.64:
            ops.append("rp:%d:%d" % (idx, v))
        elif r < 0.66:
            ops.append("g:%d" % idx)
        elif r < 0.68:
            ops.append("cl:%d" % rng.randint(0, 1)); size_guess = 0
        elif r < 0.78:
            n_ = rng.choice([0, 1, 2, 3, 4, 5, size_guess, max(0, size_guess - 1), max(0, size_guess - 2), size_guess + 1, size_guess + 3, rng.randint(0, big)])
            setn = rng.randint(0, 1)
            extra = rng.choice([0, 0, 1, 2, 5])
            if rng.random() < 0.06:
                # uint32 boundary: n + extra reaches MUSCLE_NO_LIMIT (2^32-1) or wraps around -> B_RESOURCE_LIMIT, nothing changes
                # (never a sum between "small" and 2^32-2: that would be a real multi-gigabyte allocation)
                extra = rng.choice([4294967295 - n_, 4294967295, 4294967296 - n_ if n_ else 4294967295])
                ops.append("es:%d:%d:%d:%d" % (n_, setn, extra, rng.randint(0, 1)))
            else:
                ops.append("es:%d:%d:%d:%d" % (n_, setn, extra, rng.randint(0, 1)))
                if setn:
                    size_guess = n_
        elif r < 0.80:
            ops.append("sw:%d:%d" % (idx, rng.randint(0, max(1, size_guess))))
        elif r < 0.83:
            ops.append("rv:%d:%d" % (rng.choice([0, 0, 1, 2, idx]), rng.choice([0, 1, 2, size_guess, size_guess + 5, 5000])))
        elif r < 0.86:
            ops.append("nm")
        elif r < 0.88:
            ops.append("io:%d:%d:%d" % (v, rng.choice([0, 0, 1, idx]), rng.choice([0, 1, size_guess, 5000])))
        elif r < 0.90:
            ops.append("lo:%d:%d:%d" % (v, rng.choice([5000, size_guess, idx]), rng.choice([0, 0, 1, idx])))
        elif r < 0.93:
            xs = [rng.choice(vals) for _ in range(rng.choice([0, 1, 2, 3, 4, 7]))]
            ops.append("atm:" + ",".join(map(str, xs))); size_guess += len(xs)
        elif r < 0.95:
            xs = [rng.choice(vals) for _ in range(rng.choice([0, 1, 2, 3, 4, 7]))]
            ops.append("ahm:" + ",".join(map(str, xs))); size_guess += len(xs)
        elif r < 0.97:
            xs = [rng.choice(vals) for _ in range(rng.choice([0, 1, 1, 2, 3, 5]))]
            ops.append("iia:%d:%s" % (idx, ",".join(map(str, xs)))); size_guess += len(xs)
        elif r < 0.98:
            xs = [rng.choice(vals) for _ in range(rng.choice([0, 1, 2, 3, 4, 9]))]
            ops.append("cf:" + ",".join(map(str, xs))); size_guess = len(xs)
        elif r < 0.987:
            ops.append("rfi:%d" % v); size_guess = max(0, size_guess - 1)
        elif r < 0.993:
            ops.append("rli:%d" % v); size_guess = max(0, size_guess - 1)
        else:
            ops.append("rai:%d" % v)
        # sorting, iterators, duplicate removal, sorted insertion (a fifth of the scripts' operations come from here)
        if rng.random() < 0.2:
            r2 = rng.random()
            if r2 < 0.35:
                ops.append("so:%d:%d:%d" % (rng.randint(0, 1), rng.choice([0, 0, 0, 1, 2, idx]), rng.choice([5000, 5000, size_guess, max(0, size_guess - 1), idx, 14])))
            elif r2 < 0.60:
                ops.append("it:%d:%d" % (rng.choice([0, 0, 1, idx, max(0, size_guess - 1), size_guess]), rng.choice([1, 1, -1, -1, 2, -2, 3, 7, -5, 2147483647, -2147483648])))
            elif r2 < 0.72:
                ops.append("rsd")
            elif r2 < 0.80:
                ops.append("rd")
            else:
                ops.append("isp:%d" % v); size_guess += 1
        # arguments that are references into the Queue's own storage; exact-fit shrinking; the contiguous pieces
        if rng.random() < 0.2:
            r3 = rng.random()
            i2 = rng.choice([0, 1, max(0, size_guess - 1), size_guess // 2, size_guess])
            if r3 < 0.15:
                ops.append("atr:%d" % i2); size_guess += 1
            elif r3 < 0.30:
                ops.append("ahr:%d" % i2); size_guess += 1
            elif r3 < 0.45:
                ops.append("iar:%d:%d" % (idx, i2)); size_guess += 1
            elif r3 < 0.52:
                ops.append("rpr:%d:%d" % (idx, i2))
            elif r3 < 0.58:
                ops.append("rar:%d" % i2)
            elif r3 < 0.72:
                ops.append("stf:%d" % rng.choice([0, 0, 0, 1, 2, 3, 5, 4294967295]))
            elif r3 < 0.82:
                ops.append("eca:%d" % rng.choice([0, 1, 1, 2, 3, 6, 4294967295]))
            elif r3 < 0.87:
                ops.append("rpa:%d" % v)
            elif r3 < 0.93:
                ops.append("gap")
            elif r3 < 0.97:
                xs = [rng.choice(vals) for _ in range(rng.choice([0, 1, 2, 3, 4, 6]))]
                sp = [rng.choice(vals) for _ in range(rng.choice([0, 0, 1, 2, 5]))]
                ops.append("adp:%s:%s" % (",".join(map(str, xs)), ",".join(map(str, sp)))); size_guess = len(xs)
            else:
                ops.append("rel"); size_guess = 0
    return ops


def gen_ops2(rng, n, vals, big):
    """two-queue scripts: single-queue ops on A or B mixed with the operations that take a second Queue
    (or the Queue itself) as argument"""
    ops = []
    sz = [0, 0]
    for _ in range(n):
        r = rng.random()
        t = rng.randint(0, 1)
        if r < 0.50:
            o = gen_ops(rng, 1, vals, big)[0]
            # keep a rough size estimate (only used to aim indices)
            if o.startswith(("at:", "ah:", "ia:")): sz[t] += 1
            elif o.startswith(("rh", "rt", "ra:")) and not o.startswith(("rhm", "rtm")): sz[t] = max(0, sz[t] - 1)
            elif o.startswith("cl:"): sz[t] = 0
            elif o.startswith("es:") and o.split(":")[2] == "1": sz[t] = int(o.split(":")[1])
            ops.append(("b." if t else "") + o)
        elif r < 0.60:
            ops.append("sc:%d" % t); sz[0], sz[1] = sz[1], sz[0]
        elif r < 0.67:
            ops.append("pl:%d" % t); sz[t] = sz[1 - t]; sz[1 - t] = 0
        elif r < 0.71:
            ops.append("cq:%d" % t); sz[t] = sz[1 - t]
        elif r < 0.75:
            ops.append("as:%d" % t); sz[t] = sz[1 - t]
        elif r < 0.77:
            ops.append("eq")
        elif r < 0.78:
            ops.append("cmp:%d" % t)
        elif r < 0.80:
            ops.append("stw:%d" % t)
        elif r < 0.82:
            ops.append("enw:%d" % t)
        else:
            self_ = rng.choice([0, 0, 1])
            src = sz[t] if self_ else sz[1 - t]
            start = rng.choice([0, 0, 1, 2, src // 2, max(0, src - 1), src, src + 1])
            num = rng.choice([0, 1, 2, 3, src, 5000, 5000])
            if src > 24:
                num = min(num, 3)      # keep the queues small (a queue appended to itself doubles)
            k = rng.choice(["atq", "ahq", "iiq"])
            added = max(0, min(num, src - start))
            if k == "iiq":
                idx = rng.choice([0, 1, 2, sz[t] // 2, max(0, sz[t] - 1), sz[t], sz[t] + 1])
                ops.append("iiq:%d:%d:%d:%d:%d" % (t, self_, idx, start, num))
            else:
                ops.append("%s:%d:%d:%d:%d" % (k, t, self_, start, num))
            sz[t] += added
    return ops


class CHECK(vlib.Check):
    prop = "C16"
    prop_file = "Properties_C16.v"
    model = ("Cont/QueueExtract.v", "queue_driver.ml", "queue", ("ocommon.ml",))
    harness = dict(name="queue", src="queue_h.cpp", san="asan", link_lib=True)
    modelled = ("util/Queue.h: representation (_queue kind, _itemCount, _headIndex, _tailIndex, _queueSize, raw slots), "
                "NextIndex/PrevIndex/InternalizeIndex, EnsureSizeAux, AddTail/AddHead, RemoveHead/RemoveTail(+Multi), "
                "RemoveItemAt, InsertItemAt, ReplaceItemAt, Clear, Swap, ReverseItemOrdering, Normalize (effect level), "
                "IndexOf/LastIndexOf, Sort (code-shaped: bubble sort below 12 items, in-place Merge with Lower/Upper and the rotation by gcd cycles, proved equal to the stable sort), "
                "QueueIterator, RemoveSortedDuplicateItems/RemoveDuplicateItems, InsertItemAtSortedPosition, "
                "AddTailMulti/AddHeadMulti/InsertItemsAt (array forms and Queue forms incl. a Queue passed as "
                "its own argument), CopyFrom, operator=, Remove*InstanceOf, the unused in-object array, and on two queues: "
                "SwapContents/SwapContentsAux, Plunder (move), operator==, StartsWith/EndsWith. "
                "arguments that are references into the Queue's own storage (AddTail(q[i]) etc.), ShrinkToFit/EnsureCanAdd, "
                "ReplaceAllItems, GetArrayPointer, lexicographic comparison. "
                "Normalize's rotation (Hsieh's cycle algorithm) and the RemoveSortedDuplicateItems / RemoveAllInstancesOf loops are code-shaped as well. "
                "AdoptRawDataArray (with default items behind the valid ones for owning item types, as the API requires) / "
                "ReleaseRawDataArray incl. the array handed out. "
                "Not modelled: HashCode/CalculateChecksum, constructors other than the default one (compositions of modelled operations).")
    premises = ["memory safety and object lifetime of the C++ (observed by ASan/UBSan in the harness only)",
                "item counts below 2^31 (the uint32 sums size+extraPreallocs, count+n of EnsureSize/EnsureCanAdd/ShrinkToFit ARE modelled; "
                "wrap-around of the item count itself, and allocation failure, are not)"]
    rule = ("operation scripts over Queue<int> (trivial) and Queue<Tracked> (owning) generated from random.Random(seed); "
            "after EVERY operation the result, user-visible items, _itemCount/_headIndex/_tailIndex/_queueSize, storage kind "
            "and all raw slots incl. the unused in-object array (for trivial items too: fresh memory is the ASan fill byte) are "
            "compared with the extracted L1 model (of both queues in the two-queue streams); the harness's own ideal-vector oracle is evaluated as well.  Non-trivial = the script wraps "
            "the ring or reallocates (contains a head insertion or removal plus >= 4 additions, or an EnsureSize); two-queue "
            "scripts: contain an operation taking a Queue argument.")

    def gen_cases(self, rng, tier):
        n = 1400 if tier == "quick" else 20000
        out = []
        vals = [0, 1, 2, 3, 5, 7, -1, 9]
        for i in range(n):
            kind = "T" if i % 2 == 0 else "O"
            length = rng.choice([3, 6, 10, 16, 25, 40])
            out.append(("random", kind + "|" + ";".join(gen_ops(rng, length, vals, 12 if tier == "quick" else 40))))
        for i in range(n // 2):
            kind = "T2" if i % 2 == 0 else "O2"
            length = rng.choice([4, 8, 12, 20, 30])
            out.append(("random2", kind + "|" + ";".join(gen_ops2(rng, length, vals, 12 if tier == "quick" else 40))))
        # directed: boundaries of the small buffer and of the grow policy, wrap-around, shrink
        for kind in "TO":
            for a in range(0, 9):
                for extra in ("", ";rh;at:8;at:9", ";ah:4;ah:5;rt"):
                    base = ";".join("at:%d" % (i + 1) for i in range(a)) + extra
                    for tail in ("es:0:1:0:1", "es:1:1:0:1;es:4:1:0:0", "es:2:0:0:1;es:6:1:0:0", "rtm:2;es:%d:1:0:0" % (a + 1),
                                 "rhm:1;nm", "cl:0;es:3:1:0:0", "ra:1;ia:1:7;rv:0:99", "es:%d:1:2:1;es:%d:1:0:0" % (max(0, a - 2), a + 2)):
                        out.append(("directed", kind + "|" + base.strip(";") + ";" + tail))
        # directed: the uint32 boundary of EnsureSize's size+extraPreallocs (and of EnsureCanAdd / ShrinkToFit): at, one below and
        # past MUSCLE_NO_LIMIT, for every storage kind, with and without set-size / shrink
        for kind in "TO":
            for pre, c0 in (("", 0), ("at:1;at:2", 2), ("at:1;at:2;at:3;at:4;at:5", 5), ("es:7:0:0:0;at:1", 1)):
                for big in ("es:10:1:4294967288:0", "es:10:0:4294967288:0", "es:10:1:4294967285:1", "es:1:1:4294967294:1", "es:0:0:4294967295:0",
                            "es:4294967295:0:0:0", "es:4294967295:1:0:0", "es:4294967290:1:9:1", "es:3:1:4294967295:0", "eca:4294967295",
                            "eca:%d" % (4294967295 - c0), "stf:4294967295", "stf:%d" % (4294967295 - c0)):
                    out.append(("directed", kind + "|" + ";".join(x for x in (pre, big, "at:7;g:0") if x)))
        # directed: AdoptRawDataArray with arrays shorter than / equal to / longer than the in-object array (also of no slots at all)
        # over every storage kind, then growth, wrap-around and shrinking on the adopted array; ReleaseRawDataArray from a
        # wrapped in-object array, a wrapped heap array, an empty and a never-used Queue
        for kind in "TO":
            for pre in ("", "at:1;at:2", "at:1;at:2;at:3;rh;at:4", "at:1;at:2;at:3;at:4;at:5;rh;rh;at:6"):
                for ad in ("adp::", "adp:7:", "adp:7,8:5", "adp:7,8,9:", "adp:7,8,9:1,2", "adp::4,4,4,4", "adp:1,2,3,4,5:6,6"):
                    for post in ("at:3;at:4;ah:5;rt", "es:4:1:0:0;rh;at:9;nm", "es:0:1:0:1;at:1", "cl:0;at:1;at:2", "rel;at:1", "stf:0;gap"):
                        out.append(("directed", kind + "|" + ";".join(x for x in (pre, ad, post, "g:0") if x)))
                for post in ("rel", "rel;rel", "rel;at:1;at:2;rel", "es:9:0:0:0;rel;at:5"):
                    out.append(("directed", kind + "|" + ";".join(x for x in (pre, post, "g:0") if x)))
        # directed: Sort around the bubble/merge threshold (12) and well past it, both comparators, sub-ranges, on a
        # wrapped window; keys x/4 with distinct payloads make stability observable
        for kind in "TO":
            for nitems in (0, 1, 2, 3, 11, 12, 13, 23, 24, 25, 40, 64):
                xs = [rng.choice([0, 1, 2, 3, 4, 5, 6, 7, 8, 9, 10, 11, -1, -2, -3, -4, -5, 13, 17]) for _ in range(nitems)]
                base = ["atm:" + ",".join(map(str, xs))] if xs else []
                for pre in ([], ["ah:6", "ah:-7", "rt"], ["es:%d:0:0:0" % (nitems + 9), "ah:2", "ah:9", "ah:4"]):
                    for so in ("so:0:0:5000", "so:1:0:5000", "so:1:1:%d" % max(0, nitems - 1), "so:0:2:%d" % (nitems // 2 + 8), "rd", "so:0:0:5000;rsd;isp:5;isp:-9;isp:99",
                               "it:0:1;it:%d:-1;it:0:3;it:%d:-2" % (max(0, nitems - 1), nitems)):
                        out.append(("directed", kind + "|" + ";".join(base + pre + [so, "g:0"])))
        # directed, two queues: every pairing of storage kinds (none / in-object / heap) and of item counts around
        # the in-object size for SwapContents, Plunder, assignment; then shrink back into the in-object array and grow
        # (stale items must not reappear); a Queue passed as its own argument with and without spare capacity
        def fill(pref, k, how):
            adds = [pref + "at:%d" % (10 * (1 if pref else 2) + i) for i in range(k)]
            if how == "heap":
                adds = [pref + "es:9:0:0:0"] + adds
            elif how == "wrap" and k > 0:
                adds = adds + [pref + "rh", pref + "at:99"]
            return adds
        for kind in ("T2", "O2"):
            for ka in (0, 1, 2, 3, 4, 6):
                for kb in (0, 1, 3, 5):
                    for ha in ("plain", "heap", "wrap"):
                        for binop in ("sc:0", "sc:1", "pl:0", "pl:1", "as:0", "cq:1"):
                            base = fill("", ka, ha) + fill("b.", kb, "plain") + [binop]
                            tail = ["es:1:1:0:1", "es:3:1:0:0", "b.es:0:1:0:1", "b.es:3:1:0:0", "eq"]
                            out.append(("directed2", kind + "|" + ";".join(base + tail)))
            for k in (1, 2, 3, 4, 7):
                for spare in (0, 1):
                    for o in ("ahq:0:1:0:5000", "ahq:0:1:1:2", "atq:0:1:0:5000", "atq:0:1:1:1", "iiq:0:1:1:0:5000", "iiq:0:1:0:1:2",
                              "iiq:0:1:9:0:2", "ahq:0:0:0:5000", "atq:0:0:1:2", "iiq:0:0:1:0:5000", "stw:0", "enw:0", "stw:1", "enw:1"):
                        pre = (["es:%d:0:0:0" % (3 * k + 2)] if spare else []) + ["at:%d" % (i + 1) for i in range(k)]
                        out.append(("directed2", kind + "|" + ";".join(pre + ["b.at:1", "b.at:2", o, "eq", "cmp:0", "cmp:1"])))
        # directed: a full ring (no unused slot) with an argument that lives in the ring itself -> the reallocation must not
        # read the argument from the freed array; exact-fit ShrinkToFit at every count around the in-object size
        for kind in "TO":
            for k in (1, 2, 3, 4, 6, 7):
                fillup = ["at:%d" % (i + 1) for i in range(k)]
                for pre in ([], ["rh", "at:9"], ["ah:8", "rt"]):
                    for o in ("stf:0;atr:0", "stf:0;ahr:%d" % (k - 1), "stf:0;iar:1:0", "stf:0;iar:%d:%d" % (k, k - 1), "stf:0;rar:0", "stf:1;atr:0;atr:0",
                              "stf:0;gap", "gap;nm;gap", "stf:0;eca:0;eca:1", "rpa:5;stf:2;es:%d:1:0:0" % (k + 3)):
                        out.append(("directed", kind + "|" + ";".join(fillup + pre + [o, "g:0"])))
        return out

    def nontrivial(self, case):
        if case.startswith(("T2|", "O2|")):
            return any(x in case for x in ("sc:", "pl:", "as:", "cq:", "atq:", "ahq:", "iiq:"))
        return ("es:" in case) or (case.count("at:") + case.count("ah:") >= 4 and ("ah:" in case or "rh" in case))

    def distribution(self, sc):
        d = {}
        for s, c in sc:
            d.setdefault("stream:" + s, 0)
            d["stream:" + s] += 1
            for o in c.split("|", 1)[1].split(";"):
                if o.startswith("b."):
                    o = o[2:]
                k = "op:" + o.split(":")[0]
                d[k] = d.get(k, 0) + 1
        return d
