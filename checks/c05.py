"""C05 -- a routed Message reaches exactly the sessions its patterns select, once each
(reflector/StorageReflectSession.cpp NodePathMatcher::DoTraversalAux / DoDirectChildLookup / CheckChildForTraversal,
PassMessageCallbackAux, MessageReceivedFromGateway default branch; DumbReflectSession.cpp; regex/PathMatcher.cpp).

Case grammar: see harness/route_h.cpp.  One case = one scripted multi-client history; after every op the server is
pumped to quiescence and the tagged Messages every client received, the result of directly driven traversals
(NodePathMatcher::DoTraversal, FindMatchingNodes, FindMatchingSessions), the true tree and every session's routing
state are compared with the extracted Coq model; the harness's own oracle (delivery == brute force with
PathMatcher::MatchesPath over every node, once each; traversal visit list == brute force; true sender; FIFO) is
evaluated on the implementation.
"""
import re
import vlib

NAMES = ["a", "b", "x", "y", "q", "ab", "ax", "1", "2", "10", "x,y", "a*", "a\\b"]
PLAIN = ["a", "b", "x", "y", "q", "ab", "ax", "1", "2", "10"]
# clauses that take the hash-lookup path (unique / list of unique values) ...
LITERAL = ["a", "b", "x", "y", "q", "ab", "ax", "1", "2", "10", "x\\,y", "a\\*", "a,b", "x,y", "a,x,q", "ab,ax", "b,,a", "1,2", "x\\,y,a", "a,a", "q,b,x", "a\\\\b", "a\\\\b,q", "x,a\\\\b"]
# ... and clauses that force the iteration path
WILD = ["*", "*", "a*", "*x", "?", "?b", "a?", "[ab]", "[a-c]*", "(a|b)", "(ab|x)", "~a", "~a*", "<1-2>", "<2->", "<-5>", "*,q", "a*,b", "[xy]", "~<2-3>", "?*"]
# wildcard patterns over the parameter names !Self !G2N !N2G !SnKy !SnFl (PR_COMMAND_REMOVEPARAMETERS)
RW_PATTERNS = ["*", "!S*", "!Sn*", "!*", "*2*", "!G2N,!N2G", "!Self", "!Sn??", "~!Self", "[!]S*", "!(G2N|Self)", "x*", "!SnKy", "!S?[el]*"]
FILTERS = ["g2", "l5", "e3", "x", "g5", "l2", "g-1", "-"]
HOSTS = ["h", "h", "h", "g"]
WHATS = [1234, 1234, 1234, 1234, 0, 7, 558916399, 558916434, 558916414]   # BEGIN_PR_COMMANDS - 1, END_PR_COMMANDS + 1, PR_COMMAND_NOOP
BEGIN_PR_COMMANDS = 558916400


def clause(rng, p_wild=0.45):
    return rng.choice(WILD) if rng.random() < p_wild else rng.choice(LITERAL)


def relpat(rng, maxd=3, p_wild=0.45):
    d = rng.choice([1, 1, 1, 2, 2, 3][: maxd + 3])
    return "/".join(clause(rng, p_wild) for _ in range(min(d, maxd)))


def abspat(rng, nsess, p_wild=0.45):
    r = rng.random()
    host = rng.choice(["*", "*", "h", "g", "h,g", "[gh]", "?", "~g"])
    if r < 0.12:
        return "/" + host
    sess = rng.choice(["*", "*", "*", str(rng.randrange(max(1, nsess))), "<0-1>", "0,1", "[0-2]", "~0", "<1->", "1,2"])
    if r < 0.30:
        return "/%s/%s" % (host, sess)
    return "/%s/%s/%s" % (host, sess, relpat(rng, 3, p_wild))


def key(rng, nsess, p_wild=0.45):
    r = rng.random()
    if r < 0.70:
        return relpat(rng, 3, p_wild)
    if r < 0.97:
        return abspat(rng, nsess, p_wild)
    return rng.choice(["%", "/"])


def keyset(rng, nsess, n=None, p_wild=0.45):
    """a SET of patterns: mixed depths, shared last clauses, in random order"""
    n = n or rng.choice([1, 1, 2, 2, 3, 4])
    ks = [key(rng, nsess, p_wild) for _ in range(n)]
    if n >= 2 and rng.random() < 0.5:
        # force a shared terminal clause between a shorter and a longer pattern (seeded-regression shape)
        last = rng.choice(LITERAL[:12])
        a = "/".join([rng.choice(PLAIN[:5]) for _ in range(rng.choice([0, 1]))] + [last])
        b = "/".join([rng.choice(PLAIN[:5]) for _ in range(rng.choice([1, 2]))] + [rng.choice([last, rng.choice(PLAIN[:5])])])
        ks[0], ks[1] = (a, b) if rng.random() < 0.5 else (b, a)
    seen, out = set(), []
    for k in ks:
        if k not in seen:
            seen.add(k)
            out.append(k)
    rng.shuffle(out)
    return out


def filters_for(rng, nkeys, prob=0.3):
    if rng.random() > prob:
        return ""
    n = rng.choice([nkeys, nkeys, max(1, nkeys - 1), nkeys + 1, 1])
    return "&".join(rng.choice(FILTERS) for _ in range(n))


def relpath(rng, maxd=3):
    cl = [rng.choice(NAMES if rng.random() < 0.15 else PLAIN) for _ in range(rng.choice([1, 1, 2, 2, 3][: maxd + 2]))]
    if F63_INPUTS and len(cl) == 3 and rng.random() < 0.06:
        cl[1] = ""            # a node with an EMPTY name (SETDATA a//b creates one)
    return "/".join(cl)


def grouped_items(items):
    order, by = [], {}
    for it in items:
        k = it.split("=")[0]
        if k not in by:
            by[k] = []
            order.append(k)
        by[k].append(it)
    return [it for k in order for it in by[k]]


class Gen:
    def __init__(self, rng, p_wild=0.45):
        self.rng = rng
        self.p_wild = p_wild
        self.n = 0
        self.alive = []
        self.paths = {}

    def attach(self):
        self.alive.append(self.n)
        self.paths[self.n] = []
        self.n += 1
        return "a:" + self.rng.choice(HOSTS)

    def set_cmd(self, k):
        rng = self.rng
        known = self.paths[k]
        items = []
        for _ in range(rng.choice([1, 2, 3, 4, 6])):
            p = rng.choice(known) if (known and rng.random() < 0.3) else relpath(rng)
            if p not in known:
                known.append(p)
            items.append("%s=%d" % (p, rng.randrange(0, 8)))
        return "s:%d:%d:%s" % (k, rng.choice([0, 0, 0, 0, 1, 2]), "&".join(grouped_items(items)))

    def msg_cmd(self, k, code="m"):
        rng = self.rng
        r = rng.random()
        ks = keyset(rng, self.n, p_wild=self.p_wild) if r < 0.75 else []
        fl = filters_for(rng, len(ks)) if ks else (rng.choice(FILTERS) if rng.random() < 0.05 else "")
        sess = rng.choice(["-", "-", "-", "S%d" % k, "S%d" % rng.randrange(self.n), "Sspoof", "S9&%d" % k, "I"])
        return "%s:%d:%d:%s:%s:%s" % (code, k, rng.choice(WHATS), "&".join(ks), fl, sess)

    def trav_cmd(self, k):
        rng = self.rng
        root = rng.choice(["g", "g", "s"])
        n = rng.choice([1, 1, 2, 2, 3, 4])
        if root == "g":
            ks = keyset(rng, self.n, n, self.p_wild)
        else:
            ks = list(dict.fromkeys(relpat(rng, 3, self.p_wild) for _ in range(n)))
        fl = filters_for(rng, len(ks))
        return "t:%d:%s:%d:%s:%s:%s" % (k, root, rng.choice([1, 1, 1, 0]), rng.choice(["-1", "-1", "-1", "1", "2", "3", "0"]), "&".join(ks), fl)

    def op(self):
        rng = self.rng
        r = rng.random()
        if not self.alive or (r < 0.04 and self.n < 5):
            return [self.attach()]
        if r < 0.07 and len(self.alive) > 1:
            k = rng.choice(self.alive)
            self.alive.remove(k)
            return ["d:%d" % k]
        k = rng.choice(self.alive)
        if r < 0.25:
            return [self.set_cmd(k)]
        if r < 0.30:
            pats = [relpat(rng, 3, self.p_wild) + ("@" + rng.choice(FILTERS[:-1]) if rng.random() < 0.15 else "") for _ in range(rng.choice([1, 1, 2]))]
            return ["r:%d:0:%s" % (k, "&".join(pats))]
        if r < 0.38:
            ks = keyset(rng, self.n, p_wild=self.p_wild) if rng.random() < 0.7 else []
            flags = "".join(c for c in "RGN" if rng.random() < (0.5 if c == "R" else 0.2))
            return ["sp:%d:%s:%s:%s" % (k, flags, "&".join(ks), filters_for(rng, len(ks), 0.25) if (ks or rng.random() < 0.1) else "")]
        if r < 0.42:
            return ["rp:%d:%s" % (k, "".join(c for c in "RGNKF" if rng.random() < 0.35) or "K")]
        if r < 0.44:
            return ["rw:%d:%s" % (k, rng.choice(RW_PATTERNS))]
        if r < 0.62:
            return [self.trav_cmd(k)]
        if r < 0.67:
            p = rng.choice([relpat(rng, 3, self.p_wild), abspat(rng, self.n, self.p_wild)])
            return ["fn:%d:%s:%s" % (k, rng.choice(["-1", "-1", "1", "2"]), p + ("@" + rng.choice(FILTERS[:-1]) if rng.random() < 0.2 else ""))]
        if r < 0.72:
            p = rng.choice([relpat(rng, 3, self.p_wild), abspat(rng, self.n, self.p_wild), "%"])
            return ["fs:%d:%d:%s:%s" % (k, rng.choice([0, 1]), rng.choice(["-1", "-1", "1", "2"]), p + ("@" + rng.choice(FILTERS[:-1]) if rng.random() < 0.2 else ""))]
        if r < 0.78:
            # a burst from one client: q q ... m
            n = rng.choice([1, 2, 3])
            return [self.msg_cmd(k, "q") for _ in range(n)] + [self.msg_cmd(k, "m")]
        return [self.msg_cmd(k)]

    def case(self, nops, nstart):
        ops = [self.attach() for _ in range(nstart)]
        for k in list(self.alive):
            if self.rng.random() < 0.85:
                ops.append(self.set_cmd(k))
        while len(ops) < nops + nstart:
            ops += self.op()
        return ";".join(ops)


DIRECTED = [
    # F12: the guard counts clause-count groups, not patterns
    "a:h;a:h;a:h;s:1:0:jeremy=1&jeremy/jenny=2&jeremy/kate=3;s:2:0:kevin=1&kevin/joe=4&kevin/kim=5;t:0:g:1:-1:j*/k*&k*/j*:;m:0:1234:j*/k*&k*/j*::-",
    "a:h;a:h;s:1:0:a=1&b=2;t:0:g:1:-1:/h/*/a&/g/*/b:;m:0:1234:/h/*/a&/g/*/b::-;t:0:g:1:-1:/h/*/a&/g/*/b&/*:",
    # F19: once per session (two depth-3 subtrees; two levels; session node + child; with reflect-to-self)
    "a:h;a:h;a:g;s:1:0:a=1&b=2&a/x=3&b/y=4;s:2:0:a=5;m:0:1234:*::-;m:0:1234:*/*::-;m:0:1234:/*/*&a::-;sp:1:R::;m:1:1234:*::-;m:1:1234:/*/*&*&*/*::-",
    "a:h;a:h;s:1:0:a=1&b=2&x=3;fs:0:0:-1:*;fs:0:1:1:*;fs:0:0:-1:%;fs:1:0:-1:%;fs:1:1:-1:/*/*",
    # F20: the default route
    "a:h;a:h;a:h;s:1:0:b=1;s:2:0:a=1;sp:0::b:;m:0:1234:::-;sp:0::a&b:;m:0:1234:::-;m:0:1234:a::-;rp:0:K;m:0:1234:::-;sp:0:R:*:g0;m:0:5:::-;rp:0:F;m:0:5:::-;rp:0:RK;m:0:5:::-",
    # seeded-regression shape: patterns of different depths, literal terminal clause shared, every order
    "a:h;a:h;s:1:0:a=1&a/x=2;t:0:g:1:-1:a/q/y&b/x:;t:0:g:1:-1:b/x&a/x/y:;t:0:g:1:-1:a/x/y&b/x:;m:0:1234:a/q/y&b/x::-;m:0:1234:b/x&a/x/y::-;m:0:1234:a/x/y&b/x::-",
    "a:h;a:h;s:1:0:a=1&a/x=2&b=3&b/x=4&b/x/y=5;t:0:g:1:-1:a/q/y&b/x:;t:0:g:1:-1:b/x&a/x/y:;t:0:g:1:-1:x,q&a/x,y&b/x/y,q:;t:1:s:1:-1:x&a/x&b/x/y:;t:1:s:1:-1:b/x/y&x&a/x:",
    "a:h;a:h;s:1:0:a=1&a/x=2;t:0:g:1:-1:a/q/y&b/x,z:;t:0:g:1:-1:b/x,z&a/x/y:;t:0:g:0:-1:b/x&a/x/y&x:;t:1:s:0:-1:q/y&x:",
    # hash-lookup path vs iteration path on the same clause lists; alreadyDid (same child via two entries / two keys)
    "a:h;a:h;a:g;s:1:0:a=1&b=2&ab=3&a/a=4&b/a=5;s:2:0:a=6&x=7;t:0:g:1:-1:a,b&a,b/a&/h/1,2/a&/g/2/*:;t:0:g:1:-1:a&a,a&a,b&b,a:;t:0:g:1:-1:a/a&a,b/a&*/a:;t:0:g:1:-1:a,b/a&a/a:",
    # filters: per key, bleed-down of the previous filter, a dummy filter stops it, more filters than keys
    "a:h;a:h;s:1:0:a=1&b=5&x=9;t:0:g:1:-1:a&b&x:g3;t:0:g:1:-1:a&b&x:g3&-;t:0:g:1:-1:a&b&x:g3&-&l7&e1;t:0:g:0:-1:a&b&x:g3;t:0:g:1:-1:*:g3;t:0:g:1:-1:*&b:g6&-;m:0:1234:a&b&x:g3:-;m:0:1234:*:g6:-",
    "a:h;a:h;s:1:0:a=1&b=5;t:0:g:1:-1:a&a:g3&l3;t:0:g:1:-1:a:g0;t:0:g:1:-1:a:x;t:0:g:1:-1:/h/1:x;t:0:g:1:-1:/h/1&a:x",
    # the sender field
    "a:h;a:h;m:0:1234:::Sspoof;m:0:1234:::S1;m:0:1234:::S0;m:0:1234:::S7&8;m:0:1234:::I;m:0:1234:::-;m:1:1234:/*/*::S0",
    # what-code boundaries: commands are not routed
    "a:h;a:h;m:0:558916399:::-;m:0:558916400:::-;m:0:558916414:::-;m:0:558916433:::-;m:0:558916434:::-;m:0:0:::-;m:0:4294967295:::-",
    # reflect-to-self and the two gateway flags
    "a:h;a:h;a:h;m:0:1:::-;sp:0:R::;m:0:2:::-;m:0:3:/*/*::-;rp:0:R;m:0:4:/*/*::-;rp:1:N;m:0:5:::-;sp:1:N::;rp:1:N;m:0:6:::-;m:0:7:/*/1::-;m:1:8:/*/1::-;sp:1:R::;m:1:9:/*/1::-;sp:2:G::;rp:2:G;m:2:10:::-;m:2:11:/*/*::-",
    # bursts: FIFO per pair
    "a:h;a:h;a:h;s:1:0:a=1;q:0:1:::-;q:0:2:a::-;q:0:3:/*/*::-;m:0:4:::-;q:2:5:::-;q:2:6:/h/1::-;m:2:7:a::-",
    # empty / root keys, host-level keys, keys that match nothing
    "a:h;a:g;s:1:0:a=1;m:0:1:%::-;m:0:2:/::-;m:0:3:/*::-;m:0:4:/g::-;m:0:5:/g/1::-;m:0:6:zz::-;t:0:g:1:-1:/*:;t:0:g:1:-1:/*&/*/*&*:;t:0:g:1:-1:%:;t:0:g:1:-1:/:",
    # departure: a detached session receives nothing, its nodes are gone
    "a:h;a:h;a:h;s:1:0:a=1;s:2:0:a=2;m:0:1:a::-;d:1;m:0:2:a::-;m:0:3:::-;d:2;m:0:4:a::-;m:0:5:::-",
    # odd node names reached through escaped unique clauses and lists of them
    "a:h;a:h;s:1:0:x,y=1&a*=2&a=3&ab=4;t:0:g:1:-1:x\\,y:;t:0:g:1:-1:a\\*:;t:0:g:1:-1:a*:;t:0:g:1:-1:x\\,y,a:;t:0:g:1:-1:x,y:;t:0:g:1:-1:a\\*,ab&x\\,y:",
    # F52: a list-of-unique-values clause whose item contains an escaped backslash must look up the name a\\b, not ab
    "a:h;a:h;s:1:0:a\\b=1&ab=3&c=2;t:0:g:1:-1:a\\\\b,c:;t:0:g:1:-1:a\\\\b:;t:0:g:1:-1:a\\\\b,c&*:;m:0:1234:a\\\\b,zz::-",
    # wildcard REMOVEPARAMETERS
    "a:h;a:h;a:h;s:1:0:b=1;sp:0:RGN:b:;m:0:1:::-;rw:0:!Sn*;m:0:2:::-;sp:0::b:g0;rw:0:!S*;m:0:3:::-;rw:0:*2*;m:0:4:::-;sp:0:RGN:b:;rw:0:~!Self;m:0:5:::-;rw:0:*;m:0:6:::-;rw:1:*;m:0:7:::-",
    # maximum results: abort of the traversal (-1)
    "a:h;a:h;a:h;s:1:0:a=1&b=2&a/x=3;s:2:0:a=4&b=5;t:0:g:1:0:*:;t:0:g:1:1:*:;t:0:g:1:2:*&*/*:;t:0:g:1:3:*&*/*:;t:0:g:1:9:*&*/*:;fn:0:1:/*/*/a;fn:1:2:*;fn:1:-1:a/*;fs:0:1:1:*;fs:0:1:2:*",
]


# Inputs aimed at finding F63 (empty node names reached through list patterns with an empty item); the repair is in /repo.
F63_INPUTS = True
F63_DIRECTED = [
    # F63: a node with an empty name and list patterns with an empty item (hash-lookup path vs iteration path)
    "a:h;a:h;s:1:0:a//b=1&a/x/b=2;t:0:g:1:-1:a/x,,y/b:;t:0:g:1:-1:a/x,,y/b&*/*/*:;t:0:g:1:-1:a/,x/b:;t:0:g:1:-1:a/x,/b:;m:0:1234:a/y,,/b::-;t:1:s:1:-1:a/,:",
]
F63_LITERAL = ["x,,y", ",a", "a,", "q,,"]
if F63_INPUTS:
    DIRECTED += F63_DIRECTED
    LITERAL += F63_LITERAL


class CHECK(vlib.Check):
    prop = "C05"
    prop_file = "Properties_C05.v"
    model = ("Refl/RouteExtract.v", "route_driver.ml", "route", ("ocommon.ml",))
    harness = dict(name="route", src="route_h.cpp", san="asan", link_lib=True)
    quick_timeout = 1500
    modelled = ("reflector/StorageReflectSession.cpp: NodePathMatcher::DoTraversal/DoTraversalAux/DoDirectChildLookup/CheckChildForTraversal/"
                "MatchesNode/PathMatches (literally: entries grouped by clause count, hash-lookup path when every clause at a level is unique "
                "or a list of unique values, alreadyDid, known-entry shortcut, matched/recursed flags, the multi-pattern guard, callback return "
                "depth), the comma-list key parsing of DoTraversalAux and RemoveEscapeChars in DoDirectChildLookup (Refl/ClauseKeys.v, over C15's "
                "StringMatcher model; the MatchOps instance of the extracted model is the Coq definition Refl/PatInst.v pat_ops), PassMessageCallbackAux, FindSessionsCallback, FindNodesCallback, FindMatchingNodes, FindMatchingSessions, the default "
                "branch of MessageReceivedFromGateway (forced PR_NAME_SESSION, keys/filters of the Message, default route, broadcast), the "
                "routing fields of PR_COMMAND_SETPARAMETERS, PR_COMMAND_REMOVEPARAMETERS (literal names and wildcard patterns over the parameter names), "
                "RemoveParameter, UpdateDefaultMessageRoute; "
                "regex/PathMatcher.cpp PutPathsFromMessage (filter bleed-down), PutPathString, AdjustStringPrefix, MatchesPath; "
                "DumbReflectSession::MessageReceivedFromGateway/MessageReceivedFromSession (routing flags), BroadcastToAllSessions; the tree-building "
                "commands SETDATA / REMOVEDATA / attach / detach come from the C04 server model (Refl/Server.v).  Not modelled: "
                "QueryFilters that retarget the Message, KICK/GETDATATREES traversals, sockets and the event loop.")
    premises = ["clause laws (ckeys_sound / ckeys_complete: a clause that reports lookup keys matches exactly those names): premises of the abstract "
                "theorems; for the StringMatcher model of C15 + the repaired key parsing of DoTraversalAux they are PROVED (clause_laws_hold, from "
                "C15's unique_sound / uvlist_sound laws; F8 patterns lie outside C15's Ere model), giving *_stringmatcher theorems without them",
                "node names are non-empty strings, one number per string (okname; the intern table of the driver: tbl (untbl s) = s)",
                "tree well-formedness (node paths distinct and non-empty, every node's parent present), distinct session ids, a well-formed "
                "default-route table: invariants of the server model (Refl/Server.v, C04/C06), stated as premises of deliver_once / "
                "traversal_eq_bruteforce; built tables satisfy matcher_wf (built_matchers_are_wf)",
                "a node is owned by the session named by its second path component (GetAncestorNode(NODE_DEPTH_SESSIONNAME))",
                "repairs assumed by the theorems: F12 (guard = exactly one pattern), F19 (one delivery per session per traversal), F20 (SETPARAMETERS "
                "copies PR_NAME_KEYS/FILTERS into _parameters), F52 (comma-list lookup keys unescaped once); the translator's c_c05_*_as_found "
                "flags must all be 0 and PassMessageCallbackAux must return NODE_DEPTH_SESSIONNAME (code_is_repaired)",
                "pattern clauses without empty clauses (node names MAY be empty); QueryFilters that do not retarget the Message",
                "memory safety and object lifetime of the C++ (observed by ASan/UBSan in the harness only)"]
    rule = ("multi-client histories from random.Random(seed) (streams: route = mixed commands; trav = traversal-heavy with pattern SETS of mixed "
            "depths sharing terminal clauses, literal / comma-list / wildcard clauses in every order; lit = the same with mostly literal clauses so "
            "that the hash-lookup path dominates; directed boundary scripts); after every op the tagged Messages each client received, traversal "
            "results, the true tree and every session's routing state are compared with the extracted model, and the harness's oracle (brute "
            "force with PathMatcher::MatchesPath) is evaluated.  Non-trivial = the case routes a keyed Message or runs a traversal after at "
            "least one session has stored a node.")

    def gen_cases(self, rng, tier):
        n = 420 if tier == "quick" else 5000
        out = [("directed", "d|" + c) for c in DIRECTED]
        for i in range(n):
            g = Gen(rng, p_wild=0.45)
            out.append(("route", "r|" + g.case(rng.choice([8, 12, 16, 22]), rng.choice([2, 2, 3, 4]))))
        for i in range(n):
            pw = 0.10 if i % 2 else 0.5
            g = Gen(rng, p_wild=pw)
            ops = [g.attach() for _ in range(rng.choice([2, 3]))]
            for k in list(g.alive):
                ops.append(g.set_cmd(k))
                if rng.random() < 0.6:
                    ops.append(g.set_cmd(k))
            for _ in range(rng.choice([6, 9, 12])):
                k = rng.choice(g.alive)
                ops.append(g.trav_cmd(k) if rng.random() < 0.7 else g.msg_cmd(k))
            out.append(("lit" if i % 2 else "trav", ("l|" if i % 2 else "t|") + ";".join(ops)))
        return out

    def nontrivial(self, case):
        body = case.split("|", 1)[1]
        have_node = False
        for o in body.split(";"):
            f = o.split(":")
            if f[0] == "s":
                have_node = True
            elif have_node and ((f[0] in ("m", "q") and len(f) > 3 and f[3]) or f[0] in ("t", "fn", "fs")):
                return True
        return False

    def signature(self, failure):
        sig = failure.get("signature") or "disagree"
        return re.sub(r"\s+(/\S*|c\d+|x\d+|got \d+|names \S+|sender \d+:|tag \d+)(\s.*)?$", "", sig)

    def distribution(self, sc):
        d = {}
        for s, c in sc:
            d["stream:" + s] = d.get("stream:" + s, 0) + 1
            for o in c.split("|", 1)[1].split(";"):
                f = o.split(":")
                d["op:" + f[0]] = d.get("op:" + f[0], 0) + 1
                keys = None
                if f[0] in ("m", "q", "sp") and len(f) > 3:
                    keys = f[3]
                elif f[0] == "t" and len(f) > 5:
                    keys = f[5]
                if keys:
                    ks = keys.split("&")
                    depths = {len(k.strip("/").split("/")) + (0 if k.startswith("/") else 2) for k in ks}
                    if len(ks) > 1:
                        d["multi-pattern"] = d.get("multi-pattern", 0) + 1
                    if len(depths) > 1:
                        d["mixed-depth"] = d.get("mixed-depth", 0) + 1
                    if all(not re.search(r"[*?\[\]()|~<>]", re.sub(r"\\.", "", k)) for k in ks):
                        d["all-literal(hash path)"] = d.get("all-literal(hash path)", 0) + 1
        return d
