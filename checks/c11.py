"""C11 -- Thread-to-owner Messages arrive exactly once, in order, and always wake the peer
(system/Thread.cpp/.h on top of Mutex.h / WaitCondition.h / a socket pair, run under the controlled scheduler)."""
import os, subprocess
import vlib


def interleave(rng, progs):
    """the case body lists thread-tagged operations; only the per-thread order matters, but a shuffled body lets the
    generic shrinker drop operations of different threads independently"""
    idx = [0] * len(progs)
    out = []
    live = [t for t in range(len(progs)) if progs[t]]
    while live:
        t = rng.choice(live)
        out.append("%d:%s" % (t, progs[t][idx[t]]))
        idx[t] += 1
        if idx[t] >= len(progs[t]):
            live.remove(t)
    return ";".join(out)


class Ids:
    """unique Message ids with a chosen reaction class (id % 8, see react() in the harness)"""
    def __init__(self):
        self.next = 0
    def get(self, rng, classes):
        k = rng.choice(classes)
        base = self.next
        self.next += 8
        return base + k


def owner_prog(rng, ids, style):
    """thread 0: life cycle + sends + receives.  style: 'tidy' ends with shutdown+join (terminates unless a blocking
    receive strands it), 'restart' runs two incarnations, 'wild' is arbitrary."""
    ops = []
    def sends(k, classes):
        for _ in range(k):
            r = rng.random()
            if r < 0.75:
                ops.append("si:%d" % ids.get(rng, classes))
            elif r < 0.9:
                ops.append("so:%d" % ids.get(rng, [0, 1]))
            else:
                ops.append(rng.choice(["rp", "rp", "rt", "gs"]))
    def recvs(k):
        for _ in range(k):
            ops.append(rng.choice(["rp", "rp", "rt", "rt", "rn"]))
    if style == "wild":
        for _ in range(rng.choice([2, 4, 6, 9])):
            ops.append(rng.choice(["st", "st", "sd0", "sd1", "jn", "gs", "rp", "rt", "rn", "sin", "son",
                                   "si:%d" % ids.get(rng, range(8)), "so:%d" % ids.get(rng, range(8))]))
        return ops
    rounds = 2 if style == "restart" else 1
    usr = rng.random() < 0.35          # this program also uses the owner's user-registered socket
    for rd in range(rounds):
        if usr and rng.random() < 0.7:
            ops.append(rng.choice(["ur", "ur", "up", "uu"]))
        if rng.random() < 0.5:
            sends(rng.choice([1, 2, 3]), [0, 1, 2, 3, 6, 7])          # queued before the thread is started
        if rng.random() < 0.25:
            ops.append("gs")
        ops.append("st")
        sends(rng.choice([0, 1, 2, 4]), [0, 1, 2, 2, 3, 3, 6, 7])
        if usr:
            ops += rng.choice([["ur"], ["up"], ["ur", "up"], ["up", "ur"], []])
        recvs(rng.choice([0, 1, 2, 3]))
        if usr:
            ops += rng.choice([["ue"], ["uu"], ["ue", "rn"], ["up", "rt", "ue"], []])
        if rng.random() < 0.15:
            ops.append("si:%d" % ids.get(rng, [4, 5]))                  # the internal thread leaves on its own
        end = rng.random()
        if end < 0.6:
            ops.append("sd1")
        elif end < 0.8:
            ops += ["sd0"] + ["rp"] * rng.choice([0, 1]) + ["jn"]
        elif end < 0.9:
            ops += ["sin", "jn"]
        else:
            ops += ["sd0", "sd0", "jn"]
        recvs(rng.choice([0, 0, 1, 2]))
    return ops


def free_prog(rng, ids):
    """an owner program for a free (scheduler-less) run: every blocking receive is matched by a reply that will come"""
    nrep = {0: 0, 1: 0, 2: 1, 3: 2, 6: 1, 7: 3}
    ops = []
    for rd in range(rng.choice([1, 1, 2])):
        expect = 0
        for _ in range(rng.choice([0, 0, 1, 2])):            # queued before the start
            i = ids.get(rng, [0, 2, 3, 7]); ops.append("si:%d" % i); expect += nrep[i % 8]
        if rng.random() < 0.3:
            ops.append("gs")
        ops.append("st")
        for _ in range(rng.choice([1, 2, 3, 5])):
            i = ids.get(rng, [0, 2, 2, 3, 6, 7]); ops.append("si:%d" % i); expect += nrep[i % 8]
            if rng.random() < 0.3 and expect > 0:
                ops.append("rn"); expect -= 1
        ops += ["rn"] * expect
        ops += rng.choice([["sd1"], ["sd1"], ["sd0", "jn"], ["sin", "jn"]])
    return ops


def sender_prog(rng, ids):
    ops = []
    for _ in range(rng.choice([1, 2, 3, 4])):
        r = rng.random()
        if r < 0.12:
            ops.append("up")                       # somebody makes the owner's user socket readable
        elif r < 0.7:
            ops.append("si:%d" % ids.get(rng, [0, 1, 2, 3, 6, 7]))
        else:
            ops.append("so:%d" % ids.get(rng, [0, 1]))
    return ops


# (signalling mechanism, InternalThreadEntry style): socket pair / wait-condition; default loop / event-driven
MODES = [("s", "d"), ("w", "d"), ("s", "e")]


def lifecycle_orders():
    """'queue before start', 'allocate the sockets before start', 'start', 'send after start', 'shutdown' in every order
    that keeps start before shutdown (the Messages queued before the socket pair exists are signalled by nobody but
    StartInternalThread's initial signal)"""
    import itertools
    out = []
    for perm in itertools.permutations(["si:8", "gs", "st", "si:16"]):
        out.append((1, ";".join("0:" + o for o in perm) + ";0:sd1"))
    for perm in itertools.permutations(["si:8", "si:16", "gs"]):
        out.append((1, ";".join("0:" + o for o in perm) + ";0:st;0:sd1"))
    out.append((1, "0:si:8;0:gs;0:st;0:sd0;0:jn"))
    out.append((1, "0:si:8;0:st;0:sd1;0:si:16;0:gs;0:st;0:sd1"))          # the same after a restart
    out.append((1, "0:si:10;0:gs;0:st;0:rn;0:sd1"))                        # the queued Message is answered
    out.append((2, "0:gs;1:si:8;0:st;1:si:16;0:sd1"))
    return out


DIRECTED = lifecycle_orders() + [
    # (threads, body)  -- each is run in both modes with several seeds and (partly) exhaustively
    (1, "0:st;0:si:8;0:sd1"),                                         # one Message, shutdown, join
    (1, "0:si:8;0:si:16;0:st;0:sd1"),                                 # queued before start (signal dropped in socket mode)
    (1, "0:gs;0:si:8;0:st;0:sd1"),                                    # sockets allocated early: the signal is not dropped
    (2, "0:st;1:si:8;1:si:16;0:sd1"),                                 # a second sender races with the shutdown
    (3, "0:st;1:si:8;2:si:16;1:si:24;2:si:32;0:sd1"),                 # two senders: who is first?
    (1, "0:st;0:si:10;0:rn;0:sd1"),                                   # a reply wakes the owner
    (1, "0:st;0:si:11;0:rn;0:rn;0:sd1"),                              # two replies, one signal
    (1, "0:st;0:si:15;0:rn;0:rn;0:rn;0:sd1"),                         # three replies
    (1, "0:so:8;0:st;0:rn;0:sd1"),                                    # a reply queued in advance: the thread signals at start-up
    (1, "0:st;0:si:12;0:rn;0:rn;0:jn"),                               # the thread quits by itself: end-of-file wakes the owner
    (1, "0:st;0:si:13;0:rn;0:jn;0:rp"),                               # quits without a reply: rn returns without a Message (socket mode)
    (1, "0:st;0:sd1;0:si:8;0:si:16;0:st;0:sd1"),                      # restart with Messages queued in between
    (1, "0:st;0:sd0;0:sd0;0:jn;0:st;0:jn"),                           # a second NULL survives into the next incarnation
    (2, "0:st;0:sd1;1:si:8;0:st;1:si:16;0:sd1"),                      # sends while the thread is being restarted
    (1, "0:st;0:si:14;0:rn;0:rn;0:sd1"),                              # a NULL reply
    (1, "0:st;0:rt;0:si:10;0:rt;0:sd1"),                              # timed receives
    (2, "0:st;0:rn;1:so:8;0:sd1"),                                    # another thread replies
    (1, "0:jn;0:sd1;0:st;0:st;0:sd1;0:jn"),                           # API misuse: join when not running, double start
    (1, "0:st;0:rn"),                                                 # never answered: legitimate stranding
    (1, "0:rn;0:rp"),                                                 # blocking receive without sockets
    # the owner's user-registered socket set and the B_IO_READY return path
    (2, "0:st;0:ur;0:rn;1:up;0:ue;0:sd1"),                            # the blocked owner is woken by its user socket: B_IO_READY
    (2, "0:ur;0:st;0:si:10;1:up;0:rn;0:rn;0:uu;0:sd1"),               # a reply and the user socket: the signal socket has precedence
    (1, "0:st;0:ur;0:up;0:rt;0:rp;0:uu;0:rn;0:sd1"),                  # timed wait; unregistered again: the next wait ignores it
    (1, "0:st;0:up;0:ur;0:rn;0:ue;0:up;0:rn;0:uu;0:uu;0:sd1"),        # ready before it is registered; double unregister
    (2, "0:st;0:ur;0:si:11;0:rn;1:up;0:rn;0:rn;0:ue;0:sd1"),          # two replies, one ping: which wait reports what
    (1, "0:ur;0:up;0:rn;0:st;0:rn;0:sd1"),                            # registered before the sockets exist
]

# event-driven internal thread + another thread sending to it while the owner is inside StartInternalThread: with the
# order StartInternalThread had when it was found (HasItems() read before the socket pair existed) about one fine schedule
# in six of these loses the wake-up (F47, repaired by 67f6b10; c11_evd_lost_wakeup_refuted is the model-level witness)
RACY_START = [
    (2, "0:st;1:si:8;0:sd1"),
    (2, "0:st;0:sd1;0:st;1:si:8;0:sd1"),
    (3, "0:st;1:si:8;2:si:16;0:sd1"),
]


# real-clock scenarios (f=3): receiver script | sender script.  Receiver: p poll, t receive with deadline now+5 s,
# u .. now+1 s, n untimed, z<ms> sleep; sender: s send the next Message, z<ms> sleep.  They exercise the REAL timed
# primitives (WaitCondition::WaitUntilAux, select() with a timeout), which the controlled scheduler replaces.
TIMED_SCRIPTS = [
    ("z300,p,t", "s,z600,s"),                 # a stale notification (Message 1 polled) then a timed wait: Message 2 must wake it
    ("t", "z300,s"),                          # plain timed wait
    ("z300,p,p,t", "s,s,z600,s"),             # two stale notifications
    ("z300,p,t,t", "s,z600,s,z600,s"),        # the wake-up flushes the count: the next timed wait starts clean
    ("z300,p,n", "s,z600,s"),                 # the same with an untimed wait
    ("u,t", "z1500,s"),                       # a real timeout first, then a wake-up
    ("u", ""),                                # nothing ever comes: B_TIMED_OUT at the deadline, not before
    ("z300,t,t", "s,z700,s"),                 # the stale notification comes from a timed receive that found its Message at once
    ("t,p,t", "z200,s,s,z600,s"),             # woken, one more polled, then waits again with a stale count
    ("z300,n,t,u", "s,z600,s"),               # untimed receive first; ends with a timeout
]


def timed_cases():
    out = []
    for mode in "ws":
        for d in "IO":
            for (rs, ss) in TIMED_SCRIPTS:
                body = ";".join(["r:" + o for o in rs.split(",") if o] + ["s:" + o for o in ss.split(",") if o])
                out.append("m=%s,f=3,dir=%s|%s" % (mode, d, body))
    return out


EXPLORE_QUICK = [
    (2, "0:st;1:si:8;1:si:16;0:sd1", 2),
    (1, "0:st;0:si:10;0:rn;0:sd1", 2),
    (1, "0:si:8;0:st;0:sd1", 3),
    (3, "0:st;1:si:8;2:si:16;0:sd1", 1),
]


class CHECK(vlib.Check):
    prop = "C11"
    prop_file = "Properties_C11.v"
    model = ("Conc/ThreadQExtract.v", "threadq_driver.ml", "threadq", ("ocommon.ml",))
    harness = dict(name="threadq", src="threadq_h.cpp", san="asan", link_lib=True,
                   extra_srcs=[os.path.join(vlib.VERIF, "harness", "sched", "sched.cpp")])
    modelled = ("system/Thread.cpp/.h as an interleaving LTS with one transition per atomic step (a _queueLock critical section, one "
                "signal, one absorb, one return): both ThreadSpecificData records (FIFO _messages, readable signal bytes of the socket "
                "pair, pending notifications of the WaitCondition), _useMessagingSockets (both mechanisms), _messageSocketsAllocated "
                "(demand allocation, CloseSockets, signals dropped while unallocated), the closing of the internal socket at thread "
                "exit (end-of-file wakes the owner; bytes written to it are lost), SendMessageAux (enqueue, sendNotification = "
                "(GetNumItems()==1), signal after unlock), SignalAux, WaitForNextMessageAux (absorb up to sizeof(bytes) signal bytes, "
                "dequeue, poll/never/timed, select-does-not-consume vs Wait-flushes, recursion with wakeupTime 0 in socket mode), "
                "StartInternalThread (allocation, thread creation, then HasItems() under the lock and the initial signal -- as repaired by 67f6b10; the as-found order is kept behind a flag for c11_evd_lost_wakeup_refuted), ShutdownInternalThread (NULL Message, optional join), "
                "WaitForInternalThreadToExit, GetOwnerWakeupSocket, InternalThreadEntryAux/InternalThreadEntry (signal at start-up for "
                "replies queued in advance, B_TIMED_OUT is recoverable, NULL or an error from MessageReceivedFromOwner ends the thread), "
                "one user-registered socket in the owner's SOCKET_SET_READ (register/unregister, ready-for-read wakes the blocked owner, isFlagged refresh, B_IO_READY with the signal socket taking precedence), "
                "a subclass MessageReceivedFromOwner that sends an arbitrary list of Messages -- replies, or further work for the internal thread itself -- and may ask to exit, and the event-driven "
                "way to write InternalThreadEntry (select() on GetInternalThreadWakeupSocket() first, then poll "
                "WaitForNextMessageFromOwner(ref, 0) until B_TIMED_OUT: the MessageTransceiverThread / AsyncDataIO pattern).  Not modelled: the "
                "WRITE/EXCEPTION socket sets and the internal thread's own socket sets, ICallbackMechanism dispatch, thread priorities, allocation "
                "failure, the Qt/pthread/Win32 back ends.")
    premises = ["std::recursive_mutex / std::condition_variable / std::thread semantics: under the controlled scheduler blocking is simulated by the scheduler (mutex owners, WaitCondition counting semantics, join); the native primitives are premises (DESIGN.md 5.3)",
                "AF_UNIX socket pair semantics (a byte sent is readable at once on the other end, recv absorbs up to the buffer size, a closed end makes the other end readable): the real sockets are used and queried by the harness, select() is replaced by the scheduler",
                "one transition = one _queueLock critical section / one signal / one return: interleavings inside a critical section are not distinguished; unlocked reads of _messageSocketsAllocated, the socket references and _messages.HasItems() are taken to be atomic (the C++ data races on them are outside the model)",
                "only the owner thread (thread 0) receives replies and calls Start/Shutdown/WaitForInternalThreadToExit, as Thread.h documents; one reader per queue",
                "allocation never fails",
                "liveness: safety form (an enabled transition exists), can-reach form (a finite continuation to completion exists) and, for shutdown, eventual completion / eventual receipt of every queued Message on every weakly fair execution (c11_shutdown_eventually_completes, c11_queued_message_eventually_received); the last two forms for reactions that send replies only; that the OS scheduler is weakly fair is a premise"]
    rule = ("each case = an owner program (start / sends / receives poll, blocking, timed / shutdown / join / restart) plus 0..3 sender "
            "threads + the signalling mechanism + a schedule (explicit decisions, then a seeded random or non-preemptive policy); the "
            "real muscle::Thread is run under the controlled scheduler and, per decision, the enabled set, signals, the full state "
            "after every critical section and API return (queues, readable signal bytes, notification counts, allocation/running "
            "flags), parking/wake-up/timeout, thread creation/exit/join and API results are compared with the extracted LTS, which "
            "re-derives the same decisions from its own enabledness; the harness's ideal-FIFO / lost-wake-up oracle runs as well.  "
            "'fine' cases (f=1) additionally make every Mutex lock inside muscle a decision point (interleavings inside "
            "StartInternalThread, socket-pair creation, object pools) and are judged by the oracle alone; 'free' cases (f=2) run "
            "without the scheduler against the real select()/condition variable (oracle + watchdog only); a separate real-clock "
            "stage runs 40 'timed' scenarios (f=3) concurrently through the REAL timed primitives (WaitUntilAux, select with a "
            "timeout): stale notification + timed wait etc., both mechanisms and directions; a violation = Message lost/duplicated/"
            "reordered, or a 5 s timed receive back only at its deadline although its Message was queued >= 1.5 s earlier, seen twice.  "
            "Non-trivial = the internal thread is started and at least one Message is sent to it.")
    quick_timeout = 900

    def build(self):
        impl, model = super().build()
        self._impl = impl
        return impl, model

    def explore(self, mk, n, body, bound, max_runs):
        line = "m=%s,k=%s,n=%d,seed=-,sch=|%s\n" % (mk[0], mk[1], n, body)
        env = dict(os.environ); env.update(vlib.SAN_ENV)
        p = subprocess.run([self._impl, "--explore", str(bound), str(max_runs)], input=line, stdout=subprocess.PIPE,
                           stderr=subprocess.PIPE, text=True, env=env, timeout=1800)
        return [l for l in p.stdout.splitlines() if "|" in l]

    def gen_cases(self, rng, tier):
        out = []
        n_rand = 400 if tier == "quick" else 3000
        for i in range(n_rand):
            ids = Ids()
            nsend = rng.choice([0, 0, 1, 1, 2, 3])
            style = rng.choice(["tidy", "tidy", "tidy", "restart", "wild"])
            progs = [owner_prog(rng, ids, style)] + [sender_prog(rng, ids) for _ in range(nsend)]
            seed = "-" if i % 10 == 0 else str(rng.randint(1, 10 ** 9))
            mk = rng.choice(MODES)
            out.append((style, "m=%s,k=%s,n=%d,seed=%s,sch=|%s" % (mk[0], mk[1], 1 + nsend, seed, interleave(rng, progs))))
        reps = 2 if tier == "quick" else 10
        for (n, body) in DIRECTED:
            for mk in MODES:
                out.append(("directed", "m=%s,k=%s,n=%d,seed=-,sch=|%s" % (mk[0], mk[1], n, body)))
                for _ in range(reps):
                    out.append(("directed", "m=%s,k=%s,n=%d,seed=%d,sch=|%s" % (mk[0], mk[1], n, rng.randint(1, 10 ** 9), body)))
        # "fine" runs (f=1): every Mutex lock inside muscle is a decision point, so threads also interleave inside
        # StartInternalThread, CreateConnectedSocketPair, the object pools ...; the LTS has no such steps, the harness's oracle
        # alone judges them (search for a failing input).  This is the stream that found F47 (the too-early HasItems() read
        # of StartInternalThread, see RACY_START below).
        n_fine = 120 if tier == "quick" else 1200
        for i in range(n_fine):
            mk = rng.choice(MODES)
            if i % 2 == 0:
                n, body = rng.choice(DIRECTED)
            else:
                ids = Ids()
                nsend = rng.choice([1, 1, 2])
                progs = [owner_prog(rng, ids, rng.choice(["tidy", "restart"]))] + [sender_prog(rng, ids) for _ in range(nsend)]
                n, body = 1 + nsend, interleave(rng, progs)
            out.append(("fine", "m=%s,k=%s,f=1,n=%d,seed=%d,sch=|%s" % (mk[0], mk[1], n, rng.randint(1, 10 ** 9), body)))
        # "free" runs (f=2): no scheduler, the real select() / condition variable (supporting evidence for the runtime residue)
        for i in range(40 if tier == "quick" else 400):
            mk = rng.choice(MODES)
            out.append(("free", "m=%s,k=%s,f=2,n=1,seed=-,sch=|%s" % (mk[0], mk[1], ";".join("0:" + o for o in free_prog(rng, Ids())))))
        for (n, body) in RACY_START:
            for _ in range(25 if tier == "quick" else 250):
                out.append(("fine-racy-start", "m=s,k=e,f=1,n=%d,seed=%d,sch=|%s" % (n, rng.randint(1, 10 ** 9), body)))
        # exhaustive schedules up to a preemption bound (support for the tie, not the theorem)
        if getattr(self, "_impl", None):
            if tier == "quick":
                todo = [(n, b, k, 50) for (n, b, k) in EXPLORE_QUICK]
            else:
                todo = [(n, b, 2, 1500) for (n, b) in DIRECTED[:10]] + [(n, b, 3, 1500) for (n, b, _) in EXPLORE_QUICK[:2]]
            if not getattr(self, "_explored", None) or self._explored[0] != tier:
                cache = []
                for (n, body, bound, cap) in todo:
                    for mk in MODES:
                        cache += self.explore(mk, n, body, bound, cap)
                self._explored = (tier, cache)
            if not getattr(self, "_explore_emitted", False):
                out += [("exhaustive", l) for l in self._explored[1]]
                self._explore_emitted = True
        return out

    def extra_stage(self, ctx):
        """real-clock stage: all the f=3 scenarios run concurrently in one harness process (wall time = the longest one,
        ~6 s); the harness re-runs a failing scenario on its own and reports it only if it fails twice"""
        import re, time
        impl = ctx.get("impl")
        if not impl or ctx.get("streams") == ["replay"]:
            return
        lines = timed_cases()
        env = dict(os.environ); env.update(vlib.SAN_ENV)
        t0 = time.time()
        try:
            p = subprocess.run([impl, "--timed-batch"], input="".join(l + "\n" for l in lines), stdout=subprocess.PIPE,
                               stderr=subprocess.PIPE, text=True, env=env, timeout=300)
            out, rc, err = p.stdout, p.returncode, p.stderr
        except subprocess.TimeoutExpired as ex:
            out, rc, err = (ex.stdout or ""), 124, "timeout"
            if isinstance(out, bytes):
                out = out.decode("utf8", "replace")
        seen, nfail = set(), 0
        for l in out.splitlines():
            sp = l.split(" ", 1)
            if not sp[0].isdigit() or len(sp) < 2:
                continue
            k = int(sp[0])
            if sp[1] == "TIMED":
                seen.add(k)
            elif sp[1].startswith("ORACLE FAIL") and k < len(lines):
                nfail += 1
                ctx["failures"].append({"kind": "oracle", "signature": re.sub(r"\d+(\.\d+)?", "N", sp[1]), "case": lines[k],
                                        "detail": {"oracle": sp[1], "side": "impl", "stage": "timed (real clock)"}})
        if rc != 0 or len(seen) != len(lines):
            ctx["failures"].append({"kind": "crash", "signature": "crash: timed stage rc=%s, %d of %d scenarios reported" % (rc, len(seen), len(lines)),
                                    "case": lines[0], "detail": {"stderr": (err or "")[-2000:]}})
        ctx["extra_coverage"] = {"timed_real_clock_scenarios": len(lines), "timed_stage_wall_s": round(time.time() - t0, 1),
                                 "timed_stage_oracle_failures": nfail}

    def nontrivial(self, case):
        body = case.split("|", 1)[1]
        return ":st" in body and ":si:" in body

    def signature(self, f):
        return f.get("signature") or "disagree"

    def distribution(self, sc):
        d = {}
        for s, c in sc:
            d["stream:" + s] = d.get("stream:" + s, 0) + 1
            head, body = c.split("|", 1)
            for h in head.split(","):
                if h.startswith("m=") or h.startswith("n=") or h.startswith("k=") or h.startswith("f="):
                    d[h] = d.get(h, 0) + 1
                if h.startswith("seed="):
                    k = "policy:" + ("nonpreemptive" if h == "seed=-" else "random")
                    d[k] = d.get(k, 0) + 1
                if h.startswith("sch=") and len(h) > 4:
                    d["explicit-schedule"] = d.get("explicit-schedule", 0) + 1
            for o in body.split(";"):
                if o:
                    k = "op:" + o.split(":")[1]
                    d[k] = d.get(k, 0) + 1
        return d
