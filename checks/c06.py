"""C06 -- a session can alter only its own subtree, and leaves no trace when it departs
(reflector/StorageReflectSession.cpp, DataNode.cpp, ReflectServer.cpp, util/ImmutableHashtablePool.h).

Case grammar: see harness/iso_h.cpp.  One case = one scripted multi-client history with hostile commands, departures and
(as last op) a connection cut at byte level.  After every op the server is pumped to quiescence and messages, tree
(+ subscriber tables), subscriptions, limits and privilege bits are compared with the extracted Coq model; the harness
evaluates the property's own statement on the implementation (frame / detach-trace / as-if-never oracles), the OCaml driver
evaluates it on the model's states.
"""
import vlib

NAMES = ["x", "xy", "xz", "y", "ab", "..", ".", "H", "xyz", "G"]
CLAUSES = ["*", "*", "x*", "xy", "?y", "x?", "xy,xz", "*y", "..", "x", "y", "ab", "x*z", "xy,y", "H", "*"]
FILTERS = ["", "", "", "", "g2", "l5", "x"]
HOSTS = ["H", "H", "H", "H", "G", "G", "K", "B", "A"]
PRIV = {"K": 1, "B": 6, "A": 0xFFFFFFFF}
CODES = ["kick", "kick", "kick", "addbans", "rembans", "addreq", "remreq", "ping", "noop", "getparams", "gettrees",
         "settrees", "jetres", "jettrees", "unk", "begin", "end"]


def uniq(xs):
    seen, out = set(), []
    for x in xs:
        k = x.split("@")[0]
        if k not in seen:
            seen.add(k)
            out.append(x)
    return out


def grouped_items(items):
    order, by = [], {}
    for it in items:
        k = it.split("=")[0]
        if k not in by:
            by[k] = []
            order.append(k)
        by[k].append(it)
    return [it for k in order for it in by[k]]


# ordered children, as far as the model goes (label q)
ORDERED_DIRECTED = [
    # inserts before an entry / at the end / not into the index, a reorder, hostile copies of the same from the neighbour, removal, departure
    "a:H;a:H;p:1:0:/*/*/*&/*/*/*/*;s:0:0:x=1;io:0:x:-=1&-=2&I0=3;ro:0:x/I1=I0;io:0:/H/1:-=7;io:0:/*/*:-=7;ro:0:/H/1/*=I0;s:1:0:y=1;io:1:y:-=1;ro:0:../1/y/*=&/*/*/y/I0=;r:0:0:x/I0;io:0:x:!Rmv=4&I1=5;ro:0:x/*=!Rmv;d:0",
    # the name counter skips taken names, starts again on a re-created node, and goes with a departed session
    "a:H;a:G;s:0:0:x=1&x/I0=5&x/I2=6;io:0:x:-=1&-=2&-=3;r:0:0:x;s:0:0:x=2;io:0:x:-=1;d:0;a:H;s:2:0:x=1;io:2:x:-=9",
    # wildcard keys, several parents, fields in order of first appearance, batches, reorder of a child that is not in the index
    "a:H;a:H;s:0:0:x=1&y=2&x/z=3;io:0:*:a=1&b=2&a=3;ro:0:*/I1=I0&x/z=I0&*/*=;b:0:io~x~I0=7+ro~x/I0=+s~0~x/q=1+io~*/*~-=1;b:1:io~/H/0/x~-=1+ro~/H/0/x/*=I0+r~0~/H/0/x/I0;d:1;io:0:x/z:-=1;ro:0:x/z/I0=x",
    # SETDATA with PR_NAME_FLAGS: QUIET (4) suppresses the notice of this write only -- the new node still gets the marks of the sessions
    # subscribed to it, so its later updates, its removal and the owner's departure are told; ADDTOINDEX (8) appends a NEW leaf to its
    # parent's index and leaves an existing node alone; both (12); with DONTCREATE (1) / DONTOVERWRITE (2)
    "a:H;a:H;p:1:0:/*/*/*&/*/*/*/*;s:0:0:x=1;s:0:12:x/a=1;s:0:0:x/a=2;s:0:8:x/b=3;s:0:4:x/c=4;s:0:0:x/c=5;g:1:/*/*/*/*;r:0:0:x/a;d:0",
    "a:H;a:G;p:1:0:/*/*/*;s:0:12:q=1&q/r=2;p:1:0:/*/*/*/*;s:0:0:q=3&q/r=4;s:0:8:q=9&z=1;s:0:9:y=1;s:0:10:q=7&w=2;s:0:14:q=8&v=3;io:0:*:-=1;s:0:12:q/I0=5&q/I1=6;ro:0:q/*=r;d:0",
    "a:H;a:H;a:H;p:1:0:/*/*/x*;p:2:0:x&/H/0/xy;s:0:12:xy=1;s:0:12:xy=2;s:0:4:xy=3;s:0:0:xy=4;b:0:s~12~xz=1+s~0~xz=2+r~0~xz+s~12~xz=3;d:0;s:2:12:x=1;d:2",
    # the session node itself cannot be a parent (the traversal starts below it); depth limits do not matter here
    "a:H;a:H;io:0::-=1;io:0:/:-=1;io:0:*:-=1;s:0:0:x=1;io:0:*:-=1;ro:0:x=I0;ro:0:*=;d:0",
]


class Gen:
    def __init__(self, rng, hostile=0.35, priv_hosts=True, quiet=False, filters=True, ordered=False, single_key=False):
        self.single_key = single_key
        self.rng = rng
        self.ordered = ordered
        self.hostile = hostile
        self.priv_hosts = priv_hosts
        self.quiet = quiet
        self.filters = filters
        self.n = 0
        self.alive = []
        self.hosts = {}
        self.subs = {}
        self.paths = {}

    # ---- vocabulary
    def relpath(self):
        rng = self.rng
        return "/".join(rng.choice(NAMES) for _ in range(rng.choice([1, 1, 1, 2, 2, 3])))

    def relpat(self):
        rng = self.rng
        return "/".join(rng.choice(CLAUSES) for _ in range(rng.choice([1, 1, 1, 2, 2, 3])))

    def other(self, k):
        xs = [x for x in range(self.n) if x != k]
        return self.rng.choice(xs) if xs else k

    def abs_target(self, k):
        """an absolute path / pattern aimed at somebody else's subtree"""
        rng = self.rng
        o = self.other(k)
        host = rng.choice([self.hosts.get(o, "H"), "*", self.hosts.get(o, "H")])
        sess = rng.choice([str(o), "*", str(o), "%d,%d" % (o, k)])
        r = rng.random()
        if r < 0.15:
            return "/%s" % host
        if r < 0.35:
            return "/%s/%s" % (host, sess)
        tail = rng.choice(self.paths.get(o) or ["x"]) if rng.random() < 0.6 else self.relpat()
        return "/%s/%s/%s" % (host, sess, tail)

    def with_filter(self, p, prob=0.2):
        if not self.filters:
            return p
        f = self.rng.choice(FILTERS) if self.rng.random() < prob else ""
        return p + ("@" + f if f else "")

    def subpat(self, k):
        rng = self.rng
        r = rng.random()
        if r < 0.55:
            return self.relpat()
        if r < 0.65:
            return rng.choice(["/*", "/*/*", "/H/*", "/*/%d" % self.other(k), "/G/*"])
        return "/%s/%s/%s" % (rng.choice(["*", "H", "*", "G"]), rng.choice(["*", "*", str(self.other(k))]), self.relpat())

    # ---- ops
    def attach(self):
        k = self.n
        self.n += 1
        h = self.rng.choice(HOSTS if self.priv_hosts else ["H", "H", "G"])
        self.alive.append(k)
        self.hosts[k] = h
        self.subs[k] = []
        self.paths[k] = []
        return "a:" + h

    def sub_cmd(self, k, sep=":"):
        rng = self.rng
        have = self.subs[k]
        if have and rng.random() < 0.25:
            ps = uniq([self.with_filter(rng.choice(have), 0.5) for _ in range(rng.choice([1, 1, 2]))])
        else:
            ps = uniq([self.with_filter(self.subpat(k)) for _ in range(rng.choice([1, 1, 2, 2, 3]))])
        for p in ps:
            b = p.split("@")[0]
            if b not in have:
                have.append(b)
        q = 1 if (self.quiet and rng.random() < 0.1) else 0
        return ("p:%d:%d:%s" % (k, q, "&".join(ps))) if sep == ":" else ("p~%d~%s" % (q, "&".join(ps)))

    def unsub_cmd(self, k, sep=":"):
        rng = self.rng
        have = self.subs[k]
        def fixed(x):      # the key the server stores a subscription under (AdjustStringPrefix with the default prefix)
            return x[1:] if x.startswith("/") else "*/*/" + x
        ps = []
        for _ in range(rng.choice([1, 1, 2])):
            c = rng.choice(have) if (have and rng.random() < 0.85) else self.subpat(k)
            # premise shared with C04: one spelling per subscription path -- REMOVEPARAMETERS finds a subscription by the
            # parameter NAME it was made under, the model by its path, so another spelling of a held path is not generated
            if c not in have and fixed(c) in {fixed(h) for h in have}:
                continue
            ps.append(c)
        ps = uniq(ps) or [rng.choice(have) if have else "zz"]
        for p in ps:
            if p in have:
                have.remove(p)
        return ("u:%d:%s" % (k, "&".join(ps))) if sep == ":" else ("u~%s" % "&".join(ps))

    def set_cmd(self, k, sep=":", hostile=False):
        rng = self.rng
        known = self.paths[k]
        items = []
        for _ in range(rng.choice([1, 1, 1, 2, 3])):
            if hostile and rng.random() < 0.6:
                p = rng.choice([self.abs_target(k).replace("*", "x").replace(",", ""), "../%d/x" % self.other(k),
                                "../../%s/%d/xy" % (self.hosts.get(self.other(k), "H"), self.other(k)), "..", "../.."])
            else:
                p = rng.choice(known) if (known and rng.random() < 0.5) else self.relpath()
                if p not in known:
                    known.append(p)
            items.append("%s=%d" % (p, rng.randrange(0, 10)))
        items = grouped_items(items)
        fl = rng.choice([0, 0, 0, 0, 0, 1, 2, 3]) | (4 if (self.quiet and rng.random() < 0.1) else 0)
        if self.ordered:
            # PR_NAME_FLAGS: SETDATANODE_FLAG_QUIET (4), SETDATANODE_FLAG_ADDTOINDEX (8), both (12)
            fl |= (4 if rng.random() < 0.25 else 0) | (8 if rng.random() < 0.35 else 0)
        return ("s:%d:%d:%s" % (k, fl, "&".join(items))) if sep == ":" else ("s~%d~%s" % (fl, "&".join(items)))

    def rem_cmd(self, k, sep=":", hostile=False):
        rng = self.rng
        known = self.paths[k]
        ps = []
        for _ in range(rng.choice([1, 1, 2])):
            if hostile and rng.random() < 0.7:
                ps.append(rng.choice([self.abs_target(k), "../*", "../%d" % self.other(k), "*/..", "/*/*/*", "/*", "/*/*", "..", "../../*/*/*"]))
            else:
                ps.append(self.with_filter(rng.choice(known) if (known and rng.random() < 0.5) else self.relpat(), 0.1))
        ps = uniq(ps)
        q = 1 if (self.quiet and rng.random() < 0.1) else 0
        return ("r:%d:%d:%s" % (k, q, "&".join(ps))) if sep == ":" else ("r~%d~%s" % (q, "&".join(ps)))

    def code_cmd(self, k, sep=":"):
        rng = self.rng
        code = rng.choice(CODES)
        while sep == "~" and code in ("jetres", "jettrees"):
            # JETTISON* edits the sender's own outgoing queue; the model treats it as a no-op, which is exact only when the queue is
            # empty, i.e. as a command of its own after the previous one has been pumped out -- not inside a batch or a cut stream
            code = rng.choice(CODES)
        pats = uniq([rng.choice([self.abs_target(k), "/*/*", "/*/*", "*", "/*/%d" % self.other(k), self.subpat(k)]) for _ in range(rng.choice([0, 1, 1, 2]))])
        return ("k:%d:%s:%s" % (k, code, "&".join(pats))) if sep == ":" else ("k~%s~%s" % (code, "&".join(pats)))

    def msg_cmd(self, k, sep=":"):
        rng = self.rng
        what = rng.choice(["1234", "0", "558916399", "558916434", "4294967295", "kick", "1651666277"])
        pats = uniq([rng.choice(["/*/*", "/*/*", "*", "/*/%d" % self.other(k), "/*/*/x*", self.subpat(k)]) for _ in range(rng.choice([0, 0, 1, 1, 2]))])
        sess = rng.choice(["-", str(self.other(k)), str(k), "evil", "99", str(self.other(k))])
        return ("c:%d:%s:%s:%s" % (k, what, "&".join(pats), sess)) if sep == ":" else ("c~%s~%s~%s" % (what, "&".join(pats), sess))

    def priv_cmd(self, k, sep=":"):
        rng = self.rng
        if rng.random() < 0.75:
            n = rng.choice([1, 7, 2, 4294967295, 2147483647, 6])
            return ("pv:%d:%d" % (k, n)) if sep == ":" else ("pv~%d" % n)
        return ("upv:%d" % k) if sep == ":" else "upv"

    def ordered_cmd(self, k, sep=":"):
        """INSERTORDEREDDATA / REORDERDATA (harness-only stream): own parents, and hostile parents / children elsewhere"""
        rng = self.rng
        known = self.paths[k]
        if rng.random() < 0.6:
            pats = uniq([rng.choice([rng.choice(known) if known else "x", self.relpat(), self.abs_target(k), "/*/*", "../*", "*"])
                         for _ in range(1 if self.single_key else rng.choice([1, 1, 2]))])
            items = ["%s=%d" % (rng.choice(["-", "I0", "I1", "I2", "x", "I0", "!Rmv"]), rng.randrange(10)) for _ in range(rng.choice([1, 2, 3]))]
            return ("io:%d:%s:%s" % (k, "&".join(pats), "&".join(items))) if sep == ":" else ("io~%s~%s" % ("&".join(pats), "&".join(items)))
        items = ["%s=%s" % (rng.choice([(rng.choice(known) if known else "x") + "/*", self.relpat(), self.abs_target(k), "*/I0", "*/*"]),
                            rng.choice(["I0", "I1", "", "x", "I2", "!Rmv"])) for _ in range(rng.choice([1, 1, 2]))]
        items = uniq(items)
        return ("ro:%d:%s" % (k, "&".join(items))) if sep == ":" else ("ro~%s" % "&".join(items))

    def simple_cmd(self, k, sep=":"):
        rng = self.rng
        r = rng.random()
        if self.ordered and r < (0.4 if self.single_key else 0.25):
            return self.ordered_cmd(k, sep)
        if r < self.hostile:
            h = rng.random()
            if h < 0.25:
                return self.set_cmd(k, sep, hostile=True)
            if h < 0.50:
                return self.rem_cmd(k, sep, hostile=True)
            if h < 0.72:
                return self.code_cmd(k, sep)
            if h < 0.86:
                return self.msg_cmd(k, sep)
            return self.priv_cmd(k, sep)
        r = rng.random()
        if r < 0.38:
            return self.set_cmd(k, sep)
        if r < 0.50:
            return self.rem_cmd(k, sep)
        if r < 0.74:
            return self.sub_cmd(k, sep)
        if r < 0.86:
            return self.unsub_cmd(k, sep)
        if r < 0.90:
            return ("m:%d:%d" % (k, rng.choice([0, 1, 2, 3, 50, -1]))) if sep == ":" else ("m~%d" % rng.choice([0, 1, 2, 50]))
        if r < 0.92:
            return ("um:%d" % k) if sep == ":" else "um"
        if r < 0.95:
            ps = uniq([self.with_filter(self.subpat(k)) for _ in range(rng.choice([1, 2]))])
            return ("g:%d:%s" % (k, "&".join(ps))) if sep == ":" else ("g~%s" % "&".join(ps))
        return self.set_cmd(k, sep)

    def op(self):
        rng = self.rng
        r = rng.random()
        if not self.alive or (r < 0.07 and self.n < 6):
            return self.attach()
        if r < 0.13 and len(self.alive) > 1:
            k = rng.choice(self.alive)
            self.alive.remove(k)
            return "d:%d" % k
        k = rng.choice(self.alive)
        if r < 0.22:
            subs = [self.simple_cmd(k, "~") for _ in range(rng.choice([1, 2, 2, 3]))]
            return "b:%d:%s" % (k, "+".join(subs))
        return self.simple_cmd(k)

    def cut(self, mode):
        """the last op: an unprivileged session's stream is cut"""
        rng = self.rng
        cands = [k for k in self.alive if self.hosts[k] not in PRIV] or self.alive
        k = rng.choice(cands)
        n = rng.choice([1, 2, 2, 3, 4]) if mode == "some" else rng.choice([1, 2, 2])
        subs = []
        for _ in range(n):
            c = self.simple_cmd(k, "~")
            subs.append(c)
        return "x:%d:%s:%s" % (k, mode, "+".join(subs))

    def case(self, nops, nstart, cut=None):
        ops = [self.attach() for _ in range(nstart)]
        ops += [self.op() for _ in range(nops)]
        if cut and self.alive:
            ops.append(self.cut(cut))
        return ";".join(ops)


def overlap_case(rng, end):
    """the four-step shape of the seeded hint: overlapping subscriptions made BEFORE the node exists, the node is created,
    one subscription is removed, the creator's connection ends (d, or a cut inside / between Messages)"""
    pairs = [("x*", "xy", "xy"), ("?y", "xy", "xy"), ("x*", "x?", "xy"), ("xy,xz", "x*", "xz"), ("*", "xy", "xy"), ("x*", "xy,y", "xy"),
             ("*/*", "x/y", "x/y"), ("x*/y", "xy/*", "xy/y")]
    a, b, node = rng.choice(pairs)
    third = rng.choice(["", "", "&*y", "&x*z"])
    drop = rng.choice([a, b])
    pre = rng.choice(["", "s:0:0:%s=1;" % node, ""])
    if rng.random() < 0.6:
        ops = "a:H;a:%s;p:1:0:%s&%s%s;%ss:0:0:%s=%d&q=1;u:1:%s" % (rng.choice(["H", "G"]), a, b, third, pre, node, rng.randrange(10), drop)
    else:
        ops = "a:H;a:H;a:G;p:1:0:%s&%s%s;p:2:0:%s&%s;%ss:0:0:%s=%d&q=1;u:1:%s;u:2:%s" % (a, b, third, a, b, pre, node, rng.randrange(10), drop, rng.choice([a, b]))
    if end == "d":
        return ops + ";d:0"
    return ops + ";x:0:%s:s~0~%s=9+r~0~q" % (end, node)


def filtered_detach_case(rng, end):
    """a subscriber with FILTERED subscriptions leaves while some node that matches a subscription's path is rejected by its filter
    (marks are placed by path alone, so they must go by path alone; the second seeded Cleanup regression walked with the filters on)"""
    flt = rng.choice(["g5", "l3", "e4", "g2", "l7"])
    def rejects(v):
        n = int(flt[1:])
        return not {"g": v > n, "l": v < n, "e": v == n}[flt[0]]
    vals_bad = [v for v in range(10) if rejects(v)]
    vals_ok = [v for v in range(10) if not rejects(v)] or [0]
    pat = rng.choice(["x*", "xy", "*", "?y", "xy,xz", "*/y", "x*/*"])
    other = rng.choice(["", "&*y", "&xz@x", "&/*/*/x*"])
    nodes = ["xy", "xz", "xy/y", "x/y", "y"]
    sets = "&".join("%s=%d" % (p, rng.choice(vals_bad if rng.random() < 0.6 else vals_ok)) for p in rng.sample(nodes, rng.choice([2, 3, 4])))
    order = rng.random()
    if order < 0.4:      # subscribe first, nodes later
        body = "p:1:0:%s@%s%s;s:0:0:%s" % (pat, flt, other, sets)
    elif order < 0.8:    # nodes first, then the subscription
        body = "s:0:0:%s;p:1:0:%s@%s%s" % (sets, pat, flt, other)
    else:                # matching when subscribed, rejected later
        body = "s:0:0:xy=%d&xz=%d;p:1:0:%s@%s%s;s:0:0:xy=%d" % (rng.choice(vals_ok), rng.choice(vals_ok), pat, flt, other, rng.choice(vals_bad))
    third = rng.choice(["", "a:G;p:2:0:x*@%s&xy;" % flt])
    tail = ";s:0:0:xy=%d;a:H;s:0:0:q=1;d:0" % rng.choice(range(10)) if rng.random() < 0.5 else ""
    if end == "d":
        return "a:H;a:%s;%s%s;d:1%s" % (rng.choice(["H", "G"]), third, body, tail)
    return "a:H;a:%s;%s%s;x:1:%s:u~q+s~0~z=1" % (rng.choice(["H", "G"]), third, body, end)


DIRECTED = [
    # a filtered subscriber leaves while the filter rejects a matching node (second seeded Cleanup regression)
    "a:H;a:H;s:0:0:xy=3&xz=7;p:1:0:x*@g5;d:1;s:0:0:xy=9;a:H;d:0",
    "a:H;a:G;p:1:0:x*@g5&xy@l2;s:0:0:xy=3&xz=7&xy/y=1;s:0:0:xz=1;x:1:some:u~xy+s~0~q=1",

    # the seeded shape, detach and cut variants
    "a:H;a:H;p:1:0:x*&xy;s:0:0:xy=1;u:1:xy;d:0",
    "a:H;a:H;p:1:0:x*&xy;s:0:0:xy=1;u:1:xy;x:0:all:s~0~z=1",
    "a:H;a:G;p:1:0:x*&xy&?y;s:0:0:xy=1&xz=2;u:1:xy;u:1:?y;x:0:some:s~0~xy=3+r~0~xz+s~0~q=1",
    # hostile writes: absolute paths, '..'-like names, wildcards aimed at other subtrees
    "a:H;a:H;a:G;s:1:0:x=1&y/x=2;s:2:0:x=3;s:0:0:/H/1/x=9&/G/2/x=9&../1/x=9&../../G/2/x=9&..=9;r:0:0:/H/1/x&/*/*/*&../*&/H/1&/G&/*/*;r:0:0:*;d:0",
    # privileged what-codes without privilege, forged privilege bits
    "a:H;a:H;a:K;k:0:kick:/*/*;k:0:addbans:;k:0:rembans:/*/*;k:0:addreq:;k:0:remreq:;pv:0:7;k:0:kick:/*/*;pv:0:4294967295;k:0:kick:/H/1;upv:0;k:0:unk:;k:0:begin:;k:0:end:",
    # a privileged session does kick; the kicked one leaves no trace
    "a:K;a:H;a:G;s:1:0:x=1;p:1:0:/*/*/*;s:2:0:y=2;p:2:0:/*/*/*&/*/*;k:0:kick:/H/*;s:2:0:y=3;k:0:kick:/*/*;upv:0;k:0:kick:/*/*",
    "a:A;a:H;k:0:addbans:;k:0:rembans:;k:0:kick:/H/1/x;s:1:0:x=1;k:0:kick:/H/1/x",
    # kicked sessions against the run without them: the two runs create the host nodes, and so mark the sessions, in different orders
    "a:H;a:G;a:H;a:K;s:0:0:x=1;s:1:0:y=1;s:2:0:z=1;p:1:0:/*/*/*;p:2:0:/*/*/*&/*/*;k:3:kick:/*/*",
    "a:H;a:G;a:F;a:K;s:0:0:x=1&x/y=2;p:1:0:/*/*/*&/*/*/*/*;p:2:0:/H/*/x;s:2:0:w=1;b:3:k~kick~/G/*+s~0~q=1+k~kick~/*/*/x+k~kick~/F/*;s:3:0:q=2",
    "a:B;a:H;k:0:kick:/*/*;k:0:addbans:;k:0:remreq:",
    # forged session fields in client-to-client Messages; what-codes at the edges of the command range
    "a:H;a:H;a:G;c:0:1234:/*/*:1;c:0:1234::2;c:0:558916399:/*/*:evil;c:0:558916434:/*/*:-;c:0:kick:/*/*:1;s:1:0:x=1&y=2;c:0:77:/*/*/*:1;c:2:77:/H/*:0",
    # several hosts: the host node goes iff it became empty
    "a:H;a:G;a:H;a:G;p:0:0:/*&/*/*;d:1;d:3;d:2;a:G;d:0",
    # departure while others subscribe to everything, with data, then re-use of the tree
    "a:H;a:H;a:H;p:1:0:/*/*/*&/*/*/*/*&/*/*;p:2:0:*&*/*;s:0:0:x=1&x/y=2&xy=3;m:1:1;d:0;s:1:0:x=1;d:2;d:1",
    # batch of hostile sub-commands
    "a:H;a:H;s:1:0:x=1;b:0:k~kick~/*/*+pv~7+s~0~/H/1/x=5&../1/x=6+r~0~/H/1/x&/*/*/*+c~1234~/*/*~1+k~kick~/*/*",
    # cut after every byte of a batch and of a subscribe
    "a:H;a:H;p:1:0:/*/*/*;s:0:0:x=1;x:0:all:b~s~0~y=2+p~0~/*/*/*",
]


class CHECK(vlib.Check):
    prop = "C06"
    prop_file = "Properties_C06.v"
    model = ("Refl/IsoExtract.v", "iso_driver.ml", "iso", ("ocommon.ml",))
    harness = dict(name="iso", src="iso_h.cpp", san="asan", link_lib=True)
    quick_timeout = 2400
    modelled = ("everything of C04's server core (Refl/Server.v: AttachedToServer, Cleanup, SetDataNode, DoRemoveData/RemoveDataCallback, "
                "SETPARAMETERS/REMOVEPARAMETERS for SUBSCRIBE: and max items, GETDATA, BATCH, NodeCreated/NodeChanged(Aux), PushSubscriptionMessages, "
                "NodePathMatcher traversal) plus reflector/StorageReflectSession.cpp MessageReceivedFromGateway: command-range test, switch over "
                "the what-code, PR_COMMAND_KICK + KickClientCallback, ADDBANS/ADDREQUIRES/REMOVEBANS/REMOVEREQUIRES privilege checks, HasPrivilege, "
                "BounceMessage, the PR_NAME_PRIVILEGE_BITS branches of SETPARAMETERS/RemoveParameter, client-to-client routing with the "
                "PR_NAME_SESSION overwrite (PassMessageCallback, broadcast), SetDataNode's leading-'/' test, AdjustStringPrefix(NULL); "
                "privilege assignment at attach; ReflectServer::EndSession/ClearLameDucks.  Not modelled: ban patterns, default Message "
                "route and routing-flag parameters, reply contents of GETPARAMETERS/GETDATATREES, JETTISON* (no-op: exact when the sender's outgoing queue is empty, so never generated inside a batch or cut stream), INSERTORDEREDDATA with several keys, "
                "the INDEXUPDATED notifications, the node-count limit, sockets and the event loop.  Ordered children (Refl/IsoOrd.v): "
                "INSERTORDEREDDATA with one key (name generation from the per-node counter, insert-before / append / PR_NAME_REMOVE_FROM_INDEX), "
                "REORDERDATA, PR_COMMAND_SETDATA with SETDATANODE_FLAG_ADDTOINDEX in PR_NAME_FLAGS (alone and with QUIET / DONTCREATENODE / DONTOVERWRITEDATA: "
                "a new leaf is created through InsertOrderedChild with all subscribers' marks placed, announced unless QUIET, appended to its parent's "
                "index; an existing leaf is left alone), index entries and counters going with removed nodes.")
    premises = ["MatchLaws (Refl/BaseProofs.v; C15): clause text equality is decidable, '*' matches every name, a clause reported unique / "
                "list-of-unique-values matches exactly its keys -- premise of detach_clean and as_if_never (frame_own_subtree needs nothing)",
                "fx_guard fx = true: the traversal's full-path re-check is skipped only for a single pattern (F12 repair, /repo 63c5c82); the "
                "extracted model reads which repairs the sources at hand contain from translator flags c_c06_*_as_found",
                "well-formed histories: a session arrives under a (host, session id) pair no attached session has; fewer than 2^31-1 "
                "subscription strings are added in total (uint32 counts / int32 deltas of the subscriber tables)",
                "one spelling per subscription path (as C04): REMOVEPARAMETERS finds a subscription by the parameter name it was made under, "
                "the model by its path; the generators never unsubscribe a held path through another spelling",
                "as_if_never: the session s that is erased is never granted PR_PRIVILEGE_KICK (its kicks would be visible effects by design; "
                "OTHER sessions may hold the privilege and kick anybody, s included); session names (the server's id strings) are pairwise "
                "different and none is also a session's host name (xnm_event; KickClientCallback looks the owner of a host node up by name)",
                "ord_frame / ord_detach_clean / ord_as_if_never (ordered children, Refl/IsoOrd.v): INSERTORDEREDDATA carries one PR_NAME_KEYS string "
                "(with several, nodes created by the traversal's own callback can be visited by it: left to the harness-only stream i), fewer "
                "than 2^32 generated names per node, no node-count limit; ord_as_if_never: the premises of as_if_never",
                "byte_cut_is_command_cut composes with C03's d_prefix_safety (Gw/FrameDefault.v; standard binary gateway, default encoding, "
                "Messages within max_in and 2^32): a cut after any byte prefix is a cut between two complete commands (also exercised byte by "
                "byte by the harness); how a flattened Message is parsed is left to C01/C02 (any decode function)",
                "memory safety and object lifetime of the C++ (observed by ASan/UBSan in the harness only)"]
    rule = ("multi-client histories from random.Random(seed) with hostile commands (absolute paths and wildcards into other subtrees, '..' names, "
            "privileged what-codes without privilege, forged privilege bits and session fields), departures, and as last op a connection cut "
            "after every (all) / around every Message boundary (some) byte of a client's stream; after EVERY op messages, tree with subscriber "
            "tables, subscriptions, limits, privilege bits and liveness are compared with the extracted model; frame / detach-trace / "
            "as-if-never oracles on the implementation, the same statements on the model's states; one more stream (label i) adds "
            "INSERTORDEREDDATA / REORDERDATA in full generality (several keys), judged by the oracles and sanitizers alone; stream q restricts them to what Refl/IsoOrd.v models (one key) and compares the PR_RESULT_DATAITEMS every client received about foreign subtrees, tree, ordered indices, subscriber tables and sessions with the extracted model after every op; both ordered streams carry SETDATA with PR_NAME_FLAGS QUIET / ADDTOINDEX / both.  Independent of the model, after every op of every stream the marks oracle checks that each node carries for each attached session exactly as many subscription marks as that session's subscriptions match it.  Non-trivial = at least two sessions, "
            "a subscription or data of another session in place, and then a hostile command, a departure or a cut.")

    def gen_cases(self, rng, tier):
        quick = (tier == "quick")
        out = []
        for c in DIRECTED:
            out.append(("directed", "d|" + c))
        for _ in range(12 if quick else 60):
            out.append(("overlap", "o|" + overlap_case(rng, rng.choice(["d", "some", "some"]))))
        for _ in range(2 if quick else 12):
            out.append(("overlap-all", "o|" + overlap_case(rng, "all")))
        for _ in range(14 if quick else 80):
            out.append(("filtered-detach", "f|" + filtered_detach_case(rng, rng.choice(["d", "d", "some"]))))
        n = 220 if quick else 1500
        for i in range(n):
            g = Gen(rng, hostile=rng.choice([0.2, 0.35, 0.5]), priv_hosts=(i % 3 == 0), quiet=(i % 10 == 9), filters=(i % 4 != 3))
            out.append(("random", "r|" + g.case(rng.choice([6, 10, 14, 20]), rng.choice([2, 2, 3, 4]))))
        for i in range(45 if quick else 250):
            g = Gen(rng, hostile=rng.choice([0.2, 0.4]), priv_hosts=(i % 4 == 0), quiet=False, filters=(i % 3 != 2))
            out.append(("cut-some", "c|" + g.case(rng.choice([4, 6, 9, 12]), rng.choice([2, 3, 3]), cut="some")))
        for i in range(3 if quick else 15):
            g = Gen(rng, hostile=0.3, priv_hosts=False, quiet=False, filters=False)
            out.append(("cut-all", "c|" + g.case(rng.choice([3, 5, 7]), rng.choice([2, 3]), cut="all")))
        # INSERTORDEREDDATA / REORDERDATA / ordered indices: not in the Coq model; the implementation alone, judged by the harness's
        # frame / detach-trace / as-if-never oracles (which compare indices too) and the sanitizers
        for c in self.gen_ordered(rng, tier):
            out.append(("ordered-impl-only", c))
        # the same commands as far as Refl/IsoOrd.v models them (one key per INSERTORDEREDDATA): tree with the ordered index of every
        # node and sessions compared with the extracted model after every op
        for c in self.gen_ordered_model(rng, tier):
            out.append(("ordered-model", c))
        return out

    def gen_ordered_model(self, rng, tier):
        n = 60 if tier == "quick" else 400
        out = list(ORDERED_DIRECTED)
        for i in range(n):
            g = Gen(rng, hostile=0.3, priv_hosts=False, quiet=False, filters=(i % 3 == 0), ordered=True, single_key=True)
            out.append(g.case(rng.choice([6, 10, 14, 20]), rng.choice([2, 3])))
        return ["q|" + c for c in out]

    def gen_ordered(self, rng, tier):
        n = 60 if tier == "quick" else 300
        out = ["a:H;a:H;p:1:0:/*/*/*&/*/*/*/*;s:0:0:x=1;io:0:x:-=1&-=2&I0=3;ro:0:x/I1=I0;io:0:/H/1&../1&/*/*:-=7;ro:0:/H/1/*=I0;s:1:0:y=1;io:1:y:-=1;ro:0:../1/y/*=&/*/*/y/I0=;d:0",
               "a:H;a:G;s:1:0:q=1;io:1:q:-=1&-=2;p:0:0:/*/*/q/*;io:0:/G/1/q&*:-=5;ro:0:/G/1/q/I0=I1&/*/*/*/*=I1;x:1:some:io~q~I0=9+ro~q/I2=I0+r~0~q/I1"]
        for i in range(n):
            g = Gen(rng, hostile=0.3, priv_hosts=False, quiet=False, filters=(i % 3 == 0), ordered=True)
            out.append(g.case(rng.choice([6, 10, 14]), rng.choice([2, 3]), cut=("some" if i % 4 == 0 else None)))
        return ["i|" + c for c in out]

    def nontrivial(self, case):
        ops = case.split("|", 1)[1].split(";")
        if sum(1 for o in ops if o.startswith("a:")) < 2:
            return False
        seen_state = False
        for o in ops:
            f = o.split(":")
            if f[0] in ("p", "s") or (f[0] == "b" and ("p~" in o or "s~" in o)):
                seen_state = True
            elif seen_state and (f[0] in ("d", "x", "k", "c", "pv") or "/" in o or ".." in o):
                return True
        return False

    def distribution(self, sc):
        d = {}
        for s, c in sc:
            d["stream:" + s] = d.get("stream:" + s, 0) + 1
            for o in c.split("|", 1)[1].split(";"):
                k = "op:" + o.split(":")[0]
                d[k] = d.get(k, 0) + 1
                if "@" in o:
                    d["with-filter"] = d.get("with-filter", 0) + 1
                if ":/" in o or "&/" in o or "~/" in o:
                    d["absolute-path"] = d.get("absolute-path", 0) + 1
                if ".." in o:
                    d["dotdot"] = d.get("dotdot", 0) + 1
        return d
