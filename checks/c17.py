"""C17 -- String behaves as an ideal byte string across its small-buffer boundary (util/String.h, util/String.cpp)."""
import struct
import vlib

NOLIM = 4294967295
ALPHA = [0x61, 0x62, 0x41, 0x42, 0x61, 0x62, 0x63, 0x7a, 0x5a, 0x31, 0x32, 0x30, 0x20, 0x25, 0x2d, 0x2e, 0x09, 0x0a]
MULTI = ["c3a9", "e282ac", "f09f9880", "c39f", "ff", "80"]
LENS = [0, 1, 2, 3, 5, 7, 8, 9, 13, 14, 15, 16, 17, 18, 24, 31, 32, 33, 40]


def hx(bs):
    return "".join("%02x" % b for b in bs)


def rbytes(rng, n, multi=0.08):
    out = ""
    k = 0
    while k < n:
        if rng.random() < multi:
            m = rng.choice(MULTI)
            if k + len(m) // 2 <= n:
                out += m
                k += len(m) // 2
                continue
        out += "%02x" % rng.choice(ALPHA)
        k += 1
    return out


def needle(rng):
    r = rng.random()
    if r < 0.12:
        return ""
    n = rng.choice([1, 1, 1, 2, 2, 3, 4])
    return hx([rng.choice([0x61, 0x62, 0x41, 0x31, 0x20, 0x25]) for _ in range(n)])


def sarg(rng, lit=None, alias=0.2):
    """a `const String &` operand: self, or a literal (optionally built on the heap)"""
    if rng.random() < alias:
        return "@"
    l = lit if lit is not None else rbytes(rng, rng.choice([0, 1, 2, 3, 5, 8, 14, 15, 16, 17, 20]))
    return ("H" if rng.random() < 0.3 else "") + l


def carg(rng, ln, lit=None, alias=0.2):
    """a `const char *` operand: NULL, a pointer into the subject's own buffer, or a literal"""
    r = rng.random()
    if r < 0.04:
        return "~"
    if r < 0.04 + alias:
        return "@%d" % rng.choice([0, 0, 1, 2, 3, max(0, ln - 1), ln, rng.randint(0, max(0, ln))])
    return lit if lit is not None else rbytes(rng, rng.choice([0, 1, 2, 3, 5, 8, 14, 15, 16, 17, 20]))


def idx(rng, ln):
    return rng.choice([0, 0, 1, 2, 3, max(0, ln - 1), ln, ln + 1, ln // 2, 14, 15, 16, NOLIM, rng.randint(0, max(1, ln + 2))])


def cnt(rng):
    return rng.choice([0, 1, 1, 2, 3, NOLIM, NOLIM, NOLIM])


def ch(rng):
    return rng.choice([0x61, 0x62, 0x41, 0x42, 0x31, 0x30, 0x20, 0x25, 0x2e, 0x7a, 0xc3, 0xa9, 0xff, 0x09])


MUT = ["sc", "asc", "sf", "ass", "+s", "+c", "+h", "ic", "pc", "ac", "cl", "cf", "pa", "sh", "tc", "tt", "sw", "-h", "-s", "-c",
       "rv", "rc", "rs", "uf", "set", "<<i", "<<b", "++", "--", "rm"]
# operations whose level-1 model is exact for Strings with embedded NULs (F9): length-based or C-string-view-based memmoves only
NUL_OPS = ["asc", "+h", "+h", "set", "+s", "+c", "sc", "sf", "ic", "pc", "ac", "tc", "tt", "cl", "cf", "pa", "sh", "fl", "cp", "sub", "rv", "at", "ass", "uf"]
QRY = ["at", "ioh", "ios", "ioc", "lih", "lis1", "lis", "cnh", "cns", "sws", "ews", "swh", "ewh", "swsi", "ewsi", "cmp", "cmpi",
       "eqi", "iosi", "lisi", "iohi", "lihi", "pns", "swn", "fl", "eqh", "eqhi", "swhi", "ewhi", "dist", "ncmp", "ncmpi"]
PRO = ["cp", "cpp", "sub", "suba", "subu", "wis", "wps", "was", "wih", "wph", "wah", "pad", "lo", "up", "mx", "tr", "wrc", "wrs",
       "args", "argi", "wsf", "wpf", "wosf", "wopf", "wosh", "woph", "wons", "pls", "wsfh", "wpfh", "wosfi", "wopfi", "woshi", "wophi", "wiw", "waw", "wpw", "ind", "esc", "argl", "argu", "argul", "argh", "argc", "argb", "plh", "hpl", "cpl", "mns", "mnh", "wrm", "argd", "argf"]


def float_case(rng, name):
    """Arg(double/float, minDigits, maxDigits): the case carries the IEEE bits and the text printf must produce"""
    x = rng.choice([0.0, 1.0, -1.0, 0.5, -0.125, 3.75, 100.0, 1234567.875, 1e15, 0.1, 2.5e-7, 123.456, -99.995, 65536.0, 1e22,
                    rng.randint(-10**6, 10**6) / 64.0, rng.randint(0, 10**9) / 1024.0])
    if name == "argf":
        x = struct.unpack("<f", struct.pack("<f", x))[0]
        bits = "%08x" % struct.unpack("<I", struct.pack("<f", x))[0]
    else:
        bits = "%016x" % struct.unpack("<Q", struct.pack("<d", x))[0]
    mx = rng.choice([NOLIM, NOLIM, 0, 1, 2, 3, 6, 10, 100, 150])
    mn = rng.choice([0, 0, 1, 2, 3, 8])
    text = ("%f" % x) if mx == NOLIM else ("%.*f" % (min(mx, 100), x))
    return "%s:%s:%d:%d:%s" % (name, bits, mn, mx, hx(text[:255].encode()))


def gen_op(rng, name, ln, alias=0.2):
    """one operation of kind `name`; returns (text, new approximate length)"""
    A = lambda lit=None: sarg(rng, lit, alias)
    C = lambda lit=None: carg(rng, ln, lit, alias)
    grow = rng.choice([0, 1, 2, 3, max(0, 15 - ln), max(0, 16 - ln), max(0, 17 - ln), max(0, 14 - ln), 8, 20])
    if name == "sc":   return "sc:%s:%d" % (C(), rng.choice([NOLIM, NOLIM, 0, 1, 3, 15, 16])), 8
    if name == "asc":  l = rng.choice(LENS); return "asc:%s" % C(rbytes(rng, l)), l
    if name == "sf":   return "sf:%s:%d:%d" % (A(), idx(rng, ln), idx(rng, ln)), 5
    if name == "ass":  l = rng.choice(LENS); return "ass:%s" % A(rbytes(rng, l)), l
    if name == "+s":   return "+s:%s" % A(rbytes(rng, grow)), ln + grow
    if name == "+c":   return "+c:%s" % C(rbytes(rng, grow)), ln + grow
    if name == "+h":   return "+h:%d" % ch(rng), ln + 1
    if name == "ic":   return "ic:%d:%s:%d" % (idx(rng, ln), C(rbytes(rng, grow)), rng.choice([NOLIM, NOLIM, 0, 1, 2, 5])), ln + grow
    if name == "pc":   return "pc:%s:%d" % (C(rbytes(rng, grow)), rng.choice([NOLIM, NOLIM, 0, 1, 2, 5])), ln + grow
    if name == "ac":   return "ac:%s:%d" % (C(rbytes(rng, grow)), rng.choice([NOLIM, NOLIM, 0, 1, 2, 5])), ln + grow
    if name == "cl":   return "cl", 0
    if name == "cf":   return "cf", 0
    if name == "pa":   return "pa:%d" % rng.choice([0, 1, 14, 15, 16, 17, 30, 31, 32, 33, 40, 100, ln, ln + 1, NOLIM]), ln
    if name == "sh":   return "sh:%d" % rng.choice([0, 0, 0, 1, 2, max(0, 14 - ln), max(0, 15 - ln), max(0, 16 - ln), 20]), ln
    if name == "tc":   return "tc:%d" % rng.choice([0, 1, 2, max(0, ln - 15), max(0, ln - 16), ln, ln + 1, NOLIM]), max(0, ln - 2)
    if name == "tt":   return "tt:%d" % rng.choice([0, 1, 14, 15, 16, 17, ln, ln + 1, NOLIM]), min(ln, 15)
    if name == "sw":   l = rng.choice(LENS); return "sw:%d:%s" % (rng.choice([0, 0, 5, 15, 16, 40]), rbytes(rng, l)), l
    if name == "-h":   return "-h:%d" % ch(rng), max(0, ln - 1)
    if name == "-s":   return "-s:%s" % A(needle(rng)), max(0, ln - 1)
    if name == "-c":   return "-c:%s" % C(needle(rng)), max(0, ln - 1)
    if name == "rv":   return "rv", ln
    if name == "rc":   return "rc:%d:%d:%d:%d" % (ch(rng), ch(rng), cnt(rng), rng.choice([0, 0, 0, 1, ln // 2, ln, NOLIM])), ln
    if name == "rs":   return "rs:%s:%s:%d:%d" % (A(needle(rng)), A(rbytes(rng, rng.choice([0, 1, 2, 3, 6]))), cnt(rng), rng.choice([0, 0, 0, 1, ln // 2, ln, NOLIM])), ln + 3
    if name == "set":  return "set:%d:%d" % (rng.choice([0, 1, max(0, ln - 1), ln // 2, ln]), ch(rng)), ln
    if name in ("rm", "wrm"):
        keys = rng.sample(["61", "62", "6162", "6161", "616162", "61626163", "31", "32", "20", "25", "4142", "6261", "2d2d", "7a", ""], rng.choice([0, 1, 1, 2, 2, 3, 4]))
        ps = ",".join("%s=%s" % (k, rng.choice(["", "78", "7879", "61", "62", "6161", "32", "33", rbytes(rng, rng.choice([3, 8, 17]), 0.0)])) for k in keys)
        return "%s:%s:%d" % (name, ps, cnt(rng)), ln + 3
    if name == "<<i":  return "<<i:%d" % rng.choice([0, 7, -1, 42, 123456789, -2147483648, 2147483647]), ln + 3
    if name == "<<b":  return "<<b:%d" % rng.randint(0, 1), ln + 5
    if name == "++":   return "++", ln + 1
    if name == "--":   return "--", max(0, ln - 1)
    if name == "uf":
        l = rng.choice(LENS)
        body = rbytes(rng, l)
        r = rng.random()
        if r < 0.6: body += "00"
        elif r < 0.75 and l > 1: body = body[:2 * (l // 2)] + "00" + body[2 * (l // 2):]
        return "uf:%s" % body, l
    # ---- queries
    if name == "at":   return "at:%d" % rng.choice([0, 1, max(0, ln - 1), ln // 2]), ln
    if name in ("ioh", "lih", "cnh", "iohi", "lihi"):
        return "%s:%d:%d" % (name, rng.choice([ch(rng), ch(rng), ch(rng), 0]) if name == "ioh" else ch(rng), idx(rng, ln)), ln
    if name in ("ios", "lis", "cns", "iosi", "lisi"): return "%s:%s:%d" % (name, A(needle(rng)), idx(rng, ln)), ln
    if name == "ioc":  return "ioc:%s:%d" % (C(needle(rng)), idx(rng, ln)), ln
    if name in ("lis1", "sws", "ews", "swsi", "ewsi", "cmp", "cmpi", "eqi"): return "%s:%s" % (name, A(needle(rng) if rng.random() < 0.7 else None)), ln
    if name in ("swh", "ewh", "eqh", "eqhi", "swhi", "ewhi"): return "%s:%d" % (name, ch(rng)), ln
    if name in ("ncmp", "ncmpi"):
        v = rng.choice(["6131", "613130", "61303130", "6120203130", "7831322e35", "7831322e3035", "41", "61", "6162", "783039", "7839", "2078", "", "ff31", "6132623130", "613262394141"])
        return "%s:%s" % (name, A(v)), ln
    if name == "dist": return "dist:%s:%d" % (A(rbytes(rng, rng.choice([0, 1, 2, 3, 5, 8, 15, 16, 17]), 0.0) if rng.random() < 0.6 else needle(rng)), rng.choice([NOLIM, NOLIM, 0, 1, 2, 3, 5])), ln
    if name == "pns":  return "pns:%d" % rng.choice([0, 7, NOLIM]), ln
    if name == "swn":  return "swn:%d" % rng.randint(0, 1), ln
    if name == "fl":   return "fl", ln
    # ---- producers
    if name == "cp":   return "cp", ln
    if name == "cpp":  return "cpp:%d" % rng.choice([0, 1, max(0, 15 - ln), max(0, 16 - ln), 20, 100]), ln
    if name == "sub":  return "sub:%d:%d" % (idx(rng, ln), idx(rng, ln)), ln
    if name == "suba": return "suba:%s" % A(needle(rng)), ln
    if name == "subu": return "subu:%d:%s" % (idx(rng, ln), A(needle(rng))), ln
    if name == "wis":  return "wis:%d:%s:%d" % (idx(rng, ln), A(rbytes(rng, grow)), rng.choice([NOLIM, NOLIM, 0, 1, 3])), ln
    if name in ("wps", "was"): return "%s:%s:%d" % (name, A(rbytes(rng, grow)), rng.choice([NOLIM, NOLIM, 0, 1, 3])), ln
    if name == "wih":  return "wih:%d:%d:%d" % (idx(rng, ln), rng.choice([ch(rng), ch(rng), 0]), grow), ln
    if name in ("wph", "wah"): return "%s:%d:%d" % (name, ch(rng), grow), ln
    if name == "pad":  return "pad:%d:%d:%d" % (rng.choice([0, 5, 14, 15, 16, 17, 20, 33, ln, ln + 1]), rng.randint(0, 1), rng.choice([0x20, 0x30, 0x2e, 0])), ln
    if name in ("lo", "up", "mx", "tr", "wons"): return name, ln
    if name == "wrc":  return "wrc:%d:%d:%d:%d" % (ch(rng), ch(rng), cnt(rng), rng.choice([0, 0, 1, ln // 2, ln])), ln
    if name == "wrs":  return "wrs:%s:%s:%d:%d" % (A(needle(rng)), A(rbytes(rng, rng.choice([0, 1, 2, 3, 6]))), cnt(rng), rng.choice([0, 0, 0, 1, ln // 2, ln])), ln
    if name == "args": return "args:%s" % A(rbytes(rng, rng.choice([0, 1, 3, 8, 16]))), ln
    if name == "argi": return "argi:%d" % rng.choice([0, 1, -1, 42, -2147483648, 2147483647, 1000000]), ln
    if name in ("plh", "hpl"): return "%s:%d" % (name, rng.choice([0x61, 0x42, 0x20, 0x2e, 0xc3])), ln
    if name == "cpl":  return "cpl:%s" % rbytes(rng, grow), ln
    if name == "mns":  return "mns:%s" % A(needle(rng)), ln
    if name == "mnh":  return "mnh:%d" % ch(rng), ln
    if name in ("argd", "argf"): return float_case(rng, name), ln
    if name == "argl": return "argl:%d" % rng.choice([0, -1, 4611686018427387903, -4611686018427387903, 4294967296, 1234567890123]), ln
    if name == "argu": return "argu:%d" % rng.choice([0, 1, 4294967295, 2147483648, 77]), ln
    if name == "argul": return "argul:%d" % rng.choice([0, 4294967296, 4611686018427387903, 77]), ln
    if name == "argh": return "argh:%d" % rng.choice([0, 1, -1, 32767, -32768]), ln
    if name == "argc": return "argc:%d" % rng.choice([0, 65, 127, -128, -1]), ln
    if name == "argb": return "argb:%d" % rng.randint(0, 1), ln
    if name in ("wsf", "wpf"): return "%s:%s" % (name, A(needle(rng))), ln
    if name == "wiw":  return "wiw:%d:%s:%s" % (idx(rng, ln), A(needle(rng) if rng.random() < 0.5 else rbytes(rng, grow)), rng.choice(["20", "20", "2c20", "", "61", "2d"])), ln
    if name in ("waw", "wpw"): return "%s:%s:%s" % (name, A(needle(rng) if rng.random() < 0.5 else rbytes(rng, grow)), rng.choice(["20", "20", "2c20", "", "61", "2d"])), ln
    if name == "ind":  return "ind:%d:%d" % (rng.choice([0, 1, 2, 3, 8, 15, 16]), rng.choice([0x20, 0x20, 0x09, 0x2e, 0])), ln
    if name == "esc":  return "esc:%s:%d" % (rng.choice(["61", "2c", "6162", "2c3b", "", "5c", "2025", "41"]), rng.choice([0x5c, 0x5c, 0x25, 0x61, 0])), ln
    if name in ("wsfh", "wpfh"): return "%s:%d" % (name, rng.choice([ch(rng), ch(rng), 0])), ln
    if name in ("wosfi", "wopfi"): return "%s:%s:%d" % (name, A(needle(rng)), cnt(rng)), ln
    if name in ("woshi", "wophi"): return "%s:%d:%d" % (name, ch(rng), cnt(rng)), ln
    if name in ("wosf", "wopf"): return "%s:%s:%d" % (name, A(needle(rng)), cnt(rng)), ln
    if name in ("wosh", "woph"): return "%s:%d:%d" % (name, ch(rng), cnt(rng)), ln
    if name == "pls":  return "pls:%s" % A(rbytes(rng, grow)), ln
    raise ValueError(name)


def gen_script(rng, nops, alias):
    ops, ln = [], 0
    # start from a string of a boundary length, sometimes on the heap
    r = rng.random()
    if r < 0.75:
        l = rng.choice(LENS)
        body = rbytes(rng, l)
        if rng.random() < 0.35:
            # make matches likely: sprinkle arg tokens / digits / repeated needles
            body = (body + rng.choice(["2531", "253220", "6162", "3132", "2020", "6161"]) * rng.choice([1, 2, 3]))[: 2 * max(l, 4)]
        if rng.random() < 0.3:
            ops.append("pa:%d" % rng.choice([16, 20, 40]))
        ops.append("asc:" + body)
        ln = len(body) // 2
    for _ in range(nops):
        r = rng.random()
        if r < 0.45:
            name = rng.choice(MUT)
        elif r < 0.65:
            name = rng.choice(QRY)
        else:
            name = rng.choice(PRO)
        t, ln2 = gen_op(rng, name, ln, alias)
        if name in PRO and rng.random() < 0.3:
            t = "=" + t
            ln = ln2
        elif name in MUT:
            ln = ln2
        ops.append(t)
    return ";".join(ops)


def gen_nul_script(rng, nops):
    """F9: Strings with embedded NUL bytes (only reachable through += char(0) and writes through operator[])"""
    ops, ln = [], 0
    l = rng.choice([1, 2, 3, 7, 8, 14, 15, 16, 17, 20])
    ops.append("asc:" + rbytes(rng, l, 0.0)); ln = l
    ops.append(rng.choice(["+h:0", "set:%d:0" % rng.randint(0, max(0, l - 1)), "+h:0;+h:97", "set:0:0"]))
    for _ in range(nops):
        name = rng.choice(NUL_OPS)
        if name == "+h":
            ops.append("+h:%d" % rng.choice([0, 0, 97, 66])); ln += 1
        elif name == "set":
            ops.append("set:%d:%d" % (rng.randint(0, max(0, ln)), rng.choice([0, 0, 98])))
        elif name == "uf":
            ops.append("fl")
        else:
            t, ln2 = gen_op(rng, name, ln, 0.35)
            ops.append(t)
            if name in MUT: ln = ln2
    ops.append("fl")
    return ";".join(ops)


def directed_alias():
    """every self-aliased operand form, with lengths swept across the small-buffer capacity, from the small
    buffer and from the heap, so that the operation itself causes the switch"""
    out = []
    base = "6162636465666768696a6b6c6d6e6f707172737475"   # abcdefghijklmnopqrstu
    for L in range(0, 19):
        lit = base[: 2 * L]
        for pre in ("", "pa:40;"):
            start = pre + "asc:" + lit
            ks = sorted(set([0, 1, 3, L // 2, max(0, L - 1), L]))
            tails = ["+s:@", "+s:@;+s:@", "-s:@", "sf:@:0:%d" % NOLIM, "sf:@:1:%d" % max(1, L - 1), "sf:@:%d:%d" % (L // 2, NOLIM),
                     "sf:@:3:3", "ass:@", "rs:@:7878:%d:0" % NOLIM, "rs:6162:@:%d:0" % NOLIM, "rs:@:@:%d:0" % NOLIM, "rs:61:@:1:0",
                     "=sub:1:%d" % NOLIM, "=sub:0:%d" % max(0, L - 1), "=sub:%d:%d" % (L // 2, L), "wis:%d:@:%d" % (L // 2, NOLIM),
                     "=wis:1:@:%d" % NOLIM, "=pls:@", "=was:@:%d" % NOLIM, "=wps:@:3", "args:@", "wsf:@", "wpf:@", "wosf:@:%d" % NOLIM,
                     "wopf:@:%d" % NOLIM, "ios:@:0", "lis1:@", "cmp:@", "cmpi:@", "eqi:@", "sws:@", "ews:@", "cns:@:0", "suba:@", "subu:0:@",
                     "wrs:@:78:%d:0" % NOLIM, "wrs:61:@:%d:0" % NOLIM]
            for k in ks:
                tails += ["+c:@%d" % k, "+c:@%d;+c:@%d" % (k, k), "sc:@%d:%d" % (k, NOLIM), "sc:@%d:2" % k, "asc:@%d" % k, "pc:@%d:%d" % (k, NOLIM),
                          "ac:@%d:%d" % (k, NOLIM), "ac:@%d:3" % k, "ic:%d:@%d:%d" % (L // 2, k, NOLIM), "ic:1:@%d:2" % k, "-c:@%d" % k, "ioc:@%d:0" % k]
            for t in tails:
                out.append(("alias", "c17|" + start + ";" + t + ";fl"))
    return out


def directed_boundary():
    out = []
    base = "6162636465666768696a6b6c6d6e6f70717273747576777879"
    for L in range(0, 19):
        lit = base[: 2 * L]
        for d in (0, 1, 2, 3):
            for pre in ("", "pa:20;", "pa:100;"):
                s = pre + "asc:" + lit
                x = base[: 2 * d]
                out.append(("boundary", "c17|%s;+c:%s;+h:33;tc:1;tc:%d;sh:0;+s:%s;sh:1;cp;cpp:%d;fl" % (s, x, d, x, d)))
                out.append(("boundary", "c17|%s;pc:%s:%d;ic:%d:%s:%d;tt:%d;sh:0;pa:%d;pa:%d;cf;+h:65" % (s, x, NOLIM, L // 2, x, NOLIM, 15 - d, 14 + d, 30 + d)))
                out.append(("boundary", "c17|%s;=wah:46:%d;=wph:46:%d;=pad:%d:1:32;=sub:%d:%d;=tr;sh:0;=lo" % (s, d, d, 14 + d, d, 15 + d)))
                out.append(("boundary", "c17|%s;sw:%d:%s;sw:0:;uf:%s00;uf:%s;fl" % (s, d * 8, x, lit, lit)))
    for L in (0, 1, 14, 15, 16, 17):
        lit = "6162636465666768696a6b6c6d6e6f707172"[: 2 * L]
        out.append(("boundary", "c17|asc:%s;plh:33;=plh:33;hpl:33;=hpl:34;cpl:78;cpl:;=cpl:7879;mns:@;mns:62;mnh:97;=mns:63;=mnh:100;fl" % lit))
    # simultaneous replacement: keys whose own prefix repeats (the occurrence starts inside a failed partial match), chains, priorities
    for lit, ps in (("61616162", "616162=58"), ("616261626163", "61626163=59"), ("312c322c332c34", "31=32,32=33"), ("616161", "6161=78,61=79"),
                    ("616161", "61=79,6161=78"), ("6162636465666768696a6b6c6d6e6f70", "61=6161616161,70=7070707070"), ("61626162", "6162=,62=7a"),
                    ("", "61=62"), ("6161", ""), ("616261", "=78,61=")):
        for m in (NOLIM, 0, 1, 2):
            out.append(("boundary", "c17|asc:%s;wrm:%s:%d;rm:%s:%d;fl;pa:40;rm:%s:%d;fl" % (lit, ps, m, ps, m, ps, m)))
    # Arg(double/float): trailing zeros, bare point, padding to minDigits, printf output cut at 255 characters, max capped at 100
    for x in (0.0, 1.0, -2.5, 0.125, 1e300, 1e-300, 123456789.0, 99.99999999, 1e15 + 0.5):
        for mn, mx in ((0, NOLIM), (3, NOLIM), (0, 0), (2, 0), (0, 2), (4, 2), (0, 100), (0, 150), (8, 1)):
            bits = "%016x" % struct.unpack("<Q", struct.pack("<d", x))[0]
            text = ("%f" % x) if mx == NOLIM else ("%.*f" % (min(mx, 100), x))
            out.append(("boundary", "c17|asc:783d2531;argd:%s:%d:%d:%s;=argd:%s:%d:%d:%s;fl" % (bits, mn, mx, hx(text[:255].encode()), bits, mn, mx, hx(text[:255].encode()))))
    # words: separators already present / absent on either side, insertion at the ends and in the middle
    for L in (0, 1, 5, 14, 15, 16, 20):
        lit = "6162206364206566206768206970206a6b206c"[: 2 * L]
        for op in ("wiw:3:7879:20", "wiw:3:2078792020:20", "waw:7879:20", "wpw:7879:20", "waw:@:20", "wpw:@:2c20", "wiw:2:@:20",
                   "=wiw:%d:78797a7879:2c20" % (L // 2), "waw:7820:20", "wpw:2078:20", "wiw:1:78:", "waw::20"):
            out.append(("boundary", "c17|asc:%s;%s;fl" % (lit, op)))
    for lit in ("", "0a", "610a620d0a0a63", "0d0a61", "61626364656667680a696a6b6c6d6e6f70", "0a0a0a", "20610a2062"):
        for n in (1, 2, 7, 15, 16):
            out.append(("boundary", "c17|asc:%s;ind:%d:32;=ind:%d:46;fl" % (lit, n, n)))
    for lit in ("", "612c62", "5c", "5c5c", "5c2c", "615c625c5c632c5c", "2c2c2c2c2c2c2c2c", "6162636465666768696a6b6c6d2c6e6f70", "5c61"):
        for sp in ("2c", "2c61", "", "5c"):
            out.append(("boundary", "c17|asc:%s;esc:%s:92;=esc:%s:92;esc:%s:37;fl" % (lit, sp, sp, sp)))
    # natural-order comparison: digit runs, leading zeros (fractional mode), spaces, case folding, tie-break
    nat = ["", "61", "41", "6131", "6132", "613130", "61303130", "613031", "61303032", "6120203130", "783132", "7831322e35", "7831322e3035",
           "783039", "7839", "2078", "78", "6132623130", "6132623941", "613262396161", "ff31", "8031", "31", "3031", "30", "3939", "313030"]
    for a in nat:
        for b in nat:
            out.append(("boundary", "c17|asc:%s;ncmp:%s;ncmpi:%s;ncmp:@;ncmpi:H%s" % (a, b, b, b)))
    # Levenshtein distance with a maximum: the prefix distance is not monotone
    for a, b in (("616263", "78616263"), ("78616263", "616263"), ("6b697474656e", "73697474696e67"), ("", "616263"), ("616263", ""),
                 ("6162636465666768696a6b6c6d6e6f70", "7a7a6162636465666768696a6b6c6d6e6f70"), ("6161616161", "6161")):
        for m in (0, 1, 2, 3, 4, NOLIM):
            out.append(("boundary", "c17|asc:%s;dist:%s:%d;dist:@:%d;pa:40;dist:H%s:%d" % (a, b, m, m, b, m)))
    # growth policy: across 32 bytes, across the geometric range, into the page-based range
    for n in (29, 30, 31, 32, 33, 63, 64, 65, 127, 128, 129):
        out.append(("boundary", "c17|asc:61;wah:98:%d;=wah:98:%d;+h:99;+h:100;sh:0;+h:101;pa:%d" % (n, n, 2 * n)))
    for n in (2040, 2047, 2048, 2049, 4070, 4083, 4084, 4085, 4096, 5000, 8180, 8181):
        out.append(("boundary", "c17|asc:61;=wah:98:%d;+h:99;+s:6465;sh:0;+h:101;tc:%d;sh:0" % (n, n)))
    return out


def directed_limits():
    """numeric arguments at and around the uint32 / int32 limits"""
    out = []
    big = [1073741808, 1073741823, 1073741824, 1073741825, 1610612736, 2147483631, 2147483632, 2147483645, 2147483646, 2147483647,
           2147483648, 2147483649, 3221225472, 4294967294, 4294967295]
    for pre in ("asc:616263", "pa:40;asc:616263", "asc:6162636465666768696a6b6c6d6e6f7071"):
        for n in big:
            if n > 1073741824:
                out.append(("limits", "c17|%s;pa:%d;fl;+h:33" % (pre, n)))
            out.append(("limits", "c17|%s;sub:%d:%d;sub:1:%d;tc:%d" % (pre, n, n, n, n)))
            out.append(("limits", "c17|%s;ioh:98:%d;lih:98:%d;ios:62:%d;lis:62:%d;iosi:42:%d;lisi:42:%d;iohi:66:%d" % (pre, n, n, n, n, n, n, n)))
            out.append(("limits", "c17|%s;lihi:66:%d" % (pre, n)))
            out.append(("limits", "c17|%s;lihi:113:%d" % (pre, n)))
            out.append(("limits", "c17|%s;rc:98:66:%d:%d;rs:62:4242:%d:%d;cnh:98:%d;cns:62:%d" % (pre, n, n, n, n, n, n)))
            out.append(("limits", "c17|%s;sc:78797a:%d;ic:%d:78:%d;tt:%d;sf:616263:%d:%d" % (pre, n, n, n, n, n, n)))
        out.append(("limits", "c17|%s;sh:4294967295" % pre))
    return out


class CHECK(vlib.Check):
    prop = "C17"
    prop_file = "Properties_C17.v"
    model = ("Cont/StrExtract.v", "str_driver.ml", "str", ("ocommon.ml",))
    harness = dict(name="str", src="str_h.cpp", san="asan", link_lib=True)
    modelled = ("util/String.h + util/String.cpp. Code-shaped (level 1: union of ShortStringData {_smallBuffer, _ssoFreeBytesLeft} and "
                "LongStringData {_bigBuffer, _strlen, buffer length}; every memmove/memcpy, NUL write and SetLength): EnsureBufferSize, "
                "GetNextBufferSize/NextPowerOfTwo (uint32 arithmetic), SetCstr, SetFromString, operator= (2), operator+= (String, const char*, char), "
                "operator<< (int, bool), ++/--, InsertChars/InsertCharsAux (Prepend/AppendChars), Clear, ClearAndFlush, Prealloc, ShrinkToFit, "
                "TruncateChars, TruncateToLength, SwapContents/move, operator-= (3 forms), Reverse, Replace(char), Replace(String,String) (the in-place "
                "and the copy-and-swap pointer loops over strstr), operator[] write, copy/substring/"
                "prealloc constructors, Flatten/Unflatten, and the producers composed from them as the code composes them: Substring (5 forms), "
                "WithInsert/WithAppend/WithPrepend (String, const char*, char), PaddedBy, IndentedBy, ToLower/Upper/MixedCase, Trimmed, "
                "WithReplacements (2), Arg(String/const char*/int), WithSuffix/WithPrefix (String, char), WithoutSuffix/WithoutPrefix (String, char) "
                "and their IgnoreCase forms, WithoutNumericSuffix, WithInserted/Appended/PrependedWord, WithCharsEscaped, operator+. "
                "operator+ (String/char/const char* on either side), operator- (String, char). Level 0 only (read-only; libc "
                "strstr/strcmp/strcasecmp underneath): IndexOf/LastIndexOf/Contains/GetNumInstancesOf/StartsWith/EndsWith/CompareTo/Equals/"
                "comparison operators and their IgnoreCase forms, CharAt, ParseNumericSuffix, StartsWithNumber, GetDistanceTo, "
                "NumericAwareCompareTo(+IgnoreCase). Harness oracles only: HashCode/HashCode64/CalculateChecksum (equal across storage modes), "
                "IsEmpty/HasChars/GetLastValidIndex/IsIndexValid/FlattenedSize. Not modelled: Arg(float/double, fmt), Arg("
                "pointer/Point/Rect), operator<<(float), platform-specific conversions.  Replace/WithReplacements(Hashtable) and "
                "Arg(double/float, min, max) are modelled code-shaped; for the latter the text printf produces is an external input "
                "(the case carries it, the harness checks this libc prints the same).")
    premises = ["memory allocation succeeds (muscleAlloc/muscleRealloc never return NULL in the model)",
                "strings are NUL-free (F9: a String with an embedded NUL is outside the domain of the refinement theorems; the stream 'nul' corresponds such Strings against level 1 only, and C17_nul_string_truncates states the truncation); buffer requests up to 2^30 bytes (LIM)",
                "memory safety and object lifetime of the C++ are observed by ASan/UBSan in the harness only",
                "libc strstr/strchr/strcmp/strcasecmp/strncasecmp/tolower in the C locale behave as documented"]
    rule = ("operation scripts over one subject String generated from random.Random(seed): mutators, queries and producers (optionally "
            "move-assigned back), String operands as separate objects (small buffer or heap) or aliasing the subject, const char* operands as "
            "separate arrays, NULL, or pointers into the subject's own buffer at an offset; after EVERY operation the result, the produced "
            "String's storage and the subject's storage mode / Length() / GetNumAllocatedBytes() / bytes are compared with the extracted "
            "level-1 model; the harness evaluates the property itself three ways (ideal std::string reference, twin String in the other "
            "storage mode with de-aliased operands, NUL-termination shape).  Non-trivial = the script has an aliased operand, or a "
            "capacity operation (Prealloc/ShrinkToFit/ClearAndFlush/SwapContents/move-assign), or appends at least 16 literal bytes.")

    def gen_cases(self, rng, tier):
        n = 2200 if tier == "quick" else 40000
        out = []
        for i in range(n):
            nops = rng.choice([2, 4, 6, 9, 12])
            out.append(("random", "c17|" + gen_script(rng, nops, 0.2)))
        for i in range(n // 4):
            out.append(("random-alias", "c17|" + gen_script(rng, rng.choice([3, 5, 8]), 0.6)))
        for i in range(n // 5):
            out.append(("nul", "nul|" + gen_nul_script(rng, rng.choice([2, 4, 7]))))
        for L in (0, 1, 7, 14, 15, 16, 17):
            lit = "6162636465666768696a6b6c6d6e6f707172"[: 2 * L]
            for pre in ("", "pa:40;"):
                out.append(("nul", "nul|%sasc:%s;+h:0;fl;+h:99;fl;+s:@;fl;sh:0;cp;+c:@0;sc:@1:%d;fl" % (pre, lit, NOLIM)))
                if L > 1:
                    out.append(("nul", "nul|%sasc:%s;set:%d:0;fl;+c:@0;sf:@:1:%d;sub:0:%d;rv;fl;tc:1;fl" % (pre, lit, L // 2, NOLIM, NOLIM)))
        out += directed_alias()
        out += directed_boundary()
        out += directed_limits()
        return out

    def nontrivial(self, case):
        body = case.split("|", 1)[1]
        if "@" in body:
            return True
        lit = 0
        for o in body.split(";"):
            f = o.lstrip("=").split(":")
            if f[0] in ("pa", "sh", "cf", "sw") or o.startswith("="):
                return True
            if f[0] in ("asc", "ass", "+s", "+c", "sc", "pc", "ac") and len(f) > 1:
                lit += len(f[1].lstrip("H")) // 2
            if f[0] == "+h":
                lit += 1
        return lit >= 16

    def distribution(self, sc):
        d = {}
        for s, c in sc:
            d["stream:" + s] = d.get("stream:" + s, 0) + 1
            body = c.split("|", 1)[1]
            if "@" in body:
                d["cases-with-aliased-operand"] = d.get("cases-with-aliased-operand", 0) + 1
            for o in body.split(";"):
                k = "op:" + o.lstrip("=").split(":")[0]
                d[k] = d.get(k, 0) + 1
                if o.startswith("="):
                    d["move-assigned-results"] = d.get("move-assigned-results", 0) + 1
        return d
