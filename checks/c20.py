"""C20 -- Pulse callbacks fire for every due node and never before their time (util/PulseNode.{h,cpp})."""
import re
import vlib

NEVER = 18446744073709551615


def tspec(rng, big=False):
    r = rng.random()
    if r < 0.18:
        return "N"
    if r < 0.50:
        return str(rng.choice([0, 1, 2, 3, 5, 5, 7, 10, 10, 15, 20, 30, 50]))
    if r < 0.72:
        return "n%d" % rng.choice([0, 1, 2, 3, 5, 10])
    if r < 0.95:
        return "q%d" % rng.choice([0, 1, 2, 3, 5, 10])
    return str(rng.choice([NEVER - 1, NEVER - 2, 2 ** 63, 2 ** 32, 2 ** 32 - 1])) if big else "n%d" % rng.choice([NEVER - 1, 2 ** 63])


def cop(rng, n, allow_inval=True):
    x = rng.randrange(n)
    y = rng.randrange(n)
    r = rng.random()
    if allow_inval and r < 0.35:
        return ("i%d" if rng.random() < 0.7 else "j%d") % x
    if r < 0.60:
        return "a%d_%d" % (x, y)
    if r < 0.82:
        return "r%d_%d" % (x, y)
    if r < 0.88:
        return "c%d" % x
    return "x%d" % x


def prog(rng, n, allow_inval=True):
    k = rng.choice([0, 1, 1, 1, 2, 2, 3])
    return ".".join(cop(rng, n, allow_inval) for _ in range(k)) or "-"


def gen_case(rng, mode, length):
    """mode: pure | pulseops | getops | reentrant"""
    n = rng.choice([1, 2, 3, 3, 4, 4, 5, 5, 6, 7])
    head = []
    for x in range(n):
        ents = []
        for _ in range(rng.choice([0, 1, 2, 3, 4, 6])):
            e = tspec(rng, big=True)
            if mode in ("getops", "reentrant") and rng.random() < 0.3:
                # "getops": anything except invalidation (which may hit a node whose own recalculation is running);
                # "reentrant": invalidation too
                e += "~" + prog(rng, n, allow_inval=(mode == "reentrant"))
            ents.append(e)
        if ents:
            head.append("g%d=%s" % (x, ",".join(ents)))
        if rng.random() < 0.7:
            head.append("d%d=%s" % (x, tspec(rng)))
        if mode != "pure" and rng.random() < 0.7:
            head.append("p%d=%s" % (x, ",".join(prog(rng, n) for _ in range(rng.choice([1, 1, 2, 3])))))
    ops = []
    par = {}
    created = set()
    late = set(x for x in range(1, n) if rng.random() < 0.15)
    for x in range(n):
        if x not in late:
            ops.append("N%d" % x); created.add(x)
    for c in range(1, n):
        if c in created and rng.random() < 0.85:
            p = rng.randrange(c)
            if p in created:
                ops.append("a%d_%d" % (p, c)); par[c] = p
    t = rng.choice([0, 0, 1, 5])
    for _ in range(length):
        r = rng.random()
        x = rng.randrange(n)
        if r < 0.48:
            t += rng.choice([0, 0, 1, 1, 2, 3, 5, 10])
            ops.append("C0@%d" % t)
        elif r < 0.53:
            ops.append("G0@%d" % t)
        elif r < 0.58:
            ops.append("P0@%d" % t)
        elif r < 0.62:
            ops.append("%s%d@%d" % (rng.choice("CCGP"), x, t))
        elif r < 0.64:
            ops.append("C0@%d" % rng.choice([0, max(0, t - 3), NEVER - 1, 2 ** 63]))
        elif r < 0.76:
            ops.append(("i%d" if rng.random() < 0.7 else "j%d") % x)
        elif r < 0.84:
            y = rng.randrange(n)
            ops.append("a%d_%d" % (x, y)); par[y] = x
        elif r < 0.90:
            if x in par and rng.random() < 0.85:
                ops.append("r%d_%d" % (par.pop(x), x))
            else:
                ops.append("r%d_%d" % (rng.randrange(n), x))
        elif r < 0.93:
            ops.append("x%d" % x); created.discard(x); par.pop(x, None)
        elif r < 0.97:
            ops.append("N%d" % x); created.add(x)
        else:
            ops.append("c%d" % x)
    if rng.random() < 0.7:
        t += rng.choice([0, 1, 50])
        ops.append("C0@%d" % t)
        ops.append("C0@%d" % t)
    return " ".join(head) + "|" + ";".join(ops)


def gen_ties(rng):
    n = rng.choice([5, 6, 7, 8, 9, 10, 12])
    shape = rng.choice(["star", "chain", "comb"])
    vals = [rng.choice([5, 5, 5, 7, 7, 9]) for _ in range(n)]
    head = []
    for x in range(1, n):
        head.append("g%d=%d,%s d%d=%s" % (x, vals[x], rng.choice(["q2", "q0", "n1", "N", str(vals[x])]), x, rng.choice(["q2", "N", "n3"])))
        if rng.random() < 0.25:
            head.append("p%d=%s" % (x, rng.choice(["i%d" % rng.randrange(n), "r%d_%d" % (rng.randrange(n), rng.randrange(n)),
                                                   "x%d" % rng.randrange(1, n), "a%d_%d" % (rng.randrange(n), rng.randrange(1, n)), "c%d" % rng.randrange(n)])))
    ops = ["N%d" % x for x in range(n)]
    for x in range(1, n):
        p = 0 if shape == "star" else (x - 1 if shape == "chain" else (x - 1 if x % 2 else max(0, x - 2)))
        ops.append("a%d_%d" % (p, x))
    t = 0
    for _ in range(rng.choice([6, 10, 16])):
        r = rng.random()
        if r < 0.6:
            t += rng.choice([0, 1, 2, 2, 5]); ops.append("C0@%d" % t)
        elif r < 0.8:
            ops.append(("i%d" if rng.random() < 0.6 else "j%d") % rng.randrange(n))
        elif r < 0.9:
            ops.append("r%d_%d" % (rng.randrange(n), rng.randrange(1, n)))
        else:
            ops.append("a%d_%d" % (rng.randrange(n), rng.randrange(1, n)))
    ops += ["C0@%d" % (t + 3), "C0@%d" % (t + 3)]
    return " ".join(head) + "|" + ";".join(ops)


def directed():
    out = []
    # one parent, k children due at the same / increasing times; each position's callback unlinks the next sibling
    for k in (2, 3, 4, 5):
        mk = ";".join("N%d" % i for i in range(k + 1)) + ";" + ";".join("a0_%d" % i for i in range(1, k + 1))
        for times in ("same", "inc", "dec"):
            g = []
            for i in range(1, k + 1):
                tv = {"same": 5, "inc": 4 + i, "dec": 20 - i}[times]
                g.append("g%d=%d,N" % (i, tv))
            for victim_op in ("r0_%d", "x%d", "i%d", "j%d", "a%d_%%d" % k):
                for who in range(1, k + 1):
                    for victim in range(1, k + 1):
                        if victim_op.startswith("a"):
                            op = "a%d_%d" % (who, victim) if who != victim else "r0_%d" % victim
                        else:
                            op = victim_op % victim
                        head = " ".join(g) + " p%d=%s" % (who, op)
                        out.append(head + "|" + mk + ";C0@0;C0@30;C0@30;C0@31")
    # chains: aggregate propagation up a path, invalidation at each depth, detach in the middle
    for depth in (1, 2, 3, 4):
        mk = ";".join("N%d" % i for i in range(depth + 1)) + ";" + ";".join("a%d_%d" % (i, i + 1) for i in range(depth))
        for leaf_t in ("7", "N", "n3", "q4"):
            head = "g%d=%s,%s d%d=q5" % (depth, leaf_t, leaf_t, depth)
            for mid in range(depth + 1):
                out.append(head + "|" + mk + ";C0@1;i%d;C0@2;C0@7;C0@8;j%d;C0@12;C0@13" % (mid, mid))
                if mid > 0:
                    out.append(head + "|" + mk + ";C0@1;r%d_%d;C0@7;a0_%d;C0@8;C0@13" % (mid - 1, mid, mid))
                    out.append(head + "|" + mk + ";C0@1;x%d;C0@7;C0@8" % mid)
    # sorted insertion: ties, tail shortcut, head insertion, re-sorting after a time change
    for perm in ((5, 5, 5), (1, 2, 3), (3, 2, 1), (2, 1, 2), (1, 3, 2), (5, 1, 5), (9, 9, 1), (1, 9, 9)):
        head = " ".join("g%d=%d,%d d%d=N" % (i + 1, tv, 30 - tv, i + 1) for i, tv in enumerate(perm))
        mk = "N0;N1;N2;N3;a0_1;a0_2;a0_3"
        out.append(head + "|" + mk + ";G0@0;i2;G0@0;i1;i3;G0@0;C0@40;C0@40")
        out.append(head + "|" + mk + ";C0@0;C0@1;C0@2;C0@3;C0@5;C0@9;C0@30")
    # a node that asks for "now" forever, a node in the past, boundary times
    out.append("d1=n0 d2=0|N0;N1;N2;a0_1;a0_2;C0@0;C0@0;C0@1;C0@%d" % (NEVER - 1))
    out.append("g1=%d d1=N|N0;N1;a0_1;C0@0;C0@%d;C0@%d" % (NEVER - 1, NEVER - 2, NEVER - 1))
    # the end of time: now == MUSCLE_TIME_NEVER (never-requests are "<= now"; only nodes reachable through scheduled lists fire)
    out.append("g1=N g2=5 g3=N g4=%d d1=N d2=N d3=N d4=N|N0;N1;N2;N3;N4;a0_1;a0_3;a1_2;a3_4;C0@N;C0@N;i1;C0@N" % (NEVER - 1))
    out.append("g0=N g1=N d0=N d1=N|N0;N1;a0_1;C0@N;C0@N")
    out.append("g0=7 g1=N,N g2=N,9 d0=N|N0;N1;N2;a0_1;a1_2;G0@3;P0@N;C0@N;G0@N;P0@N")
    # the root is itself a timer; lone root; root detaching its children in its own Pulse
    out.append("g0=3,6,N p0=c0|N0;N1;N2;a0_1;a0_2;C0@0;C0@3;C0@4;C0@6;C0@7")
    out.append("g0=3 d0=q3|N0;C0@0;C0@3;C0@6;C0@7;i0;C0@8;j0;C0@9")
    return out


# ROSTER of the kinds of PulseNode the ReflectServer services (reflector/ReflectServer.cpp PrepareToWaitForEvents():
# CallGetPulseTimeAux, HandleEvents(): CallPulseAux).  harness/pulse_srv_h.cpp instruments each of them with scripted
# GetPulseTime()/Pulse(); the server-level stage fails if a kind listed here is not exercised AND served in a run, so a
# kind that is added to the server but not to the harness (or vice versa) is visible in the evidence.
PULSE_NODE_KINDS = {
    "session":   "AbstractReflectSession objects in _sessions (CallGetPulseTimeAux(*session) / CallPulseAux(*session))",
    "gateway":   "each session's AbstractMessageIOGateway (CallGetPulseTimeAux(*g) / CallPulseAux(*gateway))",
    "factory":   "ReflectSessionFactory objects in _factories (PutAcceptFactory)",
    "server":    "the ReflectServer object itself (CallGetPulseTimeAux(*this) / CallPulseAux(*this)) and its pulse children",
    "outpolicy": "AbstractSessionIOPolicy installed with SetOutputPolicy(): serviced only through _preparedPolicies (CheckPolicy), shared by several sessions, holders idle or busy",
    "inpolicy":  "AbstractSessionIOPolicy installed with SetInputPolicy(): likewise",
    "child":     "plain PulseNode children/grandchildren (PutPulseChild) of every kind above",
}


class CHECK(vlib.Check):
    prop = "C20"
    prop_file = "Properties_C20.v"
    model = ("Pulse/PulseExtract.v", "pulse_driver.ml", "pulse", ("ocommon.ml",))
    harness = dict(name="pulse", src="pulse_h.cpp", san="asan", link_lib=True)
    modelled = ("util/PulseNode.{h,cpp}: _parent, _aggregatePulseTime, _myScheduledTime, _myScheduledTimeValid, _curList and the "
                "three child lists (as id lists; the harness checks _first/_last/_prev/_next against them); "
                "ReschedulePulseChild (tail shortcut, insertion walk, upward needs-recalc propagation), InvalidatePulseTime, "
                "GetPulseTimeAux, PulseAux, PutPulseChild, RemovePulseChild, ClearPulseChildren, ~PulseNode, "
                "PulseNodeManager::CallGetPulseTimeAux/CallPulseAux (incl. its now>=aggregate guard); GetPulseTime()/Pulse() "
                "are scriptable oracles that may operate on any node from inside the callback (in the Coq model: arbitrary functions that also see the whole forest). "
                "Not modelled: cycle-start time / time-slice suggestions; ReflectServer's own event loop (which roots it asks and pulses each cycle: sessions, gateways, factories, itself, prepared I/O policies) is NOT modelled -- corresponded only, by harness/pulse_srv_h.cpp on the real server with the roster PULSE_NODE_KINDS.")
    premises = ["memory safety and object lifetime of the C++ (observed by ASan/UBSan in the harness only)",
                "theorems reach_inv / recalc_min / recalc_asks / cycle_exact / step_total*: the GetPulseTime() oracle is an arbitrary function of (node, call index, now, previous time) that performs NO operations; reach_inv_safe / recalc_min_safe: it may perform any operations that do not invalidate/detach/re-attach/destroy a node whose own GetPulseTimeAux is running (checked dynamically by the instrumented run_s, which erases to the model); what remains excluded is exactly F16 (C20_reentrant_recalc_refuted, C20_f16_history_refused); no termination claim for GetPulseTime() callbacks that perform operations (two siblings invalidating each other from GetPulseTime() spin forever in the code as well); the Pulse() oracle is arbitrary and may perform any list of invalidate/attach/detach/clear/destroy operations on any nodes (reach_inv, cop_preserves, pulse_never_early_once) except in pulse_exact and step_total where it performs none",
                "times are uint64: the model clamps an oracle's answer to MUSCLE_TIME_NEVER (= 2^64-1, proved from the translated constant); pulse_exact/cycle_exact take pulse instants below MUSCLE_TIME_NEVER, pulse_exact_gen covers every instant (at MUSCLE_TIME_NEVER never-requests on unscheduled lists do not fire; the harness only corresponds that instant)",
                "callers do not build parent cycles, do not operate on destroyed nodes, and call the manager entry points on parentless nodes only (the model's operations are no-ops otherwise; the harness applies the same guards)",
                "an object destroyed from inside a callback while one of its own sweeps may be running is freed after the sweep (its destructor's unlinking happens at once); other objects are freed at once"]
    rule = ("histories over up to 7 scripted PulseNodes: create/attach/detach/clear/destroy/invalidate and manager cycles "
            "(GetPulseTimeAux then PulseAux on a root) under a simulated clock; at EVERY callback entry (i.e. in the middle of the sweeps) and after EVERY top-level operation the callback log "
            "(node, call index, callback time, previous/scheduled time, reported minimum) and every node's _parent/_aggregatePulseTime/"
            "_myScheduledTime/_myScheduledTimeValid/_curList/three child lists are compared with the extracted model; the harness's own "
            "shadow oracle (requested times, staleness, attach history) and pointer-structure oracle are evaluated as well.  "
            "Non-trivial = at least one attach and at least one pulse sweep.")

    def gen_cases(self, rng, tier):
        scale = 1 if tier == "quick" else 12
        out = []
        for mode, cnt in (("pure", 700), ("pulseops", 900), ("getops", 400), ("reentrant", 300)):
            for _ in range(cnt * scale):
                out.append((mode, gen_case(rng, mode, rng.choice([4, 8, 12, 20, 30, 45]))))
        # wide and deep shapes with equal times: sorted insertion among ties, long needs-recalc paths
        for _ in range(150 * scale):
            out.append(("ties", gen_ties(rng)))
        out += [("directed", c) for c in directed()]
        return out

    def build(self):
        impl, model = super().build()
        # runtime residue: the scheduler as the real ReflectServer event loop drives it, against the real clock
        self.srv = vlib.build_harness(name="pulsesrv", src="pulse_srv_h.cpp", san="asan", link_lib=True)
        return impl, model

    def server_stage(self, ctx):
        import random
        replayed = [c for c in ctx["cases"] if c.startswith("S|")]
        if replayed and len(ctx["cases"]) == len(replayed):
            cases = replayed
        else:
            rng = random.Random(ctx["seed"] * 7919 + 3)
            n = 16 if ctx["tier"] == "quick" else 80
            cases = replayed + ["S|%d;%d;%d;%d" % (rng.randrange(1, 10 ** 6), rng.choice([1, 2, 3, 4]), rng.choice([1, 2, 3, 4]),
                                                  rng.choice([300, 1000, 2500, 4000])) for _ in range(n)]
        rc, out, err = vlib.run_lines(self.srv, "".join(c + "\n" for c in cases), timeout=600)
        seen = set()
        roster = {k: {"instances": 0, "cases_served": 0} for k in PULSE_NODE_KINDS}
        for l in out:
            sp = l.split(" ", 1)
            if not sp[0].isdigit():
                continue
            k = int(sp[0]); seen.add(k)
            if len(sp) > 1 and sp[1].startswith("ORACLE FAIL"):
                ctx["failures"].append({"kind": "oracle", "signature": "server-level: " + sp[1], "case": cases[k],
                                        "detail": {"case": cases[k], "oracle": sp[1], "side": "impl (real ReflectServer, real clock)"}})
            elif len(sp) > 1 and sp[1].startswith("ok"):
                m = re.search(r"kinds=(\S+)", sp[1])
                for item in (m.group(1).split(",") if m else []):
                    name, _, cnt = item.partition(":")
                    roster.setdefault(name, {"instances": 0, "cases_served": 0})["instances"] += int(cnt or 0)
                m = re.search(r"served=(\S*)", sp[1])
                for name in (m.group(1).split(",") if m and m.group(1) else []):
                    roster.setdefault(name, {"instances": 0, "cases_served": 0})["cases_served"] += 1
        missing = [k for k in range(len(cases)) if k not in seen]
        if rc != 0 or missing:
            k = missing[0] if missing else len(cases) - 1
            ctx["failures"].append({"kind": "crash", "signature": "crash: server-level " + vlib.san_summary(err), "case": cases[k],
                                    "detail": {"case": cases[k], "rc": rc, "stderr": err[-2500:]}})
        elif not replayed:
            for name in sorted(set(list(PULSE_NODE_KINDS) + list(roster))):
                r = roster.get(name, {"instances": 0, "cases_served": 0})
                if name not in PULSE_NODE_KINDS:
                    ctx["failures"].append({"kind": "oracle", "signature": "server-level roster: the harness exercises a PulseNode kind '%s' that checks/c20.py does not list" % name, "case": None, "detail": roster})
                elif r["instances"] == 0 or r["cases_served"] == 0:
                    if not any(f["signature"].startswith("server-level") for f in ctx["failures"]):
                        ctx["failures"].append({"kind": "oracle", "signature": "server-level roster: no instance of PulseNode kind '%s' was exercised and served" % name, "case": None, "detail": roster})
        self.roster = {name: dict(what=PULSE_NODE_KINDS.get(name, "?"), **roster.get(name, {})) for name in sorted(set(list(PULSE_NODE_KINDS) + list(roster)))}
        return len(cases)

    def extra_stage(self, ctx):
        """Finding F16 may only excuse histories in which a GetPulseTime() callback really touches a node whose own
        recalculation is running.  For every failure tagged `reentrant-recalc` ask the model (step_s, the instrumented
        sweep of Pulse/PulseSafe.v) whether the history is SAFE; if it is, the theorems reach_inv_safe/recalc_min_safe
        cover it and the failure is NOT the known finding: re-tag it so that it is reported as a violation."""
        tagged = [f for f in ctx["failures"] if f["kind"] == "oracle" and "reentrant-recalc" in f.get("signature", "") and f.get("case")]
        cases = sorted(set(f["case"] for f in tagged))
        n_safe = n_unsafe = 0
        if cases and ctx.get("model"):
            rc, out, err = vlib.run_lines(ctx["model"], "".join(c + "\n" for c in cases), timeout=300, env={"PULSE_SAFE": "1"})
            verdict = {}
            for l in out:
                sp = l.split(" ", 1)
                if sp[0].isdigit() and len(sp) > 1:
                    verdict[cases[int(sp[0])]] = sp[1].strip()
            for f in tagged:
                v = verdict.get(f["case"])
                if v == "SAFE":
                    n_safe += 1
                    f["signature"] = f["signature"].replace("reentrant-recalc", "recalc failure in a history whose GetPulseTime() callbacks stay off the recalculation stack (not F16)")
                elif v == "UNSAFE":
                    n_unsafe += 1
                else:
                    f["signature"] = f["signature"].replace("reentrant-recalc", "recalc failure (model gave no safety verdict)")
        n_srv = self.server_stage(ctx)
        ctx["extra_coverage"] = {"f16_tagged_failures": len(tagged), "f16_tagged_unsafe_per_model": n_unsafe, "f16_tagged_but_safe": n_safe,
                                 "server_level_cases": n_srv,
                                 "server_level_pulse_node_roster": getattr(self, "roster", {}),
                                 "server_level_model_status": "corresponded only: the ReflectServer event loop's servicing of its roots (which roots are asked/pulsed each cycle) is not modelled in Coq; the model's theorems start at a serviced root (is_root). The server-level stage checks on the real server that every roster kind is asked for its time every cycle and served when due.",
                                 "server_level_note": "real in-process ReflectServer (subclassed: itself a timer) with sessions on socket pairs, their gateways, an accept factory, shared input/output I/O policies with idle and busy holders, and timer children of all of them; real clock, but only lower bounds and clock-independent facts are checked; oracle = never early / the time asked for / every serviced node with a pending request asked in every server cycle / reported wake-up not later than any such request / nothing lost (harness/pulse_srv_h.cpp)"}

    def nontrivial(self, case):
        body = case.split("|", 1)[1]
        return bool(re.search(r"(^|;)a\d", body)) and bool(re.search(r"(^|;)[CP]\d", body))

    def fail_key(self, f):
        sig = re.sub(r"^\d+ ", "", f.get("signature", ""))
        sig = re.sub(r"\{[^}]*\}", "{}", sig)
        sig = re.sub(r"\d+", "#", sig)
        return (f["kind"], sig)

    def distribution(self, sc):
        d = {}
        for s, c in sc:
            d["stream:" + s] = d.get("stream:" + s, 0) + 1
            head, body = c.split("|", 1)
            d["nodes:%d" % len(set(re.findall(r"(?:^|;)N(\d+)", body)))] = d.get("nodes:%d" % len(set(re.findall(r"(?:^|;)N(\d+)", body))), 0) + 1
            for o in body.split(";"):
                if o:
                    k = "op:" + o[0]
                    d[k] = d.get(k, 0) + 1
            d["callback-ops"] = d.get("callback-ops", 0) + len(re.findall(r"[~.,=]([ijarcx])\d", head))
        return d
