"""C19 -- a thread pool handles each client's Messages once, in order, one at a time
(system/ThreadPool.cpp/.h; the real pool with harness-gated handlers against the extracted LTS of Conc/TPool.v)."""
import os, re
import vlib


def gen_script(rng, nclients, length, p_shut, churn):
    """one operation script.  A light-weight guess of the state keeps most operations meaningful (submit to registered
    clients, complete handlers of clients that probably run one); a fraction is left wild on purpose."""
    ops = []
    reg = set()
    queued = {c: 0 for c in range(nclients)}
    # most clients register up front, some later, some never
    for c in range(nclients):
        if rng.random() < 0.75:
            ops.append("r:%d" % c); reg.add(c)
    shut = False
    for _ in range(length):
        r = rng.random()
        c = rng.randrange(nclients)
        if r < 0.40:
            if reg and rng.random() < 0.9:
                c = rng.choice(sorted(reg))
            ops.append("s:%d" % c); queued[c] += 1
            if rng.random() < 0.25:                       # a burst: submissions racing with a running handler
                for _ in range(rng.choice([1, 1, 2, 3])):
                    ops.append("s:%d" % c); queued[c] += 1
        elif r < 0.78:
            busy = [k for k in queued if queued[k] > 0]
            if busy and rng.random() < 0.9:
                c = rng.choice(busy)
            ops.append("g:%d" % c); queued[c] = max(0, queued[c] - 1)
        elif r < 0.78 + churn:
            if c in reg:
                ops.append("u:%d" % c); reg.discard(c)
            else:
                ops.append("r:%d" % c); reg.add(c)
        elif r < 0.78 + churn + p_shut and not shut:
            ops.append("x"); shut = True
        else:
            ops.append(rng.choice(["s:%d", "g:%d", "r:%d", "u:%d"]) % c)
    return ops


def gen_unreg_race(rng):
    """more busy clients than pool threads; clients submit again while one of their Messages is inside its handler
    (deferred) while other clients are pending; SetThreadPool(NULL) is issued while Messages are deferred / pending;
    then the handlers complete in a random order.  (The wake-up of a blocked UnregisterClient() must wait for the
    being-handled flag AND the pending queue AND the deferred queue.)"""
    maxt = rng.choice([1, 1, 2, 2, 3])
    nclients = rng.choice([3, 3, 4, 5])
    ops = ["r:%d" % c for c in range(nclients)]
    order = list(range(nclients)); rng.shuffle(order)
    for c in order:                                       # first wave: the first maxt clients get a thread, the rest wait
        ops.append("s:%d" % c)
    for _ in range(rng.choice([1, 2, 3, 4])):             # more work for clients that are being handled or pending
        ops.append("s:%d" % rng.choice(order))
    unreg = rng.sample(order, rng.choice([1, 1, 2]))
    for c in unreg:
        ops.append("u:%d" % c)
    for _ in range(rng.choice([4, 8, 12, 16])):
        r = rng.random()
        if r < 0.75:
            ops.append("g:%d" % rng.choice(order))
        elif r < 0.9:
            ops.append("s:%d" % rng.choice(order))
        else:
            c = rng.choice(order)
            ops.append(rng.choice(["u:%d", "r:%d"]) % c)
    return "n=%d|%s" % (maxt, ";".join(ops))


def gen_sched_case(rng):
    """stage 2: several user threads, each with its own clients, run concurrently under the controlled scheduler"""
    maxt = rng.choice([1, 1, 2, 2, 3])
    nut = rng.choice([2, 2, 3, 3, 4])
    progs, nextc = [], 0
    for ut in range(nut):
        mine = list(range(nextc, nextc + rng.choice([1, 1, 2]))); nextc += len(mine)
        mine = [c for c in mine if c < 8]
        ops, reg = [], set()
        for c in mine:
            if rng.random() < 0.85:
                ops.append("r:%d" % c); reg.add(c)
        for _ in range(rng.choice([2, 4, 6, 9])):
            if not mine:
                break
            c = rng.choice(mine)
            r = rng.random()
            if r < 0.70:
                ops.append("s:%d" % c)
                if rng.random() < 0.3:
                    ops.append("s:%d" % c)
            elif r < 0.85:
                ops.append(("u:%d" if c in reg else "r:%d") % c)
                reg.symmetric_difference_update({c})
            else:
                ops.append(rng.choice(["r:%d", "u:%d", "s:%d"]) % c)
        if ut == 0 and rng.random() < 0.12:
            ops.insert(rng.randrange(len(ops) + 1), "x")
        progs.append(["%d:%s" % (ut, o) for o in ops])
    body, idx, live = [], [0] * nut, [t for t in range(nut) if progs[t]]
    while live:                      # only the per-thread order matters; interleaving the text lets a shrinker drop ops of any thread
        t = rng.choice(live)
        body.append(progs[t][idx[t]]); idx[t] += 1
        if idx[t] >= len(progs[t]):
            live.remove(t)
    seed = "-" if rng.random() < 0.08 else str(rng.randint(1, 10 ** 9))
    return "sched,n=%d,bar=%d,seed=%s,sch=|%s" % (maxt, 1 if rng.random() < 0.7 else 0, seed, ";".join(body))


SCHED_DIRECTED = [
    "sched,n=1,bar=1,seed=%d,sch=|0:r:0;1:r:1;0:s:0;0:s:0;1:s:1;0:u:0;1:s:1",          # the unregister-vs-pending scenario, every interleaving the seed picks
    "sched,n=1,bar=1,seed=%d,sch=|0:r:0;1:r:1;2:r:2;0:s:0;1:s:1;2:s:2;0:s:0;1:s:1;2:s:2",
    "sched,n=2,bar=0,seed=%d,sch=|0:r:0;1:r:1;2:r:2;0:s:0;1:s:1;2:s:2;1:s:1;2:s:2;1:u:1;0:x",   # shutdown racing with submissions and an unregister
    "sched,n=2,bar=1,seed=%d,sch=|0:r:0;0:s:0;0:u:0;0:r:0;0:s:0;1:r:1;1:s:1;1:s:1;1:u:1;1:r:1;1:s:1",
    "sched,n=3,bar=1,seed=%d,sch=|0:r:0;1:r:1;0:s:0;1:s:1;0:s:0;1:s:1;0:s:0;1:s:1",
]


EXPLORE = [
    # (case, preemption bound quick, bound thorough): every schedule up to the bound (support for the tie, never the theorem)
    ("sched,n=1,bar=1,seed=-,sch=|0:r:0;1:r:1;0:s:0;0:s:0;1:s:1;0:u:0", 1, 2),          # deferred + pending + blocked unregister
    ("sched,n=1,bar=0,seed=-,sch=|0:r:0;1:r:1;0:s:0;1:s:1;1:s:1", 1, 2),                # Shutdown() racing with submissions
    ("sched,n=2,bar=1,seed=-,sch=|0:r:0;1:r:1;0:s:0;1:s:1;0:s:0;1:u:1;1:r:1;1:s:1", 1, 2),
    ("sched,n=2,bar=1,seed=-,sch=|0:r:0;1:r:1;2:r:2;0:s:0;1:s:1;2:s:2", 0, 1),
]


def assertion_of(text):
    """the MASSERT that fired, if any: 'ASSERTION FAILED: (ThreadPool.cpp:144) ThreadPoolThread::...: _currentClient isn't NULL!'"""
    m = re.search(r"ASSERTION FAILED: \(([^):]*/)?([^):/]+):(\d+)\) ([^\n]*)", text or "")
    return ("ASSERTION FAILED (%s:%s) %s" % (m.group(2), m.group(3), m.group(4).strip()))[:200] if m else None


def thread_hooks_present():
    try:
        return "MUSCLE_VERIF_THREAD_START" in open(os.path.join(vlib.REPO, "system", "Thread.cpp")).read()
    except OSError:
        return False


DIRECTED = [
    # (maxThreads, script)
    (1, "r:0;r:1;s:0;s:0;s:1;u:0;g:0;g:1;g:0"),                          # A deferred + B pending + A unregistering: the freed thread takes B, A must keep waiting
    (1, "r:0;r:1;r:2;s:0;s:1;s:2;s:0;s:0;u:0;g:0;g:1;g:2;g:0;g:0"),
    (2, "r:0;r:1;r:2;r:3;s:0;s:1;s:2;s:3;s:0;s:1;u:0;u:1;g:0;g:1;g:2;g:3;g:0;g:1"),
    (2, "r:0;r:1;r:2;s:0;s:1;s:2;s:2;s:0;u:0;g:0;g:1;g:2;g:0;g:2"),
    (1, "r:0;r:1;s:0;s:1;s:1;u:1;g:0;g:1;g:1"),                          # unregistering client is only pending, never yet handled
    (1, "r:0;s:0;s:0;s:0;g:0;g:0;g:0"),                                  # deferred while handled, promoted on finish
    (1, "r:0;r:1;r:2;s:0;s:1;s:2;s:1;g:0;g:1;g:2;g:1"),                  # one thread, three clients: pending FIFO over clients
    (2, "r:0;r:1;r:2;s:0;s:1;s:2;s:0;g:1;g:0;g:2;g:0"),                  # pool smaller than the client count
    (4, "r:0;r:1;s:0;s:1;s:0;s:1;g:0;g:1;g:0;g:1"),                      # pool larger than the client count
    (2, "r:0;s:0;u:0;s:0;g:0;r:0;s:0;g:0"),                              # unregister waits for the running handler; submissions during it are skipped
    (2, "r:0;s:0;s:0;s:0;u:0;g:0;g:0;g:0"),                              # unregister waits for deferred Messages too
    (1, "r:0;r:1;s:0;s:1;u:1;g:0;g:1"),                                  # unregister of a client that is still only pending
    (2, "r:0;u:0;r:0;s:0;g:0;u:0"),                                      # unregister with nothing outstanding returns at once
    (2, "r:0;r:1;s:0;s:1;s:0;x;s:0;g:0;g:1;g:0"),                        # shutdown with two running batches
    (2, "r:0;r:1;s:0;g:0;s:1;g:1;x;s:0;r:2;s:2;u:2"),                    # shutdown with idle threads only; use of the dead pool afterwards
    (1, "r:0;r:1;s:0;s:1;s:1;u:1;x;g:0"),                                # shutdown releases a waiting unregister
    (3, "r:0;r:1;r:2;s:0;s:0;s:1;s:1;s:2;s:2;g:2;g:2;g:1;g:1;g:0;g:0"),
    (1, "s:0;r:0;s:0;g:0;u:0;s:0"),                                      # unregistered client: B_BAD_OBJECT
    (2, "r:0;s:0;g:0;s:0;g:0;s:0;g:0"),                                  # the same thread is reused (last available)
    (3, "r:0;r:1;r:2;s:0;s:1;s:2;g:0;g:1;g:2;s:2;s:1;s:0;g:0;g:1;g:2"),  # hottest-thread choice after all three became available
    (2, "r:0;r:1;r:2;r:3;s:0;s:1;s:2;s:3;s:2;g:0;g:2;g:1;g:3;g:2"),      # finish -> promote -> re-dispatch order
]


class CHECK(vlib.Check):
    prop = "C19"
    prop_file = "Properties_C19.v"
    model = ("Conc/TPoolExtract.v", "tpool_driver.ml", "tpool", ("ocommon.ml",))
    harness = dict(name="tpool", src="tpool_h.cpp", san="asan", link_lib=True)
    modelled = ("system/ThreadPool.cpp/.h as a labelled transition system with one transition per _poolLock critical section: "
                "RegisterClient, SendMessageToThreadPool (pending vs deferred by the being-handled flag, dispatch when the queue "
                "becomes non-empty), DispatchPendingMessagesUnsafe (first pending client, demand-allocation of a thread while "
                "_activeThreads < _maxThreadCount, choice of the LAST available thread, MoveToTable, hand-over of the queue, "
                "RemoveFirst, the 'nothing to do' branch), ThreadFinishedProcessingClientMessages (flag reset, deferred->pending "
                "promotion by SwapContents, thread back to _availableThreads, re-dispatch, notification of a waiting "
                "UnregisterClient), UnregisterClient (first section / Wait / final section), Shutdown (flag, the two "
                "SwapContents sections per round, ShutdownInternalThread per swapped-out thread, final section with its "
                "notifications), IThreadPoolClient::SetThreadPool/SendMessageToThreadPool wrappers (_threadPool pointer, incl. the "
                "submission whose unsynchronised pointer test preceded Shutdown's final section), ThreadPoolThread's batch loop "
                "(handler entry/return per Message with numLeft, _currentClient, _internalQueue), every MASSERT of the file as a "
                "flag.  Tables keep muscle::Hashtable's insertion order.  Not modelled: out-of-memory and thread-start failure "
                "branches, the internals of Thread (owner->thread Message queue, signalling; that is C11), Mutex and WaitCondition "
                "(premises).")
    premises = ["every ThreadPool method that touches the tables holds _poolLock for its whole body, so one transition = one critical section (Mutex semantics are a premise; DESIGN.md 5.3)",
                "a pool thread that was handed a batch does call the handler for each Message and then ThreadFinishedProcessingClientMessages, and ShutdownInternalThread() returns once the thread has finished its batch (Thread's own queue/signalling is property C11: shutdown_completes); exercised on the real Threads by the scheduled runs of stage 2",
                "the owner of a client does not call SendMessageToThreadPool()/SetThreadPool() on it while a SetThreadPool() on that client is in progress (IThreadPoolClient::_threadPool is unsynchronised; documented requirement): in the model those labels are not enabled then",
                "handlers return (liveness is proved in its safety form: a transition that lowers a measure is enabled and nobody can disable it)",
                "Shutdown() drops whatever is still queued and wakes blocked un-registrations: 'exactly once' and 'unregister waits' are stated for runs in which Shutdown()'s final section has not run (the prefix/at-most-once/order and seriality parts hold unconditionally)",
                "Shutdown() is private: it runs only in ~ThreadPool() and in FlushCachedObjects() (the SetupSystem destructor). Calling into a pool or its clients concurrently with, or after, either of them is outside the documented contract (an object being destroyed / muscle after SetupSystem); the two behaviours seen there -- a Send/SetThreadPool whose unsynchronised _threadPool test preceded Shutdown's final section, and a dead pool that still registers clients and accepts Messages it will never dispatch, so that an unregister on it would block for ever -- are modelled (LSubmitStale, the stale form of LUnregBegin, ex_dead_pool_accepts_and_strands) and were judged NOT to violate C19's statement: inside the contract un-registration returns only after everything was handled and Shutdown() terminates (C19_unregister_waits, C19_shutdown_no_deadlock)",
                "memory allocation and thread creation do not fail; _threadIDCounter does not wrap"]
    rule = ("stage 1: each case = a pool size 1..4 (below and above the number of clients) and a script over up to 5 clients of "
            "register / submit / let-the-running-handler-return / unregister / Shutdown; handlers are gated by the harness so the "
            "script fixes the order of completions relative to submissions; after EVERY operation the result, the handler events "
            "(client, Message, pool thread id, numLeft) and the whole protected state (_shuttingDown, _threadIDCounter, "
            "_availableThreads, _activeThreads, _registeredClients with flags, _pendingMessages, _deferredMessages, "
            "_waitingForCompletion in table order, the clients' _threadPool, each running thread's _currentClient and "
            "_internalQueue) are compared with the extracted LTS, and finally every client's complete handled sequence.  "
            "stage 2 (stream 'sched', when system/Thread.cpp carries the scheduler hooks): 2..4 user threads with their own "
            "clients run concurrently with the pool's real Threads under the controlled scheduler (seeded random / non-preemptive "
            "decisions at every _poolLock acquisition, handler, Wait(), spawn and join); the observed sequence of critical "
            "sections and handler entries/returns must be accepted label by label by the extracted LTS (trace acceptance) and the "
            "state dumped after every critical section must equal the model's.  In both stages the harness's own oracle "
            "(independent of the model) checks order/at-most-once/nothing-lost, no overlapping handlers per client, the thread "
            "limit, work conservation (stage 1), unregister-returns-only-after-all-handled, termination of Shutdown()/unregister "
            "(watchdog / scheduler deadlock detector).  Non-trivial = at least two clients submit, some client submits at least "
            "twice and at least two handlers complete (stage 1) / two user threads submit (stage 2).")
    quick_timeout = 1200

    # ---- stage 2: the real pool under the controlled scheduler, its event trace replayed by the extracted LTS ----
    def build(self):
        impl, model = super().build()
        self._model = model
        self._sched = None
        if thread_hooks_present():
            self._sched = vlib.build_harness(name="tpoolsched", src="tpool_sched_h.cpp", san="asan", link_lib=True,
                                             extra_srcs=[os.path.join(vlib.VERIF, "harness", "sched", "sched.cpp")])
        return impl, model

    def run_sched_harness(self, cases, timeout):
        """-> {k: [lines]} ; a crash on case k is recorded and the run resumes with case k+1"""
        import time
        out, crashes, off, restarts = {}, [], 0, 0
        t_end = time.time() + timeout
        while off < len(cases) and restarts < 20 and time.time() < t_end:
            rc, lines, err = vlib.run_lines(self._sched, "".join(c + "\n" for c in cases[off:]), max(5, t_end - time.time()))
            for l in lines:
                sp = l.split(" ", 1)
                if sp[0].isdigit():
                    out.setdefault(int(sp[0]) + off, []).append(sp[1] if len(sp) > 1 else "")
            done = [k for k in range(off, len(cases)) if any(x.startswith("SCH ") for x in out.get(k, []))]
            nxt = (max(done) + 1) if done else off
            if nxt >= len(cases):
                break
            what = assertion_of(err) or assertion_of("\n".join(lines[-40:])) or ("timeout/hang" if rc == 124 else vlib.san_summary(err))
            crashes.append({"k": nxt, "what": what, "stderr": err[-2500:]})
            off = nxt + 1
            restarts += 1
        return out, crashes

    def eval_sched(self, cases, timeout):
        """run scheduled cases on the real pool, let the model replay the observed events; -> (failures, stats)"""
        failures = []
        out, crashes = self.run_sched_harness(cases, timeout)
        for c in crashes:
            failures.append({"kind": "crash", "signature": "crash: " + c["what"], "case": cases[c["k"]], "detail": c})
        rin, n_ev, n_dec = [], 0, 0
        for k, c in enumerate(cases):
            evs = [l.split(" ", 2)[2].split(" ", 1)[0] for l in out.get(k, []) if l.startswith("EV ")]
            n_ev += len(evs)
            rin.append("%s|%s" % (re.search(r"n=\d+", c).group(0), ";".join(evs)))
        rc, mlines, merr = vlib.run_lines(self._model, "".join(r + "\n" for r in rin), 900, env={"TPOOL_MODE": "replay"})
        mod = {}
        for l in mlines:
            sp = l.split(" ", 1)
            if sp[0].isdigit():
                mod.setdefault(int(sp[0]), []).append(sp[1] if len(sp) > 1 else "")
        crashed = {c["k"] for c in crashes}
        for k, c in enumerate(cases):
            h = out.get(k)
            if h is None or k in crashed:
                continue
            sch = [l[4:] for l in h if l.startswith("SCH ")]
            n_dec += len(sch[0].split(",")) if sch and sch[0] else 0
            exact = re.sub(r"sch=[^|]*", "sch=" + (sch[0].replace(",", ".") if sch else ""), c, count=1)   # replays exactly
            for l in h:
                if l.startswith("ORACLE"):
                    failures.append({"kind": "oracle", "signature": l, "case": exact, "detail": {"oracle": l, "impl": h[-12:]}})
            if ",fine=1" in c.split("|", 1)[0]:
                continue      # fine-grained decisions: events of different threads overlap inside critical sections; oracle and crashes only
            hh = [re.sub(r"^END \S+ ?", "END ", l).rstrip() for l in h if l.startswith("EV ") or l.startswith("END ")]
            mm = [l.rstrip() for l in mod.get(k, []) if l.startswith("EV ") or l.startswith("END ")]
            for l in mod.get(k, []):
                if l.startswith("ORACLE"):
                    failures.append({"kind": "oracle", "signature": l, "case": exact, "detail": {"oracle": l}})
            if hh != mm:
                first = next((i for i in range(min(len(hh), len(mm))) if hh[i] != mm[i]), min(len(hh), len(mm)))
                failures.append({"kind": "correspondence", "signature": "model/impl disagree (scheduled run: trace not accepted or state differs)",
                                 "case": exact, "detail": {"first_difference_at": first,
                                                            "impl": hh[max(0, first - 2):first + 3], "model": mm[max(0, first - 2):first + 3]}})
        return failures, {"cases": len(cases), "pool_events_replayed_by_the_model": n_ev, "scheduler_decisions": n_dec, "crashes": len(crashes)}

    def shrink_sched(self, failures, budget_s=150, limit=4):
        """stage-2 shrinker: drop operations (the explicit schedule is kept and applied tolerantly: entries that are no longer
        enabled are skipped, the seed policy continues), then shorten the explicit schedule, as long as a failure with the SAME
        key (same oracle line up to client numbers / same crash signature / same kind of disagreement) persists; the result is
        re-run once more so that the replay carries the exact schedule of the shrunk case"""
        import time
        t_end = time.time() + budget_s
        order = {"oracle": 0, "crash": 1, "correspondence": 2}
        done = set()
        for f in sorted(failures, key=lambda f: order.get(f["kind"], 9)):
            key = self.fail_key(f)
            if key in done or len(done) >= limit or time.time() > t_end:
                continue
            done.add(key)

            def find(c):
                if time.time() > t_end:
                    return None
                fs, _ = self.eval_sched([c], 60)
                for g in fs:
                    if self.fail_key(g) == key:
                        return g
                return None
            cur, best = f["case"], None
            small = vlib.shrink_case(cur, lambda c: find(c) is not None, max_steps=200)
            head, body = small.split("|", 1)
            m = re.search(r"sch=([^,|]*)", head)
            sch = [x for x in (m.group(1).split(".") if m else []) if x]
            n = len(sch)
            while n > 0 and time.time() < t_end:       # shorter and shorter prefixes of the schedule; the rest is decided by the seed policy
                n //= 2
                cand = re.sub(r"sch=[^,|]*", "sch=" + ".".join(sch[:n]), head, count=1) + "|" + body
                if find(cand) is not None:
                    sch = sch[:n]
                else:
                    break
            cand = re.sub(r"sch=[^,|]*", "sch=" + ".".join(sch), head, count=1) + "|" + body
            g = find(cand)
            if g is None:
                g = find(small)
            if g is not None and g["case"] != f["case"]:
                f["original_case"] = f["case"]
                f["case"], f["detail"], f["signature"] = g["case"], g["detail"], g["signature"]

    def extra_stage(self, ctx):
        cases = [c for c in ctx["cases"] if c.startswith("sched,")]
        cov = ctx.setdefault("extra_coverage", {})
        if not cases:
            cov["stage2_scheduler"] = ("not run: system/Thread.cpp of this tree has no MUSCLE_VERIF_HOOKS yield points "
                                       "(the stage runs automatically when they are there)")
            return
        if not getattr(self, "_sched", None):
            ctx["failures"].append({"kind": "build", "signature": "sched harness not built", "case": cases[0], "detail": ""})
            return
        failures, stats = self.eval_sched(cases, 1500 if ctx["tier"] == "quick" else 6000)
        if failures and os.environ.get("VERIF_NO_SHRINK") != "1":
            self.shrink_sched(failures)
        ctx["failures"].extend(failures)
        cov["stage2_scheduler"] = stats

    def gen_cases(self, rng, tier):
        out = []
        if getattr(self, "_sched", None) or (not hasattr(self, "_sched") and thread_hooks_present()):
            for i in range(250 if tier == "quick" else 1200):
                out.append(("sched", gen_sched_case(rng)))
            for body in SCHED_DIRECTED:
                for _ in range(8 if tier == "quick" else 60):
                    out.append(("sched", body % rng.randint(1, 10 ** 9)))
            for i in range(60 if tier == "quick" else 400):
                # every mutex acquisition and every signal is a decision point (the pool thread may run between the steps of a
                # critical section of the dispatcher): oracle and MASSERTs only, no trace acceptance
                c = gen_sched_case(rng)
                out.append(("sched-fine", c.replace(",seed=", ",fine=1,seed=", 1)))
            if getattr(self, "_sched", None) and not getattr(self, "_explore_emitted", False):
                import subprocess
                env = dict(os.environ); env.update(vlib.SAN_ENV)
                for (line, bq, bt) in EXPLORE:
                    bound, cap = (bq, 150) if tier == "quick" else (bt, 1500)
                    try:
                        p = subprocess.run([self._sched, "--explore", str(bound), str(cap)], input=line + "\n", stdout=subprocess.PIPE,
                                           stderr=subprocess.PIPE, text=True, env=env, timeout=1200)
                        out += [("sched-exhaustive", l) for l in p.stdout.splitlines() if l.startswith("sched,")]
                    except subprocess.TimeoutExpired:
                        pass
                self._explore_emitted = True
        n = 900 if tier == "quick" else 5000
        for i in range(n):
            nclients = rng.choice([1, 2, 2, 3, 3, 4, 4])
            maxt = rng.choice([1, 1, 2, 2, 3, 4])
            length = rng.choice([6, 10, 16, 24, 40])
            p_shut = 0.0 if i % 4 else 0.04
            churn = rng.choice([0.0, 0.04, 0.10])
            stream = "shutdown" if p_shut else ("churn" if churn else "steady")
            out.append((stream, "n=%d|%s" % (maxt, ";".join(gen_script(rng, nclients, length, p_shut, churn)))))
        for i in range(300 if tier == "quick" else 1500):
            out.append(("unreg-race", gen_unreg_race(rng)))
        for (maxt, body) in DIRECTED:
            out.append(("directed", "n=%d|%s" % (maxt, body)))
            for m2 in (1, 2, 3):
                if m2 != maxt:
                    out.append(("directed", "n=%d|%s" % (m2, body)))
        return out

    def fail_key(self, f):
        # group (and shrink) by WHAT fails, not by the client number or the Message ids in the detail text
        import re
        sig = f.get("signature", "")
        sig = re.sub(r" (handled|accepted)=\S*", "", sig)
        sig = re.sub(r"\bc\d+\b", "c#", sig)
        return (f["kind"], re.sub(r"^\d+ ", "", sig))

    def signature(self, f):
        # a crash caused by a MASSERT names the assertion (muscle logs it; the harnesses send the log to stderr)
        if f.get("kind") == "crash":
            d = f.get("detail") or {}
            a = assertion_of(d.get("stderr", "") if isinstance(d, dict) else "")
            if a and a not in f.get("signature", ""):
                return "crash: " + a
        return f.get("signature") or "disagree"

    def nontrivial(self, case):
        body = case.split("|", 1)[1]
        sched = case.startswith("sched,")
        if sched:
            body = ";".join(o.split(":", 1)[1] for o in body.split(";") if ":" in o)
        ops = [o for o in body.split(";") if o]
        subs = [o for o in ops if o.startswith("s:")]
        per = {}
        for o in subs:
            per[o] = per.get(o, 0) + 1
        if len(per) < 2 or max(per.values()) < 2:
            return False
        return sched or sum(1 for o in ops if o.startswith("g:")) >= 2

    def distribution(self, sc):
        d = {}
        for s, c in sc:
            d["stream:" + s] = d.get("stream:" + s, 0) + 1
            head, body = c.split("|", 1)
            if c.startswith("sched,"):
                head = re.search(r"n=\d+", head).group(0)
                d["sched-threads:%d" % len({o.split(":")[0] for o in body.split(";") if o})] = d.get("sched-threads:%d" % len({o.split(":")[0] for o in body.split(";") if o}), 0) + 1
                body = ";".join(o.split(":", 1)[1] for o in body.split(";") if ":" in o)
            d["pool:" + head] = d.get("pool:" + head, 0) + 1
            ops = [o for o in body.split(";") if o]
            cl = {o.split(":")[1] for o in ops if ":" in o}
            d["clients:%d" % len(cl)] = d.get("clients:%d" % len(cl), 0) + 1
            for o in ops:
                k = "op:" + o.split(":")[0]
                d[k] = d.get(k, 0) + 1
        return d
