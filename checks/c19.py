"""C19 -- a thread pool handles each client's Messages once, in order, one at a time
(system/ThreadPool.cpp/.h; the real pool with harness-gated handlers against the extracted LTS of Conc/TPool.v)."""
import vlib


def gen_script(rng, nclients, length, p_shut, churn):
    """one operation script.  A light-weight guess of the state keeps most operations meaningful (submit to registered
    clients, complete handlers of clients that probably run one); a fraction is left wild on purpose."""
    ops = []
    reg = set()
    queued = {c: 0 for c in range(nclients)}
    # most clients register up front, some later, some never
    for c in range(nclients):
        if rng.random() < 0.75:
            ops.append("r:%d" % c); reg.add(c)
    shut = False
    for _ in range(length):
        r = rng.random()
        c = rng.randrange(nclients)
        if r < 0.40:
            if reg and rng.random() < 0.9:
                c = rng.choice(sorted(reg))
            ops.append("s:%d" % c); queued[c] += 1
            if rng.random() < 0.25:                       # a burst: submissions racing with a running handler
                for _ in range(rng.choice([1, 1, 2, 3])):
                    ops.append("s:%d" % c); queued[c] += 1
        elif r < 0.78:
            busy = [k for k in queued if queued[k] > 0]
            if busy and rng.random() < 0.9:
                c = rng.choice(busy)
            ops.append("g:%d" % c); queued[c] = max(0, queued[c] - 1)
        elif r < 0.78 + churn:
            if c in reg:
                ops.append("u:%d" % c); reg.discard(c)
            else:
                ops.append("r:%d" % c); reg.add(c)
        elif r < 0.78 + churn + p_shut and not shut:
            ops.append("x"); shut = True
        else:
            ops.append(rng.choice(["s:%d", "g:%d", "r:%d", "u:%d"]) % c)
    return ops


def gen_unreg_race(rng):
    """more busy clients than pool threads; clients submit again while one of their Messages is inside its handler
    (deferred) while other clients are pending; SetThreadPool(NULL) is issued while Messages are deferred / pending;
    then the handlers complete in a random order.  (The wake-up of a blocked UnregisterClient() must wait for the
    being-handled flag AND the pending queue AND the deferred queue.)"""
    maxt = rng.choice([1, 1, 2, 2, 3])
    nclients = rng.choice([3, 3, 4, 5])
    ops = ["r:%d" % c for c in range(nclients)]
    order = list(range(nclients)); rng.shuffle(order)
    for c in order:                                       # first wave: the first maxt clients get a thread, the rest wait
        ops.append("s:%d" % c)
    for _ in range(rng.choice([1, 2, 3, 4])):             # more work for clients that are being handled or pending
        ops.append("s:%d" % rng.choice(order))
    unreg = rng.sample(order, rng.choice([1, 1, 2]))
    for c in unreg:
        ops.append("u:%d" % c)
    for _ in range(rng.choice([4, 8, 12, 16])):
        r = rng.random()
        if r < 0.75:
            ops.append("g:%d" % rng.choice(order))
        elif r < 0.9:
            ops.append("s:%d" % rng.choice(order))
        else:
            c = rng.choice(order)
            ops.append(rng.choice(["u:%d", "r:%d"]) % c)
    return "n=%d|%s" % (maxt, ";".join(ops))


DIRECTED = [
    # (maxThreads, script)
    (1, "r:0;r:1;s:0;s:0;s:1;u:0;g:0;g:1;g:0"),                          # A deferred + B pending + A unregistering: the freed thread takes B, A must keep waiting
    (1, "r:0;r:1;r:2;s:0;s:1;s:2;s:0;s:0;u:0;g:0;g:1;g:2;g:0;g:0"),
    (2, "r:0;r:1;r:2;r:3;s:0;s:1;s:2;s:3;s:0;s:1;u:0;u:1;g:0;g:1;g:2;g:3;g:0;g:1"),
    (2, "r:0;r:1;r:2;s:0;s:1;s:2;s:2;s:0;u:0;g:0;g:1;g:2;g:0;g:2"),
    (1, "r:0;r:1;s:0;s:1;s:1;u:1;g:0;g:1;g:1"),                          # unregistering client is only pending, never yet handled
    (1, "r:0;s:0;s:0;s:0;g:0;g:0;g:0"),                                  # deferred while handled, promoted on finish
    (1, "r:0;r:1;r:2;s:0;s:1;s:2;s:1;g:0;g:1;g:2;g:1"),                  # one thread, three clients: pending FIFO over clients
    (2, "r:0;r:1;r:2;s:0;s:1;s:2;s:0;g:1;g:0;g:2;g:0"),                  # pool smaller than the client count
    (4, "r:0;r:1;s:0;s:1;s:0;s:1;g:0;g:1;g:0;g:1"),                      # pool larger than the client count
    (2, "r:0;s:0;u:0;s:0;g:0;r:0;s:0;g:0"),                              # unregister waits for the running handler; submissions during it are skipped
    (2, "r:0;s:0;s:0;s:0;u:0;g:0;g:0;g:0"),                              # unregister waits for deferred Messages too
    (1, "r:0;r:1;s:0;s:1;u:1;g:0;g:1"),                                  # unregister of a client that is still only pending
    (2, "r:0;u:0;r:0;s:0;g:0;u:0"),                                      # unregister with nothing outstanding returns at once
    (2, "r:0;r:1;s:0;s:1;s:0;x;s:0;g:0;g:1;g:0"),                        # shutdown with two running batches
    (2, "r:0;r:1;s:0;g:0;s:1;g:1;x;s:0;r:2;s:2;u:2"),                    # shutdown with idle threads only; use of the dead pool afterwards
    (1, "r:0;r:1;s:0;s:1;s:1;u:1;x;g:0"),                                # shutdown releases a waiting unregister
    (3, "r:0;r:1;r:2;s:0;s:0;s:1;s:1;s:2;s:2;g:2;g:2;g:1;g:1;g:0;g:0"),
    (1, "s:0;r:0;s:0;g:0;u:0;s:0"),                                      # unregistered client: B_BAD_OBJECT
    (2, "r:0;s:0;g:0;s:0;g:0;s:0;g:0"),                                  # the same thread is reused (last available)
    (3, "r:0;r:1;r:2;s:0;s:1;s:2;g:0;g:1;g:2;s:2;s:1;s:0;g:0;g:1;g:2"),  # hottest-thread choice after all three became available
    (2, "r:0;r:1;r:2;r:3;s:0;s:1;s:2;s:3;s:2;g:0;g:2;g:1;g:3;g:2"),      # finish -> promote -> re-dispatch order
]


class CHECK(vlib.Check):
    prop = "C19"
    prop_file = "Properties_C19.v"
    model = ("Conc/TPoolExtract.v", "tpool_driver.ml", "tpool", ("ocommon.ml",))
    harness = dict(name="tpool", src="tpool_h.cpp", san="asan", link_lib=True)
    modelled = ("system/ThreadPool.cpp/.h as a labelled transition system with one transition per _poolLock critical section: "
                "RegisterClient, SendMessageToThreadPool (pending vs deferred by the being-handled flag, dispatch when the queue "
                "becomes non-empty), DispatchPendingMessagesUnsafe (first pending client, demand-allocation of a thread while "
                "_activeThreads < _maxThreadCount, choice of the LAST available thread, MoveToTable, hand-over of the queue, "
                "RemoveFirst, the 'nothing to do' branch), ThreadFinishedProcessingClientMessages (flag reset, deferred->pending "
                "promotion by SwapContents, thread back to _availableThreads, re-dispatch, notification of a waiting "
                "UnregisterClient), UnregisterClient (first section / Wait / final section), Shutdown (flag, the two "
                "SwapContents sections, ShutdownInternalThread per swapped-out thread, final section with its notifications), "
                "IThreadPoolClient::SetThreadPool/SendMessageToThreadPool wrappers (_threadPool pointer), ThreadPoolThread's "
                "batch loop (handler entry/return per Message with numLeft, _currentClient, _internalQueue), every MASSERT of the "
                "file as a flag.  Tables keep muscle::Hashtable's insertion order.  Not modelled: out-of-memory and thread-start "
                "failure branches, the internals of Thread (owner->thread Message queue, signalling; that is C11), Mutex and "
                "WaitCondition (premises).")
    premises = ["every ThreadPool method that touches the tables holds _poolLock for its whole body, so one transition = one critical section (Mutex semantics are a premise; DESIGN.md 5.3)",
                "a pool thread that was handed a batch does call the handler for each Message and then ThreadFinishedProcessingClientMessages, and ShutdownInternalThread() returns once the thread has finished its batch (Thread's own queue/signalling is property C11: shutdown_completes)",
                "the owner of a client does not call SendMessageToThreadPool()/SetThreadPool() on it while a SetThreadPool() on that client is in progress (IThreadPoolClient::_threadPool is unsynchronised; documented requirement)",
                "handlers return (liveness is proved in its safety form: an enabled transition exists and a measure decreases)",
                "memory allocation and thread creation do not fail; _threadIDCounter does not wrap"]
    rule = ("each case = a pool size 1..4 (below and above the number of clients) and a script over up to 4 clients of register / "
            "submit / let-the-running-handler-return / unregister / Shutdown; handlers are gated by the harness so the script "
            "fixes the order of completions relative to submissions; after EVERY operation the result, the handler events "
            "(client, Message, pool thread id, numLeft) and the whole protected state (_shuttingDown, _threadIDCounter, "
            "_availableThreads, _activeThreads, _registeredClients with flags, _pendingMessages, _deferredMessages, "
            "_waitingForCompletion in table order, the clients' _threadPool, each running thread's _currentClient and "
            "_internalQueue) are compared with the extracted LTS, and finally every client's complete handled sequence.  "
            "Non-trivial = at least two clients submit, some client submits at least twice and at least two handlers complete.")
    quick_timeout = 1200

    def gen_cases(self, rng, tier):
        out = []
        n = 900 if tier == "quick" else 9000
        for i in range(n):
            nclients = rng.choice([1, 2, 2, 3, 3, 4, 4])
            maxt = rng.choice([1, 1, 2, 2, 3, 4])
            length = rng.choice([6, 10, 16, 24, 40])
            p_shut = 0.0 if i % 4 else 0.04
            churn = rng.choice([0.0, 0.04, 0.10])
            stream = "shutdown" if p_shut else ("churn" if churn else "steady")
            out.append((stream, "n=%d|%s" % (maxt, ";".join(gen_script(rng, nclients, length, p_shut, churn)))))
        for i in range(300 if tier == "quick" else 3000):
            out.append(("unreg-race", gen_unreg_race(rng)))
        for (maxt, body) in DIRECTED:
            out.append(("directed", "n=%d|%s" % (maxt, body)))
            for m2 in (1, 2, 3):
                if m2 != maxt:
                    out.append(("directed", "n=%d|%s" % (m2, body)))
        return out

    def fail_key(self, f):
        # group (and shrink) by WHAT fails, not by the client number or the Message ids in the detail text
        import re
        sig = f.get("signature", "")
        sig = re.sub(r" (handled|accepted)=\S*", "", sig)
        sig = re.sub(r"\bc\d+\b", "c#", sig)
        return (f["kind"], re.sub(r"^\d+ ", "", sig))

    def nontrivial(self, case):
        body = case.split("|", 1)[1]
        ops = [o for o in body.split(";") if o]
        subs = [o for o in ops if o.startswith("s:")]
        per = {}
        for o in subs:
            per[o] = per.get(o, 0) + 1
        return len(per) >= 2 and max(per.values()) >= 2 and sum(1 for o in ops if o.startswith("g:")) >= 2

    def distribution(self, sc):
        d = {}
        for s, c in sc:
            d["stream:" + s] = d.get("stream:" + s, 0) + 1
            head, body = c.split("|", 1)
            d["pool:" + head] = d.get("pool:" + head, 0) + 1
            ops = [o for o in body.split(";") if o]
            cl = {o.split(":")[1] for o in ops if ":" in o}
            d["clients:%d" % len(cl)] = d.get("clients:%d" % len(cl), 0) + 1
            for o in ops:
                k = "op:" + o.split(":")[0]
                d[k] = d.get(k, 0) + 1
        return d
