"""C01 -- Message serialisation round-trips exactly and its size is exact (message/Message.cpp).

Script grammar (one case per line, `head|op;op;...`; head `m` = inside the property's domain, `n` = Strings
with embedded NUL bytes, the F9 domain boundary, `g` = Messages parsed from mutated bytes (parser model only); names and values are hex so that the generic shrinker can
drop any op):
  w:R:WHAT                    set the what-code of register R (8 Message registers, R = 0..7)
  a:R:NAME:T:VAL  p:R:...     Add<T> / Prepend<T>;  T = b c h i l f d (bool,int8,16,32,64,float,double)
                              P R (Point,Rect)  s (String)  X (AddFlat(ByteBuffer) / ReplaceData, B_RAW_TYPE)
                              F (AddFlat / PrependFlat / ReplaceFlat of a ByteBuffer, B_RAW_TYPE)
                              x<code> (AddData with an arbitrary type code)  o (pointer)  g (tag)
  am:R:NAME:S  pm:R:NAME:S    AddMessage / PrependMessage of a deep copy of register S
  r:R:NAME:IDX:T:VAL:OKADD    Replace<T>(okayToAdd, name, idx, val);  rm:R:NAME:IDX:S:OKADD ReplaceMessage
  x:R:NAME:IDX  xn:R:NAME     RemoveData / RemoveName;   rn:R:OLD:NEW  Rename;  cl:R  Clear;  cp:R:S  R = S
  mf:R:NAME  mb:R:NAME        MoveNameToFront / MoveNameToBack;   cn:R:OLD:NEW  CopyName(old, same Message, new)
  u:R                         R = UnflattenFromBytes(Flatten(R))   (continue operating on a parsed Message)
  um:R:SEED                   R = UnflattenFromBytes(mutate(Flatten(R), SEED)) if that parses (head `g` only: malformed stream)
  ct:R:S                      R = CreateMessageTemplate(S);   tm:SEED  also parse mutated templated bytes (head `t` only:
                              at the end register 0 is TemplatedFlatten'ed against the template in register 1 and parsed back)
Observed on register 0 (and 1 for the equality pair) after the script.
"""
import struct
import vlib

B = dict(RAW=1380013908, INT32=1280265799, MESSAGE=1297303367, STRING=1129534546, TAG=1297367367, BOOL=1112493900,
         POINTER=1347310674, INT8=1113150533)

def hx(b):
    return bytes(b).hex()

NAMES = [b"a", b"b", b"c", b"d", b"", b"abcdefg", b"abcdefgh", b"abcdefghi", b"\xc3\xa9t\xc3\xa9", b"\xff\x80\x01",
         b"field_with_a_rather_long_name_0123456789", b"!SnKy"]

F32 = [0x00000000, 0x80000000, 0x3f800000, 0xbf800000, 0x7f800000, 0xff800000, 0x7fc00000, 0x7f800001, 0xffffffff,
       0x00000001, 0x007fffff, 0x00800000, 0x7f7fffff, 0x7fc12345, 0xffc00000]
F32_NOT_NAN = [v for v in F32 if not ((v >> 23) & 0xff == 0xff and (v & 0x7fffff))]
F64 = [0x0000000000000000, 0x8000000000000000, 0x3ff0000000000000, 0x7ff0000000000000, 0xfff0000000000000,
       0x7ff8000000000000, 0x7ff0000000000001, 0xffffffffffffffff, 0x0000000000000001, 0x000fffffffffffff,
       0x0010000000000000, 0x7fefffffffffffff, 0x7ff8dead0000beef]

def val(rng, t, domain="m"):
    r = rng.random()
    if t == "b":
        return rng.choice(["00", "01"])
    if t == "c":
        return rng.choice(["00", "01", "7f", "80", "ff", "%02x" % rng.randrange(256)])
    if t == "h":
        return hx(struct.pack("<H", rng.choice([0, 1, 0x7fff, 0x8000, 0xffff, 0x00ff, 0x0100, rng.randrange(65536)])))
    if t == "i":
        return hx(struct.pack("<I", rng.choice([0, 1, 0x7fffffff, 0x80000000, 0xffffffff, 0xff, 0x100, 0x10000, rng.randrange(2**32)])))
    if t == "l":
        return hx(struct.pack("<Q", rng.choice([0, 1, 2**63 - 1, 2**63, 2**64 - 1, 2**32 - 1, 2**32, 0xffffffff00000000, rng.randrange(2**64)])))
    if t == "f":
        return hx(struct.pack("<I", rng.choice(F32) if r < 0.8 else rng.randrange(2**32)))
    if t == "d":
        return hx(struct.pack("<Q", rng.choice(F64) if r < 0.8 else rng.randrange(2**64)))
    if t in "PR":      # NaN components in about one item out of four (the Python codec compares Point/Rect on non-NaN values only)
        comp = lambda: rng.choice(F32) if rng.random() < 0.2 else rng.choice(F32_NOT_NAN)
        return "".join(hx(struct.pack("<I", comp())) for _ in range(2 if t == "P" else 4))
    if t == "s":
        pool = [b"", b"a", b"hello", b"1234567", b"12345678", b"123456789", b"\xc3\xbcber", b"\xff\xfe\x80", b"x" * 40, b"y" * 300,
                bytes(rng.randrange(1, 256) for _ in range(rng.choice([1, 3, 15, 16, 17])))]
        s = rng.choice(pool)
        if domain == "n" and r < 0.5:
            k = rng.randrange(len(s) + 1)
            s = s[:k] + b"\x00" + s[k:]
        return hx(s)
    if t in ("X", "F") or t.startswith("x"):
        pool = [b"", b"\x00", b"\x01", b"\x00\x00\x00\x00", b"\x01\x00\x00\x00", b"abc", bytes(range(16)), bytes(255), bytes(256),
                bytes(rng.randrange(256) for _ in range(rng.choice([1, 2, 5, 12, 13, 33])))]
        return hx(rng.choice(pool))
    if t in "og":
        return "%02x" % rng.choice([1, 2, 3, 4, 5])
    raise ValueError(t)

RAWCODES = [B["RAW"], B["RAW"] + 1, B["RAW"] - 1, 0, 1, 0xffffffff, B["INT32"] + 1, B["MESSAGE"] - 1, B["STRING"] + 1,
            B["BOOL"] - 1, B["TAG"], 0x12345678]
TYPES = ["b", "c", "h", "i", "l", "f", "d", "P", "R", "s", "X", "F", "o", "g"]

def rtype(rng):
    r = rng.random()
    if r < 0.88:
        return rng.choice(TYPES)
    return "x%d" % rng.choice(RAWCODES)

def gen_script(rng, nops, domain="m", maxreg=4):
    ops = []
    # name -> type affinity per register so that multi-item fields are common, with occasional clashes
    aff = {}
    def name_type(r):
        nm = rng.choice(NAMES[:6] if rng.random() < 0.75 else NAMES)
        key = (r, nm)
        if key not in aff or rng.random() < 0.08:
            aff[key] = rtype(rng)
        return nm, aff[key]
    for _ in range(nops):
        x = rng.random()
        r = 0 if rng.random() < 0.6 else rng.randrange(maxreg)
        if x < 0.34:
            nm, t = name_type(r); ops.append("a:%d:%s:%s:%s" % (r, hx(nm), t, val(rng, t, domain)))
        elif x < 0.50:
            nm, t = name_type(r); ops.append("p:%d:%s:%s:%s" % (r, hx(nm), t, val(rng, t, domain)))
        elif x < 0.60:
            nm, t = name_type(r)
            ops.append("r:%d:%s:%d:%s:%s:%d" % (r, hx(nm), rng.choice([0, 0, 1, 2, 3, 7]), t, val(rng, t, domain), rng.randrange(2)))
        elif x < 0.71:
            nm, _ = name_type(r); ops.append("x:%d:%s:%d" % (r, hx(nm), rng.choice([0, 0, 0, 1, 1, 2, 3, 9])))
        elif x < 0.73:
            nm, _ = name_type(r); ops.append("xn:%d:%s" % (r, hx(nm)))
        elif x < 0.76:
            a, _ = name_type(r); b, _ = name_type(r); ops.append("rn:%d:%s:%s" % (r, hx(a), hx(b)))
        elif x < 0.86:
            s = rng.randrange(maxreg)
            nm = rng.choice([b"m", b"sub", b"a", b"kids"])
            ops.append("%s:%d:%s:%d" % (rng.choice(["am", "am", "pm"]), r, hx(nm), s))
        elif x < 0.88:
            nm = rng.choice([b"m", b"sub", b"kids"])
            ops.append("rm:%d:%s:%d:%d:%d" % (r, hx(nm), rng.choice([0, 1, 2]), rng.randrange(maxreg), rng.randrange(2)))
        elif x < 0.90:
            ops.append("cp:%d:%d" % (rng.randrange(maxreg), rng.randrange(maxreg)))
        elif x < 0.905:
            ops.append("cl:%d" % r)
        elif x < 0.93:
            nm, _ = name_type(r)
            if rng.random() < 0.5:
                ops.append("%s:%d:%s" % (rng.choice(["mf", "mb"]), r, hx(nm)))
            else:
                nm2, _ = name_type(r); ops.append("cn:%d:%s:%s" % (r, hx(nm), hx(nm2)))
        elif x < 0.96:
            ops.append("u:%d" % r)
        else:
            ops.append("w:%d:%d" % (r, rng.choice([0, 1, 0xffffffff, 0x80000000, 1347235888, rng.randrange(2**32)])))
    # equality pair: register 1 a copy of register 0, unchanged or minimally changed
    y = rng.random()
    if y < 0.35:
        ops.append("cp:1:0")
        if y < 0.2:
            nm, t = name_type(0)
            ops.append(rng.choice(["a:1:%s:%s:%s" % (hx(nm), t, val(rng, t, domain)), "x:1:%s:0" % hx(nm), "w:1:7",
                                   "r:1:%s:0:%s:%s:0" % (hx(nm), t, val(rng, t, domain)), "u:1"]))
    return domain + "|" + ";".join(ops)

def directed():
    out = []
    import random
    rng = random.Random(12345)          # fixed: the directed set is the same on every run
    n = hx(b"f")
    for t in TYPES + ["x0", "x%d" % B["TAG"], "x%d" % (B["RAW"] + 1)]:
        vs = [val(rng, t) for _ in range(8)]
        if t in ("X", "F"): vs[0] = ""; vs[1] = "00"
        A = lambda i: "a:0:%s:%s:%s" % (n, t, vs[i])
        P = lambda i: "p:0:%s:%s:%s" % (n, t, vs[i])
        X = lambda i: "x:0:%s:%d" % (n, i)
        Rp = lambda i, j, ok: "r:0:%s:%d:%s:%s:%d" % (n, i, t, vs[j], ok)
        seqs = [
            [A(0)], [A(0), A(1)], [A(0), A(1), A(2)], [A(0), A(1), A(2), A(3)], [A(i) for i in range(6)],
            [A(0), X(0)], [A(0), X(0), A(1)], [A(0), A(1), X(0)], [A(0), A(1), X(1)], [A(0), A(1), X(0), X(0)],
            [A(0), A(1), X(0), X(0), A(2)], [A(0), A(1), X(1), A(2)], [A(0), A(1), A(2), X(1)],
            [P(0)], [P(0), P(1)], [A(0), P(1)], [A(0), A(1), P(2)], [A(0), A(1), P(2), P(3)], [A(0), A(1), A(2), P(3), P(4)],
            [A(0), A(1), P(2), X(0), A(3)], [A(0), A(1), P(2), X(0), X(0), A(3), A(4), P(5)], [P(0), P(1), P(2), P(3), X(3), P(4)],
            [A(0), A(1), A(2), X(0), A(3), X(0), A(4), X(0), A(5)],        # head walks round the ring
            [A(0), Rp(0, 1, 0)], [A(0), Rp(1, 1, 0)], [A(0), Rp(1, 1, 1)], [Rp(0, 1, 1)], [Rp(0, 1, 0)],
            [A(0), A(1), Rp(1, 2, 0)], [A(0), A(1), Rp(2, 2, 0)], [A(0), A(1), Rp(2, 2, 1)], [A(0), A(1), P(2), Rp(0, 3, 0)],
            [A(0), "u:0", A(1)], [A(0), A(1), "u:0", A(2), X(0)], [A(0), A(1), X(0), "u:0", P(2)], [A(0), A(1), X(0), "u:0", X(0)],
            [A(0), "a:0:%s:i:01000000" % n], [A(0), "rn:0:%s:%s" % (n, hx(b"g")), A(1)],
            [A(0), "a:0:%s:i:05000000" % hx(b"g"), "rn:0:%s:%s" % (n, hx(b"g"))],
            [A(0), A(1), "cp:1:0"], [A(0), A(1), "cp:1:0", "x:1:%s:1" % n], [A(0), "cp:1:0", "a:1:%s:%s:%s" % (n, t, vs[0]), "x:1:%s:1" % n],
            [A(0), A(1), X(0), "cp:1:0", "u:1"],
            [A(0), "a:0:%s:i:05000000" % hx(b"g"), "mf:0:%s" % hx(b"g"), "mb:0:%s" % hx(b"g"), "mf:0:%s" % hx(b"zz")],
            [A(0), A(1), "cn:0:%s:%s" % (n, hx(b"g")), "a:0:%s:%s:%s" % (hx(b"g"), t, vs[2]), X(0)],
            [A(0), "a:0:%s:i:05000000" % hx(b"g"), "cn:0:%s:%s" % (n, hx(b"g")), "cn:0:%s:%s" % (n, n), "cn:0:%s:%s" % (hx(b"zz"), hx(b"zz"))],
        ]
        for s in seqs:
            out.append("m|" + ";".join(s))
        for v in (F32 if t == "f" else []):
            out.append("m|a:0:%s:f:%s;cp:1:0" % (n, hx(struct.pack("<I", v))))
            out.append("m|a:0:%s:f:%s;a:0:%s:f:%s;cp:1:0" % (n, hx(struct.pack("<I", v)), n, hx(struct.pack("<I", v))))
        for v in (F64 if t == "d" else []):
            out.append("m|a:0:%s:d:%s;cp:1:0" % (n, hx(struct.pack("<Q", v))))
    # nesting
    k = hx(b"kids"); a = hx(b"a")
    out += [
        "m|am:0:%s:1" % k, "m|am:0:%s:1;am:0:%s:1" % (k, k), "m|am:0:%s:1;am:0:%s:1;x:0:%s:0" % (k, k, k),
        "m|a:1:%s:i:07000000;am:0:%s:1" % (a, k), "m|a:1:%s:i:07000000;am:0:%s:1;a:1:%s:i:08000000;am:0:%s:1" % (a, k, a, k),
        "m|a:3:%s:s:6869;am:2:%s:3;am:2:%s:3;am:1:%s:2;am:0:%s:1;pm:0:%s:2" % (a, k, k, k, k, k),
        "m|a:1:%s:o:01;am:0:%s:1;a:0:%s:g:02" % (a, k, a), "m|a:1:%s:o:01;a:1:%s:i:01000000;am:0:%s:1;am:0:%s:1" % (a, hx(b"b"), k, k),
        "m|am:0:%s:0;am:0:%s:0;am:0:%s:0" % (k, k, k), "m|a:0:%s:f:0000c07f;am:0:%s:0;am:0:%s:0;cp:1:0" % (a, k, k),
        "m|a:1:%s:d:000000000000f87f;am:0:%s:1;am:0:%s:1;cp:1:0;u:1" % (a, k, k),
        "m|w:0:4294967295;a:0::i:00000000", "m|a:0:%s:o:01" % a, "m|a:0:%s:o:01;a:0:%s:o:02;a:0:%s:i:09000000;a:0:%s:g:01" % (a, a, hx(b"b"), hx(b"c")),
        "m|a:0:%s:i:01000000;a:0:%s:s:78;a:0:%s:b:01;xn:0:%s;a:0:%s:l:0100000000000000" % (a, hx(b"b"), hx(b"c"), hx(b"b"), hx(b"b")),
        "n|a:0:%s:s:610062" % a, "n|a:0:%s:s:00" % a, "n|a:0:%s:s:6100;a:0:%s:s:0062" % (a, a), "n|a:0:6100:i:01000000",
    ]
    return out


# payload/template pairs of different shapes (replays of the two TemplatedFlatten findings first)
TEMPLATED_ANY_DIRECTED = [
    "t|a:0:61:X:616263;a:2:61:s:%s;cp:1:2" % ("78" * 40),                       # same name, other type: size by name, bytes by name+type
    "t|a:0:61:s:6869;a:2:61:s:7171717171;a:2:61:s:78;cp:1:2",                    # fewer payload strings, longer template strings
    "t|a:0:61:s:68696869;a:0:7a:i:09000000;a:2:61:s:71;a:2:61:s:78;a:2:7a:i:00000000;cp:1:2",   # ... shorter template strings
    "t|a:0:61:X:616263;a:0:7a:i:09000000;a:2:61:X:;a:2:61:X:;a:2:7a:i:00000000;cp:1:2",          # fewer payload raw items
    "t|a:0:61:i:07000000;a:2:61:i:00000000;a:2:61:i:01000000;cp:1:2",            # fewer payload int32 items
    "t|a:0:61:i:07000000;a:0:61:i:08000000;a:2:61:i:00000000;cp:1:2",            # more payload items than the template
    "t|a:0:61:i:07000000;a:2:62:s:6869;cp:1:2",                                  # disjoint fields
    "t|a:1:61:s:6869;am:0:6b:1;a:3:61:s:71;a:3:61:s:78;am:2:6b:3;am:2:6b:3;cp:1:2",   # fewer sub-Messages, fewer strings inside
]


class CHECK(vlib.Check):
    prop = "C01"
    prop_file = "Properties_C01.v"
    model = ("Msg/MsgExtract.v", "msg_driver.ml", "msg", ("ocommon.ml",))
    harness = dict(name="msg", src="msg_h.cpp", san="asan", link_lib=True)
    modelled = ("message/Message.cpp: Message::FlattenedSize/Flatten/Unflatten, MessageField::SingleFlattenedSize/SingleFlatten/"
                "SingleUnflatten/GetNumItemsInFlattenedBuffer/Unflatten, every *DataArray::TemplatedFlattenedSize/TemplatedFlatten/"
                "TemplatedUnflatten (fixed-size: no count word; String/raw: count word + length-prefixed items; Message: length-prefixed, "
                "no count word), DataUnflattener read/limit/clamp behaviour, ReadCString/SetCstr, duplicate-name and type-mismatch "
                "handling, CalculateChecksum (inline and array forms, CalculatePODChecksum), operator==/FieldsAreSubsetOf/IsEqualTo "
                "(all four inline/array cases), the Add/Prepend/Replace/RemoveData/RemoveName/Rename/Clear state transitions of the "
                "field table and of the field representation (empty/inline/array), MoveNameToFront/Back, CopyName, ReplaceFlat; the "
                "templated codec (CreateMessageTemplate, TemplatedFlattenedSize/TemplatedFlatten/TemplatedUnflatten for ANY template/payload "
                "pair: absent fields, same name with another type, more items, and fewer items than the template -- the documented "
                "'payload values where possible, padded with the template's' -- with tmpl_merge as what the bytes stand for).  Not modelled: the Queue ring buffer inside a field "
                "array (C16), the Hashtable's buckets (C09), the gateway's template cache (C03), object sharing/copy-on-write, "
                "MurmurHash2 and MurmurHash64A (parameters of the theorems; the OCaml driver supplies them).  Message::TemplateHashCode64 "
                "is modelled (tmpl_hash: running field counter * (64-bit field-name hash + item count * type code), the counter threaded "
                "through every sub-Message of a Message field, uint64/uint32 wrap-around, 0 -> 1) "
                "and compared on template and payload in the templated stream (line TH).")
    premises = ["memory safety and object lifetime of the C++ (observed by ASan/UBSan in the harness only)",
                "strings and field names are NUL-free (finding F9: domain boundary of muscle::String; the model reproduces the truncation and "
                "the correspondence run includes such strings)",
                "every count and flattened size is below 2^32 (uint32 wrap-around of sizes is outside the domain)",
                "CalculateHashCode (MurmurHash2), CalculateHashCode64 (MurmurHash64A) and the item types' operator== are parameters of the "
                "theorems (any function)"]
    rule = ("operation scripts over 8 Message registers generated from random.Random(seed): Add/Prepend/Replace/Remove/Rename/"
            "AddMessage/copy/round-trip ops on every field type with boundary bit patterns (NaN payloads, +-0, inf, denormals, "
            "INT_MIN..), names of 0/7/8/9 bytes and non-ASCII, raw fields with arbitrary type codes, pointer/tag fields, nesting; plus a "
            "fixed directed set crossing item counts 0/1/2/3.. and the inline/array boundary per type with prepend/remove mixes that "
            "wrap the per-field Queue.  After the script register 0's op statuses, field table (type, count, _state), FlattenedSize, "
            "flattened bytes, both checksums, parse result, re-flattened bytes and operator== results are compared with the extracted "
            "model, and the harness evaluates the property itself through the public Find* API.  In addition the harness keeps its "
            "own ideal Message (ordered fields of plain item vectors) and compares, after EVERY operation, the operation's status and "
            "the Message's content read back through the public API with it (so a replace/remove at an invalid index that succeeds, "
            "or an add that lands in the wrong place, is reported with the script as replay).  Templated streams: register 0 is "
            "flattened against the template in register 1 into a buffer of exactly TemplatedFlattenedSize bytes (ASan sees any byte "
            "written past it, a 0xEE fill shows any byte never written), the bytes, TemplatedUnflatten's result and both "
            "TemplateHashCode64 values are compared with the model; the template is CreateMessageTemplate of the payload or of a "
            "same-shape variant (stream templated) or an arbitrary variant with more/fewer items, extra/missing fields or another "
            "type under the same name (stream templated-any), where the harness also checks the parsed Message against its own "
            "merge of payload and template through the public API.  Non-trivial = at least two "
            "successful-looking add/prepend operations reach register 0 directly or through AddMessage.")

    def gen_cases(self, rng, tier):
        n = 2500 if tier == "quick" else 40000
        out = [("directed", c) for c in directed()]
        for i in range(n):
            dom = "n" if i % 25 == 24 else "m"
            nops = rng.choice([2, 4, 6, 9, 12, 16, 24] if tier == "quick" else [2, 4, 6, 9, 12, 16, 24, 40, 64])
            out.append(("random" if dom == "m" else "nul-strings", gen_script(rng, nops, dom, 4 if tier == "quick" else 8)))
        # malformed stream: build a Message, flatten it, mutate the bytes (um:R:SEED), parse, keep operating on what was
        # parsed.  Outside the property's domain: it ties the parser model (C01_unflatten_never_fuel, and what C08's
        # spec_roundtrip relies on) to Message::Unflatten on bytes that Flatten did not produce.
        for i in range(n // 5):
            body = gen_script(rng, rng.choice([2, 4, 6, 9, 12]), "m", 3).split("|", 1)[1]
            ops = [o for o in body.split(";") if o and not o.startswith("cp:1:0")]
            tail = ["um:0:%d" % rng.randrange(2 ** 31)]
            if rng.random() < 0.4:
                tail += gen_script(rng, rng.choice([1, 2, 4]), "m", 1).split("|", 1)[1].split(";")
            if rng.random() < 0.3:
                tail += ["um:0:%d" % rng.randrange(2 ** 31)]
            out.append(("mutated-bytes", "g|" + ";".join(ops + tail)))
        # templated stream (head `t`): payload in register 0, template = CreateMessageTemplate of it (or of a variant with
        # other values) in register 1; half of the cases also parse deterministically mutated templated bytes (tm:SEED)
        for i in range(n // 6):
            body = gen_script(rng, rng.choice([2, 4, 6, 9, 12]), "m", 4).split("|", 1)[1]
            ops = [o for o in body.split(";") if o and not o.startswith("cp:1:0") and not o.startswith("u:1")]
            r = rng.random()
            if r < 0.6:
                tail = ["ct:1:0"]
            elif r < 0.85:      # same shape, different values: the template comes from a copy with replaced items
                nm, t = rng.choice(NAMES[:6]), rng.choice(["i", "s", "b", "d"])
                tail = ["cp:2:0", "r:2:%s:0:%s:%s:0" % (hx(nm), t, val(rng, t)), "ct:1:2"]
            else:               # usually NOT the same shape: an unrelated or modified Message's template
                nm, t = rng.choice(NAMES[:6]), rtype(rng)
                tail = ["cp:2:0", rng.choice(["a:2:%s:%s:%s" % (hx(nm), t, val(rng, t)), "x:2:%s:0" % hx(nm), "xn:2:%s" % hx(nm)]), "ct:1:2"]
            if rng.random() < 0.5:
                tail.append("tm:%d" % rng.randrange(2 ** 31))
            out.append(("templated", "t|" + ";".join(ops + tail)))
        # any template (stream templated-any): the template is made from, or simply IS, a variant of the payload with more
        # items in a field (the payload is padded from the template), fewer items, an extra or a missing field, or a field of
        # another type under the same name; the bytes go into an exact-size buffer
        for c in TEMPLATED_ANY_DIRECTED:
            out.append(("templated-any", c))
        for i in range(n // 5):
            body = gen_script(rng, rng.choice([2, 4, 6, 9, 12]), "m", 4).split("|", 1)[1]
            ops = [o for o in body.split(";") if o and not o.startswith("cp:1:0") and not o.startswith("u:1")]
            adds = [o.split(":") for o in ops if o.startswith("a:0:") or o.startswith("p:0:")]
            adds = [a for a in adds if len(a) == 5 and a[3] not in ("o", "g")]
            r = rng.random()
            tail = ["cp:2:0"]
            if adds and r < 0.45:
                a = rng.choice(adds)
                for j in range(rng.choice([1, 1, 2, 3])):
                    tail.append("a:2:%s:%s:%s" % (a[2], a[3], val(rng, "X" if a[3].startswith("x") else a[3])))
            elif adds and r < 0.6:
                a = rng.choice(adds)
                tail.append("x:2:%s:0" % a[2])
            elif r < 0.8 or not adds:
                nm, t = rng.choice(NAMES[:6]), rtype(rng)
                tail.append(rng.choice(["a:2:%s:%s:%s" % (hx(nm), t, val(rng, t)), "xn:2:%s" % hx(nm)]))
            else:
                a = rng.choice(adds)
                t = rtype(rng)
                tail += ["xn:2:%s" % a[2], "a:2:%s:%s:%s" % (a[2], t, val(rng, t))]
            tail.append(rng.choice(["ct:1:2", "cp:1:2", "cp:1:2"]))
            out.append(("templated-any", "t|" + ";".join(ops + tail)))
        return out

    def nontrivial(self, case):
        body = case.split("|", 1)[1]
        adds = [o for o in body.split(";") if o[:2] in ("a:", "p:", "am", "pm")]
        return len(adds) >= 2

    def distribution(self, sc):
        d = {}
        for s, c in sc:
            d["stream:" + s] = d.get("stream:" + s, 0) + 1
            ops = [o for o in c.split("|", 1)[1].split(";") if o]
            d["len:%s" % ("<=4" if len(ops) <= 4 else "<=12" if len(ops) <= 12 else "<=24" if len(ops) <= 24 else ">24")] = \
                d.get("len:%s" % ("<=4" if len(ops) <= 4 else "<=12" if len(ops) <= 12 else "<=24" if len(ops) <= 24 else ">24"), 0) + 1
            for o in ops:
                a = o.split(":")
                k = "op:" + a[0]
                d[k] = d.get(k, 0) + 1
                if a[0] in ("a", "p"):
                    t = "type:" + (a[3] if not a[3].startswith("x") else "x<code>")
                    d[t] = d.get(t, 0) + 1
        return d
