"""C12 -- the packet tunnel never delivers a Message that was not sent
(iogateway/PacketTunnelIOGateway.cpp, iogateway/MiniPacketTunnelIOGateway.cpp, iogateway/ProxyIOGateway.cpp,
 dataio/ByteBufferPacketDataIO.cpp)."""
import itertools, os, re, struct, subprocess
import vlib

NOLIM = 4294967295
PMAGIC = 1114989680      # DEFAULT_TUNNEL_IOGATEWAY_MAGIC
NMAGIC = 1836345197      # DEFAULT_MINI_TUNNEL_IOGATEWAY_MAGIC
FHS, PHS, CHS = 24, 12, 4
RAW_TYPE = 1380013908
PROTO = 1347235888
BIG = 100000             # a transport budget that never runs out


def le32(x):
    return struct.pack("<I", x & 0xFFFFFFFF)


def flat_msg(what, payload):
    """flattened muscle Message: no field (payload None, 12 bytes) or one B_RAW_TYPE field "d" (34+len bytes)"""
    b = le32(PROTO) + le32(what)
    if payload is None:
        return b + le32(0)
    data = le32(1) + le32(len(payload)) + payload
    return b + le32(1) + le32(2) + b"d\0" + le32(RAW_TYPE) + le32(len(data)) + data


WORDS = [b"the ", b"quick ", b"brown ", b"fox ", b"jumps ", b"over ", b"lazy ", b"dog ", b"muscle ", b"tunnel ",
         b"packet ", b"0123456789", b"AAAAAAAAAAAAAAAA", b"message-", b"payload=", b"\0\0\0\0\0\0\0\0"]


def payload(rng, n, style):
    if n <= 0:
        return b""
    if style == "rand":
        return bytes(rng.getrandbits(8) for _ in range(n))
    if style == "text":          # resembling each other: shared substrings => deflate back-references
        out = b""
        while len(out) < n:
            out += rng.choice(WORDS)
        return out[:n]
    if style == "ramp":
        s = rng.randrange(256)
        return bytes((s + i) & 255 for i in range(n))
    return bytes([rng.randrange(256)]) * n   # "const"


def eff_mtu(kind, m):
    return max(m, FHS + 1) if kind == "P" else max(m, PHS + CHS + 1)


def sim_packets(kind, mtu, sizes):
    """number of packets one draining DoOutput() makes of buffers of these sizes (aims the generators only)"""
    n = 0
    if kind == "P":
        ps = 0
        for sb in sizes:
            off = 0
            while True:
                if ps + FHS >= mtu:
                    n += 1; ps = 0
                k = min(mtu - (ps + FHS), sb - off)
                ps += FHS + k; off += k
                if off == sb:
                    break
        if ps > 0:
            n += 1
    else:
        ps = 0
        for sb in sizes:
            if PHS + CHS + sb > mtu:
                continue
            if ps + (PHS if ps == 0 else 0) + CHS + sb > mtu:
                n += 1; ps = 0
            ps += (PHS if ps == 0 else 0) + CHS + sb
        if ps > 0:
            n += 1
    return n


def size_choices(rng, kind, mtu, mode, big):
    r = max(1, mtu - FHS) if kind == "P" else max(1, mtu - PHS - CHS)
    c = [1, 2, 3, r - 1, r, r + 1, 2 * r - 1, 2 * r, 2 * r + 1, 3 * r, 5 * r, rng.randint(1, 5 * r), rng.randint(1, r),
         max(1, r - FHS), max(1, r - FHS - 1), max(1, r - FHS + 1), r // 2]
    if kind == "N":
        c = [1, 2, r - 1, r, r + 1, r // 2, r // 3, max(1, r - CHS - 1), max(1, r - CHS), rng.randint(1, r), rng.randint(1, r),
             rng.randint(1, max(1, r // 4)), 2 * r]
    lim = big if mode in "MB" else min(big, 1000)
    if mode == "B":
        c = c + [0, 0, 0]       # the empty buffer: only the harness's own slave gateway can produce it
    return [x for x in c if (0 if mode == "B" else 1) <= x <= lim] or [1]


def mk_buffer(rng, mode, size, style):
    """hex text of one A-op argument of (about) this many bytes"""
    if mode in "RB":
        return payload(rng, size, style).hex()
    if size < 34:
        return flat_msg(rng.randrange(1 << 32), None).hex()
    return flat_msg(rng.randrange(1 << 32), payload(rng, size - 34, style)).hex()


def buf_len(mode, hx):
    return len(hx) // 2


def network(rng, n, pattern):
    """delivery sequence (packet indices) over n sent packets"""
    idx = list(range(n))
    if pattern == "perfect" or n == 0:
        return idx
    if pattern == "drop1":
        d = rng.randrange(n); return [i for i in idx if i != d]
    if pattern == "drop":
        return [i for i in idx if rng.random() > 0.3]
    if pattern == "dup1":
        d = rng.randrange(n); return idx[:d + 1] + [d] + idx[d + 1:]
    if pattern == "dup":
        out = []
        for i in idx:
            out += [i] * rng.choice([1, 1, 1, 2, 3])
        return out
    if pattern == "swap":
        if n >= 2:
            j = rng.randrange(n - 1); idx[j], idx[j + 1] = idx[j + 1], idx[j]
        return idx
    if pattern == "reverse":
        return idx[::-1]
    if pattern == "shuffle":
        rng.shuffle(idx); return idx
    if pattern == "replay":      # the whole stream twice
        return idx + idx
    # "chaos": loss + duplication + reordering
    out = []
    for i in idx:
        out += [i] * rng.choice([0, 1, 1, 1, 2])
    for _ in range(len(out) // 2):
        if len(out) >= 2:
            j = rng.randrange(len(out) - 1)
            if rng.random() < 0.5:
                out[j], out[j + 1] = out[j + 1], out[j]
    return out


PATTERNS = ["perfect", "drop1", "drop", "dup1", "dup", "swap", "reverse", "shuffle", "replay", "chaos"]


def strip_z(case):
    hd, bar, body = case.partition("|")
    return hd + bar + ";".join(o for o in body.split(";") if not o.startswith("Z:"))


def head(kind, mode, rmtu, rmagic, rsex=0, rmax=NOLIM, misc=0):
    return "%s,%s,%d,%d,%d,%d,%d" % (kind, mode, rmtu, rmagic, rsex, rmax, misc)


def one_sender_case(rng, kind, big, pattern=None, level=0, styles=("rand", "text", "ramp", "const"), rmax=NOLIM, interleave=False):
    mode = rng.choice("RRMB")
    magic = PMAGIC if kind == "P" else NMAGIC
    if rng.random() < 0.1:
        magic = rng.randrange(1 << 32)
    mtu = rng.choice([0, 25, 26, 27, 30, 40, 48, 49, 50, 60, 64, 100, 128, 200] if kind == "P" else [0, 17, 18, 20, 30, 40, 64, 100, 128, 200, 300])
    if level:
        mtu = rng.choice([64, 100, 150, 200, 300, 400])
    m = eff_mtu(kind, mtu)
    nm = rng.choice([1, 1, 2, 2, 3, 4, 6])
    sizes_pool = size_choices(rng, kind, m, mode, big)
    addr = rng.randrange(1, 1000)
    ops = ["S:0:%d:%d:%d:%d:%d" % (addr, mtu, magic, rng.choice([0, 0, 7]), level)]
    if rng.random() < 0.2:
        ops.append("I:0:%d" % (rng.choice([NOLIM, NOLIM - 1, NOLIM - 2, 16777215, 16777214, rng.randrange(1 << 32)]) if kind == "P"
                               else rng.choice([16777215, 16777214, 16777213, rng.randrange(1 << 24)])))
    sizes = []
    npk_seen = 0
    body = []
    for _ in range(nm):
        hx = mk_buffer(rng, mode, rng.choice(sizes_pool), rng.choice(styles))
        sizes.append(buf_len(mode, hx))
        body.append("A:0:" + hx)
        if interleave and rng.random() < 0.5:
            body.append("O:0:%d:%d" % (rng.choice([NOLIM, NOLIM, 1, m, 2 * m]), rng.choice([BIG, BIG, 0, 1, 2])))
    body.append("O:0:%d:%d" % (NOLIM, BIG))
    body.append("O:0:%d:%d" % (NOLIM, BIG))
    npk = sim_packets(kind, m, sizes) + (3 if interleave else 0)
    pat = pattern or rng.choice(PATTERNS)
    seq = network(rng, npk, pat)
    dl = ["D:%d" % j for j in seq]
    rmtu = mtu if rng.random() < 0.9 else rng.choice([0, 25, 30, m - 1, m + 1, 2 * m])
    return pat, head(kind, mode, rmtu, magic, 0, rmax, 0) + "|" + ";".join(ops + body + dl)


def perfect_case(rng, kind, big, nsend=1, rmax=NOLIM, level=0):
    """every packet once, in order; output and delivery interleaved; limits in play"""
    mode = rng.choice("RRMB")
    magic = PMAGIC if kind == "P" else NMAGIC
    mtu = rng.choice([0, 25, 26, 30, 48, 50, 64, 100, 128, 200, 300] if kind == "P" else [0, 17, 20, 30, 64, 100, 200, 300])
    if level:
        mtu = rng.choice([64, 100, 200, 300, 400])
    m = eff_mtu(kind, mtu)
    ops = []
    addrs = related_addrs(rng, nsend)
    for i in range(nsend):
        ops.append("S:%d:%d:%d:%d:%d:%d" % (i, addrs[i], mtu, magic, rng.choice([0, 0, 9]), level))
        if rng.random() < 0.3:
            ops.append("I:%d:%d" % (i, rng.choice([NOLIM, NOLIM - 1, 16777215, rng.randrange(1 << 32)]) if kind == "P"
                                    else rng.choice([16777215, 16777214, rng.randrange(1 << 24)])))
    pool = size_choices(rng, kind, m, mode, big)
    if rmax != NOLIM:
        pool = pool + [rmax, rmax + 1, max(1, rmax - 1), rmax + m, 2 * rmax + 1]
        pool = [x for x in pool if x <= (big if mode in "MB" else 1000)]
    emitted = 0
    delivered = 0
    est = 0
    steps = rng.choice([2, 3, 4, 6, 8])
    pend = [[] for _ in range(nsend)]
    for _ in range(steps):
        i = rng.randrange(nsend)
        for _ in range(rng.choice([1, 1, 2, 3])):
            hx = mk_buffer(rng, mode, rng.choice(pool), rng.choice(["rand", "text", "ramp", "const"]))
            pend[i].append(buf_len(mode, hx))
            ops.append("A:%d:%s" % (i, hx))
        if rng.random() < 0.7:
            ops.append("O:%d:%d:%d" % (i, rng.choice([NOLIM, NOLIM, NOLIM, 1, m]), rng.choice([BIG, BIG, BIG, 0, 1])))
            est += sim_packets(kind, m, pend[i]) + 1
            pend[i] = []
            if rng.random() < 0.5:
                while delivered < est:
                    ops.append("D:%d" % delivered); delivered += 1
    for i in range(nsend):
        ops.append("O:%d:%d:%d" % (i, NOLIM, BIG))
        ops.append("O:%d:%d:%d" % (i, NOLIM, BIG))
        est += sim_packets(kind, m, pend[i]) + 1
    while delivered < est:
        ops.append("D:%d" % delivered); delivered += 1
    return head(kind, mode, mtu, magic, rng.choice([0, 0, 5]), rmax, 0) + "|" + ";".join(ops)


def related_addrs(rng, n):
    """n distinct source addresses.  The harness maps address a to host a//4, port a%4: sockets of ONE host (same IP,
    different ports), the same port on different hosts, or unrelated."""
    r = rng.random()
    base = 4 * rng.randrange(1, 60)
    if r < 0.45:                                  # same IP, different ports
        return rng.sample([base, base + 1, base + 2, base + 3], n)
    if r < 0.65:                                  # same port, different IPs
        k = rng.randrange(4)
        return [base + k + 4 * i for i in rng.sample(range(0, 5), n)]
    if r < 0.8:                                   # a mix: two sockets of one host and one of the neighbour host
        return rng.sample([base, base + 1, base + 4, base + 5, base + 2], n)
    return rng.sample(range(1, 400), n)


def multi_case(rng, kind, big):
    """two or three senders; sometimes sharing a source address, sometimes packets arriving from another address"""
    mode = rng.choice("RRB")
    magic = PMAGIC if kind == "P" else NMAGIC
    mtu = rng.choice([25, 30, 48, 64, 100]) if kind == "P" else rng.choice([20, 40, 64, 100])
    m = eff_mtu(kind, mtu)
    ns = rng.choice([2, 2, 3])
    share = rng.random() < 0.3
    addrs = [7] * ns if share else related_addrs(rng, ns)
    ops = []
    total = 0
    same = payload(rng, rng.choice(size_choices(rng, kind, m, mode, big)), "rand")
    for i in range(ns):
        ops.append("S:%d:%d:%d:%d:%d:0" % (i, addrs[i], mtu, magic, rng.choice([0, 0, 3])))
        sizes = []
        for _ in range(rng.choice([1, 2, 3])):
            if rng.random() < 0.4:    # same-length Messages with the same id on different senders: the splice candidates
                b = bytes((x + i + 1) & 255 for x in same)
            else:
                b = payload(rng, rng.choice(size_choices(rng, kind, m, mode, big)), rng.choice(["rand", "ramp"]))
            sizes.append(len(b)); ops.append("A:%d:%s" % (i, b.hex()))
        ops.append("O:%d:%d:%d" % (i, NOLIM, BIG))
        total += sim_packets(kind, m, sizes)
    seq = network(rng, total, rng.choice(["shuffle", "chaos", "perfect", "swap", "drop"]))
    for j in seq:
        if rng.random() < 0.15:
            ops.append("E:%d:%d" % (j, rng.choice(addrs + [99, addrs[0] ^ 1, addrs[0] + 4])))
        else:
            ops.append("D:%d" % j)
    return head(kind, mode, mtu, magic) + "|" + ";".join(ops)


def samehost_case(rng, kind, big):
    """two or three FRESH senders (all start at message id 0) on related source addresses -- typically sockets of one host --
    sending multi-packet Messages of EQUAL size, their packets written alternately (one DoOutput = one packet), so the
    in-order network interleaves their fragments; then either that perfect network or a faulty one"""
    mode = rng.choice("RRB")
    magic = PMAGIC if kind == "P" else NMAGIC
    mtu = rng.choice([25, 26, 30, 40, 64]) if kind == "P" else rng.choice([20, 30, 40])
    m = eff_mtu(kind, mtu)
    ns = rng.choice([2, 2, 3])
    addrs = related_addrs(rng, ns)
    r = max(1, m - FHS) if kind == "P" else max(1, m - PHS - CHS)
    size = rng.choice([r + 1, 2 * r, 2 * r + 1, 3 * r]) if kind == "P" else rng.choice([1, r // 2, r])
    nmsg = rng.choice([1, 1, 2])
    ops = []
    for i in range(ns):
        ops.append("S:%d:%d:%d:%d:0:0" % (i, addrs[i], mtu, magic))
        for k in range(nmsg):
            b = bytes([(0x61 + i + 16 * k) & 255]) * size        # aaaa.., bbbb.., cccc..: a splice is visible at a glance
            ops.append("A:%d:%s" % (i, b.hex()))
    per = sim_packets(kind, m, [size] * nmsg)
    for _ in range(per + 1):
        for i in range(ns):
            ops.append("O:%d:%d:1" % (i, NOLIM))
    total = per * ns
    pat = rng.choice(["perfect", "perfect", "perfect", "drop1", "drop", "swap", "shuffle", "chaos"])
    return pat, head(kind, mode, mtu, magic) + "|" + ";".join(ops + ["D:%d" % j for j in network(rng, total, pat)])


def forged_case(rng, kind, big):
    """foreign datagrams: other magic, truncated, garbage, (mode R) our magic from a third address; misc-data mode"""
    mode = "R"
    magic = PMAGIC if kind == "P" else NMAGIC
    mtu = rng.choice([30, 48, 64, 100])
    m = eff_mtu(kind, mtu)
    misc = 1 if rng.random() < 0.4 else 0
    ops = ["S:0:5:%d:%d:0:0" % (mtu, magic)]
    sizes = []
    for _ in range(rng.choice([1, 2, 3])):
        b = payload(rng, rng.choice(size_choices(rng, kind, m, mode, big)), "ramp")
        sizes.append(len(b)); ops.append("A:0:" + b.hex())
    ops.append("O:0:%d:%d" % (NOLIM, BIG))
    n = sim_packets(kind, m, sizes)
    seq = network(rng, n, rng.choice(["perfect", "perfect", "drop1", "swap"]))
    for j in seq:
        r = rng.random()
        if r < 0.5:
            a = rng.choice([5, 5, 6])
            t = rng.random()
            if t < 0.25:
                x = payload(rng, rng.choice([0, 1, 3, 4, 11, 12, 23, 24, 25, 40]), "rand")
            elif t < 0.5:
                x = le32(magic ^ 1) + payload(rng, rng.choice([8, 20, 21, 40]), "rand")
            elif t < 0.75 and kind == "P":    # a well-formed fragment, own magic, from a third address (or forged from ours)
                tot = rng.choice([1, 4, 10])
                d = payload(rng, rng.choice([0, 1, tot]), "const")
                x = le32(magic) + le32(0) + le32(rng.choice([0, 1, 2])) + le32(rng.choice([0, 0, 1])) + le32(len(d)) + le32(tot) + d
                if rng.random() < 0.3:
                    x = x[:rng.randrange(len(x) + 1)]
            elif t < 0.75:
                d = payload(rng, rng.choice([0, 1, 5]), "const")
                x = le32(magic) + le32(0) + le32(rng.choice([0, 1])) + le32(len(d) + rng.choice([0, 0, 1])) + d
            else:
                x = le32(magic) + payload(rng, rng.choice([0, 3, 8, 9, 20]), "rand")
            ops.append("X:%d:%s" % (a, x.hex()))
        ops.append("D:%d" % j)
    return head(kind, mode, mtu, magic, 0, NOLIM, misc) + "|" + ";".join(ops)


def evict_case(rng, many):
    """more source addresses than MAX_NUM_RECEIVE_STATES: the least recently heard-from states are dropped"""
    magic = PMAGIC
    ops = ["S:0:1:30:%d:0:0" % magic, "A:0:" + payload(rng, 10, "ramp").hex(), "O:0:%d:%d" % (NOLIM, BIG)]
    # packet 0 = first fragment (6 bytes), packet 1 = rest
    ops.append("E:0:1")
    for a in range(2, many):
        ops.append("E:0:%d" % a)
        if a in (255, 256, 257, 258, 259):
            ops.append("E:1:1")
            ops.append("E:0:1")
    ops.append("E:1:1"); ops.append("E:1:%d" % (many - 1)); ops.append("E:1:2")
    return head("P", "R", 30, magic) + "|" + ";".join(ops)


def wrap_case(rng, big):
    """message ids running across the 2^32 wrap, over a faulty network"""
    mtu = rng.choice([25, 26, 30, 48, 64])
    m = eff_mtu("P", mtu)
    id0 = rng.choice([NOLIM, NOLIM - 1, NOLIM - 2, NOLIM - 3])
    ops = ["S:0:5:%d:%d:0:0" % (mtu, PMAGIC), "I:0:%d" % id0]
    sizes = []
    for _ in range(rng.choice([3, 4, 6, 8])):
        b = payload(rng, rng.choice(size_choices(rng, "P", m, "R", big)), rng.choice(["rand", "ramp"]))
        sizes.append(len(b)); ops.append("A:0:" + b.hex())
        if rng.random() < 0.3:
            ops.append("O:0:%d:%d" % (NOLIM, BIG))
    ops.append("O:0:%d:%d" % (NOLIM, BIG)); ops.append("O:0:%d:%d" % (NOLIM, BIG))
    n = sim_packets("P", m, sizes) + 2
    pat = rng.choice(PATTERNS)
    return pat, head("P", "R", mtu, PMAGIC) + "|" + ";".join(ops + ["D:%d" % j for j in network(rng, n, pat)])


def sex_case(rng, kind, big):
    """source-exclusion ids: the receiver ignores what carries its own non-zero id, and only that"""
    magic = PMAGIC if kind == "P" else NMAGIC
    mtu = rng.choice([30, 48, 64, 100])
    m = eff_mtu(kind, mtu)
    rsex = rng.choice([0, 7, 7, 7, NOLIM])
    ops = []
    total = 0
    ns = rng.choice([1, 2, 3])
    for i in range(ns):
        ops.append("S:%d:%d:%d:%d:%d:0" % (i, 10 + i, mtu, magic, rng.choice([0, 7, 8, NOLIM])))
        sizes = []
        for _ in range(rng.choice([1, 2, 3])):
            b = payload(rng, rng.choice(size_choices(rng, kind, m, "R", big)), "ramp")
            sizes.append(len(b)); ops.append("A:%d:%s" % (i, b.hex()))
        ops.append("O:%d:%d:%d" % (i, NOLIM, BIG))
        total += sim_packets(kind, m, sizes)
    pat = rng.choice(["perfect", "perfect", "shuffle", "drop1", "dup1"])
    return head(kind, "R", mtu, magic, rsex) + "|" + ";".join(ops + ["D:%d" % j for j in network(rng, total, pat)])


def lru_case(rng, nsrc):
    """one sender's packets arriving under several source addresses, round-robin and shuffled: per-source assembly,
    order of the receive-state table (GetAndMoveToBack)"""
    mtu = rng.choice([26, 30, 40])
    m = eff_mtu("P", mtu)
    ops = ["S:0:1:%d:%d:0:0" % (mtu, PMAGIC)]
    sizes = []
    for _ in range(rng.choice([1, 2])):
        b = payload(rng, rng.choice([m - 24 + 1, 2 * (m - 24), 2 * (m - 24) + 3]), "ramp")
        sizes.append(len(b)); ops.append("A:0:" + b.hex())
    ops.append("O:0:%d:%d" % (NOLIM, BIG))
    n = sim_packets("P", m, sizes)
    addrs = list(range(1, nsrc + 1))
    plan = [(j, a) for j in range(n) for a in addrs]          # packet-major: all sources advance together
    if rng.random() < 0.5:
        # perturb: some sources get a packet early/late/twice/never
        for _ in range(len(plan) // 3):
            k = rng.randrange(len(plan))
            r = rng.random()
            if r < 0.4 and k + 1 < len(plan):
                plan[k], plan[k + 1] = plan[k + 1], plan[k]
            elif r < 0.7:
                plan.insert(k, plan[k])
            else:
                plan.pop(k)
    return head("P", "R", mtu, PMAGIC) + "|" + ";".join(ops + ["E:%d:%d" % (j, a) for j, a in plan])


def packetized_case(rng, drain):
    """dataio/PacketizedProxyDataIO on its own: packets written into / read from a byte pipe that takes / gives a scripted
    number of bytes per call"""
    wmtu = rng.choice([1, 3, 4, 5, 8, 30, 100, 600])
    rmtu = wmtu if rng.random() < 0.85 else rng.choice([max(1, wmtu - 1), wmtu + 5, 2, 1000])
    ops = []
    nw = 0
    for _ in range(rng.choice([2, 4, 6, 10, 16])):
        r = rng.random()
        if r < 0.45:
            n = rng.choice([1, 1, 2, 3, 4, 5, max(1, wmtu - 1), wmtu, wmtu, rng.randint(1, wmtu)] + ([wmtu + 1, 0] if rng.random() < 0.15 else []))
            pk = payload(rng, n, rng.choice(["ramp", "rand", "const"]))
            tot = n + 4
            q = [0, 1, 2, 3, 4, 5, tot - 1, tot, tot + 1, BIG, BIG, BIG]
            ops.append("W:%s:%d:%d" % (pk.hex(), rng.choice(q), rng.choice(q))); nw += 1
        elif r < 0.55:
            ops.append("F:%d" % rng.choice([0, 1, 2, 3, 4, 7, BIG]))
        else:
            q = [0, 1, 2, 3, 4, 5, 7, BIG, BIG]
            ops.append("R:%d:%d:%d" % (rng.choice([rmtu, rmtu, rmtu + 9, 70000] + ([1, max(1, rmtu - 1)] if rng.random() < 0.1 else [])), rng.choice(q), rng.choice(q)))
    if drain:
        ops += ["F:%d" % BIG] * 2 + ["R:%d:%d:%d" % (max(rmtu, wmtu) + 9, BIG, BIG)] * (2 * nw + 3)
    return "T,%d,%d|" % (wmtu, rmtu) + ";".join(ops)


def loop_case(rng, kind, big):
    """several packets waiting at the receiver's device, one DoInput(maxBytes) call each time: the read loop and its byte limit"""
    mode = rng.choice("RRB")
    magic = PMAGIC if kind == "P" else NMAGIC
    mtu = rng.choice([25, 30, 48, 64, 100]) if kind == "P" else rng.choice([17, 20, 40, 64, 100])
    m = eff_mtu(kind, mtu)
    ns = rng.choice([1, 1, 2])
    ops = []
    total = 0
    for i in range(ns):
        ops.append("S:%d:%d:%d:%d:0:%d" % (i, 5 + i, mtu, magic, 0))
        sizes = []
        for _ in range(rng.choice([1, 2, 3, 5])):
            b = payload(rng, rng.choice(size_choices(rng, kind, m, mode, big)), rng.choice(["ramp", "rand"]))
            sizes.append(len(b)); ops.append("A:%d:%s" % (i, b.hex()))
        ops.append("O:%d:%d:%d" % (i, NOLIM, BIG))
        total += sim_packets(kind, m, sizes)
    perfect = rng.random() < 0.5
    j = 0
    while j < total:
        k = rng.choice([1, 2, 3, 4, total])
        idx = list(range(j, min(total, j + k)))
        if perfect:
            ops.append("L:%d:%s" % (NOLIM, ",".join(map(str, idx))))
        else:
            if rng.random() < 0.3:
                rng.shuffle(idx)
            if rng.random() < 0.2:
                idx = idx + idx[:1]
            ops.append("L:%d:%s" % (rng.choice([NOLIM, NOLIM, 0, 1, m - 1, m, m + 1, 2 * m, 3 * m]), ",".join(map(str, idx))))
        j += k
    return head(kind, mode, mtu, magic) + "|" + ";".join(ops)


def exhaustive_cases(kind, maxlen):
    """all delivery sequences of length <= maxlen over the packets of one fixed 3-message scenario"""
    out = []
    if kind == "P":
        base = ["S:0:5:30:%d:0:0" % PMAGIC, "A:0:000102030405060708", "A:0:a0a1a2a3a4a5a6a7a8", "O:0:%d:%d" % (NOLIM, BIG)]
        n = sim_packets("P", 30, [9, 9])
        hd = head("P", "R", 30, PMAGIC)
    else:
        base = ["S:0:5:30:%d:0:0" % NMAGIC, "A:0:0001020304", "A:0:a0a1a2a3a4a5", "A:0:b0", "O:0:%d:%d" % (NOLIM, BIG)]
        n = sim_packets("N", 30, [5, 6, 1])
        hd = head("N", "R", 30, NMAGIC)
    for L in range(0, maxlen + 1):
        for seq in itertools.product(range(n), repeat=L):
            out.append(hd + "|" + ";".join(base + ["D:%d" % j for j in seq]))
    return out


DIRECTED = [
    # the tail of an oversize Message shares a packet with a small one (receiver limit 6 bytes)
    ("directed", "P,R,100,%d,0,6,0|S:0:5:100:%d:0:0;A:0:0102030405060708090a;A:0:aabb;O:0:%d:%d;D:0" % (PMAGIC, PMAGIC, NOLIM, BIG)),
    ("directed", "P,M,100,%d,0,60,0|S:0:5:100:%d:0:0;A:0:%s;A:0:%s;O:0:%d:%d;D:0;D:1;D:2" % (PMAGIC, PMAGIC, flat_msg(1, b"\x07" * 90).hex(), flat_msg(2, None).hex(), NOLIM, BIG)),
    # message ids across the 2^32 wrap
    ("directed", "P,R,30,%d,0,%d,0|S:0:5:30:%d:0:0;I:0:%d;A:0:0102030405060708;A:0:1112131415161718;A:0:2122232425262728;O:0:%d:%d;D:0;D:1;D:2;D:3;D:4;D:5" % (PMAGIC, NOLIM, PMAGIC, NOLIM - 1, NOLIM, BIG)),
    # two same-length Messages forced onto the same id (ids 2^32 apart): the documented edge of the guarantee
    ("directed", "P,R,30,%d,0,%d,0|S:0:5:30:%d:0:0;A:0:0102030405060708;O:0:%d:%d;I:0:0;A:0:1112131415161718;O:0:%d:%d;D:0;D:3" % (PMAGIC, NOLIM, PMAGIC, NOLIM, BIG, NOLIM, BIG)),
    # duplicate of a complete single-fragment Message; duplicate first fragment; lost middle
    ("directed", "P,R,30,%d,0,%d,0|S:0:5:30:%d:0:0;A:0:010203;O:0:%d:%d;D:0;D:0;D:0" % (PMAGIC, NOLIM, PMAGIC, NOLIM, BIG)),
    ("directed", "P,R,26,%d,0,%d,0|S:0:5:26:%d:0:0;A:0:010203040506;O:0:%d:%d;D:0;D:0;D:1;D:2;D:0;D:1;D:2" % (PMAGIC, NOLIM, PMAGIC, NOLIM, BIG)),
    ("directed", "P,R,26,%d,0,%d,0|S:0:5:26:%d:0:0;A:0:010203040506;A:0:0a0b0c0d0e0f;O:0:%d:%d;D:0;D:1;D:3;D:4;D:5;D:2" % (PMAGIC, NOLIM, PMAGIC, NOLIM, BIG)),
    # a held packet (transport would block) is topped up by the next call
    ("directed", "P,R,100,%d,0,%d,0|S:0:5:100:%d:0:0;A:0:0102;O:0:%d:0;A:0:0304;O:0:%d:0;A:0:%s;O:0:%d:%d;D:0;D:1;D:2" % (PMAGIC, NOLIM, PMAGIC, NOLIM, NOLIM, "55" * 90, NOLIM, BIG)),
    ("directed", "N,R,100,%d,0,%d,0|S:0:5:100:%d:0:0;A:0:0102;O:0:%d:0;A:0:0304;O:0:%d:0;A:0:%s;O:0:%d:%d;D:0;D:1;D:2" % (NMAGIC, NOLIM, NMAGIC, NOLIM, NOLIM, "55" * 70, NOLIM, BIG)),
    # source exclusion: the receiver ignores packets carrying its own id
    ("directed", "P,R,50,%d,7,%d,0|S:0:5:50:%d:7:0;S:1:6:50:%d:8:0;A:0:0102;A:1:0304;O:0:%d:%d;O:1:%d:%d;D:0;D:1" % (PMAGIC, NOLIM, PMAGIC, PMAGIC, NOLIM, BIG, NOLIM, BIG)),
    ("directed", "N,R,50,%d,7,%d,0|S:0:5:50:%d:7:0;S:1:6:50:%d:8:0;A:0:0102;A:1:0304;O:0:%d:%d;O:1:%d:%d;D:0;D:1" % (NMAGIC, NOLIM, NMAGIC, NMAGIC, NOLIM, BIG, NOLIM, BIG)),
    # mini: a Message that can never fit is dropped, its neighbours are not; packet id across 2^24
    ("directed", "N,R,30,%d,0,%d,0|S:0:5:30:%d:0:0;I:0:16777215;A:0:0102;A:0:%s;A:0:0304;A:0:%s;A:0:05;O:0:%d:%d;D:0;D:1;D:2" % (NMAGIC, NOLIM, NMAGIC, "77" * 15, "88" * 14, NOLIM, BIG)),
    # empty buffers (mode B): fragment with no data; a duplicate of an empty Message IS delivered again (the model says so too)
    ("directed", "P,B,30,%d,0,%d,0|S:0:5:30:%d:0:0;A:0:;A:0:0102;A:0:;A:0:;O:0:%d:%d;D:0;D:0;D:1;D:1" % (PMAGIC, NOLIM, PMAGIC, NOLIM, BIG)),
    ("directed", "N,B,30,%d,0,%d,0|S:0:5:30:%d:0:0;A:0:;A:0:0102;A:0:;A:0:;O:0:%d:%d;D:0;D:0;D:1" % (NMAGIC, NOLIM, NMAGIC, NOLIM, BIG)),
    ("directed", "N,B,60,%d,0,%d,0|S:0:5:60:%d:0:5;A:0:;A:0:;A:0:;A:0:;A:0:;A:0:;A:0:;A:0:;O:0:%d:%d;D:0;D:0" % (NMAGIC, NOLIM, NMAGIC, NOLIM, BIG)),
    # two fresh senders on ONE host (addresses 8 and 9 = same IP, ports 4000/4001), equal-size two-packet Messages with id 0:
    # A's head then B's tail must not splice; interleaved in order both must arrive
    ("directed", "P,R,30,%d,0,%d,0|S:0:8:30:%d:0:0;S:1:9:30:%d:0:0;A:0:616161616161616161;A:1:626262626262626262;O:0:%d:%d;O:1:%d:%d;D:0;D:3" % (PMAGIC, NOLIM, PMAGIC, PMAGIC, NOLIM, BIG, NOLIM, BIG)),
    ("directed", "P,R,30,%d,0,%d,0|S:0:8:30:%d:0:0;S:1:9:30:%d:0:0;A:0:616161616161616161;A:1:626262626262626262;O:0:%d:1;O:1:%d:1;O:0:%d:1;O:1:%d:1;D:0;D:1;D:2;D:3" % (PMAGIC, NOLIM, PMAGIC, PMAGIC, NOLIM, NOLIM, NOLIM, NOLIM)),
    # same port on two hosts (addresses 8 and 12)
    ("directed", "P,R,30,%d,0,%d,0|S:0:8:30:%d:0:0;S:1:12:30:%d:0:0;A:0:616161616161616161;A:1:626262626262626262;O:0:%d:1;O:1:%d:1;O:0:%d:1;O:1:%d:1;D:0;D:1;D:2;D:3;D:0;D:3" % (PMAGIC, NOLIM, PMAGIC, PMAGIC, NOLIM, NOLIM, NOLIM, NOLIM)),
    # receiver with a smaller MTU truncates what it reads
    ("directed", "P,R,30,%d,0,%d,0|S:0:5:100:%d:0:0;A:0:%s;A:0:0304;O:0:%d:%d;D:0" % (PMAGIC, NOLIM, PMAGIC, "66" * 20, NOLIM, BIG)),
    ("directed", "N,R,20,%d,0,%d,0|S:0:5:100:%d:0:0;A:0:0102;A:0:%s;A:0:0304;O:0:%d:%d;D:0" % (NMAGIC, NOLIM, NMAGIC, "66" * 20, NOLIM, BIG)),
]


class CHECK(vlib.Check):
    prop = "C12"
    prop_file = "Properties_C12.v"
    model = ("Gw/TunnelExtract.v", "tunnel_driver.ml", "tunnel", ("ocommon.ml",))
    harness = dict(name="tunnel", src="tunnel_h.cpp", san="asan", link_lib=True)
    modelled = ("iogateway/PacketTunnelIOGateway.cpp: DoOutputImplementation (fragmenting writer: message-id counter with uint32 wrap, "
                "offset cursor, several fragments per packet, MTU clamp, a packet the transport refuses is held and topped up) and "
                "DoInputImplementation (fragment header parse incl. the break conditions magic / source-exclusion id / chunk fits / "
                "max incoming size, the read loop with its byte limit, per-source receive states with LRU order and eviction above MAX_NUM_RECEIVE_STATES, restart rule, "
                "acceptance test with the uint32 overflow guard, delivery and reset, misc-data pass-through, truncation to the receiver's MTU). "
                "iogateway/MiniPacketTunnelIOGateway.cpp: packet/chunk framing, 24-bit packet id, drop of oversize buffers, per-packet "
                "compression decision and header patch, receive side incl. inflate failure. "
                "dataio/PacketizedProxyDataIO.cpp: Write / WriteBufferedOutput / Read state machines (size-word framing, partial child "
                "writes and reads, busy writer, empty packets, oversize error) over a scripted byte pipe. "
                "Message level: for the tunnels used without a slave gateway (ProxyIOGateway flattens / unflattens) the buffer theorems are "
                "composed with C01's model of Message::Flatten/Unflatten (Msg/): Gw/TunnelMsg.v, Gw/MiniTunnelMsg.v. "
                "Not modelled: slave gateways other than none (RawDataMessageIOGateway and the harness's blob gateway are corresponded only: "
                "a Message is then the byte buffer handed to the tunnel), "
                "a Message for which the slave generates no bytes, allocation failures, the time-slice cut-off of the I/O loops.")
    premises = ["zlib (ZLibCodec::Deflate/Inflate with independent=true) is a Section variable of Gw/MiniTunnel.v: the theorems assume "
                "inflate (deflate lvl x) = Some x; the model driver uses the graph of the real codec observed on the implementation's wire",
                "buffer sizes, MTU and offsets below 2^32 (ByteBuffer sizes are uint32); message-id arithmetic wraps explicitly",
                "allocation never fails; memory safety of the C++ is observed by ASan/UBSan in the harness only",
                "NOT claimed (observation only): HasBytesToOutput() of both tunnels ignores a packet held back after Write() returned 0 "
                "(_outputPacketSize > 0 with empty queues), so an event loop that polls it flushes that packet only once another Message "
                "is queued; the completeness theorems are about the packets that were written (premise s_pkt/m_pkt = [] or a final DoOutput call)",
                "soundness premise of the property itself: the ids of one source's Messages are distinct mod 2^32 (at most 2^32 Messages per sender), "
                "one sender per source address, no third party sending datagrams that carry the tunnel's magic from a sender's address"]
    rule = ("scenario scripts (senders with their own gateway objects, Messages added, DoOutput calls with byte limits and transports that "
            "block, and a scripted network choosing which written packet or foreign datagram reaches the single receiver, from which source "
            "address, how often and in which order) generated from random.Random(seed) plus exhaustive delivery sequences over a fixed small "
            "scenario; after EVERY operation the written packets (hex), the sender cursor, the delivered buffers (hex, with source) and the "
            "whole receive-state table (order, id, offset, buffer size, assembled prefix) are compared with the extracted model; the harness "
            "evaluates the property's two clauses itself (delivered => sent by that source; perfect transport => delivered = sent-that-fits, in order). "
            "A third kind of case drives dataio/PacketizedProxyDataIO (writer and reader joined by a byte pipe that takes/gives a scripted "
            "number of bytes per call), comparing every Write/Flush/Read result, the bytes the pipe took and the internal counters, "
            "with the oracle 'packets read = packets written, in order'. "
            "Non-trivial = at least one Message is added and output and at least one datagram reaches the receiver (tunnels); "
            "at least one Write and one Read (packetized).")

    # ------------------------------------------------------------------ generators
    def gen_cases(self, rng, tier):
        q = (tier == "quick")
        big = 600 if q else 8000
        out = list(DIRECTED)
        def rep(n):
            return n if q else n * 12
        for _ in range(rep(700)):
            pat, c = one_sender_case(rng, "P", big)
            out.append(("P-net/" + pat, c))
        for _ in range(rep(250)):
            pat, c = one_sender_case(rng, "P", big, interleave=True)
            out.append(("P-net-interleaved/" + pat, c))
        for _ in range(rep(300)):
            out.append(("P-perfect", perfect_case(rng, "P", big, nsend=rng.choice([1, 1, 2, 3]))))
        for _ in range(rep(150)):
            out.append(("P-perfect-limit", perfect_case(rng, "P", big, nsend=rng.choice([1, 2]), rmax=rng.choice([1, 6, 12, 20, 34, 50, 100]))))
        for _ in range(rep(250)):
            out.append(("P-multi", multi_case(rng, "P", big)))
        for _ in range(rep(200)):
            pat, c = samehost_case(rng, "P", big)
            out.append(("P-samehost/" + pat, c))
        for _ in range(rep(60)):
            pat, c = samehost_case(rng, "N", big)
            out.append(("N-samehost/" + pat, c))
        for _ in range(rep(200)):
            out.append(("P-foreign", forged_case(rng, "P", big)))
        for many in ([257, 258, 260] if q else [256, 257, 258, 259, 260, 300, 515]):
            out.append(("P-evict", evict_case(rng, many)))
        for _ in range(rep(150)):
            pat, c = wrap_case(rng, big)
            out.append(("P-idwrap/" + pat, c))
        for _ in range(rep(120)):
            out.append(("P-sexid", sex_case(rng, "P", big)))
        for _ in range(rep(60)):
            out.append(("N-sexid", sex_case(rng, "N", big)))
        for _ in range(rep(100)):
            out.append(("P-lru", lru_case(rng, rng.choice([2, 3, 4, 6, 9]))))
        for c in exhaustive_cases("P", 3 if q else 5):
            out.append(("P-exhaustive", c))
        for _ in range(rep(300)):
            pat, c = one_sender_case(rng, "N", big, interleave=rng.random() < 0.3)
            out.append(("N-net/" + pat, c))
        for _ in range(rep(400)):
            lvl = rng.choice([1, 3, 6, 9, rng.randint(1, 9)])
            styles = rng.choice([("text",), ("text", "text", "rand"), ("text", "const", "rand"), ("rand",)])
            pat, c = one_sender_case(rng, "N", big, level=lvl, styles=styles, interleave=rng.random() < 0.3)
            out.append(("N-zlib/" + pat, c))
        for _ in range(rep(120)):
            out.append(("N-perfect", perfect_case(rng, "N", big, nsend=rng.choice([1, 2]), level=rng.choice([0, 0, 6]))))
        for _ in range(rep(100)):
            out.append(("N-multi", multi_case(rng, "N", big)))
        for _ in range(rep(100)):
            out.append(("N-foreign", forged_case(rng, "N", big)))
        for c in exhaustive_cases("N", 3 if q else 5):
            out.append(("N-exhaustive", c))
        for _ in range(rep(120)):
            out.append(("P-readloop", loop_case(rng, "P", big)))
        for _ in range(rep(80)):
            out.append(("N-readloop", loop_case(rng, "N", big)))
        for _ in range(rep(250)):
            out.append(("T-packetized", packetized_case(rng, False)))
        for _ in range(rep(250)):
            out.append(("T-packetized-drain", packetized_case(rng, True)))
        return self.add_ztables(out)

    def add_ztables(self, cases):
        """zlib is external to the model: for the cases that compress, ask the implementation (harness --ztable) what the codec
        made of each packet it wrote and hand that graph to the model driver as Z ops.  Z ops are always derived afresh from
        the tree under test (stale ones are stripped first), also when a case is replayed or shrunk."""
        exe = os.path.join(vlib.BUILD, "bin", "tunnel_impl")
        cases = [(s, strip_z(c)) for s, c in cases]
        need = [k for k, (s, c) in enumerate(cases) if c.startswith("N,") and re.search(r"[|;]S:\d+:\d+:\d+:\d+:\d+:[1-9]", c)]
        if not need or not os.path.exists(exe):
            return cases
        text = "".join(cases[k][1] + "\n" for k in need)
        try:
            p = subprocess.run([exe, "--ztable"], input=text, stdout=subprocess.PIPE, stderr=subprocess.PIPE, text=True,
                               env=dict(os.environ, **vlib.SAN_ENV), timeout=1200)
            lines = p.stdout.splitlines()
        except subprocess.TimeoutExpired:
            lines = []
        for line in lines:
            sp = line.split(" ", 1)
            if sp[0].isdigit() and int(sp[0]) < len(need) and len(sp) > 1 and sp[1].startswith(";Z:"):
                k = need[int(sp[0])]
                cases[k] = (cases[k][0], cases[k][1] + sp[1])
        return cases

    def corpus_cases(self):
        return self.add_ztables(super().corpus_cases())

    def eval_one(self, impl, model, case):
        return super().eval_one(impl, model, self.add_ztables([("x", case)])[0][1])

    def run(self, tier="quick", seed=1, replay=None):
        if replay:
            # a replayed case gets its zlib graph from the tree it is replayed on
            import json, tempfile
            rp = json.load(open(replay))
            if "case" in rp and rp["case"]:
                try:
                    vlib.build_harness(**self.harness)    # the zlib graph comes from the implementation alone
                except RuntimeError:
                    pass
                rp["case"] = self.add_ztables([("replay", rp["case"])])[0][1]
                f = tempfile.NamedTemporaryFile("w", suffix=".json", delete=False)
                json.dump(rp, f); f.close()
                replay = f.name
        return super().run(tier=tier, seed=seed, replay=replay)

    def nontrivial(self, case):
        b = case.split("|", 1)[1] if "|" in case else ""
        if case.startswith("T,"):
            return ("W:" in b) and ("R:" in b)
        return ("A:" in b) and ("O:" in b) and bool(re.search(r"(^|;)[DEXL]:", b))

    def distribution(self, sc):
        d = {}
        for s, c in sc:
            d["stream:" + s] = d.get("stream:" + s, 0) + 1
            hd, _, body = c.partition("|")
            h = hd.split(",")
            if len(h) >= 2:
                kk = "kind:T" if h[0] == "T" else "kind:" + h[0] + h[1]
                d[kk] = d.get(kk, 0) + 1
            for o in body.split(";"):
                k = "op:" + o.split(":")[0]
                d[k] = d.get(k, 0) + 1
        return d

    def signature(self, f):
        s = f.get("signature") or "disagree"
        return re.sub(r"\(source \d+[^)]*\)", "", re.sub(r"^\d+ ", "", s)).strip()

    def fail_key(self, f):
        return (f["kind"], self.signature(f))
