#!/bin/bash
# Runs the repository's own ctest suite with the hook guard OFF against /repo's working tree (or $1),
# in a scratch build directory, and compares the passing set with /root/.vp/BASELINE.json.
SRC=${1:-/repo}; B=${2:-/tmp/verif-baseline-build}
rm -rf $B; mkdir -p $B
cmake -G Ninja -S $SRC -B $B -DWITH_TESTS=ON -DCMAKE_BUILD_TYPE=RelWithDebInfo -DCMAKE_CXX_FLAGS=-Wno-error > $B/cmake.log 2>&1 || { echo "cmake failed"; tail $B/cmake.log; exit 2; }
cmake --build $B -j ${JOBS:-8} > $B/build.log 2>&1 || { echo "build failed"; tail -30 $B/build.log; exit 2; }
ctest --test-dir $B -j8 --timeout 900 --output-junit $B/junit.xml > $B/ctest.log 2>&1
python3 - $B <<'PY'
import json, re, sys
b = sys.argv[1]
base = set(json.load(open('/root/.vp/BASELINE.json'))['stable_pass'])
txt = open(b + '/ctest.log').read()
passed = set(m + '::' + m for m in re.findall(r'Test\s+#\d+:\s+(\S+)\s+\.+\s+Passed', txt))
missing = sorted(base - passed)
print("baseline tests passing: %d/%d" % (len(base & passed), len(base)))
if missing:
    print("NOT PASSING:", missing); sys.exit(1)
PY
