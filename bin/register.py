#!/usr/bin/env python3
"""register.py Cnn "<level text>" : add/refresh the MANIFEST.json entry of a property from its plug-in."""
import importlib, json, os, sys
V = os.path.dirname(os.path.dirname(os.path.abspath(__file__)))
sys.path.insert(0, V + "/lib"); sys.path.insert(0, V + "/checks")
pid = sys.argv[1]; text = sys.argv[2]
mod = importlib.import_module(pid.lower()); c = mod.CHECK
m = json.load(open(V + "/MANIFEST.json"))
entry = {"property_id": pid, "quick_cmd": "bin/check %s --tier quick" % pid, "thorough_cmd": "bin/check %s --tier thorough" % pid,
         "evidence_file": "evidence/%s.json" % pid, "replay_cmd_template": "bin/check %s --replay {path}" % pid,
         "engine": "coq-proof+correspondence",
         "level_claimed": {"category": "proof", "text": text, "design_ref": "DESIGN.md section 6 (%s) and section 10.2" % pid},
         "level_note": "Trusted: Coq 8.16.1 kernel (+coqchk in thorough), translator gen/gen_consts.py, extraction (ExtrOcamlBasic only), OCaml driver, C++ harness, generators. Modelled, not verified: " + (c.modelled or "") + " Premises / runtime residue: " + "; ".join(c.premises or []),
         "technique": getattr(c, "technique", "machine-checked proof in Coq about an executable model + model/implementation correspondence run")}
m["checks"] = [e for e in m["checks"] if e["property_id"] != pid] + [entry]
m["checks"].sort(key=lambda e: e["property_id"])
for e in m.get("engines", []):
    if pid not in e["serves_properties"]:
        e["serves_properties"].append(pid); e["serves_properties"].sort()
m["not_applicable"] = [e for e in m.get("not_applicable", []) if e["property_id"] != pid]
json.dump(m, open(V + "/MANIFEST.json", "w"), indent=1)
print("registered", pid)
