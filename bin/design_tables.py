#!/usr/bin/env python3
"""Regenerates the machine-maintained tables of DESIGN.md (sections 10.2 and 10.3) between their markers."""
import json, os, re, glob, sys
V = os.path.dirname(os.path.dirname(os.path.abspath(__file__)))
sys.path.insert(0, V + "/lib")
import vlib
m = json.load(open(V + "/MANIFEST.json"))
claimed = {c["property_id"]: c for c in m["checks"]}
props = [json.loads(l) for l in open(V + "/properties.jsonl")]
rows = ["| id | registered | theorems in Properties_Cnn.v (all re-checked and `Print Assumptions`-parsed on every run) | obligations | cases (quick) |", "|---|---|---|---|---|"]
for p in props:
    pid = p["id"]
    f = V + "/coq/theories/Properties_%s.v" % pid
    names = []
    if os.path.exists(f):
        names = [n for (_, n) in vlib.OBLIG.findall(vlib.strip_comments(open(f).read()))]
    ev = {}
    try:
        ev = json.load(open(V + "/evidence/%s.json" % pid))
    except Exception:
        pass
    cov = ev.get("coverage", {})
    rows.append("| %s | %s | %s | %s | %s |" % (pid, "yes" if pid in claimed else "no (see MANIFEST not_applicable)",
                ", ".join("`%s`" % n for n in names) or "-", "%s/%s" % (cov.get("discharged", "-"), cov.get("obligations", "-")), cov.get("evaluations", "-")))
t102 = "\n".join(rows)
rows = ["| seeded change | property | what it needs in order to manifest | result of the property's check on it |", "|---|---|---|---|"]
for d in sorted(glob.glob(V + "/seeded/*/meta.json")):
    name = os.path.basename(os.path.dirname(d))
    mt = json.load(open(d))
    cr = mt.get("check_result") or {}
    res = []
    if isinstance(cr, dict):
        for k, v in cr.items():
            if isinstance(v, dict) and "exit" in v:
                sig = "; ".join((i.get("signature") or "")[:90] for i in (v.get("violations") or [])[:2])
                res.append("%s: %s%s" % (k, "CAUGHT" if v.get("caught") else "missed (exit %s)" % v.get("exit"), (" — " + sig) if sig else ""))
            elif isinstance(v, dict) and "caught_by" in v:
                res.append("CAUGHT — " + v["caught_by"][:120])
    if "caught_by" in cr:
        res.append("CAUGHT — " + cr["caught_by"][:160])
    need = (mt.get("needs_to_manifest") or "")
    need = re.sub(r"\s+", " ", need if isinstance(need, str) else json.dumps(need))[:260]
    rows.append("| %s | %s | %s | %s |" % (name, mt.get("property"), need.replace("|", "/"), ("<br>".join(res) or "not yet run").replace("|", "/")))
t103 = "\n".join(rows)

kf = json.load(open(V + "/known_findings.json"))
def fnum(e):
    mm = re.match(r"F(\d+)", e.get("id", "F999")); return int(mm.group(1)) if mm else 999
rows = ["| id | property | status | commit | what failed (replay quoted in known_findings.json) |", "|---|---|---|---|---|"]
for e in sorted(kf, key=fnum):
    txt = re.sub(r"^fixed: property=\S+ \S+ ", "", e["text"])
    txt = re.sub(r"\s+", " ", txt).replace("|", "/")
    if len(txt) > 330: txt = txt[:327] + "..."
    rows.append("| %s | %s | %s | %s | %s |" % (e.get("id"), e["property"], e["kind"], e.get("commit") or "-", txt))
t71 = "\n".join(rows)
p = V + "/DESIGN.md"
s = open(p).read()
for tag, t in (("T102", t102), ("T103", t103), ("T71", t71)):
    a, b = "<!-- BEGIN %s -->" % tag, "<!-- END %s -->" % tag
    if a in s:
        s = s[:s.index(a) + len(a)] + "\n" + t + "\n" + s[s.index(b):]
open(p, "w").write(s)
print("tables regenerated")
