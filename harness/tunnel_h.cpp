// C12 harness: drives muscle::PacketTunnelIOGateway / MiniPacketTunnelIOGateway through their public
// API (AddOutgoingMessage, DoOutput, DoInput + AbstractGatewayMessageReceiver) over muscle's own scripted
// packet device (ByteBufferPacketDataIO), with a scripted network between senders and one receiver:
// every packet a sender writes gets a global index; the script says which packets (or which foreign
// bytes) reach the receiver, in which order, how often and from which source address.
//
// Case line:   <kind>,<mode>,<rmtu>,<rmagic>,<rsex>,<rmax>,<misc>|op;op;...
//   kind  P = PacketTunnelIOGateway, N = MiniPacketTunnelIOGateway
//   mode  M = no slave gateway (a Message is its flattened bytes), R = RawDataMessageIOGateway slave (a Message is a raw blob),
//         B = the harness's own minimal slave gateway (a Message is any byte string, the empty one included)
//   ops   S:i:addr:mtu:magic:sex:level   create sender i with source address addr
//         I:i:id                         overwrite the sender's message-id / packet-id counter
//         A:i:hex[,hex..]                AddOutgoingMessage (mode M: flattened Message bytes; mode R: the data chunks)
//         O:i:maxBytes:budget            DoOutput(maxBytes) over a transport that accepts <budget> writes, then returns 0
//         D:j                            packet j reaches the receiver from its sender's address
//         E:j:addr                       packet j reaches the receiver from address addr
//         X:addr:hex                     these bytes reach the receiver from address addr
//         L:maxBytes:j,j,..              packets j,.. are queued at the receiver's device, then ONE DoInput(maxBytes) call; the rest is dropped
//         Z:...                          zlib graph entries (used by the model driver only)
// A second kind of case exercises dataio/PacketizedProxyDataIO.cpp (packets framed over a byte stream) on its own:
//   T,<wmtu>,<rmtu>|op;..   W:hex:a1:a2  Write(packet); the child stream accepts a1 bytes at its first Write(), a2 at the second
//                           F:acc        WriteBufferedOutput(); the child accepts acc bytes
//                           R:usize:a1:a2  Read(buf, usize); the child has a1 bytes for its first Read(), a2 for the second
// Output: one line "k seg;seg;.." in the canonical text shared with ocaml/tunnel_driver.ml, then
// "k ORACLE FAIL .." lines from the property's own statement evaluated here, independently of the Coq model.
// With argv[1] == "--ztable" prints instead, per case, the graph of the zlib codec as seen on the wire.
#include <stdio.h>
#include <stdlib.h>
#include <string.h>
#include <string>
#include <vector>
#include <map>
#include <set>
#include <sstream>
#include <iostream>

#define private public
#define protected public
#include "dataio/ByteBufferPacketDataIO.h"
#include "iogateway/PacketTunnelIOGateway.h"
#include "iogateway/MiniPacketTunnelIOGateway.h"
#include "iogateway/RawDataMessageIOGateway.h"
#include "dataio/PacketizedProxyDataIO.h"
#undef private
#undef protected
#include "zlib/ZLibCodec.h"
#include "system/SetupSystem.h"

using namespace muscle;

typedef std::vector<uint8> Bytes;

static std::vector<std::string> split(const std::string & s, char c)
{
   std::vector<std::string> r; std::string cur;
   for (size_t i=0; i<s.size(); i++) {if (s[i]==c) {r.push_back(cur); cur.clear();} else cur += s[i];}
   r.push_back(cur);
   return r;
}
static int hv(char c) {return (c>='0'&&c<='9') ? (c-'0') : ((c>='a'&&c<='f') ? (c-'a'+10) : ((c>='A'&&c<='F') ? (c-'A'+10) : 0));}
static Bytes unhex(const std::string & s) {Bytes b; for (size_t i=0; i+1<s.size(); i+=2) b.push_back((uint8)(hv(s[i])*16+hv(s[i+1]))); return b;}
static std::string hex(const uint8 * p, size_t n) {static const char * d = "0123456789abcdef"; std::string s; s.reserve(2*n); for (size_t i=0; i<n; i++) {s += d[p[i]>>4]; s += d[p[i]&15];} return s;}
static std::string hex(const Bytes & b) {return b.empty() ? std::string() : hex(&b[0], b.size());}
static uint32 U(const std::string & s) {return (uint32) strtoull(s.c_str(), NULL, 10);}

// The model's source address (a number) stands for an IPAddressAndPort: address a is host ADDR_BASE + a/4, port
// PORT_BASE + a%4.  So addresses 4k..4k+3 are four sockets on ONE host (same IP, different ports) and a, a+4 are the
// same port on different hosts: a receive-state table keyed on less (or more) than the full IP-and-port shows up both
// in the deliveries and in the table dump (keys are printed through addr_of, the exact inverse on well-formed keys).
static const uint64 ADDR_BASE = 0x0A000000ULL;
static const uint32 PORT_BASE = 4000;
static IPAddressAndPort iap_of(uint32 a) {return IPAddressAndPort(IPAddress(ADDR_BASE+(a/4)), (uint16)(PORT_BASE+(a%4)));}
static uint32 addr_of(const IPAddressAndPort & i) {return (uint32)((i.GetIPAddress().GetLowBits()-ADDR_BASE)*4 + (uint32)(i.GetPort()-PORT_BASE));}

// transport of a sender: muscle's ByteBufferPacketDataIO, except that after <budget> writes it reports "would block"
class BudgetIO : public ByteBufferPacketDataIO
{
public:
   BudgetIO() : ByteBufferPacketDataIO(65536), _budget(0) {}
   virtual io_status_t WriteTo(const void * b, uint32 n, const IPAddressAndPort & d)
   {
      if (_budget == 0) return io_status_t();
      _budget--;
      return ByteBufferPacketDataIO::WriteTo(b, n, d);
   }
   uint32 _budget;
};

// mode B: a minimal slave gateway of the harness's own (a user-defined AbstractMessageIOGateway, which the tunnels
// are designed to wrap): one Message <-> one packet of arbitrary bytes, INCLUDING the empty packet, which none of
// muscle's own gateways ever generates.  Message layout: int32 "n" = length, raw "d" = the bytes when n > 0.
class BlobGateway : public AbstractMessageIOGateway
{
public:
   virtual bool HasBytesToOutput() const {return GetOutgoingMessageQueue().HasItems();}
protected:
   virtual io_status_t DoOutputImplementation(uint32)
   {
      io_status_t total;
      MessageRef m;
      while(PopNextOutgoingMessage(m).IsOK())
      {
         const void * p = NULL; uint32 n = 0;
         static const uint8 none = 0;
         if (m()->FindData("d", B_RAW_TYPE, &p, &n).IsError()) {p = &none; n = 0;}
         PacketDataIO * pdio = GetPacketDataIO();
         if (pdio == NULL) return B_BAD_OBJECT;
         const io_status_t r = pdio->Write(p, n);
         if (r.IsError()) return r;
         total += r;
      }
      return total;
   }
   virtual io_status_t DoInputImplementation(AbstractGatewayMessageReceiver & receiver, uint32)
   {
      PacketDataIO * pdio = GetPacketDataIO();
      if (pdio == NULL) return B_BAD_OBJECT;
      static uint8 tmp[70000];
      IPAddressAndPort src;
      ByteBufferPacketDataIO * bb = dynamic_cast<ByteBufferPacketDataIO *>(pdio);
      if ((bb)&&(bb->GetBuffersToRead().IsEmpty())) return io_status_t();
      const io_status_t r = pdio->ReadFrom(tmp, sizeof(tmp), src);
      if (r.IsError()) return r;
      MessageRef m = GetMessageFromPool(1651273570);  // 'blob'
      if ((m())&&(m()->AddInt32("n", r.GetByteCount()).IsOK())&&((r.GetByteCount() == 0)||(m()->AddData("d", B_RAW_TYPE, tmp, (uint32)r.GetByteCount()).IsOK())))
         CallMessageReceivedFromGateway(receiver, m);
      return r;
   }
};

struct Delivery {uint32 addr; Bytes bytes;};

class Rcv : public AbstractGatewayMessageReceiver
{
public:
   Rcv(char mode) : _mode(mode) {}
   std::vector<Delivery> got;
protected:
   virtual void MessageReceivedFromGateway(const MessageRef & msg, void * ud)
   {
      Delivery d; d.addr = ud ? addr_of(*(static_cast<const IPAddressAndPort *>(ud))) : 0xFFFFFFFFu;
      if (_mode == 'R')
      {
         const void * p = NULL; uint32 n = 0;
         for (int32 i=0; msg()->FindData(PR_NAME_DATA_CHUNKS, B_ANY_TYPE, i, &p, &n).IsOK(); i++)
         {
            d.bytes.assign((const uint8 *)p, ((const uint8 *)p)+n);
            got.push_back(d);
         }
      }
      else if (_mode == 'B')
      {
         const void * p = NULL; uint32 n = 0;
         if (msg()->FindData("d", B_RAW_TYPE, &p, &n).IsOK()) d.bytes.assign((const uint8 *)p, ((const uint8 *)p)+n);
         got.push_back(d);
      }
      else
      {
         const uint32 fs = msg()->FlattenedSize();
         d.bytes.resize(fs);
         if (fs > 0) msg()->FlattenToBytes(&d.bytes[0], fs);
         got.push_back(d);
      }
   }
private:
   char _mode;
};

struct Sender
{
   Sender() : addr(0), mtu(0), magic(0), sex(0), level(0), tainted(false), added(false) {}
   BudgetIO io;                        // declared before gw: the gateway must be destroyed first
   AbstractMessageIOGatewayRef gw;     // PacketTunnelIOGateway or MiniPacketTunnelIOGateway
   uint32 addr, mtu, magic, sex, level;
   bool tainted, added;
   std::vector<Bytes> bufs;            // every buffer handed to the tunnel, in order
};

struct SentPacket {Bytes bytes; int sender;};

static AbstractMessageIOGatewayRef make_slave(char mode)
{
   if (mode == 'R') return AbstractMessageIOGatewayRef(new RawDataMessageIOGateway());
   if (mode == 'B') return AbstractMessageIOGatewayRef(new BlobGateway());
   return AbstractMessageIOGatewayRef();
}

static uint32 first_word(const Bytes & b) {return (b.size() >= 4) ? ((uint32)b[0] | ((uint32)b[1]<<8) | ((uint32)b[2]<<16) | ((uint32)b[3]<<24)) : 0;}
static uint32 word_at(const Bytes & b, size_t o) {return ((uint32)b[o] | ((uint32)b[o+1]<<8) | ((uint32)b[o+2]<<16) | ((uint32)b[o+3]<<24));}

// ---------------------------------------------------------------- PacketizedProxyDataIO over a scripted byte pipe
// the child stream: a FIFO of bytes; every Write()/Read() on it is allowed the next quota of the script (0 when exhausted)
class PipeIO : public DataIO
{
public:
   PipeIO(std::vector<uint8> & fifo) : _fifo(fifo) {}
   virtual io_status_t Read(void * b, uint32 n)
   {
      uint32 q = 0; if (!_rq.empty()) {q = _rq.front(); _rq.erase(_rq.begin());}
      const uint32 k = (uint32) std::min((size_t)std::min(q, n), _fifo.size());
      if (k > 0) {memcpy(b, &_fifo[0], k); _fifo.erase(_fifo.begin(), _fifo.begin()+k);}
      return io_status_t((int32)k);
   }
   virtual io_status_t Write(const void * b, uint32 n)
   {
      uint32 q = 0; if (!_wq.empty()) {q = _wq.front(); _wq.erase(_wq.begin());}
      const uint32 k = std::min(q, n);
      const uint8 * p = (const uint8 *) b;
      _fifo.insert(_fifo.end(), p, p+k); _took.insert(_took.end(), p, p+k);
      return io_status_t((int32)k);
   }
   virtual void FlushOutput() {}
   virtual void Shutdown() {}
   virtual const ConstSocketRef & GetReadSelectSocket()  const {return GetNullSocket();}
   virtual const ConstSocketRef & GetWriteSelectSocket() const {return GetNullSocket();}
   std::vector<uint8> & _fifo;
   std::vector<uint32> _rq, _wq;
   Bytes _took;
};

static void run_packetized_case(int k, const std::string & line)
{
   const size_t bar = line.find('|');
   std::vector<std::string> hd = split(line.substr(0, bar), ',');
   if (hd.size() < 3) {printf("%d BADCASE head\n", k); return;}
   const uint32 wmtu = U(hd[1]), rmtu = U(hd[2]);
   std::ostringstream o, orc;
   {
      std::vector<uint8> fifo;
      PipeIO wpipe(fifo), rpipe(fifo);
      PacketizedProxyDataIO w(DummyDataIORef(wpipe), wmtu), r(DummyDataIORef(rpipe), rmtu);
      std::vector<Bytes> taken, handed; std::vector<uint32> handedCut;
      bool rerr = false;
      std::vector<std::string> ops = split(line.substr(bar+1), ';');
      for (size_t n=0; n<ops.size(); n++)
      {
         if (ops[n].empty()) continue;
         std::vector<std::string> a = split(ops[n], ':');
         if ((a[0] == "W")&&(a.size() >= 4))
         {
            Bytes pk = unhex(a[1]); static const uint8 none = 0;
            wpipe._wq.clear(); wpipe._wq.push_back(U(a[2])); wpipe._wq.push_back(U(a[3])); wpipe._took.clear();
            const io_status_t ret = w.Write(pk.empty() ? &none : &pk[0], (uint32)pk.size());
            if (ret.IsError()) o << "We"; else {o << "W" << ret.GetByteCount(); if (ret.GetByteCount() > 0) taken.push_back(pk);}
            o << "[" << hex(wpipe._took) << "]/" << w._outputBufferBytesSent << "/" << w._outputBuffer.GetNumBytes() << ";";
         }
         else if ((a[0] == "F")&&(a.size() >= 2))
         {
            wpipe._wq.clear(); wpipe._wq.push_back(U(a[1])); wpipe._took.clear();
            w.WriteBufferedOutput();
            o << "F[" << hex(wpipe._took) << "]/" << w._outputBufferBytesSent << "/" << w._outputBuffer.GetNumBytes() << ";";
         }
         else if ((a[0] == "R")&&(a.size() >= 4))
         {
            const uint32 usize = std::min(U(a[1]), (uint32)70000);
            Bytes buf(usize+1);
            rpipe._rq.clear(); if (r._inputBufferSizeBytesRead < sizeof(uint32)) rpipe._rq.push_back(U(a[2]));  // a1 is for the size word, a2 for the payload
            rpipe._rq.push_back(U(a[3]));
            const size_t fifoBefore = fifo.size();
            const io_status_t ret = r.Read(&buf[0], usize);
            if ((!ret.IsError())&&(ret.GetByteCount() == 0)&&(fifoBefore > 0)&&(fifo.size() == fifoBefore)&&(U(a[2]) >= 70000)&&(U(a[3]) >= 70000)&&(wmtu <= rmtu)&&(orc.str().empty()))
               orc << k << " ORACLE FAIL packetized: Read() made no progress although the stream has bytes for it\n";
            if (ret.IsError()) {o << "Re"; rerr = true;}
            else
            {
               o << "R" << ret.GetByteCount() << ":" << hex(&buf[0], (size_t)ret.GetByteCount());
               if (ret.GetByteCount() > 0) {handed.push_back(Bytes(buf.begin(), buf.begin()+ret.GetByteCount())); handedCut.push_back(usize);}
            }
            o << "/" << r._inputBufferSizeBytesRead << "/" << r._inputBuffer.GetNumBytes() << "/" << r._inputBufferBytesRead << ";";
         }
         else o << "?;";
      }
      // the property's premise "the transport delivers every packet once and in order", for this transport: what Read() hands
      // over is, in order, what Write() accepted (cut to the caller's buffer); nothing is skipped, repeated or invented
      bool ok = (handed.size() <= taken.size());
      for (size_t i=0; ok && i<handed.size(); i++)
      {
         Bytes want(taken[i].begin(), taken[i].begin()+std::min((size_t)handedCut[i], taken[i].size()));
         if (want != handed[i]) ok = false;
      }
      if ((!ok)&&(wmtu <= rmtu)) orc << k << " ORACLE FAIL packetized: packets read are not a prefix of the packets written\n";
      if ((ok)&&(!rerr)&&(wmtu <= rmtu)&&(fifo.empty())&&(!w.HasBufferedOutput())&&(r._inputBufferSizeBytesRead == 0)&&(handed.size() != taken.size()))
         orc << k << " ORACLE FAIL packetized: stream read to its end but " << taken.size() << " packets written and " << handed.size() << " read\n";
      if ((rerr)&&(wmtu <= rmtu)) orc << k << " ORACLE FAIL packetized: Read() failed although every packet fits the reader's limit\n";
   }
   printf("%d %s\n", k, o.str().c_str());
   if (!orc.str().empty()) fputs(orc.str().c_str(), stdout);
   fflush(stdout);
}

static void run_case(int k, const std::string & line, bool ztable)
{
   const size_t bar = line.find('|');
   if (bar == std::string::npos) return;
   if (line.compare(0, 2, "T,") == 0) {if (ztable) printf("%d \n", k); else run_packetized_case(k, line); return;}
   std::vector<std::string> hd = split(line.substr(0, bar), ',');
   if (hd.size() < 7) {printf("%d BADCASE head\n", k); return;}
   const bool mini = (hd[0] == "N");
   const char mode = hd[1].empty() ? 'M' : hd[1][0];
   const bool raw  = (mode == 'R');
   const bool blob = (mode == 'B');
   const uint32 rmtu = U(hd[2]), rmagic = U(hd[3]), rsex = U(hd[4]), rmax = U(hd[5]);
   const bool misc = (hd[6] == "1");

   std::ostringstream o, orc, zt;
   {
      ByteBufferPacketDataIO rio(65536);   // declared before the gateway: the gateway must be destroyed first
      PacketTunnelIOGateway * prcv = NULL; MiniPacketTunnelIOGateway * nrcv = NULL;
      AbstractMessageIOGatewayRef rgw;
      if (mini) {nrcv = new MiniPacketTunnelIOGateway(make_slave(mode), rmtu, rmagic); rgw.SetRef(nrcv); nrcv->SetSourceExclusionID(rsex); nrcv->SetAllowMiscIncomingData(misc);}
           else {prcv = new PacketTunnelIOGateway(make_slave(mode), rmtu, rmagic);     rgw.SetRef(prcv); prcv->SetSourceExclusionID(rsex); prcv->SetAllowMiscIncomingData(misc); prcv->SetMaxIncomingMessageSize(rmax);}
      const uint32 rmtu_eff = mini ? nrcv->_maxTransferUnit : prcv->_maxTransferUnit;
      rgw()->SetDataIO(DummyDataIORef(rio));
      Rcv receiver(mode);

      std::map<int, Sender *> senders;
      std::vector<SentPacket> sent;
      std::vector<int> deliveredSeq;                 // for the perfect-transport test: packet indices in delivery order
      bool onlyD = true;                             // no E, no X with our magic
      std::map<uint32, std::set<int> > feeders;      // source address -> senders whose packets arrived from it
      std::set<uint32> forgedFrom;                   // addresses from which foreign bytes carrying our magic arrived
      std::map<uint32, std::vector<Bytes> > miscFrom;// misc-mode: foreign packets per address (as truncated by the receiver)

      std::vector<std::string> ops = split(line.substr(bar+1), ';');
      for (size_t n=0; n<ops.size(); n++)
      {
         if (ops[n].empty()) continue;
         std::vector<std::string> a = split(ops[n], ':');
         const std::string & c = a[0];
         if (c == "Z") continue;
         if ((c == "S")&&(a.size() >= 7))
         {
            const int i = (int) U(a[1]);
            if (senders.count(i)) {o << "S!;"; continue;}
            Sender * s = new Sender; senders[i] = s;
            s->addr = U(a[2]); s->mtu = U(a[3]); s->magic = U(a[4]); s->sex = U(a[5]); s->level = U(a[6]);
            if (mini) {MiniPacketTunnelIOGateway * g = new MiniPacketTunnelIOGateway(make_slave(mode), s->mtu, s->magic); s->gw.SetRef(g); g->SetSourceExclusionID(s->sex); g->SetZLibCompressionLevel((uint8)s->level); s->mtu = g->_maxTransferUnit;}
                 else {PacketTunnelIOGateway * g = new PacketTunnelIOGateway(make_slave(mode), s->mtu, s->magic);         s->gw.SetRef(g); g->SetSourceExclusionID(s->sex); s->mtu = g->_maxTransferUnit;}
            s->gw()->SetDataIO(DummyDataIORef(s->io));
            o << "S;";
         }
         else if ((c == "I")&&(a.size() >= 3))
         {
            std::map<int, Sender *>::iterator it = senders.find((int)U(a[1]));
            if (it == senders.end()) {o << "I!;"; continue;}
            Sender * s = it->second;
            if (mini) static_cast<MiniPacketTunnelIOGateway *>(s->gw())->_sendPacketIDCounter = U(a[2]);
                 else static_cast<PacketTunnelIOGateway *>(s->gw())->_sendMessageIDCounter = U(a[2]);
            if (s->added) s->tainted = true;   // ids may now repeat: the property's premise no longer holds for this source
            o << "I;";
         }
         else if ((c == "A")&&(a.size() >= 3))
         {
            std::map<int, Sender *>::iterator it = senders.find((int)U(a[1]));
            if (it == senders.end()) {o << "A!;"; continue;}
            Sender * s = it->second;
            std::vector<std::string> parts = split(a[2], ',');
            MessageRef m;
            bool ok = true;
            if (blob)
            {
               Bytes b = unhex(parts[0]);
               m = GetMessageFromPool(1651273570);
               if (m()->AddInt32("n", (int32)b.size()).IsError()) ok = false;
               if ((ok)&&(!b.empty())&&(m()->AddData("d", B_RAW_TYPE, &b[0], (uint32)b.size()).IsError())) ok = false;
               if (ok) s->bufs.push_back(b);
            }
            else if (raw)
            {
               m = GetMessageFromPool(PR_COMMAND_RAW_DATA);
               for (size_t j=0; j<parts.size(); j++) {Bytes b = unhex(parts[j]); if (b.empty()) {ok = false; break;} if (m()->AddData(PR_NAME_DATA_CHUNKS, B_RAW_TYPE, &b[0], (uint32)b.size()).IsError()) ok = false; else s->bufs.push_back(b);}
            }
            else
            {
               Bytes b = unhex(parts[0]);
               m = GetMessageFromPool();
               if ((b.empty())||(m()->UnflattenFromBytes(&b[0], (uint32)b.size()).IsError())) ok = false;
               else
               {
                  Bytes f(m()->FlattenedSize()); if (!f.empty()) m()->FlattenToBytes(&f[0], (uint32)f.size());
                  if (f != b) ok = false; else s->bufs.push_back(b);
               }
            }
            if ((!ok)||(s->gw()->AddOutgoingMessage(m).IsError())) {printf("%d BADCASE op#%d\n", k, (int)n); o << "A!;"; continue;}
            s->added = true;
            o << "A;";
         }
         else if ((c == "O")&&(a.size() >= 4))
         {
            std::map<int, Sender *>::iterator it = senders.find((int)U(a[1]));
            if (it == senders.end()) {o << "O!;"; continue;}
            Sender * s = it->second;
            s->io._budget = U(a[3]);
            const io_status_t r = s->gw()->DoOutput(U(a[2]));
            Queue<ByteBufferRefAndIPAddressAndPort> & w = s->io.GetWrittenBuffers();
            o << "O[";
            for (uint32 j=0; j<w.GetNumItems(); j++)
            {
               const ByteBuffer * bb = w[j].GetByteBufferRef()();
               SentPacket sp; sp.sender = it->first; sp.bytes.assign(bb->GetBuffer(), bb->GetBuffer()+bb->GetNumBytes());
               sent.push_back(sp);
               if (j) o << ",";
               o << hex(sp.bytes);
               if ((ztable)&&(mini)&&(sp.bytes.size() > 12)&&((word_at(sp.bytes, 8)>>24) != 0))
               {
                  ZLibCodec codec(3);   // a fresh codec: what an independent receiver makes of this packet alone
                  ByteBufferRef inf = codec.Inflate(&sp.bytes[12], (uint32)(sp.bytes.size()-12));
                  if (inf()) zt << ";Z:" << s->level << ":" << hex(inf()->GetBuffer(), inf()->GetNumBytes()) << ":" << hex(&sp.bytes[12], sp.bytes.size()-12);
               }
            }
            w.Clear();
            o << "]" << (r.IsError() ? "e" : "");
            if (mini) {MiniPacketTunnelIOGateway * g = static_cast<MiniPacketTunnelIOGateway *>(s->gw()); o << "/" << g->_sendPacketIDCounter << "/" << g->_outputPacketSize << "/" << (g->HasBytesToOutput()?1:0);}
                 else {PacketTunnelIOGateway * g = static_cast<PacketTunnelIOGateway *>(s->gw()); o << "/" << g->_sendMessageIDCounter << "/" << g->_currentOutputBufferOffset << "/" << g->_outputPacketSize << "/" << (g->HasBytesToOutput()?1:0);}
            o << ";";
         }
         else if (((c == "D")&&(a.size() >= 2))||((c == "E")&&(a.size() >= 3))||((c == "X")&&(a.size() >= 3)))
         {
            Bytes pkt; uint32 from = 0;
            if (c == "X")
            {
               from = U(a[1]); pkt = unhex(a[2]);
               Bytes tr(pkt.begin(), pkt.begin()+std::min((size_t)rmtu_eff, pkt.size()));
               if ((tr.size() >= 4)&&(first_word(tr) == rmagic)) {forgedFrom.insert(from); onlyD = false;}
               if (misc) miscFrom[from].push_back(tr);
            }
            else
            {
               const size_t j = (size_t) U(a[1]);
               if (j >= sent.size()) {o << c << "!;"; continue;}
               pkt = sent[j].bytes;
               const uint32 own = senders[sent[j].sender]->addr;
               if (c == "E") {from = U(a[2]); if (from != own) onlyD = false;} else from = own;
               feeders[from].insert(sent[j].sender);
               deliveredSeq.push_back((int)j);
            }
            if ((ztable)&&(mini))
            {
               // what a fresh codec makes of the compressed part of this datagram as the receiver will see it (cut to its MTU)
               Bytes tr(pkt.begin(), pkt.begin()+std::min((size_t)rmtu_eff, pkt.size()));
               if ((tr.size() > 12)&&(first_word(tr) == rmagic)&&((word_at(tr, 8)>>24) != 0))
               {
                  ZLibCodec codec(3);
                  ByteBufferRef inf = codec.Inflate(&tr[12], (uint32)(tr.size()-12));
                  if (inf()) zt << ";Z:i:" << hex(inf()->GetBuffer(), inf()->GetNumBytes()) << ":" << hex(&tr[12], tr.size()-12);
               }
            }
            const size_t before = receiver.got.size();
            rio.SetBuffersToRead(GetByteBufferFromPool((uint32)pkt.size(), pkt.empty() ? NULL : &pkt[0]), iap_of(from));
            int guard = 0;
            while((rio.GetBuffersToRead().HasItems())&&(guard++ < 4)) (void) rgw()->DoInput(receiver);
            o << c << "[";
            bool firstOut = true;
            for (size_t j=before; j<receiver.got.size(); j++)
            {
               if ((receiver.got[j].bytes.empty())&&(!blob)) continue;
               if (!firstOut) o << ","; firstOut = false;
               o << receiver.got[j].addr << ":" << hex(receiver.got[j].bytes);
            }
            o << "]";
            if (prcv)
            {
               o << "{";
               bool f1 = true;
               for (HashtableIterator<IPAddressAndPort, PacketTunnelIOGateway::ReceiveState> it(prcv->_receiveStates); it.HasData(); it++)
               {
                  const PacketTunnelIOGateway::ReceiveState & rs = it.GetValue();
                  if (!f1) o << ","; f1 = false;
                  const uint32 sz = rs._buf() ? rs._buf()->GetNumBytes() : 0;
                  o << addr_of(it.GetKey()) << ":" << rs._messageID << ":" << rs._offset << ":" << sz << ":";
                  if ((rs._buf())&&(rs._offset <= sz)) o << hex(rs._buf()->GetBuffer(), rs._offset);
               }
               o << "}";
            }
            o << ";";
         }
         else if ((c == "L")&&(a.size() >= 3))
         {
            // several packets waiting at the device, one DoInput(maxBytes) call: the read loop
            Queue<ConstByteBufferRefAndIPAddressAndPort> q;
            std::vector<std::string> js = split(a[2], ',');
            std::vector<int> idx;
            for (size_t z=0; z<js.size(); z++)
            {
               if (js[z].empty()) continue;
               const size_t j = (size_t) U(js[z]);
               if (j >= sent.size()) continue;
               const uint32 own = senders[sent[j].sender]->addr;
               const Bytes & pk = sent[j].bytes;
               if ((ztable)&&(mini))
               {
                  Bytes tr(pk.begin(), pk.begin()+std::min((size_t)rmtu_eff, pk.size()));
                  if ((tr.size() > 12)&&(first_word(tr) == rmagic)&&((word_at(tr, 8)>>24) != 0))
                  {
                     ZLibCodec codec(3);
                     ByteBufferRef inf = codec.Inflate(&tr[12], (uint32)(tr.size()-12));
                     if (inf()) zt << ";Z:i:" << hex(inf()->GetBuffer(), inf()->GetNumBytes()) << ":" << hex(&tr[12], tr.size()-12);
                  }
               }
               (void) q.AddTail(ConstByteBufferRefAndIPAddressAndPort(GetByteBufferFromPool((uint32)pk.size(), pk.empty() ? NULL : &pk[0]), iap_of(own)));
               idx.push_back((int)j);
            }
            const uint32 nq = q.GetNumItems();
            rio.SetBuffersToRead(q);
            const size_t before = receiver.got.size();
            (void) rgw()->DoInput(receiver, U(a[1]));
            const uint32 left = rio.GetBuffersToRead().GetNumItems();
            rio.ClearBuffersToRead();
            for (uint32 z=0; z<nq-left; z++) {feeders[senders[sent[idx[z]].sender]->addr].insert(sent[idx[z]].sender); deliveredSeq.push_back(idx[z]);}
            if (left > 0) onlyD = false;   // what was left behind is lost: not a perfect transport any more
            o << "L" << left << "[";
            bool firstOut = true;
            for (size_t j=before; j<receiver.got.size(); j++)
            {
               if ((receiver.got[j].bytes.empty())&&(!blob)) continue;
               if (!firstOut) o << ","; firstOut = false;
               o << receiver.got[j].addr << ":" << hex(receiver.got[j].bytes);
            }
            o << "]";
            if (prcv)
            {
               o << "{";
               bool f1 = true;
               for (HashtableIterator<IPAddressAndPort, PacketTunnelIOGateway::ReceiveState> it(prcv->_receiveStates); it.HasData(); it++)
               {
                  const PacketTunnelIOGateway::ReceiveState & rs = it.GetValue();
                  if (!f1) o << ","; f1 = false;
                  const uint32 sz = rs._buf() ? rs._buf()->GetNumBytes() : 0;
                  o << addr_of(it.GetKey()) << ":" << rs._messageID << ":" << rs._offset << ":" << sz << ":";
                  if ((rs._buf())&&(rs._offset <= sz)) o << hex(rs._buf()->GetBuffer(), rs._offset);
               }
               o << "}";
            }
            o << ";";
         }
         else {o << "?;";}
      }

      // ------------------------------------------------------------ the property's own statement, on the implementation
      if (!ztable)
      {
         // (1) soundness: whatever was handed to the receiver from source address A is bit-identical to a buffer some
         //     sender at address A was given -- for every loss/duplication/reordering the script applied.  The statement's
         //     premises: senders are distinguished by source address (one sender per address), message ids not forced to
         //     repeat, no third party forging our magic from that address.
         for (size_t j=0; j<receiver.got.size(); j++)
         {
            const Delivery & d = receiver.got[j];
            if ((d.bytes.empty())&&(!blob)) continue;
            if (forgedFrom.count(d.addr)) continue;
            std::map<uint32, std::set<int> >::iterator f = feeders.find(d.addr);
            bool tainted = false, found = false;
            if (f != feeders.end())
            {
               if (f->second.size() > 1) tainted = true;
               for (std::set<int>::iterator si = f->second.begin(); si != f->second.end(); ++si)
               {
                  Sender * s = senders[*si];
                  if (s->tainted) tainted = true;
                  for (size_t b=0; b<s->bufs.size(); b++) if (s->bufs[b] == d.bytes) {found = true; break;}
               }
            }
            if ((!found)&&(misc)) {std::vector<Bytes> & mv = miscFrom[d.addr]; for (size_t b=0; b<mv.size(); b++) if (mv[b] == d.bytes) found = true;}
            if ((!found)&&(!tainted))
            {
               orc << k << " ORACLE FAIL " << (mini?"mini":"tunnel") << ": delivered a Message that was never sent (source " << d.addr << ", " << d.bytes.size() << " bytes)\n";
               break;
            }
         }

         // (2) completeness: when every packet written was delivered exactly once, in order, from its sender's own address,
         //     every buffer that fits the gateways' limits is delivered exactly once and in order (per source).
         bool perfect = onlyD && (deliveredSeq.size() == sent.size()) && (senders.size() <= 256) && (!misc);
         for (size_t j=0; perfect && j<deliveredSeq.size(); j++) if (deliveredSeq[j] != (int)j) perfect = false;
         std::set<uint32> addrs;
         for (std::map<int, Sender *>::iterator it = senders.begin(); perfect && it != senders.end(); ++it)
         {
            Sender * s = it->second;
            if (addrs.count(s->addr)) perfect = false;
            addrs.insert(s->addr);
            if ((s->tainted)||(s->magic != rmagic)||((rsex != 0)&&(rsex == s->sex))||(s->mtu > rmtu_eff)) perfect = false;
            const uint32 pend = mini ? static_cast<MiniPacketTunnelIOGateway *>(s->gw())->_outputPacketSize : static_cast<PacketTunnelIOGateway *>(s->gw())->_outputPacketSize;
            if ((s->gw()->HasBytesToOutput())||(pend != 0)) perfect = false;
         }
         if (perfect)
         {
            for (std::map<int, Sender *>::iterator it = senders.begin(); it != senders.end(); ++it)
            {
               Sender * s = it->second;
               std::vector<Bytes> expect, have;
               for (size_t b=0; b<s->bufs.size(); b++)
               {
                  const uint64 len = s->bufs[b].size();
                  const bool fits = mini ? (16+len <= s->mtu) : (len <= rmax);
                  if (fits) expect.push_back(s->bufs[b]);
               }
               for (size_t j=0; j<receiver.got.size(); j++) if ((receiver.got[j].addr == s->addr)&&((blob)||(!receiver.got[j].bytes.empty()))) have.push_back(receiver.got[j].bytes);
               if (expect != have)
               {
                  orc << k << " ORACLE FAIL " << (mini?"mini":"tunnel") << ": perfect transport but delivered != sent-that-fits (source " << s->addr << ": expected " << expect.size() << " got " << have.size() << ")\n";
                  break;
               }
            }
         }
      }

      for (std::map<int, Sender *>::iterator it = senders.begin(); it != senders.end(); ++it) delete it->second;
   }
   if (ztable) printf("%d %s\n", k, zt.str().c_str());
   else
   {
      printf("%d %s\n", k, o.str().c_str());
      if (!orc.str().empty()) fputs(orc.str().c_str(), stdout);
   }
   fflush(stdout);
}

int main(int argc, char ** argv)
{
   CompleteSetupSystem css;
   SetConsoleLogLevel(MUSCLE_LOG_NONE);
   const bool ztable = ((argc > 1)&&(strcmp(argv[1], "--ztable") == 0));
   std::string line;
   int k = 0;
   while(std::getline(std::cin, line)) {run_case(k, line, ztable); k++;}
   return 0;
}
