// C13 harness: ordered child indices of the reflector, on a real in-process ReflectServer.
// Reads one case per line:   <N>[n]|<sid>><cmd>[&<cmd>...];...      (see checks/c13.py for the grammar)
// and prints, per case k and step i, a line  `k i L <per-client per-node index-update streams> T <tree>`
// in the same canonical text as the extracted Coq model, plus `k ORACLE FAIL ...` lines from the property oracle:
//   every scripted client replays the PR_RESULT_INDEXUPDATED Messages it receives (clear / insert-at / remove-at)
//   and at every quiescent point its replica of every node it is subscribed to must equal the server's real index;
//   one-shot GETDATA snapshots must equal the index; every index lists only existing children, each once.
#include "refl_common.h"

using namespace muscle;
using namespace refl;

// Session subclass (the `#define protected public` of refl_common.h already opens the node API; the subclass
// is the place for virtual overrides should a harness need them).
class IdxSession : public StorageReflectSession
{
public:
   IdxSession() {}
   virtual const char * GetTypeName() const {return "IdxSession";}
};

typedef World<IdxSession> W;

struct ClientView
{
   std::vector<std::string> subs;                                  // subscription patterns "<sid|*>/c/c.."
   std::map<std::string, std::vector<std::string> > replica;       // canonical node path -> names
   std::map<std::string, std::vector<std::string> > log;           // this step: canonical node path -> op strings
};

static bool pat_matches(const std::string & pat, const std::string & canonPath)   // canonPath = /H/<s>/a/b
{
   std::vector<std::string> pc = Split(pat, '/');
   std::vector<std::string> cc = Split(canonPath.substr(3), '/');   // after "/H/"
   if (pc.size() != cc.size()) return false;
   for (size_t i=0; i<pc.size(); i++) if ((pc[i] != "*")&&(pc[i] != cc[i])) return false;
   return true;
}
static bool view_subscribed(const ClientView & v, const std::string & canonPath)
{
   for (size_t i=0; i<v.subs.size(); i++) if (pat_matches(v.subs[i], canonPath)) return true;
   return false;
}

static std::string join(const std::vector<std::string> & v, const char * sep)
{
   std::string r; for (size_t i=0; i<v.size(); i++) {if (i) r += sep; r += v[i];} return r;
}

static std::string before_str(const std::string & b) {return (b == "-") ? "" : ((b == "!") ? PR_NAME_REMOVE_FROM_INDEX : b);}

// absolute pattern "<sid|*>/a/b" -> "/*/<realid|*>/a/b"
static std::string abs_pattern(W & w, const std::string & p)
{
   std::vector<std::string> c = Split(p, '/');
   std::string r = "/*/";
   if (c[0] == "*") r += "*"; else {char b[32]; snprintf(b, sizeof(b), "%u", (unsigned) w.RealID(atoi(c[0].c_str()))); r += b;}
   for (size_t i=1; i<c.size(); i++) {r += "/"; r += c[i];}
   return r;
}

struct Ctx
{
   // node paths whose replicas a quiet removal (PR_NAME_REMOVE_QUIETLY) has made stale, by design: the parent of a
   // victim and everything at or below a victim.  The replay oracle leaves them alone for the rest of the case;
   // the index invariant and the comparison with the model (tree, streams) still cover them.
   std::set<std::string> taintExact;
   std::vector<std::string> taintPrefix;
   bool tainted(const std::string & p) const
   {
      if (taintExact.count(p)) return true;
      for (size_t i=0; i<taintPrefix.size(); i++) if ((p == taintPrefix[i])||(p.compare(0, taintPrefix[i].size()+1, taintPrefix[i]+"/") == 0)) return true;
      return false;
   }
   W * w;
   int k;
   std::vector<ClientView> views;
   std::ostringstream orc;
   bool failed;
};

static void fail(Ctx & cx, const char * cls, int step, const std::string & verb, const std::string & detail)
{
   if (cx.failed) return;   // first failure of a case is the report
   cx.failed = true;
   cx.orc << cx.k << " ORACLE FAIL " << cls << " after op#" << step << " " << verb << " : " << detail << "\n";
}

// client side: replay one op string on a replica
static bool apply_op(std::vector<std::string> & rep, const std::string & op, std::string & why)
{
   if (op.empty()) {why = "empty op"; return false;}
   const char c = op[0];
   if (c == INDEX_OP_CLEARED) {rep.clear(); return true;}
   const size_t colon = op.find(':');
   if (colon == std::string::npos) {why = "malformed op " + op; return false;}
   const unsigned long pos = strtoul(op.substr(1, colon-1).c_str(), NULL, 10);
   const std::string key = op.substr(colon+1);
   if (c == INDEX_OP_ENTRYINSERTED)
   {
      if (pos > rep.size()) {why = "insert position beyond the replica: " + op; rep.push_back(key); return false;}
      rep.insert(rep.begin()+pos, key);
      return true;
   }
   if (c == INDEX_OP_ENTRYREMOVED)
   {
      if (pos >= rep.size()) {why = "remove position beyond the replica: " + op; return false;}
      if (rep[pos] != key) {why = "remove names " + key + " but the replica holds " + rep[pos] + " there: " + op; rep.erase(rep.begin()+pos); return false;}
      rep.erase(rep.begin()+pos);
      return true;
   }
   why = "unknown op " + op;
   return false;
}

struct NodeInfo {std::string canon; DataNode * node;};
struct Collect {W * w; std::vector<NodeInfo> * out; void operator()(DataNode & n) {if (n.GetDepth() >= NODE_DEPTH_SESSIONNAME) {NodeInfo i; i.canon = w->Canon(n.GetNodePath()()); i.node = &n; out->push_back(i);}}};
static bool by_canon(const NodeInfo & a, const NodeInfo & b) {return a.canon < b.canon;}

static std::vector<NodeInfo> all_nodes(W & w)
{
   std::vector<NodeInfo> v;
   for (size_t k=0; k<w.NumSessions(); k++) if (w.alive(k)) {Collect c; c.w = &w; c.out = &v; WalkTree(w.session(k).GetGlobalRoot(), c); break;}
   std::sort(v.begin(), v.end(), by_canon);
   return v;
}

static void run_case(int k, const std::string & head, const std::string & body)
{
   std::ostringstream out;
   Ctx cx; cx.k = k; cx.failed = false;
   {
      const bool nest = (head.find('n') != std::string::npos);
      int N = atoi(head.c_str());
      W w; cx.w = &w;
      for (int i=0; i<N; i++) w.AddSession();
      w.Pump();
      cx.views.resize(N);
      for (int i=0; i<N; i++) w.client(i).inbox.clear();

      std::vector<std::string> ops = Split(body, ';');
      int stepNo = -1;
      for (size_t oi=0; oi<ops.size(); oi++)
      {
         if (ops[oi].empty()) continue;
         stepNo++;
         const size_t gt = ops[oi].find('>');
         if (gt == std::string::npos) {fprintf(stderr, "bad op [%s]\n", ops[oi].c_str()); exit(2);}
         const int sid = atoi(ops[oi].substr(0, gt).c_str());
         std::vector<std::string> cmds = Split(ops[oi].substr(gt+1), '&');
         std::string verbs;
         if ((cmds.size() == 1)&&(cmds[0] == "at"))
         {
            // a new session is attached (its canonical index is the number of sessions so far)
            w.AddSession(); N++; cx.views.resize(N); (void) w.Pump(); w.client(N-1).inbox.clear();
            cmds.clear();
         }
         if ((sid < 0)||(sid >= N)) {fprintf(stderr, "bad session in [%s]\n", ops[oi].c_str()); exit(2);}
         if (!w.alive(sid)) cmds.clear();   // a detached session's client sends nothing any more

         IdxSession & S = w.session(sid);
         ClientView & V = cx.views[sid];
         std::vector<MessageRef> msgs;
         bool api = false, pureGet = true, detach = false;
         if (cmds.empty()) pureGet = false;
         std::vector<std::string> getPats;
         for (size_t ci=0; ci<cmds.size(); ci++)
         {
            std::vector<std::string> a = Split(cmds[ci], ':');
            const std::string & v = a[0];
            if (ci) verbs += "_"; verbs += v;
            if (v != "gd") pureGet = false;
            if (v == "sd")
            {
               // one field per path (a trailing '/' = empty last clause = generated name); flags: bit 0 ADDTOINDEX, bit 1 QUIET
               const int fl = atoi(a[2].c_str());
               const uint32 bits = ((fl&1) ? (1u<<SETDATANODE_FLAG_ADDTOINDEX) : 0) | ((fl&2) ? (1u<<SETDATANODE_FLAG_QUIET) : 0);
               std::vector<std::string> ps = Split(a[1], ',');
               MessageRef m = MkMsg(PR_COMMAND_SETDATA);
               std::set<std::string> seenp;
               for (size_t i=0; i<ps.size(); i++)
               {
                  if (!seenp.insert(ps[i]).second) {fprintf(stderr, "sd: paths of one SETDATA must be distinct [%s]\n", cmds[ci].c_str()); exit(2);}
                  MessageRef d = MkMsg(0); (void) d()->AddInt32("v", (int32)oi);
                  (void) m()->AddMessage(ps[i].c_str(), d);
               }
               if (bits) (void) m()->AddInt32(PR_NAME_FLAGS, (int32)bits);
               msgs.push_back(m);
            }
            else if (v == "io")
            {
               std::vector<std::pair<std::string,int> > items;
               std::vector<std::string> bs = Split(a.size() > 2 ? a[2] : "", ',');
               std::set<std::string> closed; std::string prev; bool first = true;
               for (size_t i=0; i<bs.size(); i++)
               {
                  if (bs[i].empty()) continue;
                  // a Message groups equal field names; the script must keep equal names adjacent so that list order = processing order
                  if ((!first)&&(bs[i] != prev)) closed.insert(prev);
                  if (closed.count(bs[i])) {fprintf(stderr, "io: equal insert-before names must be adjacent [%s]\n", cmds[ci].c_str()); exit(2);}
                  prev = bs[i]; first = false;
                  items.push_back(std::make_pair(before_str(bs[i]), (int)i));
               }
               // several PR_NAME_KEYS of equal depth: one traversal, each matching node once
               std::vector<std::string> keys = Split(a[1], ',');
               MessageRef m = MkInsertOrdered(keys[0], items);
               for (size_t i=1; i<keys.size(); i++) (void) m()->AddString(PR_NAME_KEYS, keys[i].c_str());
               msgs.push_back(m);
            }
            else if (v == "ro")
            {
               // one string field per pattern, handled one after the other
               std::vector<std::string> ps = Split(a[1], ','), bs = Split(a[2], ',');
               if (ps.size() != bs.size()) {fprintf(stderr, "ro: patterns and befores must pair up [%s]\n", cmds[ci].c_str()); exit(2);}
               MessageRef m = MkMsg(PR_COMMAND_REORDERDATA);
               std::set<std::string> seenp;
               for (size_t i=0; i<ps.size(); i++)
               {
                  if (!seenp.insert(ps[i]).second) {fprintf(stderr, "ro: patterns of one REORDERDATA must be distinct [%s]\n", cmds[ci].c_str()); exit(2);}
                  (void) m()->AddString(ps[i].c_str(), before_str(bs[i]).c_str());
               }
               msgs.push_back(m);
            }
            else if (v == "rm")
            {
               // several PR_NAME_KEYS of equal depth: one traversal collects the victims, which are then removed last found first
               std::vector<std::string> keys = Split(a[1], ',');
               MessageRef m = MkRemoveData(keys[0]);
               for (size_t i=1; i<keys.size(); i++) (void) m()->AddString(PR_NAME_KEYS, keys[i].c_str());
               msgs.push_back(m);
            }
            else if (v == "rq")
            {
               // quiet removal: whom it leaves stale is decided before it happens
               std::vector<NodeInfo> before = all_nodes(w);
               const std::string ap = std::to_string(sid) + "/" + a[1];
               for (size_t i=0; i<before.size(); i++) if (pat_matches(ap, before[i].canon))
               {
                  cx.taintPrefix.push_back(before[i].canon);
                  cx.taintExact.insert(before[i].canon.substr(0, before[i].canon.rfind('/')));
               }
               msgs.push_back(MkRemoveData(a[1], true));
            }
            else if (v == "su") {msgs.push_back(MkSubscribe(abs_pattern(w, a[1]))); if (std::find(V.subs.begin(), V.subs.end(), a[1]) == V.subs.end()) V.subs.push_back(a[1]);}
            else if (v == "sq")
            {
               msgs.push_back(MkSubscribe(abs_pattern(w, a[1]), true)); msgs.push_back(MkGetData(abs_pattern(w, a[1])));
               if (std::find(V.subs.begin(), V.subs.end(), a[1]) == V.subs.end()) V.subs.push_back(a[1]);
            }
            else if (v == "un")
            {
               msgs.push_back(MkUnsubscribe(abs_pattern(w, a[1])));
               V.subs.erase(std::remove(V.subs.begin(), V.subs.end(), a[1]), V.subs.end());
               // the client forgets the replicas it is no longer subscribed to
               for (std::map<std::string, std::vector<std::string> >::iterator it = V.replica.begin(); it != V.replica.end(); )
                  if (!view_subscribed(V, it->first)) V.replica.erase(it++); else ++it;
            }
            else if (v == "ua")
            {
               // wildcarded parameter name: every subscription goes
               MessageRef m = MkMsg(PR_COMMAND_REMOVEPARAMETERS); (void) m()->AddString(PR_NAME_KEYS, PR_NAME_SUBSCRIBE_PREFIX "*"); msgs.push_back(m);
               V.subs.clear(); V.replica.clear();
            }
            else if (v == "gd") {msgs.push_back(MkGetData(abs_pattern(w, a[1]))); getPats.push_back(a[1]);}
            else if (v == "rs")
            {
               if (a[1] == "1") {MessageRef m = MkMsg(PR_COMMAND_SETPARAMETERS); (void) m()->AddBool(PR_NAME_REFLECT_TO_SELF, true); msgs.push_back(m);}
               else {MessageRef m = MkMsg(PR_COMMAND_REMOVEPARAMETERS); (void) m()->AddString(PR_NAME_KEYS, PR_NAME_REFLECT_TO_SELF); msgs.push_back(m);}
            }
            else if (v == "mx") {MessageRef m = MkMsg(PR_COMMAND_SETPARAMETERS); (void) m()->AddInt32(PR_NAME_MAX_UPDATE_MESSAGE_ITEMS, atoi(a[1].c_str())); msgs.push_back(m);}
            // ---- the protected node API, called the way a server-side subclass would
            else if (v == "xsd")
            {
               api = true;
               SetDataNodeFlags fl; if (a[2] == "1") fl.SetBit(SETDATANODE_FLAG_ADDTOINDEX);
               MessageRef d = MkMsg(0); (void) d()->AddInt32("v", (int32)oi);
               (void) S.SetDataNode(a[1].c_str(), d, fl, before_str(a[3]).c_str());
            }
            else if (v == "xcl")
            {
               api = true;
               std::vector<std::string> sp = Split(a[1], '/');
               const int owner = atoi(sp[0].c_str());
               std::string rel; for (size_t i=1; i<sp.size(); i++) {if (i > 1) rel += "/"; rel += sp[i];}
               DataNode * src = ((owner >= 0)&&(owner < N)&&(w.alive(owner))) ? w.session(owner).GetDataNode(rel.c_str()) : NULL;
               SetDataNodeFlags fl; if (a[3] == "1") fl.SetBit(SETDATANODE_FLAG_ADDTOINDEX);
               if (src) (void) S.CloneDataNodeSubtree(*src, a[2].c_str(), fl, before_str(a[4]).c_str());
            }
            else if (v == "xsr")
            {
               api = true;
               std::vector<std::string> sp = Split(a[1], '/');
               const int owner = atoi(sp[0].c_str());
               std::string rel; for (size_t i=1; i<sp.size(); i++) {if (i > 1) rel += "/"; rel += sp[i];}
               DataNode * src = ((owner >= 0)&&(owner < N)&&(w.alive(owner))) ? w.session(owner).GetDataNode(rel.c_str()) : NULL;
               SetDataNodeFlags fl; if (a[3] == "1") fl.SetBit(SETDATANODE_FLAG_ADDTOINDEX);
               if (src)
               {
                  Message saved;
                  if (S.SaveNodeTreeToMessage(saved, src, "", true).IsOK()) (void) S.RestoreNodeTreeFromMessage(saved, a[2].c_str(), true, fl);
               }
            }
            else if (v == "xra")
            {
               api = true;
               DataNode * nd = S.GetDataNode(a[1].c_str());
               if (nd) (void) nd->RemoveIndexEntryAt((uint32) atoi(a[2].c_str()), &S);
            }
            else if (v == "xia")
            {
               // a subclass that respects InsertIndexEntryAt()'s documented preconditions (key is a child that is not in the
               // index yet, valid position) and, editing an index by hand, turns the own-subtree short cut off
               api = true;
               DataNode * nd = S.GetDataNode(a[1].c_str());
               const uint32 pos = (uint32) atoi(a[2].c_str());
               if (nd)
               {
                  std::vector<std::string> ix = IndexOf(*nd);
                  if ((nd->HasChild(a[3].c_str()))&&(std::find(ix.begin(), ix.end(), a[3]) == ix.end()))
                  {
                     // an invalid position is documented to be refused (B_BAD_ARGUMENT); Queue::InsertItemAt() alone would append
                     // while the subscribers are told the position as given
                     const bool okc = nd->InsertIndexEntryAt(pos, &S, a[3].c_str()).IsOK();
                     if (okc) S._indexingPresent = true;
                     if ((okc)&&(pos > ix.size()))
                     {
                        std::ostringstream d; d << "node " << w.Canon(nd->GetNodePath()()) << " index of length " << ix.size() << ": InsertIndexEntryAt(" << pos << ") reported success and announces position " << pos;
                        fail(cx, "positional-log invalid-insert-position-accepted", (int)(stepNo), "xia", d.str());
                     }
                  }
               }
            }
            else if (v == "dt") {w.CloseClient(sid); detach = true;}
            else if (v == "xmv") {api = true; (void) S.MoveIndexEntries(a[1].c_str(), before_str(a[2]).c_str());}
            else if (v == "xrm") {api = true; (void) S.RemoveDataNodes(a[1].c_str());}
            else {fprintf(stderr, "bad cmd [%s]\n", cmds[ci].c_str()); exit(2);}
         }
         if (detach) {(void) w.Pump(); cx.views[sid].subs.clear(); cx.views[sid].replica.clear();}
         else if (api) S.PushSubscriptionMessages();
         else if (msgs.empty()) {/* nothing to send */}
         else if (msgs.size() == 1) w.client(sid).Send(msgs[0]);
         else if (!nest) w.client(sid).Send(MkBatch(msgs));
         else
         {
            // right-nested batches: [m0, BATCH[m1, BATCH[m2 ...]]]
            MessageRef cur;
            for (size_t i=msgs.size(); i>0; i--)
            {
               std::vector<MessageRef> two; two.push_back(msgs[i-1]); if (cur()) two.push_back(cur);
               cur = MkBatch(two);
            }
            w.client(sid).Send(cur);
         }
         const int rounds = w.Pump();
         if (rounds >= 2000) fail(cx, "no-quiescence", stepNo, verbs, "the server did not become quiescent");

         // ---- clients consume what arrived
         for (int c=0; c<N; c++)
         {
            ClientView & CV = cx.views[c];
            CV.log.clear();
            Client & cl = w.client(c);
            for (size_t i=0; i<cl.inbox.size(); i++)
            {
               Message & m = *cl.inbox[i]();
               if (m.what != PR_RESULT_INDEXUPDATED) continue;
               for (MessageFieldNameIterator it = m.GetFieldNameIterator(B_STRING_TYPE); it.HasData(); it++)
               {
                  const std::string cp = w.Canon(it.GetFieldName()());
                  const bool mine = view_subscribed(CV, cp);
                  const String * s;
                  for (int j=0; m.FindString(it.GetFieldName(), j, &s).IsOK(); j++)
                  {
                     CV.log[cp].push_back(s->Cstr());
                     if (mine)
                     {
                        std::string why;
                        if ((!apply_op(CV.replica[cp], s->Cstr(), why))&&(!cx.tainted(cp)))
                        {
                           std::ostringstream d; d << "client " << c << " node " << cp << ": " << why;
                           fail(cx, "replica-diverged", stepNo, verbs, d.str());
                        }
                     }
                  }
               }
            }
            cl.inbox.clear();
         }

         // ---- canonical output
         out << k << " " << stepNo << " L ";
         {
            bool firstg = true;
            for (int c=0; c<N; c++)
               for (std::map<std::string, std::vector<std::string> >::iterator it = cx.views[c].log.begin(); it != cx.views[c].log.end(); ++it)
               {
                  if (!firstg) out << " "; firstg = false;
                  out << "c" << c << "@" << it->first << "=" << join(it->second, ",");
               }
         }
         out << " T ";
         std::vector<NodeInfo> nodes = all_nodes(w);
         for (size_t i=0; i<nodes.size(); i++)
         {
            DataNode & n = *nodes[i].node;
            if (i) out << " ";
            out << nodes[i].canon << "[" << join(KidsOf(n), ",") << "]";
            if (n.GetIndex()) out << "{" << join(IndexOf(n), ",") << "}";
            out << "#" << n._orderedCounter << "<";
            std::map<long, uint32> sb;
            for (ConstHashtableIterator<uint32,uint32> it(n.GetSubscribers()); it.HasData(); it++) sb[(long)it.GetKey()-(long)w.RealID(0)] = it.GetValue();
            for (std::map<long, uint32>::iterator it = sb.begin(); it != sb.end(); ++it) out << "s" << it->first << "x" << it->second;
            out << ">";
         }
         out << "\n";

         // ---- the property oracle (independent of the Coq model)
         for (size_t i=0; i<nodes.size(); i++)
         {
            DataNode & n = *nodes[i].node;
            const Queue<DataNodeRef> * q = n.GetIndex();
            if (q)
            {
               std::set<std::string> seen;
               for (uint32 j=0; j<q->GetNumItems(); j++)
               {
                  DataNode * e = (*q)[j]();
                  std::ostringstream d; d << "node " << nodes[i].canon << " index [" << join(IndexOf(n), ",") << "] ";
                  if (e == NULL) {d << "holds a NULL entry"; fail(cx, "index-invariant", stepNo, verbs, d.str()); break;}
                  const std::string nm = e->GetNodeName()();
                  if (!seen.insert(nm).second) {d << "lists " << nm << " twice"; fail(cx, "index-invariant duplicate-entry", stepNo, verbs, d.str()); break;}
                  DataNodeRef ch = n.GetChild(e->GetNodeName());
                  if (ch() == NULL) {d << "lists " << nm << " which is not a child"; fail(cx, "index-invariant entry-without-child", stepNo, verbs, d.str()); break;}
                  if (ch() != e)  {d << "entry " << nm << " refers to a node object that is no longer the child of that name"; fail(cx, "index-invariant stale-entry", stepNo, verbs, d.str()); break;}
               }
            }
         }
         for (int c=0; c<N; c++)
         {
            ClientView & CV = cx.views[c];
            std::set<std::string> existing;
            for (size_t i=0; i<nodes.size(); i++)
            {
               existing.insert(nodes[i].canon);
               if ((!view_subscribed(CV, nodes[i].canon))||(cx.tainted(nodes[i].canon))) continue;
               std::vector<std::string> ix = IndexOf(*nodes[i].node);
               std::map<std::string, std::vector<std::string> >::iterator it = CV.replica.find(nodes[i].canon);
               const std::vector<std::string> rep = (it != CV.replica.end()) ? it->second : std::vector<std::string>();
               if (rep != ix)
               {
                  std::ostringstream d; d << "client " << c << " replica of " << nodes[i].canon << " is [" << join(rep, ",") << "] but the server's index is [" << join(ix, ",") << "]";
                  const bool ownNode = (nodes[i].canon.compare(0, 4+std::to_string(c).size(), "/H/"+std::to_string(c)+"/") == 0)||(nodes[i].canon == "/H/"+std::to_string(c));
                  const char * cls = ((ownNode)&&(w.alive(c))&&(w.session(c)._indexingPresent == false)) ? "replica-diverged own-index-snapshot-skipped(_indexingPresent=false)" : "replica-diverged";
                  fail(cx, cls, stepNo, verbs, d.str());
               }
            }
            // one-shot reads: every node the GETDATA pattern names must have been answered with its index
            if ((pureGet)&&(c == sid)) for (size_t g=0; g<getPats.size(); g++) for (size_t i=0; i<nodes.size(); i++)
            {
               if ((!pat_matches(getPats[g], nodes[i].canon))||(view_subscribed(CV, nodes[i].canon))) continue;
               std::vector<std::string> snap; std::string why; bool okr = true;
               std::map<std::string, std::vector<std::string> >::iterator it = CV.log.find(nodes[i].canon);
               if (it != CV.log.end()) for (size_t j=0; j<it->second.size(); j++) okr &= apply_op(snap, it->second[j], why);
               std::vector<std::string> ix = IndexOf(*nodes[i].node);
               if ((!okr)||(snap != ix))
               {
                  std::ostringstream d; d << "client " << c << " GETDATA snapshot of " << nodes[i].canon << " replays to [" << join(snap, ",") << "] but the server's index is [" << join(ix, ",") << "]";
                  const bool ownNode = (nodes[i].canon.compare(0, 4+std::to_string(c).size(), "/H/"+std::to_string(c)+"/") == 0)||(nodes[i].canon == "/H/"+std::to_string(c));
                  const char * cls = ((ownNode)&&(w.session(c)._indexingPresent == false)) ? "snapshot-wrong own-index-snapshot-skipped(_indexingPresent=false)" : "snapshot-wrong";
                  fail(cx, cls, stepNo, verbs, d.str());
               }
            }
            // replicas of nodes that are gone must have been emptied by the removal notifications; others are dropped
            for (std::map<std::string, std::vector<std::string> >::iterator it = CV.replica.begin(); it != CV.replica.end(); )
            {
               if (existing.count(it->first) == 0)
               {
                  if ((!it->second.empty())&&(view_subscribed(CV, it->first))&&(!cx.tainted(it->first)))
                  {
                     std::ostringstream d; d << "client " << c << " still holds [" << join(it->second, ",") << "] for the removed node " << it->first;
                     fail(cx, "replica-diverged entries-left-for-removed-node", stepNo, verbs, d.str());
                  }
                  CV.replica.erase(it++);
               }
               else ++it;
            }
         }
         // an oracle verdict goes out at once: a hang or crash in a later step (or in the server's Cleanup) must not lose it.
         // (The canonical lines stay buffered so that a case that dies is still recognised as the one that died.)
         if (!cx.orc.str().empty()) {fputs(cx.orc.str().c_str(), stdout); cx.orc.str(""); fflush(stdout);}
      }
      w.Shutdown();
   }
   fputs(out.str().c_str(), stdout);
   if (!cx.orc.str().empty()) fputs(cx.orc.str().c_str(), stdout);
   fflush(stdout);
}

int main()
{
   CompleteSetupSystem css;
   QuietLogs();
   std::string line;
   int k = 0;
   while(std::getline(std::cin, line))
   {
      const size_t p = line.find('|');
      if (p != std::string::npos) run_case(k, line.substr(0, p), line.substr(p+1));
      k++;
   }
   return 0;
}
